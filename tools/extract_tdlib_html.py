#!/usr/bin/env python3
"""Extracts the HTML inputs of gotd/td's HTML parser tests into data/entmon/tdlib_html_corpus.json.

usage: tools/extract_tdlib_html.py [repo]        (default repo: /repo)

Sources (read-only):
  telegram/message/html/tdlib_test.go   positional literals {html, msg, entities, wantErr, skip} (the TDLib corpus)
  telegram/message/html/parser_test.go  keyed literals {html: "...", msg: "...", wantErr: true}

A tiny Go lexer (strings, raw strings, runes, comments, braces) is enough: a test
case is a `{ ... }` literal whose first token is a string (positional) or the
identifier `html` followed by `:` (keyed). The corpus is used by the entmon
engine (C37) as seed inputs; `msg` is kept only as a harness self-check.
"""
import json, os, sys

SIMPLE = {"n": 10, "t": 9, "r": 13, "\\": 92, '"': 34, "'": 39, "a": 7, "b": 8, "f": 12, "v": 11}


def unquote(body):
    out = bytearray()
    i = 0
    while i < len(body):
        ch = body[i]
        if ch != "\\":
            out += ch.encode("utf-8")
            i += 1
            continue
        c = body[i + 1]
        if c in SIMPLE:
            out.append(SIMPLE[c]); i += 2
        elif c == "x":
            out.append(int(body[i + 2:i + 4], 16)); i += 4
        elif c == "u":
            out += chr(int(body[i + 2:i + 6], 16)).encode("utf-8"); i += 6
        elif c == "U":
            out += chr(int(body[i + 2:i + 10], 16)).encode("utf-8"); i += 10
        elif c in "01234567":
            out.append(int(body[i + 1:i + 4], 8)); i += 4
        else:
            raise ValueError("bad escape \\" + c)
    return bytes(out)


def lex(src):
    """yields (kind, value, line): kind in str, ident, punct"""
    i, line, n = 0, 1, len(src)
    while i < n:
        ch = src[i]
        if ch == "\n":
            line += 1; i += 1
        elif ch.isspace():
            i += 1
        elif src.startswith("//", i):
            while i < n and src[i] != "\n":
                i += 1
        elif src.startswith("/*", i):
            j = src.index("*/", i)
            line += src.count("\n", i, j); i = j + 2
        elif ch == '"':
            j = i + 1
            while src[j] != '"':
                j += 2 if src[j] == "\\" else 1
            yield ("str", unquote(src[i + 1:j]), line); i = j + 1
        elif ch == "`":
            j = src.index("`", i + 1)
            yield ("str", src[i + 1:j].replace("\r", "").encode("utf-8"), line)
            line += src.count("\n", i, j); i = j + 1
        elif ch == "'":
            j = i + 1
            while src[j] != "'":
                j += 2 if src[j] == "\\" else 1
            yield ("rune", src[i:j + 1], line); i = j + 1
        elif ch.isalpha() or ch == "_":
            j = i
            while j < n and (src[j].isalnum() or src[j] == "_"):
                j += 1
            yield ("ident", src[i:j], line); i = j
        else:
            yield ("punct", ch, line); i += 1


def cases(path, name):
    with open(path, encoding="utf-8") as f:
        toks = list(lex(f.read()))
    out = []
    for k, (kind, val, line) in enumerate(toks):
        if kind != "punct" or val != "{" or k + 2 >= len(toks):
            continue
        a, b = toks[k + 1], toks[k + 2]
        case = None
        if a[0] == "str" and b == ("punct", ",", b[2]) and toks[k + 3][0] == "str":
            # positional: html, msg, entities, wantErr, skipReason
            depth, fields, j = 0, [], k + 1
            cur = []
            while True:
                t = toks[j]
                if t[0] == "punct" and t[1] in "{(":
                    depth += 1
                elif t[0] == "punct" and t[1] in "})":
                    if depth == 0:
                        fields.append(cur); break
                    depth -= 1
                if t[0] == "punct" and t[1] == "," and depth == 0:
                    fields.append(cur); cur = []
                else:
                    cur.append(t)
                j += 1
            fields = [f for f in fields if f]
            want_err = len(fields) > 3 and fields[3][0][:2] == ("ident", "true")
            case = {"html": a[1], "msg": toks[k + 3][1], "want_err": want_err}
        elif a[:2] == ("ident", "html") and b[:2] == ("punct", ":") and toks[k + 3][0] == "str":
            case = {"html": toks[k + 3][1], "msg": None, "want_err": False}
            j = k + 4
            depth = 0
            while not (toks[j][0] == "punct" and toks[j][1] == "}" and depth == 0):
                t = toks[j]
                if t[0] == "punct" and t[1] in "{(":
                    depth += 1
                elif t[0] == "punct" and t[1] in "})":
                    depth -= 1
                if depth == 0 and t[:2] == ("ident", "msg") and toks[j + 2][0] == "str":
                    case["msg"] = toks[j + 2][1]
                if depth == 0 and t[:2] == ("ident", "wantErr") and toks[j + 2][:2] == ("ident", "true"):
                    case["want_err"] = True
                j += 1
        if case is None:
            continue
        case["html"] = case["html"].decode("utf-8")  # corpus is valid UTF-8; fail loudly otherwise
        if case["msg"] is not None:
            case["msg"] = case["msg"].decode("utf-8")
        case["src"] = "%s:%d" % (name, line)
        out.append(case)
    return out


def main():
    repo = sys.argv[1] if len(sys.argv) > 1 else "/repo"
    verif = os.path.dirname(os.path.dirname(os.path.abspath(__file__)))
    d = os.path.join(repo, "telegram", "message", "html")
    corpus = cases(os.path.join(d, "tdlib_test.go"), "tdlib_test.go") + cases(os.path.join(d, "parser_test.go"), "parser_test.go")
    dst = os.path.join(verif, "data", "entmon", "tdlib_html_corpus.json")
    os.makedirs(os.path.dirname(dst), exist_ok=True)
    with open(dst, "w", encoding="utf-8") as f:
        json.dump(corpus, f, ensure_ascii=False, indent=0)
        f.write("\n")
    print("%d cases (%d tdlib) -> %s" % (len(corpus), sum(c["src"].startswith("tdlib") for c in corpus), dst))


if __name__ == "__main__":
    main()
