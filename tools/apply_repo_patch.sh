#!/bin/sh
# usage: tools/apply_repo_patch.sh <patch.diff> "<commit message>" <test pkgs...>
# Applies a reviewed patch to /repo, runs the given package tests (tag off), commits exactly the touched files.
set -eu
P=$(realpath "$1"); MSG=$2; shift; shift
export GOFLAGS=-mod=mod GOPROXY=off
cd /repo
git apply --check "$P"
FILES=$(git apply --numstat "$P" | awk '{print $3}')
git apply "$P"
if [ $# -gt 0 ]; then
  if ! go test -count=1 "$@" > /var/tmp/apply_patch_test.log 2>&1; then
    tail -30 /var/tmp/apply_patch_test.log; echo "TESTS FAILED - reverting"; git checkout -- $FILES 2>/dev/null || true; git apply -R "$P" 2>/dev/null || true; exit 1
  fi
  tail -3 /var/tmp/apply_patch_test.log
fi
git add $FILES
git commit -q -m "$MSG"
git log --oneline -1
