#!/usr/bin/env python3
"""Regenerates MANIFEST.json from props.py (claimed checks) and properties.jsonl."""
import json, os, sys
V = os.path.dirname(os.path.dirname(os.path.abspath(__file__)))
sys.path.insert(0, V)
from props import PROPS, NOT_APPLICABLE, HOOK_COMMITS, CLAIMED

ids = [json.loads(l)["id"] for l in open(os.path.join(V, "properties.jsonl"))]
engines = {}
checks = []
for pid in ids:
    if pid not in PROPS or pid not in CLAIMED:
        continue
    s = PROPS[pid]
    engines.setdefault(s["engine"], []).append(pid)
    for extra in s.get("also", []):
        if pid not in engines.setdefault(extra["engine"], []):
            engines[extra["engine"]].append(pid)
    checks.append({
        "property_id": pid,
        "quick_cmd": "./check %s --tier quick" % pid,
        "thorough_cmd": "./check %s --tier thorough" % pid,
        "evidence_file": "evidence/%s.json" % pid,
        "replay_cmd_template": "./check %s --replay {path}" % pid,
        "engine": s["engine"] + "".join(" + " + e["engine"] for e in s.get("also", [])),
        "level_claimed": {"category": s["level"], "text": s["text"], "design_ref": "DESIGN.md section 4, " + s.get("design", pid)},
        "level_note": s["note"],
        "technique": s["technique"],
    })
na = [{"property_id": p, "reason": NOT_APPLICABLE.get(p, "check not built yet in this round; not claimed")} for p in ids if p not in PROPS or p not in CLAIMED]
m = {
    "version": 1,
    "setup_cmd": "./setup.sh",
    "hooks": {
        "guard": "verif",
        "enable": "go build -tags verif (the harness module replaces github.com/gotd/td with /repo)",
        "baseline_off_cmd": "cd /repo && GOFLAGS=-mod=mod go test -json -vet=off -count=1 -timeout 25m ./...",
        "source_commits": HOOK_COMMITS,
        "add_only": True,
    },
    "engines": [{"name": e, "path": "harness/engines/" + e, "serves_properties": ps,
                 "kind_free_text": "Go program linking the real gotd/td packages from /repo; runtime monitors and workloads"} for e, ps in sorted(engines.items())],
    "checks": checks,
    "not_applicable": na,
    "notes": "All checks are runtime monitors over executions of the real code (technique family: runtime monitoring and sanitizers). "
             "exit 0 held / 1 VIOLATION / 3 INCONCLUSIVE. known_findings.json lists open findings (downgraded by exact signature) and fixed ones (suppress nothing).",
}
with open(os.path.join(V, "MANIFEST.json"), "w") as f:
    json.dump(m, f, indent=1)
    f.write("\n")
print("claimed", len(checks), "not_applicable", len(na))
