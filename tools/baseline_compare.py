#!/usr/bin/env python3
"""Compares a `go test -json` log with /root/.vp/BASELINE.json stable_pass. usage: baseline_compare.py run.json"""
import json, sys
base = json.load(open("/root/.vp/BASELINE.json"))
want = set(base["stable_pass"])
st = {}
for line in open(sys.argv[1], errors="replace"):
    line = line.strip()
    if not line.startswith("{"):
        continue
    try:
        e = json.loads(line)
    except ValueError:
        continue
    if e.get("Test") and e.get("Action") in ("pass", "fail", "skip"):
        st[e["Package"] + "::" + e["Test"]] = e["Action"]
passed = {k for k, v in st.items() if v == "pass"}
failed = sorted(k for k, v in st.items() if v == "fail")
missing = sorted(want - passed)
print("passed %d failed %d baseline %d missing-from-pass %d" % (len(passed), len(failed), len(want), len(missing)))
for k in failed[:20]:
    print("FAIL", k)
for k in missing[:20]:
    print("MISSING", k, st.get(k))
sys.exit(1 if failed or missing else 0)
