#!/bin/sh
# usage: tools/confirm_seed.sh <Cnn> <pkgdir> [demo-run-regex] [extra test pkgs...]
# Confirms a seeded defect from /var/tmp/seed-out/<Cnn>: demo passes without the patch, fails with it,
# the touched package's own tests still pass with the patch. On success copies it to /verif/seeded/<Cnn>/.
set -u
# cache guard: scratch builds can fill the disk
[ "$(df --output=avail -BG / | tail -1 | tr -dc 0-9)" -lt 25 ] && go clean -cache
ID=$1; PKG=$2; RUN=${3:-.}; shift; shift; [ $# -gt 0 ] && shift
SRC=${SEED_SRC:-/var/tmp/seed-out}/$ID; DST=$ID${SEED_SUFFIX:-}; WT=/var/tmp/confirm-$ID
export GOFLAGS=-mod=mod GOPROXY=off
git -C /repo worktree add --detach "$WT" HEAD -q || exit 9
trap 'git -C /repo worktree remove --force "$WT" >/dev/null 2>&1; rm -rf "$WT"' EXIT
cp "$SRC/demo_test.go" "$WT/$PKG/zz_seed_demo_test.go"
cd "$WT"
echo "== demo WITHOUT patch (must pass)"
go test -trimpath -count=1 -run "$RUN" "./$PKG/" > "$SRC/confirm_without.txt" 2>&1; A=$?; tail -3 "$SRC/confirm_without.txt"
git apply "$SRC/patch.diff" || { echo "patch does not apply"; exit 8; }
echo "== demo WITH patch (must fail)"
go test -trimpath -count=1 -run "$RUN" "./$PKG/" > "$SRC/confirm_with.txt" 2>&1; B=$?; tail -5 "$SRC/confirm_with.txt"
rm "$WT/$PKG/zz_seed_demo_test.go"
echo "== existing tests WITH patch (must pass)"
go test -trimpath -count=1 "./$PKG/..." "$@" >> "$SRC/confirm_tests.txt" 2>&1; C=$?; tail -4 "$SRC/confirm_tests.txt"
echo "without=$A with=$B tests=$C"
if [ $A -eq 0 ] && [ $B -ne 0 ] && [ $C -eq 0 ]; then
  mkdir -p /verif/seeded/$DST && cp "$SRC/patch.diff" "$SRC/demo_test.go" "$SRC/meta.json" /verif/seeded/$DST/
  echo "CONFIRMED -> /verif/seeded/$DST"
else
  echo "NOT CONFIRMED"; exit 1
fi
