#!/bin/sh
# usage: tools/sweep_par.sh <tier> <seed> <parallel> [ids...]  — like sweep.sh but P checks at a time (different properties only)
cd "$(dirname "$0")/.."; TIER=$1; SEED=$2; P=$3; shift; shift; shift; mkdir -p out/sweep
IDS="$*"; [ -z "$IDS" ] && IDS=$(python3 -c "import json;print(' '.join(c['property_id'] for c in json.load(open('MANIFEST.json'))['checks']))")
echo $IDS | tr ' ' '\n' | xargs -P $P -I{} sh -c 's=$(date +%s); VERIF_SEED='$SEED' ./check {} --tier '$TIER' > out/sweep/{}.'$TIER'.'$SEED'.log 2>&1; rc=$?; echo "seed='$SEED' {} rc=$rc $(( $(date +%s) - s ))s $(grep -E "VIOLATION|INCONCLUSIVE" out/sweep/{}.'$TIER'.'$SEED'.log | head -2 | tr "\n" " " | cut -c1-220)"'
