#!/usr/bin/env python3
"""Regenerates the generated sections of DESIGN.md (between <!-- GEN:x --> and <!-- /GEN:x --> markers):
findings (from known_findings.json) and seeded defects (from seeded/*/meta.json)."""
import json, os, re, glob
V = os.path.dirname(os.path.dirname(os.path.abspath(__file__)))
kf = json.load(open(os.path.join(V, "known_findings.json")))["findings"]
out = ["| property | status | commit | what failed | violation signatures |", "|---|---|---|---|---|"]
for f in kf:
    if f["status"] == "fixed":
        what = f["line"].split(f["commit"], 1)[1].strip()
        out.append("| %s | fixed | `%s` | %s | %s |" % (f["property"], f["commit"], what, "<br>".join("`%s`" % s.replace("|", "\\|") for s in f.get("signatures", [f.get("signature", "")]))))
for f in kf:
    if f["status"] == "open":
        out.append("| %s | **open (known finding)** | — | %s | `%s` |" % (f["property"], f["what"], f["key"].replace("|", "\\|")))
findings = "\n".join(out)
rows = ["| seeded defect | touches | needs, to manifest | confirmed (demo fails with / passes without, package tests pass) | caught by (quick tier) | signatures |", "|---|---|---|---|---|---|"]
for d in sorted(glob.glob(os.path.join(V, "seeded", "C*"))):
    m = json.load(open(os.path.join(d, "meta.json")))
    sid = os.path.basename(d)
    det = m.get("detection", {})
    caught = ", ".join("%s: %s" % (k, v["verdict"]) for k, v in det.items()) or "—"
    sigs = "<br>".join("`%s`" % s.replace("|", "\\|") for v in det.values() for s in v["signatures"][:3])
    rows.append("| seeded/%s | %s | %s | %s | %s | %s |" % (sid, ", ".join(m.get("touched_files", []))[:120], (m.get("needs_to_manifest", "") or "")[:260].replace("\n", " ").replace("|", "/"),
                "yes" if m.get("builder_confirmation", {}).get("confirmed") else "?", caught, sigs))
seeded = "\n".join(rows)
p = os.path.join(V, "DESIGN.md")
s = open(p).read()
for name, body in (("findings", findings), ("seeded", seeded)):
    a, b = "<!-- GEN:%s -->" % name, "<!-- /GEN:%s -->" % name
    if a in s:
        s = s[:s.index(a) + len(a)] + "\n" + body + "\n" + s[s.index(b):]
    else:
        print("marker missing:", name)
open(p, "w").write(s)
print("ok")
