#!/bin/sh
# usage: tools/run_checks.sh [tier] id...   — runs checks sequentially, one summary line each, full logs in out/runlog/
cd "$(dirname "$0")/.."; TIER=$1; shift; mkdir -p out/runlog
for id in "$@"; do
  s=$(date +%s); ./check $id --tier $TIER > out/runlog/$id.$TIER.log 2>&1; rc=$?
  echo "$id rc=$rc $(( $(date +%s) - s ))s | $(grep -E 'VIOLATION|INCONCLUSIVE|KNOWN-FINDING|HELD' out/runlog/$id.$TIER.log | head -3 | tr '\n' ' ')"
done
