#!/bin/sh
# usage: tools/sweep.sh <tier> <seed>...   — every claimed check at each seed; one line per run; exit 1 if any run is not rc=0
cd "$(dirname "$0")/.."; TIER=$1; shift; BAD=0; mkdir -p out/sweep
IDS=$(python3 -c "import json;print(' '.join(c['property_id'] for c in json.load(open('MANIFEST.json'))['checks']))")
for seed in "$@"; do for id in $IDS; do
  s=$(date +%s); VERIF_SEED=$seed ./check $id --tier $TIER > out/sweep/$id.$TIER.$seed.log 2>&1; rc=$?
  [ $rc -ne 0 ] && BAD=1
  echo "seed=$seed $id rc=$rc $(( $(date +%s) - s ))s $(grep -E 'VIOLATION|INCONCLUSIVE' out/sweep/$id.$TIER.$seed.log | head -2 | tr '\n' ' ' | cut -c1-220)"
done; done
exit $BAD
