#!/bin/sh
# usage: tools/try_patch.sh <patch.diff> <Cnn> [tier]   — applies the patch to a scratch worktree of /repo HEAD,
# runs the check for Cnn against it (VERIF_REPO), removes the worktree. Exit code = the check's exit code.
set -u
# cache guard: scratch builds can fill the disk
[ "$(df --output=avail -BG / | tail -1 | tr -dc 0-9)" -lt 25 ] && go clean -cache
P=$(realpath "$1"); ID=$2; TIER=${3:-quick}
WT=/var/tmp/try-$ID
BASE=HEAD
M="$(dirname "$P")/meta.json"
if [ -f "$M" ]; then B=$(python3 -c "import json,sys; print(json.load(open(sys.argv[1])).get('base_commit',''))" "$M" 2>/dev/null); [ -n "$B" ] && BASE=$B; fi
git -C /repo worktree add --detach "$WT" "$BASE" -q || exit 9
trap 'git -C /repo worktree remove --force "$WT" >/dev/null 2>&1; rm -rf "$WT"' EXIT
if ! git -C "$WT" apply "$P"; then echo "PATCH DOES NOT APPLY: $P"; exit 8; fi
cd "$(dirname "$0")/.." && VERIF_REPO="$WT" ./check "$ID" --tier "$TIER"
