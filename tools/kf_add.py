#!/usr/bin/env python3
"""usage: kf_add.py fixed <Cnn> <commit> "<what failed>" sig1 [sig2...]   |   kf_add.py open <Cnn> "<what fails>" <key>"""
import json, sys
p = __file__.rsplit("/", 2)[0] + "/known_findings.json"
k = json.load(open(p))
if sys.argv[1] == "fixed":
    _, _, prop, commit, what, *sigs = sys.argv
    k["findings"].append({"status": "fixed", "property": prop, "commit": commit,
                          "line": "fixed: property=%s %s %s" % (prop, commit, what), "signatures": sigs})
else:
    _, _, prop, what, key = sys.argv
    k["findings"].append({"status": "open", "property": prop, "key": key, "what": what})
json.dump(k, open(p, "w"), indent=1)
open(p, "a").write("\n")
