#!/usr/bin/env python3
"""Collects, for every /verif/seeded/<id>, what was run to confirm it and which check signatures caught it
(from out/runlog/seed-<id>.*.log); updates seeded/<id>/meta.json (keys builder_confirmation, detection) and prints a table."""
import json, os, re, glob
V = os.path.dirname(os.path.dirname(os.path.abspath(__file__)))
rows = []
for d in sorted(glob.glob(os.path.join(V, "seeded", "C*"))):
    sid = os.path.basename(d)
    mp = os.path.join(d, "meta.json")
    try:
        meta = json.load(open(mp))
    except Exception:
        meta = {"property": sid}
    conf = os.path.join(V, "out", "runlog", "seed-%s.confirm.log" % sid)
    if os.path.exists(conf):
        txt = open(conf, errors="replace").read()
        m = re.search(r"without=(\d+) with=(\d+) tests=(\d+)", txt)
        if m:
            meta["builder_confirmation"] = {
                "how": "tools/confirm_seed.sh in a scratch worktree of /repo HEAD: demo without patch must pass, demo with patch must fail, package tests with patch must pass",
                "demo_without_patch_exit": int(m.group(1)), "demo_with_patch_exit": int(m.group(2)), "package_tests_with_patch_exit": int(m.group(3)),
                "confirmed": m.group(1) == "0" and m.group(2) != "0" and m.group(3) == "0"}
    det = meta.get("detection", {})
    for lg in sorted(glob.glob(os.path.join(V, "out", "runlog", "seed-%s.check-*.log" % sid))):
        cid = lg.rsplit("check-", 1)[1][:-4]
        txt = open(lg, errors="replace").read()
        sigs = re.findall(r"signature (\S+) count=(\d+)", txt)
        verdict = "VIOLATION" if "VIOLATION property=" in txt else ("INCONCLUSIVE" if "INCONCLUSIVE" in txt else ("HELD" if "HELD property=" in txt else "?"))
        det[cid] = {"cmd": "tools/try_patch.sh seeded/%s/patch.diff %s (quick tier, VERIF_SEED=1)" % (sid, cid), "verdict": verdict,
                    "signatures": [s for s, _ in sigs][:12]}
    if det:
        meta["detection"] = det
    json.dump(meta, open(mp, "w"), indent=1)
    open(mp, "a").write("\n")
    rows.append((sid, meta.get("builder_confirmation", {}).get("confirmed"), {k: v["verdict"] for k, v in det.items()},
                 meta.get("needs_to_manifest", "")[:110]))
for r in rows:
    print("%-4s confirmed=%-5s %s | %s" % r)
