#!/bin/sh
# usage: tools/seed_eval.sh <Cnn> <pkgdir> <TestRegex> [check ids...]  — confirm a seed then run the checks on it
ID=$1; PKG=$2; RX=$3; shift; shift; shift
cd "$(dirname "$0")/.."
D=$ID${SEED_SUFFIX:-}
tools/confirm_seed.sh $ID $PKG "$RX" > out/runlog/seed-$D.confirm.log 2>&1
echo "$D confirm: $(tail -1 out/runlog/seed-$D.confirm.log)"
grep -q "^CONFIRMED" out/runlog/seed-$D.confirm.log || exit 1
[ $# -eq 0 ] && set -- $ID
for c in "$@"; do
  s=$(date +%s); tools/try_patch.sh seeded/$D/patch.diff $c > out/runlog/seed-$D.check-$c.log 2>&1; rc=$?
  echo "$D check $c rc=$rc $(( $(date +%s) - s ))s | $(grep -E 'signature|INCONCLUSIVE|HELD' out/runlog/seed-$D.check-$c.log | head -4 | tr '\n' ' ' | cut -c1-400)"
done
