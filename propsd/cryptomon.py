PROPS = {
    "C04": dict(engine="cryptomon", level="exploration", design="C04",
                technique="runtime monitor: round-trip + independent reference decrypt of every ciphertext the real cipher emits",
                text="Real Cipher.Encrypt output is decrypted by the real peer cipher and by an independent MTProto 2.0 reference; header, payload, "
                     "padding length (12..1024) and body length mod 16 checked on every execution; payload lengths 0..4096 step 4 exhaustive, "
                     "16x16 padding grid exhaustive, random beyond.",
                note="Trusted: harness/refmodel (spec transcription), crypto/aes, crypto/sha256. Inputs sampled beyond the exhaustive grids."),
    "C05": dict(engine="cryptomon", level="exploration", design="C05",
                technique="runtime mutation oracle over valid ciphertexts (bit flips, truncation, extension, swaps, reflection, foreign keys)",
                text="Every mutant of a valid ciphertext fed to the real Decrypt must give err!=nil and a nil message; unmodified controls must be accepted.",
                note="Mutants are sampled (header bit flips exhaustive); acceptance by 128-bit collision is not a realistic false alarm."),
    "C06": dict(engine="cryptomon", level="exploration", design="C06",
                technique="differential runtime monitor against a specification-text reference KDF; bind message decrypted independently",
                text="crypto.Keys/MessageKey/KeysV1/OldKeys/MessageKeyV1 compared with the reference on random inputs; EncryptBindMessage decrypted by the reference with the v1 KDF.",
                note="The reference model is the specification; shared primitives crypto/sha1, crypto/sha256, crypto/aes."),
    "C11": dict(engine="cryptomon", level="exploration", design="C11",
                technique="runtime monitor with independent IGE decrypt + SHA1-prefix oracle on random/valid/flipped answers",
                text="DecryptExchangeAnswer must return exactly the embedded data found by the independent oracle, or an error; (nil,nil) is a violation.",
                note="Reference IGE over crypto/aes; inputs sampled."),
}
