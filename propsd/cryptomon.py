PROPS = {
    "C04": dict(engine="cryptomon", also=[dict(engine="msgid", race=True)], level="exploration", design="C04",
                technique="runtime monitor: round-trip + independent reference decrypt of every ciphertext the real cipher emits",
                text="Real Cipher.Encrypt output is decrypted by the real peer cipher and by an independent MTProto 2.0 reference; header, payload, "
                     "padding length (12..1024) and body length mod 16 checked on every execution; payload lengths 0..4096 step 4 exhaustive, "
                     "16x16 padding grid exhaustive, random beyond. Connection level (engine msgid, -race): concurrent requests through a real mtproto.Conn write path with the compression threshold on/off; every captured frame decrypted (+gunzipped) and compared with the request it belongs to.",
                note="Trusted: harness/refmodel (spec transcription), crypto/aes, crypto/sha256. Inputs sampled beyond the exhaustive grids."),
    "C05": dict(engine="cryptomon", level="exploration", design="C05",
                technique="runtime mutation oracle over valid ciphertexts (bit flips, truncation, extension, swaps, reflection, foreign keys)",
                text="Every mutant of a valid ciphertext fed to the real Decrypt must give err!=nil and a nil message; unmodified controls must be accepted.",
                note="Mutants are sampled (header bit flips exhaustive); acceptance by 128-bit collision is not a realistic false alarm."),
    "C06": dict(engine="cryptomon", also=[dict(engine="msgid", race=True)], level="exploration", design="C06",
                technique="differential runtime monitor against a specification-text reference KDF; bind message decrypted independently",
                text="crypto.Keys/MessageKey/KeysV1/OldKeys/MessageKeyV1 compared with the reference on random inputs; EncryptBindMessage decrypted by the reference with the v1 KDF.",
                note="The reference model is the specification; shared primitives crypto/sha1, crypto/sha256, crypto/aes."),
    "C11": dict(engine="cryptomon", level="exploration", design="C11",
                technique="runtime monitor with independent IGE decrypt + SHA1-prefix oracle on random/valid/flipped answers",
                text="DecryptExchangeAnswer must return exactly the embedded data found by the independent oracle, or an error; (nil,nil) is a violation.",
                note="Reference IGE over crypto/aes; inputs sampled."),
    "C13": dict(engine="cryptomon", level="exploration", design="C13", watchdog={"quick": 1200, "thorough": 5400},
                technique="runtime monitor: real CheckGP/CheckDH/CheckDHParams/InRange/DecomposePQ decisions compared with specification-text oracles (Euler criterion, safe-prime test, strict inequalities, factors known by construction)",
                text="CheckGP on every safe prime below 2e6 (thorough 5e7) and every prime p=3 mod 4 below L/8 x g in -1..9 and far-out g vs Euler's criterion; CheckDH on 11 re-verified 2048-bit safe primes "
                     "(Telegram, RFC 3526/7919, generated) and ~25 mutations each plus wrong-size safe primes and half-prime moduli; CheckDHParams on the complete 19x19x10 boundary cross product per modulus; "
                     "DecomposePQ on all pairs of the first 300 primes, balanced 32x32-bit semiprimes below 2^63, squares, 2q, unbalanced and near-limit products, each call under a logical attempt budget and a wall-clock watchdog (inconclusive).",
                note="Trusted: math/big (Exp, ProbablyPrime, GCD), refmodel/crypto2_dh.go. Safe-prime range exhaustive below the limit, the rest sampled; DecomposePQ randomness from a seeded PCG stream."),
    "C14": dict(engine="cryptomon", level="exploration", design="C14", watchdog={"quick": 900, "thorough": 5400},
                technique="differential runtime monitor: real RSAPad output vs a spec-text RSA_PAD encoder fed the same random stream (byte-identical), spec-text decoder, round trip, mutation oracle",
                text="Every data length 0..144 x seeded streams x 3 committed 2048-bit test keys (one with a modulus just above 2^2047 so the >= N retry happens on about half of the candidates): ciphertext equals the reference construction, "
                     "same number of temp_keys consumed, both decoders return data || consumed padding; lengths > 144 refused; hashed scheme 0..235 round-trips and decrypts to SHA1(data)||data||..; bit-flipped, foreign-key and garbage ciphertexts rejected.",
                note="Trusted: math/big, crypto/aes, crypto/sha256, crypto/sha1, refmodel (spec transcription, own IGE, CRT decrypt). Assumes the random stream is consumed as padding then 32 bytes per temp_key. Streams sampled, lengths exhaustive."),
    "C15": dict(engine="cryptomon", level="exploration", design="C15", watchdog={"quick": 900, "thorough": 5400},
                technique="differential runtime monitor against a spec-text SRP client plus an end-to-end reference SRP-6a verifier (correct password accepted, wrong password rejected), invalid-group and hostile-B arms",
                text="SRP.Hash on random passwords/salts/client secrets over 11 re-verified 2048-bit safe-prime groups x every admissible g: (A, M1) byte-identical to the reference (own PBKDF2-HMAC-SHA512), accepted by the reference verifier, "
                     "answers for a different password rejected; hostile B values do not panic and follow the formula; every invalid group (size, primality, (p-1)/2, g) is refused by Hash and NewHash; NewHash equals pad(g^x).",
                note="Trusted: math/big, crypto/sha256, crypto/sha512, crypto/hmac, refmodel/crypto2_srp.go (transcription of core.telegram.org/api/srp). Inputs sampled; invalid groups enumerated from the committed moduli."),
}
