_T = ("runtime monitoring with controlled schedules: real rpc.Engine over harness fakes (send, Output decoder, drop handler, neo fake clock), "
      "goroutines held at fakes / verifhook points and released in scripted (DFS-enumerated), PCT-randomized and free-running orders; "
      "offline trace checker on the boundary event log; race detector")
PROPS = {
    "C24": dict(engine="rpcmon", race=True, also=[dict(engine="mthandle")], level="exploration", design="C24", technique=_T,
                text="Every Output.Decode must carry the payload addressed to its own call, happen at most once and lie entirely inside the call/return interval of its Do; "
                     "a nil return needs exactly one finished decode, an rpc error must be the one notified for that id; scripted hold-the-decoder-open family over every exit path of Do, "
                     "bounded exhaustive enumeration of stimulus orders for N=1,2, PCT and free-running schedules for N<=4. "
                     "Connection arm (engine mthandle): K=1..6 concurrent Conn.Invoke on a real mtproto.Conn, every request answered exactly once by rpc_result(result | gzip_packed(result) | "
                     "rpc_error | gzip_packed(rpc_error)) or bad_msg_notification with unique content, bare / in containers / under outer gzip, hook path and real read loop; each Invoke must return "
                     "exactly its own result bytes or exactly its own error (tgerr code+message / bad-message code).",
                note="Bounded depth and N; settling trusts goroutine states from runtime.Stack; harness fakes trusted. Needs hook patch patches/rpcmon/hook-rpc-engine-points.diff.",
                watchdog={"quick": 600, "thorough": 3 * 3600}),
    "C25": dict(engine="rpcmon", race=True, level="exploration", design="C25", technique=_T,
                text="All transmissions of a request are byte-identical in (msg id, seq no, body); at most 1+MaxRetries; none earlier than RetryInterval of fake time after its timer was armed; "
                     "RetryLimitReachedErr exactly after the last allowed unacknowledged resend; no transmission after retryUntilAck returned; a due timer always leads to a resend in settled schedules. "
                     "Grid MaxRetries 1..6 x ack position x failing send index x clock step, acknowledgements delivered as single ids and inside msgs_ack batches of 1..6 ids (pending id first/last/middle/repeated, mixed with unknown ids and ids of other pending/acked/completed calls; empty and nil batches), failing transmission k=0..MaxRetries with a plain error, context.Canceled or DeadlineExceeded followed by clock travel past every deadline (a Do that neither re-sends nor returns within one interval of a failed transmission in a settled world is a violation), retransmission k blocked in a cancel-aware send when its result/error arrives (must be aborted, Do must return without waiting for the write), plus PCT/free schedules.",
                note="A resend picked by select while an ack is delivered but not yet consumed by the Do goroutine is counted, not asserted (inherent race). neo fake clock trusted.",
                watchdog={"quick": 600, "thorough": 3 * 3600}),
    "C26": dict(engine="rpcmon", race=True, also=[dict(engine="saltping", race=True)], level="exploration", design="C26", technique=_T,
                text="ForceClose / cancel inserted at every position of staggered base schedules (N<=3) and enumerated/PCT/free schedules: nothing stays blocked after ForceClose (goroutine-dump verdict), "
                     "unacknowledged calls fail with errors.Is(ErrEngineClosed), acknowledged ones never do, drop handler called exactly once iff a cancelled call's first send had succeeded, Do after close fails without sending; the caller's context ends by cancel or by an expiring deadline (controller-fired context) at every insertion point, including while a retransmission is blocked in send. "
                     "Connection arm (engine saltping): K=1..4 concurrent Conn.Invoke on a real mtproto.Conn with scripted histories (none / ack consumed / bad_server_salt retry observed / retry acked / "
                     "ack then retry / cancelled before send) ended by caller cancel, Run-context cancel or a transport read error; closed+unacked -> errors.Is(ErrEngineClosed), closed+acked -> other error, "
                     "cancelled -> context.Canceled and exactly one rpc_drop_answer frame for its msg_id iff it was sent.",
                note="The 'callers treat ErrEngineClosed as retryable' consequence in pool/telegram is observed by poolmon. Bounded depth and N.",
                watchdog={"quick": 600, "thorough": 3 * 3600}),
}
