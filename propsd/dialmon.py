PROPS = {
    "C42": dict(engine="dialmon", race=True, level="exploration", design="C42",
                technique="runtime monitor at a harness DialFunc: scripted completion orders (exhaustive core), random schedules, free-running stress under -race; "
                          "connection open/close accounting at goroutine-level quiescence",
                text="dcs.Plain Primary/MediaOnly/CDN are driven with a fake dialer whose connections record Close; every dial's outcome (success, dial error incl. errors.Join/multierr-combined dial errors, handshake "
                     "failure after establishment incl. a Close() that also fails, unparsable secret, blocks until context done, late success after the call returned), the completion order and the caller's "
                     "cancellation position are scheduled. At quiescence (all dials returned, goroutine count back at the pre-call baseline): nil error => exactly the returned "
                     "connection is open; error => no established connection is open; without cancellation an error is returned only after every dial failed and contains every "
                     "dial failure; a call still blocked when every dial returned and all goroutines are parked is a hang. Exhaustive for 2..4 dials over {S,F,H,B}^n x completion orders x cancellation positions (canonical schedules; x 3 methods in the thorough tier, methods rotating in the quick tier); random for 5 dials "
                     "with random protocol/obfuscation options; stress batches of 8 concurrent calls.",
                note="Schedules beyond 4 dials are sampled; FakeTLS secrets (handshake reads from the peer) are not used; quiescence relies on runtime.NumGoroutine and, before "
                     "any leak verdict, on a stop-the-world goroutine dump; the scripted order between two failures is enforced by waiting for the dial goroutine's exit.",
                watchdog={"quick": 600, "thorough": 3600}),
}
