PROPS = {
    "C41": dict(engine="saltping", race=True, level="exploration", design="C41",
                technique="runtime monitor: relational model + porcupine on salts.Salts; real mtproto.Conn on a fake transport/fake clock with a harness-played server "
                          "that decrypts every client frame (independent reference cipher) and checks its salt and the retransmission count",
                text="Every Get of the real salt store is checked against a relational model (returned salt announced and valid after the deadline; no 'none' while a "
                     "certainly stored valid salt exists) on random Store/Get/Reset sequences and on concurrent histories (porcupine). Every frame the real connection "
                     "writes at fake time t must carry the last salt told by the server or an announced future salt valid past t+5min (a kept future salt is tolerated "
                     "only when nothing valid past the lookahead is stored); a request rejected with bad_server_salt before/after ack must be transmitted exactly twice, "
                     "the second time with the new salt (also when the rejection arrives inside a burst of unrelated server messages, and when 2..4 requests in flight under the same salt are all rejected with the same or different new salts in any order: back to back, strictly one after the other, or interleaved with retransmissions and results), and never a third time after a second rejection; bad_server_salt naming a stored (first/middle/last) or unknown salt with near-expiry sets, clock travel between send and rejection and a clock step between the rejection and the retransmission. "
                     "Concurrent Invokes with rejections run under the race detector.",
                note="Trusted: harness/refmodel cipher, generated mt TL encoders, neo fake clock. Scenarios are sampled. The rpc retry timer is disabled so that every "
                     "retransmission is attributable to the bad-salt path. bad_server_salt for non-RPC service messages is not generated (outside the statement).",
                watchdog={"quick": 900, "thorough": 5400}),
    "C43": dict(engine="saltping", race=True, level="exploration", design="C43",
                technique="runtime monitor: real mtproto.Conn (read loop, ping loop) on a fake transport with a harness-played server scheduling matching / non-matching / "
                          "duplicated pongs; keep-alive ticks from the neo fake clock; verdicts on outcomes (return values, Run termination, goroutine dump), never on durations",
                text="Conn.Ping returns nil only after a pong with its own ping id was delivered, does not return before cancellation without one, and does not stay "
                     "parked after a consumed matching pong (plain, in container, inside rpc_result, duplicated; decoys id+-1, inverted, swapped, other/earlier pings). "
                     "A ping cancelled before / concurrently with / just after its matching pong is followed by an unanswered ping that must not succeed (manual and keep-alive). Keep-alive: Run ends on its own with an error after an unanswered or decoy-only ping and never sends a further ping; Run keeps running through "
                     "3..6 ticks when every ping is answered.",
                note="Trusted: harness/refmodel cipher, mt TL encoders, neo fake clock, runtime.Stack goroutine states. The ping timeout is a real context timeout: the "
                     "'alive' arm uses 45 s (a synchronously queued pong is assumed to be handled within that), the 'dead' arm 300 ms; dead-arm runs whose earlier "
                     "answered pings time out under load are discarded, not judged.",
                watchdog={"quick": 900, "thorough": 5400}),
}
