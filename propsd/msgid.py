PROPS = {
    "C07": dict(engine="msgid", race=True, level="exploration", design="C07",
                technique="runtime monitors: model-based oracle on MessageIDBuf.Consume (sequential + porcupine), padding grid on Cipher.Decrypt, "
                          "and a real mtproto.Conn on a fake transport with a harness-played server (hand-rolled encryptor)",
                text="Every injected server frame carries a unique marker; a frame the executable acceptance model (session key, session id, id type, 300 s / 30 s "
                     "time window on the fake clock, replay window of 100, padding 12..1024, length mod 4) says must be dropped may not reach Handler.OnMessage or be "
                     "acknowledged, and a frame it says must be accepted must reach the handler before Conn.Run returns. Consume is additionally checked on generated id "
                     "sequences for N in {1,2,4,100} and on concurrent histories (porcupine, race detector).",
                note="Trusted: harness/refmodel encryptor, the window model (asserts only what both readings of 'last N accepted ids' demand; porcupine uses Telegram's rule), "
                     "neo fake clock. Sequences, scenarios and schedules are sampled; frames within 1 s of the time limits are not asserted; rpc-engine notifications "
                     "are not observed separately (only handler calls and acks).",
                watchdog={"quick": 600, "thorough": 3000}),
    "C08": dict(engine="msgid", race=True, level="exploration", design="C08",
                technique="runtime monitors: online assertions on MessageIDGen.New under scripted clocks, porcupine on concurrent callers, "
                          "and replay of the msg_id / seq_no rules on frames captured from a real mtproto.Conn",
                text="Every generated id must be divisible by 4, strictly greater than all earlier ones, encode a monotone time that is neither behind the clock reading nor "
                     "more than one bump ahead; concurrent histories must linearize as a strictly increasing register; on the wire (concurrent Invoke / Ping / ack / salt "
                     "traffic, clocks advancing 0..3 ns per reading) msg ids must be unique and seq_no must equal twice the number of content messages with a smaller id (+1 "
                     "for content messages).",
                note="Trusted: harness/refmodel decryptor, gotd/td's own definition of the time encoded in an id. Clock scripts and schedules are sampled, not enumerated.",
                watchdog={"quick": 600, "thorough": 3000}),
}
