PROPS = {
    "C01": dict(engine="updmgr", race=True, level="exploration", design="C01",
                technique="online runtime monitor on the real sequenceBox (verif-tagged wrapper) + offline trace checker over real updates.Manager runs under the race detector",
                text="Box level: every delivery history (loss, duplicates, reordering, overlapping multi-count updates, cleared gaps, fetched differences, refused applies) of small "
                     "logs enumerated exhaustively up to a stated length plus random histories of logs up to 10 entries; the apply callback and the box state are checked after every "
                     "operation (at most once, start<=cover, state never ahead of delivered/covered). Manager level: real Manager + channel workers against a Telegram-like fake "
                     "server; per sequence at-most-once, in-order-or-covered, request positions never ahead of what was delivered or covered.",
                note="Histories and schedules are sampled beyond the exhaustive cores; goroutine interleavings are whatever the Go scheduler produced under -race. "
                     "State==0 inputs are outside the statement (documented qts workaround) and only checked for panics.",
                watchdog={"quick": 900, "thorough": 5400}),
    "C02": dict(engine="updmgr", race=True, level="exploration", design="C02",
                technique="runtime monitor: handler deliveries of a real updates.Manager compared with the fake server's finite log after barrier-decided recovery",
                text="Finite logs of messages, pts-bearing non-message updates, qts updates and channel updates are pushed with loss/duplication/reordering; recovery is forced and "
                     "its completion decided by explicit barriers through every queue of the library (no timers); every log entry not covered by a reported too-long must have "
                     "reached the handler. The fake server answers differences like Telegram (other_updates carry their real pts/pts_count/qts).",
                note="Trusted: the fake server as a model of Telegram's difference answers (self-initiated entries announced through HandleAffected are only covered by a difference's state, never listed). Logs, loss patterns and slicing are sampled.",
                watchdog={"quick": 900, "thorough": 5400}),
    "C03": dict(engine="updmgr", race=True, level="fault_enumeration", design="C03",
                technique="runtime monitor on a recording StateStorage (online invariant at every write) + crash/restart experiment from the storage image after every write",
                text="At every SetState/SetPts/SetQts/SetChannelPts of every run no undelivered, unreported log entry lies at or below the written position; for the selected traces "
                     "every storage write that changes the persistent image is used as a crash point: a new Manager restarts from that image, recovers, and deliveries of both runs "
                     "must cover the log. Half of the logs contain a channel absent from the initial storage that is first seen through a pushed update or a difference's other_updates; "
                     "the storage wrapper is a faithful persistent store (channel pts survive SetState and the restart).",
                note="Crash points are enumerated completely per selected trace; traces are sampled. A crash keeps exactly the storage image after the last completed write. "
                     "Too-long exemption starts at the server's too-long response (the library persists the skipped position one statement before it invokes the callback).",
                watchdog={"quick": 900, "thorough": 5400}),
}
