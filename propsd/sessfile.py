PROPS = {
    "C31": dict(engine="sessfile", race=False, level="fault_enumeration", design="C31",
                technique="fault injection under runtime monitoring: strace SIGKILL injection at every system call of a real save "
                          "+ offline crash-state replay (partial writes, power loss) of the recorded calls on a model filesystem; real Loader as oracle",
                text="For every ordered pair of session sizes (0.7 KiB / 4 KiB / 300 KiB; thorough also 1 KiB / 64 KiB / 1 MiB) a child process replaces session A by session B through "
                     "the real session.Loader + FileStorage under strace. Real kills (quick: grow / shrink / same-size pair, thorough: all pairs): every system call of the save on the pinned "
                     "thread is a kill point (one strace run each, the kill verified in that run's trace and against the model). Offline replay (all pairs): the recorded calls and bytes "
                     "are replayed on a model filesystem for every call boundary, writes cut at 1/half/n-1/page bytes and all power-loss states of the model. "
                     "Crash-then-save-again: on every distinct directory state left by a crash of the first save (incl. leftover temp files of size 0/partial/full) the real code "
                     "saves a shorter / equal-length / longer session C, which must then load as C; a sample of these second saves is killed at its own system calls. "
                     "Each surviving file is loaded by the real Loader: anything but the complete old or complete new session is a violation "
                     "(process-crash|empty-file, process-crash|corrupt, power-loss|...). System-call boundaries of the save are enumerated completely per size pair.",
                note="Process-crash results at call boundaries are observations of the real kernel (ext4 here); cut writes are replayed, not observed. The power-loss part is a model "
                     "(prefix persistence of unsynced data per file, ordered namespace journal, rename may overtake data, fsync(file) does not persist the directory entry): "
                     "stated in assumptions. Trusted: strace 6.1 injection (each kill cross-checked against the dry-run trace and the model), refmodel/sessfile_fs.go. "
                     "I/O errors (disk full) during a save are outside the property and not injected.",
                watchdog={"quick": 900, "thorough": 3600}),
}
