PROPS = {
    "C21": dict(engine="tlmon", race=False, level="exploration", design="C21",
                technique="runtime monitors over all generated TL codecs: reflection value generator + round-trip oracles in process; "
                          "mutation / depth-bomb decoding in child processes with crash classification and allocation meter",
                text="All constructors of tg/mt/e2e TypesConstructorMap() are enumerated. Per constructor, generated values (conditional flag fields, vectors, nested "
                     "class fields) must survive Encode->Decode structurally (nil==empty slices, doubles by bits, flags after SetFlags), consume all bytes and re-encode "
                     "byte-identically. Per constructor, truncated / count- / flag- / id-mutated / random inputs are decoded in child processes: the child must survive, "
                     "allocation must stay below 64*len + vector-headers*PreallocateLimit*elem + 4 MiB, and every mutant that decodes must itself round-trip. Every recursive "
                     "cycle found by reflection is decoded at nesting 10^3..4*10^6 (raw and via proto.GZIP) under the default 1 GB stack limit; only nestings a peer can "
                     "deliver (16 MiB frame, <10 MiB gunzipped) count as violations.",
                note="Values and mutants are sampled (constructors exhaustive). Trusted: reflection view of generated structs (TypeInfo Null on zero value = conditional "
                     "field), child-process classification in harness/mon. Not covered: Box/Vector helper types outside the type maps, top-level Decode<X>Class helpers "
                     "(exercised only through fields), schema-level correctness of flag bit numbers (encode and decode share the generator).",
                watchdog={"quick": 900, "thorough": 3600}),
}
