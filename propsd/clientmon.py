PROPS = {
    "C29": dict(engine="clientmon", race=True, level="fault_enumeration", design="C29",
                technique="runtime fault-injection monitor: real telegram.Client over a harness kill-switch link against tgtest, server-side execution log + caller outcomes",
                text="Fault table {before send (write stuck / frame torn / bytes lost), after send, after ack (ack consumption confirmed), after result} x {reconnect, client close} x 1..3 in flight, "
                     "enumerated completely per variation; unacknowledged requests must be re-executed on the replacement connection and return their result, acknowledged ones must not be "
                     "executed again and must fail, after close pending and new invocations must return, also when the replacement connection never gets ready (dial blocks / dials fail / connects and stalls) and when closed during the first connect; close by parent ctx, callback return or callback error with the pending request issued from a harness goroutine or from an update handler (Run itself must return). Race detector on. Both a harness-side socket close and a server-side "
                     "disconnect (real EPIPE) are used as the kill.",
                note="Trusted: tgtest as MTProto peer, loopback TCP, the client's own logger record as the 'ack consumed' barrier. An ack/result in flight at the kill allows either outcome. "
                     "Hangs are verdicts only when the goroutine is provably parked in invokeConn after the awaited event; other watchdog expiries are inconclusive.",
                watchdog={"quick": 900, "thorough": 3 * 3600}),
    "C30": dict(engine="clientmon", race=True, level="exploration", design="C30",
                technique="runtime reference-model monitor over session notification histories (hook H7) + corruption sweep of stored sessions with a dial-recording resolver + cluster end-to-end run",
                text="Random histories of session notifications from primary / non-primary / CDN connections, with and without a PFS permanent key and with primary migrations, against a recording "
                     "session.Storage: every write must be the last primary notification's (DC, key or permanent key, salt); every single-byte corruption of the stored key / key id must make "
                     "Client.Run fail before any dial.",
                note="Direct arm drives the client's own OnSession handlers through the verif hook (no network). Load arm trusts encoding/json and crypto/sha1; over-long keys are not generated. "
                     "End-to-end arm: 3-DC tgtest cluster, sub-DC pool + primary migration, PFS on/off (harness answers auth.bindTempAuthKey); few runs.",
                watchdog={"quick": 900, "thorough": 3 * 3600}),
}
