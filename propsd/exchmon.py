PROPS = {
    "C09": dict(engine="exchmon", race=False, level="exploration", design="C09",
                technique="runtime monitor: real client flow vs real in-tree server flow over a harness frame transport; results compared with each other "
                          "and with an independent reference model that re-derives the exchange from the client's wire",
                text="Every run: both flows must succeed; auth key, key id and salt must agree, the client key must be non-zero and key id = SHA1(key)[12:20]. "
                     "A reference model (own TL codec, RSA_PAD decode with the server's private key, tmp_aes, AES-IGE, SHA1 hashes) decrypts the client's wire, "
                     "finds the secret exponents in the logged random reads (verified by g^x = g_x), recomputes g_a^b mod p, the salt and new_nonce_hash1 and checks "
                     "the p_q_inner_data payload (constructor per mode, dc, expires_in, nonces, p<q, p*q=pq). Cases vary mode, dc id (int32 range), key-list position, "
                     "req_pq preludes, forced zero prefixes of nonce/new_nonce/server_nonce, forced leading-zero auth keys, natural RSA_PAD retries (~26%), delivery jitter.",
                note="Inputs are sampled (seeded). TestServerRNG fixes pq and dh_prime of the in-tree server (not replaceable through public API); the DH prime / generator choice is varied in a second arm where the honest server is the scripted reference server (3 safe primes x admissible g x perm/temp). Trusted: harness/refmodel/exch_*.go (spec transcription), math/big, "
                     "crypto/aes, crypto/sha1, crypto/sha256. Built without -race: both flows are single goroutines joined only by the harness transport, and -race makes one exchange "
                     "cost ~8 s (2048-bit primality checks, pq factoring).",
                watchdog={"quick": 1200, "thorough": 7200}),
    "C10": dict(engine="exchmon", race=False, level="fault_enumeration", design="C10",
                technique="adversary library against the real client flow: scripted reference server (trusted key or own key) + man in the middle in front of the real server flow; "
                          "control strategies mandatory",
                text="152 strategies x runs, enumerated completely: fingerprints (own key / claimed / empty / flipped), nonce, server_nonce and new_nonce_hash1 altered (bit flip, random, zero) "
                     "in every message carrying them, encrypted_answer flipped / truncated / extended / block-swapped / replayed / wrong SHA1 (effectiveness decided by reference decryption), "
                     "dh_prime composite / not safe / 2047 / 2049 bit / degenerate, g outside 2..7 or failing the residue rule (3 safe primes x g=2..7), g_a outside the range (with the peer "
                     "knowing the resulting key where possible), dh_gen retry/fail/unknown, replays of an earlier session, client->server tampering. Oracle: Run returns an error for every "
                     "effective manipulation; controls (honest script and allowed variations) must complete with agreeing keys. Degenerate pq values are outside the statement and only "
                     "observed, except that the client must terminate and must not panic.",
                note="A 'probing' strategy leaves everything else valid so a client lacking the targeted check would complete; non-probing strategies can only show that the exchange fails. "
                     "pq non-termination is decided logically: for a prime pq the loop of DecomposePQ has no exit, the harness ends it through a failing random source after K outer iterations. "
                     "Built without -race (see C09).",
                watchdog={"quick": 1200, "thorough": 7200}),
    "C12": dict(engine="exchmon", race=True, level="fault_enumeration", design="C12",
                technique="logical deadline monitor at a harness-owned transport.Conn + silent-peer arms confirmed by outcome",
                text="305 cells enumerated completely: entry point (ClientExchange.Run perm/temp; mtproto.Conn.Run without PFS, with PFS (both exchanges), regeneration after transport -404) x caller "
                     "context (no deadline, far deadline, near deadline) x silent peer at resPQ / server_DH_params / dh_gen, also preceded by 1/2/5 transport -404 frames (skipped and re-read at resPQ) or a -429 frame, and with the exchanger / connection clock skewed by +30 s, +10 min, +24 h, -10 min against host time (the oracle compares with host time). For every Send/Recv of the client flow the context deadline is recorded: "
                     "no deadline, or deadline - call time > exchange timeout, refutes. Stalled runs judged bounded must end by themselves with an error; runs judged unbounded are shown still "
                     "pending after 6 exchange timeouts and then released.",
                note="The fake transport honours exactly the context deadline, like transport.connection (SetRead/WriteDeadline), not cancellation. Dial timeout (6 h) is set far above the exchange "
                     "timeout so an inherited dial deadline is not mistaken for the exchange timeout. Real waits (0.5 s exchange timeout, retried with 2 s / 8 s if the stall point was not reached) "
                     "never decide a verdict. Stalls after a partial frame are not covered (the transport unit is the frame).",
                watchdog={"quick": 900, "thorough": 5400}),
}
