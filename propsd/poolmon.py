PROPS = {
    "C27": dict(engine="poolmon", race=True, level="exploration", design="C27",
                technique="runtime monitor under controlled schedules (verifhook points + harness fake connections): in-use counter, live<=max, dead hand-out oracle, porcupine resource-allocator model; race detector",
                text="The real pool.DC is driven through randomized controlled schedules (max 1,2,3,unlimited; 2..6 callers; kills, cancellations, Ready/Invoke outcomes) and the scripted fault windows; "
                     "every construction is checked against the limit, every Invoke on a fake connection against an atomic in-use counter and against deaths the pool had accounted before the hand-out decision chain began; "
                     "each schedule's boundary history is checked for linearizability against a sequential allocator model.",
                note="Schedules are sampled, not enumerated. Trusted: harness fakes, runtime.Stack goroutine states, porcupine. Hooks H3/H4 (build tag verif).",
                watchdog={"quick": 900, "thorough": 3 * 3600}),
    "C28": dict(engine="poolmon", race=True, level="fault_enumeration", design="C28",
                technique="scripted fault windows at verifhook points + randomized controlled schedules; conservation equation from VerifSnapshot at quiescent points; starved-waiter and probe-Invoke checks",
                text="Every window of the table (give-up during creation, give-up around transfer on the cancel and stuck paths, deaths at registration / hand-over / use / idle / pop) x max 1..3 is executed on the real pool, "
                     "followed by randomized schedules; at each quiescent point total=|live|, every live connection idle, no waiter entries, blocked callers flagged as starved, and a probe Invoke must be served.",
                note="Window table enumerated completely for max 1..3; interleavings inside a window are those the hook points expose. Random part sampled. DC.Close during operation is not exercised.",
                watchdog={"quick": 900, "thorough": 3 * 3600}),
}
