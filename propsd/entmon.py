PROPS = {
    "C35": dict(engine="entmon", level="exploration", design="C35",
                technique="runtime monitor: random builder programs on the real entity.Builder / styling.Perform compared with a harness-side record of every piece and an independent UTF-16 counter",
                text="Every entity returned by Complete/Raw for random operation sequences (Plain, raw writes, Format with all 24 formatters, named helpers, Token/Apply nesting and overlap, "
                     "ShrinkPreCode, builder reuse, styling.Perform) over ASCII/BMP/astral/combining/white-space texts must start exactly at its piece and cover exactly the piece, "
                     "shortened only by white space that ends the message, and never extend past the returned text; the returned text must be the concatenation minus trailing white space only.",
                note="Trusted: harness UTF-16 counter (byte-level, cross-checked with unicode/utf16) and the harness's own piece record. Programs are sampled; pieces are whole-rune valid UTF-8.",
                watchdog={"quick": 600, "thorough": 3600}),
    "C36": dict(engine="entmon", level="exploration", design="C36",
                technique="runtime order/permutation oracle on entity.SortEntities and Builder.Complete outputs; exhaustive small core",
                text="All 66 430 lists of up to 5 entities with offset, length in {0,1,2} (enumerated completely), random lists of up to 40 entities (forced ties, wide ranges, shuffled nested families) "
                     "and the Complete outputs of the C35 program generator: adjacent pairs ascend by offset and, at equal offset, do not ascend by length; output is the same multiset of entities.",
                note="Only the offset/length order is demanded; order among identical ranges is free. Lists beyond the exhaustive core are sampled. "
                     "Signature refinement: a disordered output identical, element for element, to sort.Sort with the shipped comparator (off< || len>) on the same input "
                     "(for Complete: on the pre-sort list reconstructed via Raw + the trim step) is labelled matches-known-non-order-comparator; every other disorder keeps a specific signature.",
                watchdog={"quick": 600, "thorough": 3600}),
    "C37": dict(engine="entmon", level="exploration", design="C37",
                technique="crash observation (in-process panic capture + child-process batches for process-fatal inputs) and entity-bound oracle on html.HTML / markdown.Markdown results",
                text="TDLib/parser-test HTML corpus with all prefixes, grammar-based HTML and Markdown soups, byte mutations, rune-splitting markup, random bytes, and 28 deep/wide shapes up to 10^6 "
                     "(thorough 3*10^6) nesting in child processes: no panic or fatal death; with a nil error every entity (after Raw and after Complete) has offset, length >= 0 and ends inside the "
                     "UTF-16 length of the returned text. Violations seen only for invalid UTF-8 input carry their own signature prefix.",
                note="Trusted: harness UTF-16 counter; for invalid UTF-8 the length is what Go's own conversion yields. Inputs are sampled; running time is not bounded by the statement (watchdog = inconclusive).",
                watchdog={"quick": 900, "thorough": 5400}),
}
