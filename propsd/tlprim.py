PROPS = {
    "C20": dict(engine="tlprim", race=False, level="exploration", design="C20",
                technique="differential runtime monitor against a specification-text TL primitive codec + round trip + concatenation + hostile decode under panic capture",
                text="Every real bin.Buffer Put*/decode pair (int, int32, uint32, id, fields, long, int53, uint64, double by bits, bool, int128, int256, string, bytes, "
                     "vector header) is compared with an independent reference codec on every executed value: encoding bytes equal, length % 4 == 0, decode equal, "
                     "consumption exactly the encoding (sentinel tail intact). String/bytes lengths 0..1030 exhaustive x 5 contents, 2^k-1/2^k/2^k+1 up to 2^24-1; random "
                     "tuples encoded back to back and decoded in order; hostile inputs (all truncations, 254/255 first bytes, lengths beyond the buffer, non-zero padding, "
                     "bad vector/bool ids, random bytes) decoded as every kind: no panic, error exactly when the reference says short/malformed.",
                note="Trusted: harness/refmodel/tl_prim.go (transcription of core.telegram.org/mtproto/serialize). Non-canonical encodings (non-zero padding, long form for "
                     "L<254) may be accepted or rejected. Values sampled beyond the exhaustive length sweep; lengths >= 2^24 out of scope.",
                watchdog={"quick": 600, "thorough": 3600}),
    "C22": dict(engine="tlprim", race=False, level="exploration", design="C22",
                technique="round trip against a specification-text framing reference + allocation meter and crash classification in single-goroutine child processes",
                text="Containers, container messages, rpc_result, unencrypted messages and gzip_packed: real Encode byte-compared with the reference, real Decode compared "
                     "with the input (exact consumption). In child processes: gzip payloads of 10 MiB-1/10 MiB/10 MiB+1, bombs up to 100 MiB (1 GiB thorough), concatenated "
                     "members, truncated/corrupted streams, each followed by a valid object through the pooled reader; success never carries more than 10 MiB nor data "
                     "different from what was compressed, allocation stays below 4 x the cost of reading 10 MiB; hostile containers (count -1/2^31-1, bytes -1/>1 MiB/"
                     "beyond the buffer, truncations, bit flips, nesting depth 16000 quick, 43689 thorough) end in errors decided by a reference decoder, never in a panic, fatal error or "
                     "allocation beyond 64 x input + 8 MiB.",
                note="Trusted: harness/refmodel (tl_prim.go, tlprim_framing.go), compress/gzip as reference gzip. Exactly 10 MiB may be accepted or rejected. Inputs sampled. "
                     "Allocation bounds are deliberately loose (>= 4x); recursion through nested containers in mtproto message handling belongs to C23.",
                watchdog={"quick": 900, "thorough": 5400}),
}
