PROPS = {
    "C18": dict(engine="proxymon", race=False, also=[dict(engine="proxyduplex", race=True)], level="exploration", design="C18",
                technique="runtime monitor: real obfuscated2 Handshake <-> real Accept over a chunking byte pipe with adversarial random sources; passive specification tap on the wire; listener path end to end",
                text="Thousands of sessions (tags, int16 DC ids incl. negative/test, secrets none/16/parsed dd-ee/long-prefix, random streams that start with every reserved pattern) "
                     "must recover the same tag and DC, carry unique-content blocks unchanged in both directions under 1-byte / boundary+-1 / random read chunking, and never put a reserved "
                     "prefix on the wire; transport.ObfuscatedListener + Listener path exchanged messages; a (n>0, err) reader is a separate sub-workload with its own signature.",
                note="Trusted: harness pipe (io.Reader contract), the engine-local reference (refobfs2.go) transcription of the transport-obfuscation text, crypto/aes+CTR+sha256. Inputs sampled. Engine proxymon is single-goroutine; engine proxyduplex (-race) adds full-duplex sessions (writer+reader goroutine per endpoint, bounded pipe with back-pressure and scripted mid-Write stalls): schedules sampled, not enumerated.",
                watchdog={"quick": 300, "thorough": 2400}),
    "C19": dict(engine="proxymon", race=False, also=[dict(engine="proxyduplex", race=True)], level="exploration", design="C19",
                technique="runtime monitor: real FakeTLS writer -> independent record parser + real FakeTLS reader over a chunking pipe; harness-side FakeTLS server with right/wrong digests against the real client handshake",
                text="Write sequences of lengths 0..4 MiB (dense around 16384, 65535, 131072) must appear on the wire as whole records carrying exactly the written bytes and be read back unchanged "
                     "under any read chunking; the real client Handshake must accept a server hello with the correct HMAC (0..15 extra handshake records) and reject wrong secret, wrong client random, "
                     "each of the 256 single digest bit flips and post-signature tampering; full obfuscator.FakeTLS stack against a harness TLS server feeding the real obfuscated2.Accept.",
                note="Trusted: harness record parser/server written from the MTProxy FakeTLS description, crypto/hmac, crypto/sha256. Inputs sampled except the 256 digest bit positions. Engine proxyduplex (-race) adds full-duplex FakeTLS sessions over a bounded pipe with back-pressure and scripted stalls inside Write calls; schedules sampled, not enumerated.",
                watchdog={"quick": 300, "thorough": 2400}),
}
