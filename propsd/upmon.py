PROPS = {
    "C32": dict(engine="upmon", race=True, level="exploration", design="C32",
                technique="runtime trace checker over a recording mock uploader.Client + race detector; simulated offset-function sources; fault sequences (false / FLOOD_WAIT / hard error) per part",
                text="Every real Uploader.Upload execution is judged on the requests the mock accepted and on the returned descriptor: part numbers 0..n-1 once, "
                     "per-part fingerprint equals the source at part*partSize, non-last parts have the part size, total length, automatic sizing keeps n<=3999 with a valid size "
                     "(up to 3999x512 KiB, executed with 2 GiB simulated sources), Parts=n, small/big by the 10 MiB threshold, small-file MD5, file_total_parts=n "
                     "(known totals: every part; streams: the short last part, other parts -1 or n), retries byte-identical, hard errors fail without descriptor, "
                     "invalid explicit part sizes refused before anything is sent; data races in uploader frames are violations.",
                note="Sizes, thread counts, reader behaviours and fault plans are sampled around the boundaries (fixed grid + seeded random); thread interleavings are whatever the scheduler "
                     "produced under -race. FLOOD_WAIT waits use the real clock (no clock injection in the uploader) so flood cases are few. Part content is compared through keyed 64-bit "
                     "fingerprints. For streams whose length is an exact multiple of the part size no part ever carries the final count; this is counted, not judged "
                     "(the statement only binds parts sent after the count is known). Resumed uploads and sources that lie about their size are not covered. The engine re-executes itself once with GORACE clear_shadow_mmap_threshold raised (shadow cleared by memset instead of re-mmap; detection unchanged) because every part buffer of 64 KiB or more otherwise costs hundreds of page faults under -race.",
                watchdog={"quick": 900, "thorough": 3600}),
}
