PROPS = {
    "C38": dict(engine="miscmon", race=False, level="exploration", design="C38",
                technique="runtime round-trip monitor on the real EncodeFileID/DecodeFileID: exhaustive zero-run sweep (0..1100 x 6 placements), random canonical ids over "
                          "every type x photo-size-source kind, hostile-string crash observation (in-process + child batch)",
                text="Every generated file id is encoded and decoded by the real code and must come back equal; every zero-run length 0..1100 in the file reference is covered "
                     "(exhaustive on that axis), all 18 types x 10 photo size sources x web/non-web are hit; 100k hostile strings per run must not panic and ids decoded from "
                     "modern-layout hostile inputs must themselves round-trip. History arm: the last 8 decoded values are kept alive and re-inspected after every later call, and "
                     "6 goroutines round-trip different ids concurrently (results of pure functions must not depend on other calls).",
                note="Domain: canonical ids (only wire-carried fields set, DC 0..2^31-1). Ids beyond the sweep are sampled. The harness transcription of the layout is used "
                     "for witness classification and for crafting hostile inputs.",
                watchdog={"quick": 900, "thorough": 3600}),
    "C39": dict(engine="miscmon", race=False, level="exploration", design="C39",
                technique="runtime sequence monitor: real query builders + iterators over tg.NewClient(fake paginated server); yielded id sequence compared with the "
                          "server's list; query-count bound for termination",
                text="Grid N 0..40 x page size 1..N+1 enumerated completely for 19 message-server configurations (GetHistory/Search/SearchGlobal x response kinds x offset "
                     "precedence) and 6 dialog-server configurations; every run iterates to exhaustion through the real TL codec; missing/duplicate/reordered/extra items, "
                     "iterator errors, panics and more than ceil(N/limit)+2 queries are violations. Large arm (both tiers): N 99..1000 x page sizes 1..1000 around Telegram's per-request maximum of 100, against a server honouring any limit and a server truncating limits to 100, "
                     "plus a random sample with N and page size up to 2000. API arm: Total/FetchTotal before, in the middle of and after the iteration, Collect, ForEach, Count for both iterators "
                     "(N 0..12, every page size, every response kind) with Total()==N. Sampled arms: start offsets, interleaved messageEmpty.",
                note="The fake server's pagination semantics (core.telegram.org/api/offsets; unique descending ids and dates) are the trusted base; non-default server variants "
                     "are named in the signature. Histories with equal dates in one chat, pinned dialogs and non-monotone ids (global search across chats) are not modelled.",
                watchdog={"quick": 900, "thorough": 3600}),
    "C40": dict(engine="miscmon", race=False, level="exploration", design="C40",
                technique="runtime monitor with by-construction expectation for tgerr.New; harness-owned clock (neo fake time + timer record) for tgerr.FloodWait; "
                          "crash observation on arbitrary strings",
                text="200k structured messages (1..5 upper-case words incl. words with digits, one decimal argument at every position, with/without leading zeros) must parse to "
                     "Type = words joined and Argument = number; 100k out-of-statement shapes are crash-only; 500 FloodWait calls (both kinds, bare and wrapped) are walked "
                     "through fake time: blocked until n s + 1 s, then (true, err); cancellation gives (false, context.Canceled). History arm: sequences mixing calls with fake clock A, fake clock B, no option (system clock) "
                     "and concurrent A||B pairs; every timer must be created on the clock of its own call.",
                note="Messages are sampled. The 1 s margin is the one the code documents. Real-time waits are watchdogs/settle pauses only (a late event can only be missed).",
                watchdog={"quick": 900, "thorough": 3600}),
}
