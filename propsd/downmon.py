PROPS = {
    "C33": dict(engine="downmon", race=True, level="exploration", design="C33",
                technique="runtime monitor: recording io.WriterAt / io.Writer + offline tiling checker against a simulated file, scripted retryable faults, race detector",
                text="Downloads of simulated files through the public Builder API (Stream and Parallel, 1..8 threads, part sizes 4K..1M, sizes around multiples of the part size incl. 0) "
                     "against a harness master DC with scripted FLOOD_WAIT_0 / timeouts on any request (also those at EOF) and shuffled completion order: every write is checked against the file, "
                     "the recorded ranges must tile [0,size) exactly, the returned type must be the served one, nothing may be written after return, the served bytes must not be modified.",
                note="Sampled sizes/schedules/fault scripts (quick 600, thorough 40000 downloads); flood waits use the real clock (1 s each, downloader passes no clock to tgerr.FloodWait) and are therefore few; "
                     "the harness server is honest (precise getFile semantics). Harness-owned source bytes live outside the Go heap (not race-instrumented); everything gotd allocates is.",
                watchdog={"quick": 600, "thorough": 3600}),
    "C34": dict(engine="downmon", race=True, level="exploration", design="C34",
                technique="runtime monitor: adversarial CDN / master fakes with reference AES-CTR, content oracle on every completed download, request-plan checker (exhaustive grid through hook H8 + on observed requests)",
                text="Completed downloads in inline-CDN, WithVerify+CDN and WithVerify+master modes must equal the genuine file under 16 corruption strategies aimed at every chunk index, with honest control runs "
                     "(token refresh, new keys, fallback, reupload, fingerprint errors, timeouts, late redirect) that must not be rejected with a hash mismatch; every CDN request is checked for 4 KiB alignment, "
                     "divisor-of-1MiB limit and no 1 MiB crossing, exact in-order tiling on runs with a determined request sequence; buildCDNRequestPlan is enumerated over the full 600x300 grid.",
                note="Hashes from the master DC are trusted; CDN encryption reference transcribed from core.telegram.org/cdn; adversary strategies and file/window layouts are sampled "
                     "(quick 640, thorough 20000 downloads); only the plan grid is exhaustive. Needs hook H8 (telegram/downloader/export_verif.go).",
                watchdog={"quick": 600, "thorough": 3600}),
}
