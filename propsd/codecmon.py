PROPS = {
    "C16": dict(engine="codecmon", race=True, level="exploration", design="C16",
                technique="runtime round-trip monitor over a chunking reader (1-byte, boundary-1/0/+1, random, data+EOF) for all transport protocols x {header, NoHeader, obfuscated2}, "
                          "listener codec detection by reflection + behaviour, offline exactly-once / per-sender FIFO checker for concurrent senders under the race detector",
                text="Every payload sequence written by the real codecs / transport.Conn.Send is read back by the real reader through adversarial read chunkings and compared byte for byte; "
                     "4-byte frames must surface as ProtocolErr with the negated code; transport.Listen must pick the codec the client chose (direct and through ObfuscatedListener); "
                     "frames of 2..8 concurrent senders on one Conn must arrive exactly once, intact and in per-sender order. Payload lengths: every multiple of 4 in 4..2048 exhaustive per "
                     "protocol/wrap, 2^k and 2^k+-4 up to 64 KiB plus ~1 MiB frames (thorough: up to 16 MiB and the frame limit itself), random beyond.",
                note="Schedules and sequences beyond the exhaustive length grid are sampled; the byte pipe, chunking reader and checker are harness code; obfuscated2 is used only as a stream wrapper; "
                     "16 MiB frames (frame limit) only in the thorough tier (fresh memory under -race is very slow on the check machine).",
                watchdog={"quick": 900, "thorough": 3600}),
    "C17": dict(engine="codecmon17", race=False, level="exploration", design="C17",
                technique="crash observation in child processes + allocation meter (MemStats.TotalAlloc per call) on hostile transport input",
                text="Hostile byte streams (exhaustive short length prefixes 0..64, 2^k, 2^k+-1, limit neighbours, negative values in every protocol's prefix encoding; mutated / truncated valid streams; "
                     "random bytes; chosen plaintexts behind the obfuscated2 listener) are fed to codec.Read, ReadHeader+Read and transport.Listen(..).Accept+Recv in a child without recover; "
                     "process death or a single call allocating more than the 16 MiB frame limit + 4 MiB is a violation; unmodified control streams must decode.",
                note="Inputs beyond the exhaustive prefix core are sampled. Allocation bound 16 MiB + 4 MiB slack; the reader never supplies a claimed oversized body. After 24 observed process deaths "
                     "further panics are reported in-band by the child (same value and stack); after 40 GiB-scale allocation events the remaining inputs are not run (verdict already violated).",
                watchdog={"quick": 900, "thorough": 3600}),
}
