PROPS = {
    "C23": dict(engine="mthandle", race=False, level="exploration", design="C23",
                technique="runtime monitor: crash observation in child processes + request-routing oracle over pending Conn.Invoke calls; hook fast path cross-validated by the real read loop",
                text="Every file of the 14 101-entry handle_message corpus, ~2 600 generated service-message cases (results, errors, gzip, pongs, bad msg / bad salt, acks, "
                     "salts, session, containers, nesting, multi-step sequences; request ids matching, off by +-4, unrelated), corpus entries wrapped into results/gzip/containers "
                     "and ~14 000 mutants are handled by a fresh mtproto.Conn in child processes with 1..9 goroutines blocked in Conn.Invoke (and Conn.Ping): any panic / fatal "
                     "error is attributed to the case; every Output.Decode and Invoke return must be justified by a payload that names that invocation's msg id (exact model for "
                     "generated payloads, id-occurrence incl. independent gunzip otherwise). A sample (thorough: all eligible) is also encrypted by the reference model and fed "
                     "through the real read loop of mtproto.New/Run; both paths must agree. Nested containers / gzip up to the depth the size limits allow.",
                note="Inputs are sampled beyond the complete corpus. Trusted: harness/refmodel encryption, harness MessageIDSource + fake transport, stdlib gzip for the "
                     "id-occurrence check. A lost rpc_error (never delivered) shows up as a settle watchdog = inconclusive, not as a violation. Unbounded gzip self-reference "
                     "(a gzip quine wrapped in gzip_packed) is not constructed.",
                watchdog={"quick": 600, "thorough": 3 * 3600}),
}
