PROPS = {
    "C23": dict(engine="mthandle", race=False, also=[dict(engine="mthandle", race=True)], level="exploration", design="C23",
                technique="runtime monitor: crash observation in child processes + request-routing oracle over pending Conn.Invoke calls; "
                          "hook fast path cross-validated by the real read loop",
                text="Every file of the 14 101-entry handle_message corpus, ~2 600 generated service-message cases (results, errors, gzip, pongs, bad msg / bad salt, acks, "
                     "salts, session, containers, nesting, multi-step sequences; request ids matching, off by +-4, unrelated), 2 500 corpus entries wrapped into results/gzip/containers "
                     "and 14 000 mutants (thorough: 10x generated, all wraps, 400 000 mutants) are each handled by a fresh mtproto.Conn in a child process with 1..6 goroutines "
                     "blocked in Conn.Invoke (and Conn.Ping): a panic / fatal error is attributed to the case; every Output.Decode and every Invoke return must be justified by a "
                     "payload that names that invocation's msg id (exact first-delivery-wins model for generated payloads, id-occurrence incl. independent gunzip otherwise). "
                     "A sample (thorough: every eligible case, ~100 000) is also encrypted by the reference model and fed through the real read loop of mtproto.New/Run; both "
                     "paths must agree. Nested containers / gzip: moderate depths under the standard child limits, and the depth one message may legally carry "
                     "(10 000 containers = 240 KB; thorough also 43 690 containers = 1 MiB and 8 000 gzip layers) in a child confined to a 2 GiB address space. "
                     "Concurrent arm (also run as a -race build of the same engine, which then runs only this arm): ~3 100 rounds per run, each = fresh Conn, K=2..6 pending Invokes, "
                     "1..3 gzip-packed rpc_results in sequence, then unique-body rpc_results for all remaining requests (+ duplicates, unrelated ids) handled at the same time "
                     "(barrier-released goroutines on the hook path; back-to-back frames through the real read loop); exact-body oracle + race detector.",
                note="Inputs are sampled beyond the complete corpus. Trusted: harness/refmodel encryption, harness MessageIDSource + fake transport, stdlib gzip for the "
                     "id-occurrence check. A never-delivered rpc_error shows up as a settle watchdog = inconclusive, not as a violation (a lost result is a violation: "
                     "Output.Decode is synchronous). The out-of-memory death of the deep-nesting case depends on the 2 GiB address-space limit of the child (the machine is shared; "
                     "the unrestricted 1 MiB case needs 22.9 GB). Concurrent interleavings are sampled by the scheduler (GOMAXPROCS=4), not enumerated. A self-referencing gzip stream (gzip quine inside gzip_packed), which would recurse without bound, is not constructed.",
                watchdog={"quick": 600, "thorough": 3 * 3600}),
}
