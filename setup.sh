#!/bin/sh
# Builds every engine once from /repo's current tree (warms the Go build cache). Offline.
set -e
cd "$(dirname "$0")"
export GOFLAGS=-mod=mod GOPROXY=off GOTOOLCHAIN=auto
unset GOSUMDB
python3 - <<'PY'
import sys, os
sys.path.insert(0, os.getcwd())
import importlib.util, importlib.machinery
spec = importlib.util.spec_from_loader("chk", importlib.machinery.SourceFileLoader("chk", "./check"))
chk = importlib.util.module_from_spec(spec); spec.loader.exec_module(chk)
from props import PROPS
seen = set()
os.makedirs("out", exist_ok=True)
log = open("out/setup.log", "w")
ok = True
from props import CLAIMED
for pid, s in sorted(PROPS.items()):
    if pid not in CLAIMED: continue
    for k in [(s["engine"], bool(s.get("race")))] + [(e["engine"], bool(e.get("race"))) for e in s.get("also", [])]:
        if k in seen: continue
        seen.add(k)
        b, err = chk.build(k[0], k[1], "/repo", log)
        print("build", k, "ok" if b else "FAILED")
        if not b:
            ok = False; sys.stderr.write(err[-2000:])
sys.exit(0 if ok else 1)
PY
