"""Property table used by ./check and tools/gen_manifest.py.

Each file propsd/<engine>.py defines PROPS = {"Cnn": dict(...)} with keys
  engine     harness/engines/<engine>
  race       build with -race (race reports in gotd/td frames become violations of the property)
  level      level claimed: exploration | fault_enumeration | ...
  technique  the deciding method (a few words)
  text       what assurance the check gives (MANIFEST level_claimed.text)
  note       what is assumed / trusted (MANIFEST level_note)
  design     DESIGN.md section name
  watchdog   optional {"quick": seconds, "thorough": seconds} wall-clock watchdog (inconclusive when it fires)
"""
import glob, os, importlib.util

PROPS = {}
for _f in sorted(glob.glob(os.path.join(os.path.dirname(os.path.abspath(__file__)), "propsd", "*.py"))):
    _s = importlib.util.spec_from_file_location("propsd_" + os.path.basename(_f)[:-3], _f)
    _m = importlib.util.module_from_spec(_s)
    _s.loader.exec_module(_m)
    for _k, _v in _m.PROPS.items():
        assert _k not in PROPS, "duplicate property " + _k
        PROPS[_k] = _v

# properties whose checks have been validated on the unchanged tree and are registered in MANIFEST.json
CLAIMED = ["C16","C17","C27","C28","C23","C21","C01","C02","C03","C04","C05","C06","C07","C08","C09","C10","C11","C12","C13","C14","C15","C18","C19","C20","C22","C24","C25","C26","C29","C30","C31","C32","C33","C34","C35","C36","C37","C38","C39","C40","C41","C42","C43"]

# properties deliberately not claimed, with the reason (everything else missing from PROPS is "not built yet")
NOT_APPLICABLE = {}

# commits in /repo that add build-tag-guarded hooks
HOOK_COMMITS = ["6643bec5b", "2157c173b", "bea10735e", "3871ec8a6", "71a14c54a", "f97bff611", "b3868e33b", "1b21a09a1", "490895d28"]
