package mon

import (
	"bytes"
	"encoding/binary"
	"encoding/json"
	"fmt"
	"os"
	"os/exec"
	"path/filepath"
	"runtime"
	"strings"
	"syscall"
	"time"
)

// Batch execution of hostile inputs in a child process.
//
// The parent writes all inputs to <dir>/in.bin (u32 length prefix each) and
// starts `<self> --child <mode> <dir> <startIndex>`. The child, for each input
// i ≥ start, first writes i to <dir>/cur (so a process-fatal event is attributed
// to exactly this input), calls the handler, and appends the handler's JSON
// result line to <dir>/res.jsonl. If the child dies, the parent classifies the
// death from the exit status and stderr, records it for input cur, and restarts
// the child at cur+1.

// Outcome of one input.
type Outcome struct {
	Index  int             `json:"index"`
	Class  string          `json:"class"` // ok | panic | fatal:stack-overflow | fatal:oom | fatal:checkptr | fatal:other | signal:<n> | timeout
	Result json.RawMessage `json:"result,omitempty"`
	Stderr string          `json:"stderr,omitempty"`
}

// BatchOpts tunes a child batch.
type BatchOpts struct {
	MemLimitMB int           // GOMEMLIMIT + ulimit -v style guard (0: 4096)
	Timeout    time.Duration // watchdog per child process (0: 10 min)
	Env        []string
	MaxProcs   int // GOMAXPROCS for the child (0: leave)
}

// BatchHandler processes one input in the child and returns a JSON-serialisable result.
type BatchHandler func(input []byte) any

// RegisterBatch registers a child mode that processes batches with h.
func RegisterBatch(mode string, h BatchHandler) {
	RegisterChild(mode, func(args []string) {
		if len(args) < 2 {
			fmt.Fprintln(os.Stderr, "batch child: need dir and start")
			os.Exit(4)
		}
		dir := args[0]
		var start int
		fmt.Sscanf(args[1], "%d", &start)
		data, err := os.ReadFile(filepath.Join(dir, "in.bin"))
		if err != nil {
			fmt.Fprintln(os.Stderr, err)
			os.Exit(4)
		}
		res, err := os.OpenFile(filepath.Join(dir, "res.jsonl"), os.O_APPEND|os.O_CREATE|os.O_WRONLY, 0o644)
		if err != nil {
			fmt.Fprintln(os.Stderr, err)
			os.Exit(4)
		}
		cur, err := os.OpenFile(filepath.Join(dir, "cur"), os.O_CREATE|os.O_WRONLY, 0o644)
		if err != nil {
			fmt.Fprintln(os.Stderr, err)
			os.Exit(4)
		}
		i := 0
		for off := 0; off+4 <= len(data); i++ {
			n := int(binary.LittleEndian.Uint32(data[off:]))
			off += 4
			in := data[off : off+n]
			off += n
			if i < start {
				continue
			}
			var idx [8]byte
			binary.LittleEndian.PutUint64(idx[:], uint64(i))
			cur.WriteAt(idx[:], 0)
			// The handler is NOT wrapped in recover: a panic must be seen exactly
			// as the library's caller would see it, with its stack on stderr.
			out := h(in)
			line, err := json.Marshal(map[string]any{"index": i, "result": out})
			if err != nil {
				line, _ = json.Marshal(map[string]any{"index": i, "result": fmt.Sprintf("marshal: %v", err)})
			}
			res.Write(append(line, '\n'))
		}
		binary.LittleEndian.PutUint64(make([]byte, 8), 0)
		var idx [8]byte
		binary.LittleEndian.PutUint64(idx[:], ^uint64(0))
		cur.WriteAt(idx[:], 0)
	})
}

// RunBatch runs inputs through child mode `mode` and returns one outcome per input.
func RunBatch(c *Ctx, mode, name string, inputs [][]byte, o BatchOpts) []Outcome {
	dir := filepath.Join(c.Out, "batch-"+name)
	os.RemoveAll(dir)
	if err := os.MkdirAll(dir, 0o755); err != nil {
		c.Inconclusive("batch dir: " + err.Error())
		return nil
	}
	var buf bytes.Buffer
	for _, in := range inputs {
		var l [4]byte
		binary.LittleEndian.PutUint32(l[:], uint32(len(in)))
		buf.Write(l[:])
		buf.Write(in)
	}
	if err := os.WriteFile(filepath.Join(dir, "in.bin"), buf.Bytes(), 0o644); err != nil {
		c.Inconclusive("batch input: " + err.Error())
		return nil
	}
	if o.MemLimitMB == 0 {
		o.MemLimitMB = 4096
	}
	if o.Timeout == 0 {
		o.Timeout = 10 * time.Minute
	}
	outs := make([]Outcome, len(inputs))
	for i := range outs {
		outs[i].Index = i
		outs[i].Class = "missing"
	}
	self, err := os.Executable()
	if err != nil {
		c.Inconclusive("os.Executable: " + err.Error())
		return nil
	}
	start := 0
	for run := 0; start < len(inputs); run++ {
		os.Remove(filepath.Join(dir, "cur"))
		stderrPath := filepath.Join(dir, fmt.Sprintf("stderr-%d.txt", run))
		stderrF, _ := os.Create(stderrPath)
		cmd := exec.Command(self, "--child", mode, dir, fmt.Sprint(start))
		cmd.Env = append(os.Environ(), fmt.Sprintf("GOMEMLIMIT=%dMiB", o.MemLimitMB*3/4), "GOTRACEBACK=single")
		if o.MaxProcs > 0 {
			cmd.Env = append(cmd.Env, fmt.Sprintf("GOMAXPROCS=%d", o.MaxProcs))
		}
		cmd.Env = append(cmd.Env, o.Env...)
		cmd.Stdout = stderrF
		cmd.Stderr = stderrF
		cmd.SysProcAttr = &syscall.SysProcAttr{Setpgid: true}
		if err := cmd.Start(); err != nil {
			c.Inconclusive("child start: " + err.Error())
			return outs
		}
		// address-space guard (no memory cgroup in the sandbox)
		setAS(cmd.Process.Pid, uint64(o.MemLimitMB)*4<<20)
		done := make(chan error, 1)
		go func() { done <- cmd.Wait() }()
		timedOut := false
		var werr error
		select {
		case werr = <-done:
		case <-time.After(o.Timeout):
			timedOut = true
			syscall.Kill(-cmd.Process.Pid, syscall.SIGKILL)
			werr = <-done
		}
		stderrF.Close()
		cur := -1
		if b, err := os.ReadFile(filepath.Join(dir, "cur")); err == nil && len(b) >= 8 {
			v := binary.LittleEndian.Uint64(b)
			if v == ^uint64(0) {
				cur = len(inputs)
			} else {
				cur = int(v)
			}
		}
		if werr == nil && cur == len(inputs) {
			break
		}
		// child died (or exited early) while processing input cur
		se, _ := os.ReadFile(stderrPath)
		class := classify(werr, string(se), timedOut)
		if cur < start || cur >= len(inputs) {
			c.Inconclusive(fmt.Sprintf("batch %s: child died outside an input (cur=%d start=%d class=%s): %s", name, cur, start, class, tailStr(string(se), 600)))
			return outs
		}
		outs[cur].Class = class
		outs[cur].Stderr = tailHead(string(se), 1500)
		start = cur + 1
	}
	// collect results
	if data, err := os.ReadFile(filepath.Join(dir, "res.jsonl")); err == nil {
		for _, line := range bytes.Split(data, []byte("\n")) {
			if len(line) == 0 {
				continue
			}
			var r struct {
				Index  int             `json:"index"`
				Result json.RawMessage `json:"result"`
			}
			if json.Unmarshal(line, &r) == nil && r.Index >= 0 && r.Index < len(outs) {
				outs[r.Index].Class = "ok"
				outs[r.Index].Result = r.Result
			}
		}
	}
	for i := range outs {
		if outs[i].Class == "missing" {
			c.Inconclusive(fmt.Sprintf("batch %s: no outcome for input %d", name, i))
			break
		}
	}
	return outs
}

func classify(werr error, stderr string, timedOut bool) string {
	if timedOut {
		return "timeout"
	}
	switch {
	case strings.Contains(stderr, "goroutine stack exceeds"), strings.Contains(stderr, "stack overflow"):
		return "fatal:stack-overflow"
	case strings.Contains(stderr, "out of memory"), strings.Contains(stderr, "cannot allocate memory"):
		return "fatal:oom"
	case strings.Contains(stderr, "checkptr"):
		return "fatal:checkptr"
	case strings.Contains(stderr, "panic:"):
		return "panic"
	case strings.Contains(stderr, "fatal error:"):
		return "fatal:other"
	}
	if ee, ok := werr.(*exec.ExitError); ok {
		if ws, ok := ee.Sys().(syscall.WaitStatus); ok && ws.Signaled() {
			return fmt.Sprintf("signal:%d", ws.Signal())
		}
		return fmt.Sprintf("exit:%d", ee.ExitCode())
	}
	if werr == nil {
		return "exit:0-early"
	}
	return "error:" + werr.Error()
}

func tailStr(s string, n int) string {
	if len(s) <= n {
		return s
	}
	return s[len(s)-n:]
}

func tailHead(s string, n int) string {
	if len(s) <= n {
		return s
	}
	return s[:n/2] + "\n...\n" + s[len(s)-n/2:]
}

// MeasureAlloc returns bytes allocated (TotalAlloc delta) and number of
// mallocs while running f on the calling goroutine. Meaningful only when no
// other goroutine allocates concurrently.
func MeasureAlloc(f func()) (bytes uint64, mallocs uint64) {
	var a, b runtime.MemStats
	runtime.ReadMemStats(&a)
	f()
	runtime.ReadMemStats(&b)
	return b.TotalAlloc - a.TotalAlloc, b.Mallocs - a.Mallocs
}
