// Package mon is the shared runtime of all verification engines: seeded random
// streams, observation accounting (evaluations, distinct non-trivial cases,
// samples), violation recording with signatures and replay files, and the
// summary handed to the ./check driver.
package mon

import (
	"encoding/json"
	"flag"
	"fmt"
	"hash/fnv"
	"math/rand/v2"
	"os"
	"path/filepath"
	"runtime/debug"
	"sort"
	"sync"
	"time"
)

// Violation is one refuting observation, classified by signature.
type Violation struct {
	Sig     string `json:"sig"`
	Count   int    `json:"count"`
	Replay  string `json:"replay"`
	Witness any    `json:"witness,omitempty"`
}

// Ctx carries one property run.
type Ctx struct {
	Property string
	Tier     string
	Seed     uint64
	Out      string
	Replay   string // path of a replay file, "" for a normal run
	Only     string // optional case filter given by a replay file

	mu           sync.Mutex
	evals        int64
	distinct     map[string]struct{}
	samples      []any
	sampleKeys   map[string]int
	viol         map[string]*Violation
	violOrder    []string
	extra        map[string]any
	rule         string
	assumptions  []string
	inconclusive []string
	exhaustive   bool
	start        time.Time
}

// Quick reports whether the quick tier is running.
func (c *Ctx) Quick() bool { return c.Tier != "thorough" }

// N picks a count by tier.
func (c *Ctx) N(quick, thorough int) int {
	if c.Quick() {
		return quick
	}
	return thorough
}

// Rand returns a PCG stream determined by the run seed and the stream name.
func (c *Ctx) Rand(stream string) *rand.Rand {
	h := fnv.New64a()
	h.Write([]byte(stream))
	return rand.New(rand.NewPCG(c.Seed, h.Sum64()))
}

// RandN returns a stream for stream name + index.
func (c *Ctx) RandN(stream string, i int) *rand.Rand {
	h := fnv.New64a()
	h.Write([]byte(stream))
	return rand.New(rand.NewPCG(c.Seed^(uint64(i)*0x9e3779b97f4a7c15+0x1234567), h.Sum64()+uint64(i)))
}

// Eval counts n executed cases.
func (c *Ctx) Eval(n int) {
	c.mu.Lock()
	c.evals += int64(n)
	c.mu.Unlock()
}

// Distinct records a non-trivial case class key.
func (c *Ctx) Distinct(key string) {
	c.mu.Lock()
	c.distinct[key] = struct{}{}
	c.mu.Unlock()
}

// DistinctCount returns the number of distinct keys so far.
func (c *Ctx) DistinctCount() int {
	c.mu.Lock()
	defer c.mu.Unlock()
	return len(c.distinct)
}

// Sample keeps up to 3 samples per kind, 12 in total.
func (c *Ctx) Sample(kind string, v any) {
	c.mu.Lock()
	defer c.mu.Unlock()
	if c.sampleKeys[kind] >= 3 || len(c.samples) >= 12 {
		return
	}
	c.sampleKeys[kind]++
	c.samples = append(c.samples, map[string]any{"kind": kind, "case": v})
}

// Set stores an extra coverage key.
func (c *Ctx) Set(k string, v any) {
	c.mu.Lock()
	c.extra[k] = v
	c.mu.Unlock()
}

// Add adds n to an integer extra coverage key.
func (c *Ctx) Add(k string, n int64) {
	c.mu.Lock()
	cur, _ := c.extra[k].(int64)
	c.extra[k] = cur + n
	c.mu.Unlock()
}

// Rule sets the description of generation and non-triviality.
func (c *Ctx) Rule(s string) { c.mu.Lock(); c.rule = s; c.mu.Unlock() }

// Exhaustive marks that a finite sub-space was enumerated completely.
func (c *Ctx) Exhaustive(b bool) { c.mu.Lock(); c.exhaustive = b; c.mu.Unlock() }

// Assume records an assumption / trusted base item.
func (c *Ctx) Assume(s string) { c.mu.Lock(); c.assumptions = append(c.assumptions, s); c.mu.Unlock() }

// Inconclusive marks the run as inconclusive.
func (c *Ctx) Inconclusive(why string) {
	c.mu.Lock()
	c.inconclusive = append(c.inconclusive, why)
	c.mu.Unlock()
}

// Violate records a violation with signature sig (without the property
// prefix) and a witness. The first witness per signature is written to a
// replay file.
func (c *Ctx) Violate(sig string, witness any) {
	full := c.Property + "|" + sig
	c.mu.Lock()
	defer c.mu.Unlock()
	v, ok := c.viol[full]
	if ok {
		v.Count++
		return
	}
	idx := len(c.viol)
	path := filepath.Join(c.Out, fmt.Sprintf("replay-%s-%d.json", c.Property, idx))
	v = &Violation{Sig: full, Count: 1, Replay: path, Witness: witness}
	c.viol[full] = v
	c.violOrder = append(c.violOrder, full)
	data, err := json.MarshalIndent(map[string]any{
		"property": c.Property,
		"tier":     c.Tier,
		"seed":     c.Seed,
		"sig":      full,
		"witness":  witness,
	}, "", " ")
	if err != nil {
		data = []byte(fmt.Sprintf(`{"property":%q,"sig":%q,"witness_error":%q}`, c.Property, full, err.Error()))
	}
	_ = os.WriteFile(path, data, 0o644)
}

// Violations returns the number of distinct violation signatures.
func (c *Ctx) Violations() int {
	c.mu.Lock()
	defer c.mu.Unlock()
	return len(c.viol)
}

type summary struct {
	Property     string         `json:"property"`
	Tier         string         `json:"tier"`
	Seed         uint64         `json:"seed"`
	Evaluations  int64          `json:"evaluations"`
	Distinct     int            `json:"distinct_nontrivial"`
	Rule         string         `json:"rule"`
	Samples      []any          `json:"samples"`
	Extra        map[string]any `json:"extra"`
	Exhaustive   bool           `json:"exhaustive"`
	Assumptions  []string       `json:"assumptions"`
	Violations   []*Violation   `json:"violations"`
	Inconclusive []string       `json:"inconclusive"`
	WallS        float64        `json:"wall_s"`
}

func (c *Ctx) finish() {
	c.mu.Lock()
	defer c.mu.Unlock()
	s := summary{
		Property: c.Property, Tier: c.Tier, Seed: c.Seed,
		Evaluations: c.evals, Distinct: len(c.distinct), Rule: c.rule,
		Samples: c.samples, Extra: c.extra, Exhaustive: c.exhaustive,
		Assumptions: c.assumptions, Inconclusive: c.inconclusive,
		WallS: time.Since(c.start).Seconds(),
	}
	sort.Strings(c.violOrder)
	for _, k := range c.violOrder {
		s.Violations = append(s.Violations, c.viol[k])
	}
	data, err := json.MarshalIndent(s, "", " ")
	if err != nil {
		// samples not serialisable: drop them rather than lose the verdict
		s.Samples = []any{fmt.Sprintf("unserialisable samples: %v", err)}
		data, _ = json.MarshalIndent(s, "", " ")
	}
	if err := os.WriteFile(filepath.Join(c.Out, "summary.json"), data, 0o644); err != nil {
		fmt.Fprintln(os.Stderr, "mon: cannot write summary:", err)
		os.Exit(4)
	}
}

// PropFunc runs the workload and monitors of one property.
type PropFunc func(c *Ctx)

// ChildFunc handles one child-mode invocation (see child.go).
type ChildFunc func(args []string)

var children = map[string]ChildFunc{}

// RegisterChild registers a child mode handler, invoked as
// `<engine> --child <mode> args...`.
func RegisterChild(mode string, f ChildFunc) { children[mode] = f }

// Main is the entry point of every engine.
func Main(engine string, props map[string]PropFunc) {
	if len(os.Args) >= 3 && os.Args[1] == "--child" {
		f, ok := children[os.Args[2]]
		if !ok {
			fmt.Fprintln(os.Stderr, "unknown child mode", os.Args[2])
			os.Exit(4)
		}
		f(os.Args[3:])
		os.Exit(0)
	}
	var (
		prop   = flag.String("property", "", "property id")
		tier   = flag.String("tier", "quick", "quick|thorough")
		seed   = flag.Uint64("seed", 1, "seed")
		out    = flag.String("out", "", "output directory")
		replay = flag.String("replay", "", "replay file")
	)
	flag.Parse()
	f, ok := props[*prop]
	if !ok {
		fmt.Fprintf(os.Stderr, "engine %s does not serve %q\n", engine, *prop)
		os.Exit(4)
	}
	if *out == "" {
		fmt.Fprintln(os.Stderr, "--out required")
		os.Exit(4)
	}
	if err := os.MkdirAll(*out, 0o755); err != nil {
		fmt.Fprintln(os.Stderr, err)
		os.Exit(4)
	}
	c := &Ctx{
		Property: *prop, Tier: *tier, Seed: *seed, Out: *out, Replay: *replay,
		distinct: map[string]struct{}{}, sampleKeys: map[string]int{},
		viol: map[string]*Violation{}, extra: map[string]any{}, start: time.Now(),
	}
	if *replay != "" {
		var r struct {
			Seed uint64 `json:"seed"`
			Tier string `json:"tier"`
			Sig  string `json:"sig"`
		}
		data, err := os.ReadFile(*replay)
		if err == nil && json.Unmarshal(data, &r) == nil {
			c.Seed, c.Tier, c.Only = r.Seed, r.Tier, r.Sig
		}
	}
	func() {
		defer func() {
			if r := recover(); r != nil {
				// A panic escaping an engine's own goroutine is a harness bug or a
				// library panic the engine did not isolate: never a silent pass.
				c.Inconclusive(fmt.Sprintf("engine panic: %v\n%s", r, debug.Stack()))
			}
		}()
		f(c)
	}()
	c.finish()
}

// Try runs f and returns the recovered panic value (nil if none) and stack.
func Try(f func()) (pv any, stack string) {
	defer func() {
		if r := recover(); r != nil {
			pv = r
			stack = string(debug.Stack())
		}
	}()
	f()
	return nil, ""
}
