package mon

import (
	"syscall"
	"unsafe"
)

type rlimit64 struct{ Cur, Max uint64 }

// setAS sets RLIMIT_AS on a running child via prlimit(2).
func setAS(pid int, bytes uint64) {
	lim := rlimit64{bytes, bytes}
	const rlimitAS = 9
	syscall.RawSyscall6(syscall.SYS_PRLIMIT64, uintptr(pid), rlimitAS, uintptr(unsafe.Pointer(&lim)), 0, 0, 0)
}
