package refmodel

// Model filesystem for the offline crash-state replay of engine sessfile (C31).
//
// A recorded syscall log (open/write/fsync/rename/...) is replayed on the
// model. Two crash models are derived from it:
//
//   - process crash: the kernel survives, so the state after the crash is the
//     volatile (page-cache) view at the crash point; a write that was cut short
//     leaves a prefix of its bytes.
//   - power loss: only durable state survives. Durable state of a file is its
//     content at its last fsync/fdatasync plus an arbitrary PREFIX of the
//     data operations (truncate, write) issued on it since then, the first
//     non-persisted write possibly persisted partially (a byte prefix) or as a
//     size extension whose blocks were never written (zeros). Durable state of
//     the namespace is the namespace at the last directory fsync plus an
//     arbitrary PREFIX of the namespace operations (create, rename, unlink)
//     issued since then (ordered metadata journalling). Namespace operations
//     and file data are independent: a rename may be durable while the data of
//     the renamed file is not. fsync of a file does NOT make its directory
//     entry durable (POSIX minimum).

import (
	"fmt"
	"path/filepath"
	"sort"
)

// FSOp is one recorded system call.
type FSOp struct {
	Kind   string `json:"kind"` // open write pwrite fsync fdatasync rename unlink close ftruncate fchmod
	Path   string `json:"path,omitempty"`
	Path2  string `json:"path2,omitempty"`
	FD     int    `json:"fd"`
	Create bool   `json:"create,omitempty"`
	Trunc  bool   `json:"trunc,omitempty"`
	Excl   bool   `json:"excl,omitempty"`
	Append bool   `json:"append,omitempty"`
	Dir    bool   `json:"dir,omitempty"`
	Mode   uint32 `json:"mode,omitempty"`
	Data   []byte `json:"-"`
	Len    int    `json:"len,omitempty"` // requested byte count (write) or new size (ftruncate)
	Off    int64  `json:"off,omitempty"`
	Ret    int64  `json:"ret"` // syscall result; <0: failed, no effect
	Raw    string `json:"raw,omitempty"`
}

type dataOp struct {
	trunc bool
	size  int64
	off   int64
	data  []byte
}

func applyData(content []byte, o dataOp, n int, zeros bool) []byte {
	if o.trunc {
		if int64(len(content)) >= o.size {
			return append([]byte(nil), content[:o.size]...)
		}
		out := make([]byte, o.size)
		copy(out, content)
		return out
	}
	end := o.off + int64(n)
	out := append([]byte(nil), content...)
	if int64(len(out)) < end {
		out = append(out, make([]byte, end-int64(len(out)))...)
	}
	if zeros {
		for i := o.off; i < end; i++ {
			out[i] = 0
		}
	} else {
		copy(out[o.off:end], o.data[:n])
	}
	return out
}

type inode struct {
	id     int
	dir    bool
	mode   uint32
	vol    []byte   // volatile content
	synced []byte   // durable content as of the last fsync (nil slice + !everOnDisk: never existed durably)
	pend   []dataOp // data operations since the last fsync
}

type nsOp struct {
	kind     string // create rename unlink
	path     string
	path2    string
	ino      *inode
	involves []string // directories touched
}

type fdesc struct {
	ino    *inode
	off    int64
	append bool
	path   string
}

// ModelFS is the model filesystem state.
type ModelFS struct {
	nextID int
	vns    map[string]*inode // volatile namespace
	dns    map[string]*inode // durable namespace at the last directory fsync
	nsOps  []nsOp            // namespace operations since then
	fds    map[int]*fdesc
}

// NewModelFS creates a filesystem whose given files exist and are durable.
func NewModelFS(durable map[string][]byte) *ModelFS {
	fs := &ModelFS{vns: map[string]*inode{}, dns: map[string]*inode{}, fds: map[int]*fdesc{}}
	for p, b := range durable {
		ino := &inode{id: fs.nextID, mode: 0o600, vol: append([]byte(nil), b...), synced: append([]byte(nil), b...)}
		fs.nextID++
		fs.vns[p] = ino
		fs.dns[p] = ino
	}
	return fs
}

// Apply replays one recorded call. If partial >= 0 and the op is a write,
// only the first `partial` bytes are written (a write cut short).
func (fs *ModelFS) Apply(op FSOp, partial int) error {
	if op.Ret < 0 {
		return nil
	}
	switch op.Kind {
	case "open":
		ino, ok := fs.vns[op.Path]
		if op.Dir {
			fs.fds[int(op.Ret)] = &fdesc{ino: &inode{id: -1, dir: true}, path: op.Path}
			return nil
		}
		if !ok {
			if !op.Create {
				return fmt.Errorf("open of unknown file %q succeeded without O_CREAT", op.Path)
			}
			ino = &inode{id: fs.nextID, mode: op.Mode}
			fs.nextID++
			fs.vns[op.Path] = ino
			fs.nsOps = append(fs.nsOps, nsOp{kind: "create", path: op.Path, ino: ino, involves: []string{filepath.Dir(op.Path)}})
		} else if op.Trunc && len(ino.vol) > 0 {
			d := dataOp{trunc: true, size: 0}
			ino.vol = nil
			ino.pend = append(ino.pend, d)
		}
		fs.fds[int(op.Ret)] = &fdesc{ino: ino, append: op.Append, path: op.Path}
	case "write", "pwrite":
		fd, ok := fs.fds[op.FD]
		if !ok {
			return nil // not a file of the replayed window (stderr etc.)
		}
		n := int(op.Ret)
		if partial >= 0 && partial < n {
			n = partial
		}
		if n > len(op.Data) {
			return fmt.Errorf("write of %d bytes recorded with only %d data bytes", n, len(op.Data))
		}
		off := fd.off
		if op.Kind == "pwrite" {
			off = op.Off
		} else if fd.append {
			off = int64(len(fd.ino.vol))
		}
		if n > 0 {
			d := dataOp{off: off, data: append([]byte(nil), op.Data[:n]...)}
			fd.ino.vol = applyData(fd.ino.vol, d, n, false)
			fd.ino.pend = append(fd.ino.pend, d)
		}
		if op.Kind == "write" {
			fd.off = off + int64(n)
		}
	case "ftruncate":
		fd, ok := fs.fds[op.FD]
		if !ok {
			return nil
		}
		d := dataOp{trunc: true, size: int64(op.Len)}
		fd.ino.vol = applyData(fd.ino.vol, d, 0, false)
		fd.ino.pend = append(fd.ino.pend, d)
	case "fchmod":
		if fd, ok := fs.fds[op.FD]; ok {
			fd.ino.mode = op.Mode
		}
	case "fsync", "fdatasync":
		fd, ok := fs.fds[op.FD]
		if !ok {
			return nil
		}
		if fd.ino.dir {
			last := -1
			for i, o := range fs.nsOps {
				for _, d := range o.involves {
					if d == fd.path {
						last = i
					}
				}
			}
			fs.dns = fs.durableNS(last + 1)
			fs.nsOps = append([]nsOp(nil), fs.nsOps[last+1:]...)
			return nil
		}
		fd.ino.synced = append([]byte(nil), fd.ino.vol...)
		fd.ino.pend = nil
	case "rename":
		ino, ok := fs.vns[op.Path]
		if !ok {
			return fmt.Errorf("rename of unknown file %q", op.Path)
		}
		delete(fs.vns, op.Path)
		fs.vns[op.Path2] = ino
		fs.nsOps = append(fs.nsOps, nsOp{kind: "rename", path: op.Path, path2: op.Path2, ino: ino,
			involves: []string{filepath.Dir(op.Path), filepath.Dir(op.Path2)}})
	case "unlink":
		if _, ok := fs.vns[op.Path]; !ok {
			return fmt.Errorf("unlink of unknown file %q", op.Path)
		}
		delete(fs.vns, op.Path)
		fs.nsOps = append(fs.nsOps, nsOp{kind: "unlink", path: op.Path, involves: []string{filepath.Dir(op.Path)}})
	case "close":
		delete(fs.fds, op.FD)
	default:
		return fmt.Errorf("unmodelled operation %q", op.Kind)
	}
	return nil
}

func (fs *ModelFS) durableNS(prefix int) map[string]*inode {
	ns := make(map[string]*inode, len(fs.dns)+prefix)
	for p, i := range fs.dns {
		ns[p] = i
	}
	for _, o := range fs.nsOps[:prefix] {
		switch o.kind {
		case "create":
			ns[o.path] = o.ino
		case "rename":
			delete(ns, o.path)
			ns[o.path2] = o.ino
		case "unlink":
			delete(ns, o.path)
		}
	}
	return ns
}

// Volatile returns the content of path in the page-cache view.
func (fs *ModelFS) Volatile(path string) (data []byte, exists bool) {
	ino, ok := fs.vns[path]
	if !ok {
		return nil, false
	}
	return ino.vol, true
}

// VolatileNames lists the names present in the page-cache view.
func (fs *ModelFS) VolatileNames() []string {
	var out []string
	for p := range fs.vns {
		out = append(out, p)
	}
	sort.Strings(out)
	return out
}

// Mode returns the permission bits of path in the volatile view.
func (fs *ModelFS) Mode(path string) uint32 {
	if ino, ok := fs.vns[path]; ok {
		return ino.mode
	}
	return 0
}

// DurableState is one possible on-disk state of a path after power loss.
type DurableState struct {
	Desc   string
	Exists bool
	Data   []byte
}

// PowerLossStates enumerates the durable states path can be in if power is
// lost now. splits(n) gives the byte counts at which a single write of n bytes
// may be persisted partially.
func (fs *ModelFS) PowerLossStates(path string, splits func(n int) []int) []DurableState {
	var out []DurableState
	for d := 0; d <= len(fs.nsOps); d++ {
		ns := fs.durableNS(d)
		ino, ok := ns[path]
		nsDesc := fmt.Sprintf("ns-ops-durable=%d/%d", d, len(fs.nsOps))
		if !ok {
			out = append(out, DurableState{Desc: nsDesc + " entry-absent"})
			continue
		}
		content := append([]byte(nil), ino.synced...)
		out = append(out, DurableState{Desc: fmt.Sprintf("%s ino=%d data-ops-durable=0/%d", nsDesc, ino.id, len(ino.pend)), Exists: true, Data: content})
		for k, o := range ino.pend {
			if !o.trunc {
				n := len(o.data)
				for _, s := range splits(n) {
					if s <= 0 || s >= n {
						continue
					}
					out = append(out, DurableState{
						Desc:   fmt.Sprintf("%s ino=%d data-ops-durable=%d/%d +%d/%d bytes of next write", nsDesc, ino.id, k, len(ino.pend), s, n),
						Exists: true, Data: applyData(content, o, s, false)})
				}
				out = append(out, DurableState{
					Desc:   fmt.Sprintf("%s ino=%d data-ops-durable=%d/%d +size of next write, blocks unwritten (zeros)", nsDesc, ino.id, k, len(ino.pend)),
					Exists: true, Data: applyData(content, o, n, true)})
			}
			content = applyData(content, o, len(o.data), false)
			out = append(out, DurableState{Desc: fmt.Sprintf("%s ino=%d data-ops-durable=%d/%d", nsDesc, ino.id, k+1, len(ino.pend)), Exists: true, Data: content})
		}
	}
	return out
}

type inodeCand struct {
	desc string
	data []byte
}

func inodeCandidates(ino *inode, splits func(n int) []int) []inodeCand {
	content := append([]byte(nil), ino.synced...)
	out := []inodeCand{{fmt.Sprintf("data-ops-durable=0/%d", len(ino.pend)), content}}
	for k, o := range ino.pend {
		if !o.trunc {
			n := len(o.data)
			for _, s := range splits(n) {
				if s <= 0 || s >= n {
					continue
				}
				out = append(out, inodeCand{fmt.Sprintf("data-ops-durable=%d/%d+%d/%dB", k, len(ino.pend), s, n), applyData(content, o, s, false)})
			}
			out = append(out, inodeCand{fmt.Sprintf("data-ops-durable=%d/%d+zeros", k, len(ino.pend)), applyData(content, o, n, true)})
		}
		content = applyData(content, o, len(o.data), false)
		out = append(out, inodeCand{fmt.Sprintf("data-ops-durable=%d/%d", k+1, len(ino.pend)), content})
	}
	return out
}

// VolatileDir returns base name -> content of the regular files of dir in the page-cache view.
func (fs *ModelFS) VolatileDir(dir string) map[string][]byte {
	out := map[string][]byte{}
	for p, ino := range fs.vns {
		if filepath.Dir(p) == dir && !ino.dir {
			out[filepath.Base(p)] = ino.vol
		}
	}
	return out
}

// DurableDirState is one possible on-disk state of a whole directory after power loss.
type DurableDirState struct {
	Desc  string
	Files map[string][]byte
}

// PowerLossDirStates enumerates durable states of all regular files of dir
// (cross product of the per-file choices, at most max per namespace prefix).
func (fs *ModelFS) PowerLossDirStates(dir string, splits func(n int) []int, max int) (out []DurableDirState, capped bool) {
	for d := 0; d <= len(fs.nsOps); d++ {
		ns := fs.durableNS(d)
		var names []string
		for p, ino := range ns {
			if filepath.Dir(p) == dir && !ino.dir {
				names = append(names, p)
			}
		}
		sort.Strings(names)
		cands := make([][]inodeCand, len(names))
		for i, p := range names {
			cands[i] = inodeCandidates(ns[p], splits)
		}
		idx := make([]int, len(names))
		for n := 0; ; n++ {
			if n >= max {
				capped = true
				break
			}
			st := DurableDirState{Desc: fmt.Sprintf("ns-ops-durable=%d/%d", d, len(fs.nsOps)), Files: map[string][]byte{}}
			for i, p := range names {
				c := cands[i][idx[i]]
				st.Files[filepath.Base(p)] = c.data
				st.Desc += fmt.Sprintf(" %s:%s", filepath.Base(p), c.desc)
			}
			out = append(out, st)
			i := 0
			for ; i < len(idx); i++ {
				idx[i]++
				if idx[i] < len(cands[i]) {
					break
				}
				idx[i] = 0
			}
			if i == len(idx) {
				break
			}
		}
	}
	return out, capped
}
