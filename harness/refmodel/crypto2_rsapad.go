package refmodel

// RSA_PAD and the legacy "data_with_hash" RSA scheme, written from the text of
// core.telegram.org/mtproto/auth_key (section "Presenting proof-of-work; Server
// authentication", the nine numbered steps of RSA_PAD) and of the older
// revision of the same page (data_with_hash := SHA1(data) + data + random
// bytes, 255 bytes). Shared with the code under test: math/big, crypto/aes,
// crypto/sha256, crypto/sha1 only (IGE is this package's own implementation).

import (
	"bytes"
	"crypto/sha1"
	"crypto/sha256"
	"errors"
	"math/big"
)

// C2RSAPriv is a test private key with its CRT components.
type C2RSAPriv struct {
	N, D, P, Q *big.Int
	E          int64
}

// Valid re-verifies the consistency of a committed test key.
func (k *C2RSAPriv) Valid() error {
	if !k.P.ProbablyPrime(32) || !k.Q.ProbablyPrime(32) {
		return errors.New("p or q not prime")
	}
	if new(big.Int).Mul(k.P, k.Q).Cmp(k.N) != 0 {
		return errors.New("n != p*q")
	}
	if k.N.BitLen() != 2048 {
		return errors.New("modulus is not 2048 bits")
	}
	pm, qm := new(big.Int).Sub(k.P, c2bigOne), new(big.Int).Sub(k.Q, c2bigOne)
	ed := new(big.Int).Mul(big.NewInt(k.E), k.D)
	if new(big.Int).Mod(ed, pm).Cmp(c2bigOne) != 0 || new(big.Int).Mod(ed, qm).Cmp(c2bigOne) != 0 {
		return errors.New("e*d != 1 mod (p-1), (q-1)")
	}
	return nil
}

// rawDecrypt computes c^d mod n with the Chinese remainder theorem (an
// independent route from a plain modular exponentiation).
func (k *C2RSAPriv) rawDecrypt(c *big.Int) *big.Int {
	pm, qm := new(big.Int).Sub(k.P, c2bigOne), new(big.Int).Sub(k.Q, c2bigOne)
	dp, dq := new(big.Int).Mod(k.D, pm), new(big.Int).Mod(k.D, qm)
	m1 := new(big.Int).Exp(new(big.Int).Mod(c, k.P), dp, k.P)
	m2 := new(big.Int).Exp(new(big.Int).Mod(c, k.Q), dq, k.Q)
	// m = m2 + q * ((m1 - m2) * q^-1 mod p)
	qinv := new(big.Int).ModInverse(k.Q, k.P)
	h := new(big.Int).Sub(m1, m2)
	h.Mul(h, qinv)
	h.Mod(h, k.P)
	return h.Mul(h, k.Q).Add(h, m2)
}

func c2byteReverse(b []byte) []byte {
	out := make([]byte, len(b))
	for i := range b {
		out[len(b)-1-i] = b[i]
	}
	return out
}

// C2RSAPadTrace holds the outcome of the reference encoder.
type C2RSAPadTrace struct {
	Encrypted   []byte // step 9, exactly 256 bytes
	KeysUsed    int    // number of temp_keys consumed (retries + 1)
	KeyAESEncr  []byte // the accepted key_aes_encrypted (step 7)
	DataWithPad []byte // step 1
}

// C2RSAPadEncode performs steps 1..9 for the given data, the given
// random_padding_bytes and the given sequence of candidate temp_keys (step 3 is
// repeated with the next candidate whenever step 8 finds key_aes_encrypted >= N).
func C2RSAPadEncode(data, padding []byte, tempKeys [][]byte, n *big.Int, e int64) (*C2RSAPadTrace, error) {
	// "One has to check that data is not longer than 144 bytes."
	if len(data) > 144 {
		return nil, errors.New("refmodel: data longer than 144 bytes")
	}
	// 1) data_with_padding := data + random_padding_bytes; precisely 192 bytes
	if len(data)+len(padding) != 192 {
		return nil, errors.New("refmodel: padding does not make 192 bytes")
	}
	dataWithPadding := append(append([]byte(nil), data...), padding...)
	// 2) data_pad_reversed := BYTE_REVERSE(data_with_padding)
	dataPadReversed := c2byteReverse(dataWithPadding)
	for i, tempKey := range tempKeys {
		// 3) a random 32-byte temp_key is generated
		if len(tempKey) != 32 {
			return nil, errors.New("refmodel: temp_key must be 32 bytes")
		}
		// 4) data_with_hash := data_pad_reversed + SHA256(temp_key + data_with_padding); 224 bytes
		h := sha256.Sum256(append(append([]byte(nil), tempKey...), dataWithPadding...))
		dataWithHash := append(append([]byte(nil), dataPadReversed...), h[:]...)
		// 5) aes_encrypted := AES256_IGE(data_with_hash, temp_key, 0)
		aesEncrypted := IGEEncrypt(tempKey, make([]byte, 32), dataWithHash)
		// 6) temp_key_xor := temp_key XOR SHA256(aes_encrypted)
		h2 := sha256.Sum256(aesEncrypted)
		tempKeyXor := make([]byte, 32)
		for j := range tempKeyXor {
			tempKeyXor[j] = tempKey[j] ^ h2[j]
		}
		// 7) key_aes_encrypted := temp_key_xor + aes_encrypted; exactly 256 bytes
		keyAESEncrypted := append(tempKeyXor, aesEncrypted...)
		// 8) compared with the RSA modulus as a big-endian 2048-bit unsigned integer; if >=, repeat from 3
		v := new(big.Int).SetBytes(keyAESEncrypted)
		if v.Cmp(n) >= 0 {
			continue
		}
		// 9) encrypted_data := RSA(key_aes_encrypted, server_pubkey), exactly 256 bytes with leading zeros
		c := new(big.Int).Exp(v, big.NewInt(e), n)
		out := make([]byte, 256)
		c.FillBytes(out)
		return &C2RSAPadTrace{Encrypted: out, KeysUsed: i + 1, KeyAESEncr: keyAESEncrypted, DataWithPad: dataWithPadding}, nil
	}
	return nil, errors.New("refmodel: all candidate temp_keys gave key_aes_encrypted >= N")
}

// C2RSAPadDecode reverses steps 9..1 and returns data_with_padding (192 bytes).
func C2RSAPadDecode(encrypted []byte, k *C2RSAPriv) ([]byte, error) {
	c := new(big.Int).SetBytes(encrypted)
	m := k.rawDecrypt(c)
	if m.BitLen() > 2048 {
		return nil, errors.New("refmodel: decrypted value does not fit 256 bytes")
	}
	keyAESEncrypted := make([]byte, 256)
	m.FillBytes(keyAESEncrypted)
	tempKeyXor, aesEncrypted := keyAESEncrypted[:32], keyAESEncrypted[32:]
	h2 := sha256.Sum256(aesEncrypted)
	tempKey := make([]byte, 32)
	for j := range tempKey {
		tempKey[j] = tempKeyXor[j] ^ h2[j]
	}
	dataWithHash := IGEDecrypt(tempKey, make([]byte, 32), aesEncrypted)
	dataWithPadding := c2byteReverse(dataWithHash[:192])
	h := sha256.Sum256(append(append([]byte(nil), tempKey...), dataWithPadding...))
	if !bytes.Equal(h[:], dataWithHash[192:]) {
		return nil, errors.New("refmodel: SHA256(temp_key + data_with_padding) mismatch")
	}
	return dataWithPadding, nil
}

// C2HashedDecode255 decrypts a legacy "data_with_hash" ciphertext and returns
// the 255 bytes SHA1(data) + data + random bytes.
func C2HashedDecode255(encrypted []byte, k *C2RSAPriv) ([]byte, error) {
	m := k.rawDecrypt(new(big.Int).SetBytes(encrypted))
	if m.BitLen() > 255*8 {
		return nil, errors.New("refmodel: decrypted value longer than 255 bytes")
	}
	out := make([]byte, 255)
	m.FillBytes(out)
	return out, nil
}

// C2HashedCheck reports whether dwh = SHA1(data) + data + anything.
func C2HashedCheck(dwh, data []byte) bool {
	if len(dwh) != 255 || len(data) > 235 {
		return false
	}
	h := sha1.Sum(data)
	return bytes.Equal(dwh[:20], h[:]) && bytes.Equal(dwh[20:20+len(data)], data)
}

// C2HashedEncode builds the legacy ciphertext for data and the given random tail (255-20-len(data) bytes).
func C2HashedEncode(data, tail []byte, n *big.Int, e int64) ([]byte, error) {
	if 20+len(data)+len(tail) != 255 {
		return nil, errors.New("refmodel: data_with_hash must be 255 bytes")
	}
	h := sha1.Sum(data)
	dwh := append(append(append([]byte(nil), h[:]...), data...), tail...)
	c := new(big.Int).Exp(new(big.Int).SetBytes(dwh), big.NewInt(e), n)
	out := make([]byte, 256)
	c.FillBytes(out)
	return out, nil
}
