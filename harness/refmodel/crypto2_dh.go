package refmodel

// Reference decisions for the DH parameter checks, written from the text of
// core.telegram.org/mtproto/auth_key ("Client is expected to check whether
// p = dh_prime is a safe 2048-bit prime (meaning that both p and (p-1)/2 are
// prime, and that 2^2047 < p < 2^2048), and that g generates a cyclic subgroup
// of prime order (p-1)/2, i.e. is a quadratic residue mod p. Since g is always
// equal to 2, 3, 4, 5, 6 or 7 ...", "both sides are to check that g, g_a and
// g_b are greater than 1 and less than dh_prime - 1. We recommend checking that
// g_a and g_b are between 2^{2048-64} and dh_prime - 2^{2048-64} as well.").
//
// The quadratic-residue property is decided by Euler's criterion, not by the
// residue table the code under test uses. Shared with the code under test:
// math/big only.

import (
	"math/big"
	"math/bits"
)

var (
	c2bigOne = big.NewInt(1)
	c2bigTwo = big.NewInt(2)
)

// C2EulerQR reports whether g is a non-zero quadratic residue modulo the odd
// prime p: g^((p-1)/2) = 1 (mod p).
func C2EulerQR(g int64, p *big.Int) bool {
	e := new(big.Int).Sub(p, c2bigOne)
	e.Rsh(e, 1)
	r := new(big.Int).Exp(big.NewInt(g), e, p)
	return r.Cmp(c2bigOne) == 0
}

// C2EulerQR64 is C2EulerQR for word-sized primes (128-bit intermediate products).
func C2EulerQR64(g, p uint64) bool {
	g %= p
	e := (p - 1) / 2
	r := uint64(1)
	for ; e > 0; e >>= 1 {
		if e&1 == 1 {
			hi, lo := bits.Mul64(r, g)
			_, r = bits.Div64(hi, lo, p)
		}
		hi, lo := bits.Mul64(g, g)
		_, g = bits.Div64(hi, lo, p)
	}
	return r == 1
}

// C2SpecAcceptG: "g is always equal to 2, 3, 4, 5, 6 or 7" and is a quadratic residue mod p.
// Meaningful for primes p > 7 only.
func C2SpecAcceptG(g int, p *big.Int) bool {
	return g >= 2 && g <= 7 && C2EulerQR(int64(g), p)
}

// C2IsSafePrime: both p and (p-1)/2 are prime (Miller-Rabin with the given number of rounds + Baillie-PSW).
func C2IsSafePrime(p *big.Int, rounds int) bool {
	if p.Sign() <= 0 || p.Bit(0) == 0 {
		return false
	}
	if !p.ProbablyPrime(rounds) {
		return false
	}
	q := new(big.Int).Sub(p, c2bigOne)
	q.Rsh(q, 1)
	return q.ProbablyPrime(rounds)
}

// C2Is2048 reports 2^2047 < p < 2^2048.
func C2Is2048(p *big.Int) bool {
	lo := new(big.Int).Lsh(c2bigOne, 2047)
	hi := new(big.Int).Lsh(c2bigOne, 2048)
	return p.Cmp(lo) > 0 && p.Cmp(hi) < 0
}

// C2SpecAcceptDH is the specification's acceptance condition for (g, dh_prime).
func C2SpecAcceptDH(g int, p *big.Int, rounds int) bool {
	return C2Is2048(p) && C2IsSafePrime(p, rounds) && C2SpecAcceptG(g, p)
}

// C2SpecInRange: lo < x < hi.
func C2SpecInRange(x, lo, hi *big.Int) bool {
	return lo.Cmp(x) < 0 && x.Cmp(hi) < 0
}

// C2SpecAcceptDHParams: 1 < g, g_a, g_b < dh_prime - 1 and
// 2^{2048-64} < g_a, g_b < dh_prime - 2^{2048-64} (strictly inside, as the property states).
func C2SpecAcceptDHParams(p, g, ga, gb *big.Int) bool {
	pm1 := new(big.Int).Sub(p, c2bigOne)
	margin := new(big.Int).Lsh(c2bigOne, 2048-64)
	hi := new(big.Int).Sub(p, margin)
	for _, x := range []*big.Int{g, ga, gb} {
		if !(x.Cmp(c2bigOne) > 0 && x.Cmp(pm1) < 0) {
			return false
		}
	}
	for _, x := range []*big.Int{ga, gb} {
		if !(x.Cmp(margin) > 0 && x.Cmp(hi) < 0) {
			return false
		}
	}
	return true
}

// C2Sieve returns a table t with t[i] == true iff i is composite (i >= 2), for i < n.
func C2Sieve(n int) []bool {
	t := make([]bool, n)
	for i := 2; i*i < n; i++ {
		if !t[i] {
			for j := i * i; j < n; j += i {
				t[j] = true
			}
		}
	}
	return t
}

// C2PrimesBelow lists all primes < n.
func C2PrimesBelow(n int) []uint64 {
	t := C2Sieve(n)
	var out []uint64
	for i := 2; i < n; i++ {
		if !t[i] {
			out = append(out, uint64(i))
		}
	}
	return out
}

// C2TrialFactor returns the prime factorisation of n (with multiplicity,
// ascending) by trial division. Intended for n up to about 2^45.
func C2TrialFactor(n uint64) []uint64 {
	var out []uint64
	for n > 1 && n%2 == 0 {
		out = append(out, 2)
		n /= 2
	}
	for d := uint64(3); d*d <= n; d += 2 {
		for n%d == 0 {
			out = append(out, d)
			n /= d
		}
	}
	if n > 1 {
		out = append(out, n)
	}
	return out
}

// C2IsPrime64 decides primality of a 64-bit number (math/big: Baillie-PSW is exact below 2^64).
func C2IsPrime64(n uint64) bool {
	return new(big.Int).SetUint64(n).ProbablyPrime(1)
}

// C2SpecResidueRule is the residue rule as written in the specification text
// ("p mod 8 = 7 for g = 2; p mod 3 = 2 for g = 3; no extra condition for g = 4;
// p mod 5 = 1 or 4 for g = 5; p mod 24 = 19 or 23 for g = 6; and p mod 7 = 3, 5
// or 6 for g = 7"), evaluated with big.Int.Mod for a positive p of any size.
// It says what CheckGP must answer for ANY positive p, prime or not; for primes
// p = 3 mod 4 it coincides with Euler's criterion (C2SpecAcceptG).
func C2SpecResidueRule(g int, p *big.Int) bool {
	mod := func(k int64) int64 { return new(big.Int).Mod(p, big.NewInt(k)).Int64() }
	switch g {
	case 2:
		return mod(8) == 7
	case 3:
		return mod(3) == 2
	case 4:
		return true
	case 5:
		return mod(5) == 1 || mod(5) == 4
	case 6:
		return mod(24) == 19 || mod(24) == 23
	case 7:
		return mod(7) == 3 || mod(7) == 5 || mod(7) == 6
	}
	return false
}
