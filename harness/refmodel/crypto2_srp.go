package refmodel

// Telegram's SRP variant, written from the text of core.telegram.org/api/srp:
//
//	H(data) := sha256(data)
//	SH(data, salt) := H(salt | data | salt)
//	PH1(password, salt1, salt2) := SH(SH(password, salt1), salt2)
//	PH2(password, salt1, salt2) := SH(pbkdf2(sha512, PH1(password, salt1, salt2), salt1, 100000), salt2)
//	k := H(p | g);  g_a := pow(g, a) mod p;  g_b := srp_B;  u := H(g_a | g_b)
//	x := PH2(password, salt1, salt2);  v := pow(g, x) mod p;  k_v := (k * v) mod p
//	t := (g_b - k_v) mod p (positive modulo);  s_a := pow(t, a + u * x) mod p;  k_a := H(s_a)
//	M1 := H(H(p) xor H(g) | H(salt1) | H(salt2) | g_a | g_b | k_a)
//
// "all numbers are big endian, padded to 2048 bits". PBKDF2 is implemented here
// from RFC 8018 section 5.2 over crypto/hmac + crypto/sha512 (the code under
// test uses golang.org/x/crypto/pbkdf2). The server side (verifier) follows
// SRP-6a as the page describes it: the server stores v, sends
// B = (k*v + g^b) mod p and checks M1 with S = (A * v^u)^b mod p.

import (
	"bytes"
	"crypto/hmac"
	"crypto/sha256"
	"crypto/sha512"
	"encoding/binary"
	"math/big"
)

func c2srpH(parts ...[]byte) []byte {
	h := sha256.New()
	for _, p := range parts {
		h.Write(p)
	}
	return h.Sum(nil)
}

func c2srpSH(data, salt []byte) []byte { return c2srpH(salt, data, salt) }

// C2SRPPH1 is the primary password hashing function.
func C2SRPPH1(password, salt1, salt2 []byte) []byte {
	return c2srpSH(c2srpSH(password, salt1), salt2)
}

// C2PBKDF2SHA512 derives dkLen bytes: T_i = U_1 xor ... xor U_c, U_1 = PRF(P, S | INT(i)), U_j = PRF(P, U_{j-1}).
func C2PBKDF2SHA512(password, salt []byte, iter, dkLen int) []byte {
	prf := hmac.New(sha512.New, password)
	hLen := prf.Size()
	var dk []byte
	for block := uint32(1); len(dk) < dkLen; block++ {
		var idx [4]byte
		binary.BigEndian.PutUint32(idx[:], block)
		prf.Reset()
		prf.Write(salt)
		prf.Write(idx[:])
		u := prf.Sum(nil)
		t := append([]byte(nil), u...)
		for c := 2; c <= iter; c++ {
			prf.Reset()
			prf.Write(u)
			u = prf.Sum(u[:0])
			for j := 0; j < hLen; j++ {
				t[j] ^= u[j]
			}
		}
		dk = append(dk, t...)
	}
	return dk[:dkLen]
}

// C2SRPPH2 is the secondary password hashing function (dkLen 64 = the SHA-512 output size).
func C2SRPPH2(password, salt1, salt2 []byte) []byte {
	return c2srpSH(C2PBKDF2SHA512(C2SRPPH1(password, salt1, salt2), salt1, 100000, 64), salt2)
}

// C2Pad2048 is the big-endian form padded to 2048 bits (nil if it does not fit).
func C2Pad2048(x *big.Int) []byte {
	if x.Sign() < 0 || x.BitLen() > 2048 {
		return nil
	}
	out := make([]byte, 256)
	x.FillBytes(out)
	return out
}

// C2SRPGroup is a verified (g, p).
type C2SRPGroup struct {
	G int64
	P *big.Int
}

func (gr C2SRPGroup) k() *big.Int {
	return new(big.Int).SetBytes(c2srpH(C2Pad2048(gr.P), C2Pad2048(big.NewInt(gr.G))))
}

func (gr C2SRPGroup) m1(salt1, salt2, ga, gb, ka []byte) []byte {
	hp := c2srpH(C2Pad2048(gr.P))
	hg := c2srpH(C2Pad2048(big.NewInt(gr.G)))
	x := make([]byte, 32)
	for i := range x {
		x[i] = hp[i] ^ hg[i]
	}
	return c2srpH(x, c2srpH(salt1), c2srpH(salt2), ga, gb, ka)
}

// C2SRPX is x := PH2(password, salt1, salt2) as a number.
func C2SRPX(password, salt1, salt2 []byte) *big.Int {
	return new(big.Int).SetBytes(C2SRPPH2(password, salt1, salt2))
}

// C2SRPClient computes the specification's (A, M1) for x = C2SRPX(password, salt1, salt2),
// client secret a and server value B (0 <= B < 2^2048).
func C2SRPClient(gr C2SRPGroup, x *big.Int, salt1, salt2 []byte, a, B *big.Int) (A, M1 []byte) {
	g := big.NewInt(gr.G)
	p := gr.P
	ga := C2Pad2048(new(big.Int).Exp(g, a, p))
	gb := C2Pad2048(B)
	u := new(big.Int).SetBytes(c2srpH(ga, gb))
	v := new(big.Int).Exp(g, x, p)
	kv := new(big.Int).Mul(gr.k(), v)
	kv.Mod(kv, p)
	t := new(big.Int).Sub(B, kv)
	t.Mod(t, p) // Go's Mod is the Euclidean (non-negative) modulus
	e := new(big.Int).Mul(u, x)
	e.Add(e, a)
	sa := C2Pad2048(new(big.Int).Exp(t, e, p))
	ka := c2srpH(sa)
	return ga, gr.m1(salt1, salt2, ga, gb, ka)
}

// C2SRPVerifier is the server side for one account.
type C2SRPVerifier struct {
	Group        C2SRPGroup
	Salt1, Salt2 []byte
	V            *big.Int // password verifier v = g^x mod p
	b            *big.Int
	B            *big.Int
}

// C2NewSRPVerifier registers the password with x = C2SRPX(password, salt1, salt2)
// (stores only v = g^x mod p) and picks the server secret b.
func C2NewSRPVerifier(gr C2SRPGroup, x *big.Int, salt1, salt2 []byte, b *big.Int) *C2SRPVerifier {
	s := &C2SRPVerifier{Group: gr, Salt1: salt1, Salt2: salt2, V: new(big.Int).Exp(big.NewInt(gr.G), x, gr.P), b: b}
	// B = (k*v + g^b) mod p
	s.B = new(big.Int).Mul(gr.k(), s.V)
	s.B.Add(s.B, new(big.Int).Exp(big.NewInt(gr.G), b, gr.P))
	s.B.Mod(s.B, gr.P)
	return s
}

// SetSecret picks the server secret b for a verifier whose V was stored earlier and computes B = (k*v + g^b) mod p.
func (s *C2SRPVerifier) SetSecret(b *big.Int) {
	s.b = b
	s.B = new(big.Int).Mul(s.Group.k(), s.V)
	s.B.Add(s.B, new(big.Int).Exp(big.NewInt(s.Group.G), b, s.Group.P))
	s.B.Mod(s.B, s.Group.P)
}

// Check decides whether (A, M1) proves knowledge of the registered password.
func (s *C2SRPVerifier) Check(A, M1 []byte) bool {
	if len(A) != 256 {
		return false
	}
	p := s.Group.P
	a := new(big.Int).SetBytes(A)
	// the server refuses A = 0 mod p (and values outside the group)
	if a.Sign() == 0 || a.Cmp(p) >= 0 {
		return false
	}
	gb := C2Pad2048(s.B)
	u := new(big.Int).SetBytes(c2srpH(A, gb))
	// S = (A * v^u)^b mod p
	S := new(big.Int).Exp(s.V, u, p)
	S.Mul(S, a)
	S.Mod(S, p)
	S.Exp(S, s.b, p)
	ka := c2srpH(C2Pad2048(S))
	return bytes.Equal(M1, s.Group.m1(s.Salt1, s.Salt2, A, gb, ka))
}
