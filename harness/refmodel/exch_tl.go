package refmodel

// Minimal TL (de)serialisation of the messages of "Creating an Authorization
// Key" (core.telegram.org/mtproto/auth_key), written from the TL schema text:
//
//	req_pq#60469778 nonce:int128 = ResPQ;
//	req_pq_multi#be7e8ef1 nonce:int128 = ResPQ;
//	resPQ#05162463 nonce:int128 server_nonce:int128 pq:string server_public_key_fingerprints:Vector<long> = ResPQ;
//	p_q_inner_data#83c95aec pq:string p:string q:string nonce:int128 server_nonce:int128 new_nonce:int256 = P_Q_inner_data;
//	p_q_inner_data_dc#a9f55f95 pq:string p:string q:string nonce:int128 server_nonce:int128 new_nonce:int256 dc:int = P_Q_inner_data;
//	p_q_inner_data_temp#3c6a84d4 ... new_nonce:int256 expires_in:int = P_Q_inner_data;
//	p_q_inner_data_temp_dc#56fddf88 ... new_nonce:int256 dc:int expires_in:int = P_Q_inner_data;
//	req_DH_params#d712e4be nonce:int128 server_nonce:int128 p:string q:string public_key_fingerprint:long encrypted_data:string = Server_DH_Params;
//	server_DH_params_fail#79cb045d nonce:int128 server_nonce:int128 new_nonce_hash:int128 = Server_DH_Params;
//	server_DH_params_ok#d0e8075c nonce:int128 server_nonce:int128 encrypted_answer:string = Server_DH_Params;
//	server_DH_inner_data#b5890dba nonce:int128 server_nonce:int128 g:int dh_prime:string g_a:string server_time:int = Server_DH_inner_data;
//	client_DH_inner_data#6643b654 nonce:int128 server_nonce:int128 retry_id:long g_b:string = Client_DH_Inner_Data;
//	set_client_DH_params#f5045f1f nonce:int128 server_nonce:int128 encrypted_data:string = Set_client_DH_params_answer;
//	dh_gen_ok#3bcbf734 nonce:int128 server_nonce:int128 new_nonce_hash1:int128 = Set_client_DH_params_answer;
//	dh_gen_retry#46dc1fb9 nonce:int128 server_nonce:int128 new_nonce_hash2:int128 = Set_client_DH_params_answer;
//	dh_gen_fail#a69dae02 nonce:int128 server_nonce:int128 new_nonce_hash3:int128 = Set_client_DH_params_answer;
//
// and of the unencrypted message envelope
// (auth_key_id:int64 = 0, message_id:int64, message_data_length:int32, message_data).

import (
	"encoding/binary"
	"errors"
	"fmt"
)

// Constructor ids.
const (
	ExIDReqPQ            = 0x60469778
	ExIDReqPQMulti       = 0xbe7e8ef1
	ExIDResPQ            = 0x05162463
	ExIDPQInner          = 0x83c95aec
	ExIDPQInnerDC        = 0xa9f55f95
	ExIDPQInnerTemp      = 0x3c6a84d4
	ExIDPQInnerTempDC    = 0x56fddf88
	ExIDReqDHParams      = 0xd712e4be
	ExIDServerDHFail     = 0x79cb045d
	ExIDServerDHOk       = 0xd0e8075c
	ExIDServerDHInner    = 0xb5890dba
	ExIDClientDHInner    = 0x6643b654
	ExIDSetClientDH      = 0xf5045f1f
	ExIDDHGenOk          = 0x3bcbf734
	ExIDDHGenRetry       = 0x46dc1fb9
	ExIDDHGenFail        = 0xa69dae02
	ExIDVector           = 0x1cb5c415
	exIdNameUnknownFmt   = "0x%08x"
	exEnvelopeHeaderSize = 20
)

// ExConstructorName names the exchange constructors.
func ExConstructorName(id uint32) string {
	switch id {
	case ExIDReqPQ:
		return "req_pq"
	case ExIDReqPQMulti:
		return "req_pq_multi"
	case ExIDResPQ:
		return "resPQ"
	case ExIDReqDHParams:
		return "req_DH_params"
	case ExIDServerDHFail:
		return "server_DH_params_fail"
	case ExIDServerDHOk:
		return "server_DH_params_ok"
	case ExIDSetClientDH:
		return "set_client_DH_params"
	case ExIDDHGenOk:
		return "dh_gen_ok"
	case ExIDDHGenRetry:
		return "dh_gen_retry"
	case ExIDDHGenFail:
		return "dh_gen_fail"
	}
	return fmt.Sprintf(exIdNameUnknownFmt, id)
}

// ExTLW is a TL writer.
type ExTLW struct{ B []byte }

func (w *ExTLW) U32(v uint32) { w.B = binary.LittleEndian.AppendUint32(w.B, v) }
func (w *ExTLW) I32(v int32)  { w.U32(uint32(v)) }
func (w *ExTLW) I64(v int64)  { w.B = binary.LittleEndian.AppendUint64(w.B, uint64(v)) }
func (w *ExTLW) Raw(b []byte) { w.B = append(w.B, b...) }

// Bytes writes a TL string: length < 254: one length byte, data, zero padding
// to a multiple of 4; otherwise 0xfe, 3 length bytes little endian, data, padding.
func (w *ExTLW) Bytes(b []byte) {
	n := len(b)
	if n < 254 {
		w.B = append(w.B, byte(n))
		w.B = append(w.B, b...)
		n++
	} else {
		w.B = append(w.B, 0xfe, byte(n), byte(n>>8), byte(n>>16))
		w.B = append(w.B, b...)
		n += 4
	}
	for n%4 != 0 {
		w.B = append(w.B, 0)
		n++
	}
}

// ExTLR is a TL reader.
type ExTLR struct {
	B   []byte
	Err error
}

func (r *ExTLR) take(n int) []byte {
	if r.Err != nil {
		return make([]byte, n)
	}
	if n < 0 || len(r.B) < n {
		r.Err = errors.New("refmodel tl: short buffer")
		return make([]byte, n)
	}
	v := r.B[:n]
	r.B = r.B[n:]
	return v
}

func (r *ExTLR) U32() uint32 { return binary.LittleEndian.Uint32(r.take(4)) }
func (r *ExTLR) I32() int32  { return int32(r.U32()) }
func (r *ExTLR) I64() int64  { return int64(binary.LittleEndian.Uint64(r.take(8))) }
func (r *ExTLR) I128() (v [16]byte) {
	copy(v[:], r.take(16))
	return
}
func (r *ExTLR) I256() (v [32]byte) {
	copy(v[:], r.take(32))
	return
}

// Bytes reads a TL string.
func (r *ExTLR) Bytes() []byte {
	first := r.take(1)[0]
	var n, hdr int
	if first == 0xfe {
		l := r.take(3)
		n = int(l[0]) | int(l[1])<<8 | int(l[2])<<16
		hdr = 4
	} else if first == 0xff {
		if r.Err == nil {
			r.Err = errors.New("refmodel tl: 0xff string prefix")
		}
		return nil
	} else {
		n = int(first)
		hdr = 1
	}
	v := append([]byte(nil), r.take(n)...)
	for (hdr+n)%4 != 0 {
		r.take(1)
		n++
	}
	if r.Err != nil {
		return nil
	}
	return v
}

// ExEnvelope is an unencrypted MTProto message.
type ExEnvelope struct {
	AuthKeyID int64
	MsgID     int64
	Body      []byte
	Trailing  int // bytes after the declared body
}

// Encode serialises the envelope.
func (e ExEnvelope) Encode() []byte {
	w := &ExTLW{}
	w.I64(e.AuthKeyID)
	w.I64(e.MsgID)
	w.I32(int32(len(e.Body)))
	w.Raw(e.Body)
	return w.B
}

// ExParseEnvelope parses an unencrypted message.
func ExParseEnvelope(b []byte) (ExEnvelope, error) {
	if len(b) < exEnvelopeHeaderSize {
		return ExEnvelope{}, errors.New("refmodel: envelope too short")
	}
	r := &ExTLR{B: b}
	var e ExEnvelope
	e.AuthKeyID = r.I64()
	e.MsgID = r.I64()
	n := int(r.I32())
	if n < 0 || n > len(r.B) {
		return e, errors.New("refmodel: envelope length")
	}
	e.Body = append([]byte(nil), r.B[:n]...)
	e.Trailing = len(r.B) - n
	return e, nil
}

// ExBodyID returns the constructor id of a TL body (0 if too short).
func ExBodyID(body []byte) uint32 {
	if len(body) < 4 {
		return 0
	}
	return binary.LittleEndian.Uint32(body)
}

// ExReqPQ is req_pq / req_pq_multi.
type ExReqPQ struct {
	ID    uint32
	Nonce [16]byte
}

func (m ExReqPQ) Encode() []byte {
	w := &ExTLW{}
	w.U32(m.ID)
	w.Raw(m.Nonce[:])
	return w.B
}

func ExParseReqPQ(b []byte) (m ExReqPQ, err error) {
	r := &ExTLR{B: b}
	m.ID = r.U32()
	if m.ID != ExIDReqPQ && m.ID != ExIDReqPQMulti {
		return m, fmt.Errorf("refmodel: not req_pq: %08x", m.ID)
	}
	m.Nonce = r.I128()
	return m, r.Err
}

// ExResPQ is resPQ.
type ExResPQ struct {
	Nonce, ServerNonce [16]byte
	PQ                 []byte
	Fingerprints       []int64
}

func (m ExResPQ) Encode() []byte {
	w := &ExTLW{}
	w.U32(ExIDResPQ)
	w.Raw(m.Nonce[:])
	w.Raw(m.ServerNonce[:])
	w.Bytes(m.PQ)
	w.U32(ExIDVector)
	w.I32(int32(len(m.Fingerprints)))
	for _, f := range m.Fingerprints {
		w.I64(f)
	}
	return w.B
}

func ExParseResPQ(b []byte) (m ExResPQ, err error) {
	r := &ExTLR{B: b}
	if id := r.U32(); id != ExIDResPQ {
		return m, fmt.Errorf("refmodel: not resPQ: %08x", id)
	}
	m.Nonce = r.I128()
	m.ServerNonce = r.I128()
	m.PQ = r.Bytes()
	if id := r.U32(); id != ExIDVector {
		return m, fmt.Errorf("refmodel: not vector: %08x", id)
	}
	n := int(r.I32())
	if n < 0 || n > 1024 {
		return m, errors.New("refmodel: vector size")
	}
	for i := 0; i < n; i++ {
		m.Fingerprints = append(m.Fingerprints, r.I64())
	}
	return m, r.Err
}

// ExReqDHParams is req_DH_params.
type ExReqDHParams struct {
	Nonce, ServerNonce [16]byte
	P, Q               []byte
	Fingerprint        int64
	EncryptedData      []byte
}

func (m ExReqDHParams) Encode() []byte {
	w := &ExTLW{}
	w.U32(ExIDReqDHParams)
	w.Raw(m.Nonce[:])
	w.Raw(m.ServerNonce[:])
	w.Bytes(m.P)
	w.Bytes(m.Q)
	w.I64(m.Fingerprint)
	w.Bytes(m.EncryptedData)
	return w.B
}

func ExParseReqDHParams(b []byte) (m ExReqDHParams, err error) {
	r := &ExTLR{B: b}
	if id := r.U32(); id != ExIDReqDHParams {
		return m, fmt.Errorf("refmodel: not req_DH_params: %08x", id)
	}
	m.Nonce = r.I128()
	m.ServerNonce = r.I128()
	m.P = r.Bytes()
	m.Q = r.Bytes()
	m.Fingerprint = r.I64()
	m.EncryptedData = r.Bytes()
	return m, r.Err
}

// ExPQInner is any of the four p_q_inner_data constructors.
type ExPQInner struct {
	ID                 uint32
	PQ, P, Q           []byte
	Nonce, ServerNonce [16]byte
	NewNonce           [32]byte
	DC                 int32 // *_dc constructors
	ExpiresIn          int32 // *_temp constructors
}

// HasDC / IsTemp classify the constructor.
func (m ExPQInner) HasDC() bool  { return m.ID == ExIDPQInnerDC || m.ID == ExIDPQInnerTempDC }
func (m ExPQInner) IsTemp() bool { return m.ID == ExIDPQInnerTemp || m.ID == ExIDPQInnerTempDC }

// ExParsePQInner parses the object at the start of b (b may carry trailing padding).
func ExParsePQInner(b []byte) (m ExPQInner, err error) {
	r := &ExTLR{B: b}
	m.ID = r.U32()
	switch m.ID {
	case ExIDPQInner, ExIDPQInnerDC, ExIDPQInnerTemp, ExIDPQInnerTempDC:
	default:
		return m, fmt.Errorf("refmodel: not p_q_inner_data: %08x", m.ID)
	}
	m.PQ = r.Bytes()
	m.P = r.Bytes()
	m.Q = r.Bytes()
	m.Nonce = r.I128()
	m.ServerNonce = r.I128()
	m.NewNonce = r.I256()
	if m.HasDC() {
		m.DC = r.I32()
	}
	if m.IsTemp() {
		m.ExpiresIn = r.I32()
	}
	return m, r.Err
}

// ExServerDHParams is server_DH_params_ok (ID = ExIDServerDHOk, Payload =
// encrypted_answer) or server_DH_params_fail (Hash = new_nonce_hash).
type ExServerDHParams struct {
	ID                 uint32
	Nonce, ServerNonce [16]byte
	EncryptedAnswer    []byte
	Hash               [16]byte
}

func (m ExServerDHParams) Encode() []byte {
	w := &ExTLW{}
	w.U32(m.ID)
	w.Raw(m.Nonce[:])
	w.Raw(m.ServerNonce[:])
	if m.ID == ExIDServerDHFail {
		w.Raw(m.Hash[:])
	} else {
		w.Bytes(m.EncryptedAnswer)
	}
	return w.B
}

func ExParseServerDHParams(b []byte) (m ExServerDHParams, err error) {
	r := &ExTLR{B: b}
	m.ID = r.U32()
	m.Nonce = r.I128()
	m.ServerNonce = r.I128()
	switch m.ID {
	case ExIDServerDHOk:
		m.EncryptedAnswer = r.Bytes()
	case ExIDServerDHFail:
		m.Hash = r.I128()
	default:
		return m, fmt.Errorf("refmodel: not Server_DH_Params: %08x", m.ID)
	}
	return m, r.Err
}

// ExServerDHInner is server_DH_inner_data.
type ExServerDHInner struct {
	Nonce, ServerNonce [16]byte
	G                  int32
	DHPrime, GA        []byte
	ServerTime         int32
}

func (m ExServerDHInner) Encode() []byte {
	w := &ExTLW{}
	w.U32(ExIDServerDHInner)
	w.Raw(m.Nonce[:])
	w.Raw(m.ServerNonce[:])
	w.I32(m.G)
	w.Bytes(m.DHPrime)
	w.Bytes(m.GA)
	w.I32(m.ServerTime)
	return w.B
}

func ExParseServerDHInner(b []byte) (m ExServerDHInner, err error) {
	r := &ExTLR{B: b}
	if id := r.U32(); id != ExIDServerDHInner {
		return m, fmt.Errorf("refmodel: not server_DH_inner_data: %08x", id)
	}
	m.Nonce = r.I128()
	m.ServerNonce = r.I128()
	m.G = r.I32()
	m.DHPrime = r.Bytes()
	m.GA = r.Bytes()
	m.ServerTime = r.I32()
	return m, r.Err
}

// ExSetClientDH is set_client_DH_params.
type ExSetClientDH struct {
	Nonce, ServerNonce [16]byte
	EncryptedData      []byte
}

func (m ExSetClientDH) Encode() []byte {
	w := &ExTLW{}
	w.U32(ExIDSetClientDH)
	w.Raw(m.Nonce[:])
	w.Raw(m.ServerNonce[:])
	w.Bytes(m.EncryptedData)
	return w.B
}

func ExParseSetClientDH(b []byte) (m ExSetClientDH, err error) {
	r := &ExTLR{B: b}
	if id := r.U32(); id != ExIDSetClientDH {
		return m, fmt.Errorf("refmodel: not set_client_DH_params: %08x", id)
	}
	m.Nonce = r.I128()
	m.ServerNonce = r.I128()
	m.EncryptedData = r.Bytes()
	return m, r.Err
}

// ExClientDHInner is client_DH_inner_data.
type ExClientDHInner struct {
	Nonce, ServerNonce [16]byte
	RetryID            int64
	GB                 []byte
}

func ExParseClientDHInner(b []byte) (m ExClientDHInner, err error) {
	r := &ExTLR{B: b}
	if id := r.U32(); id != ExIDClientDHInner {
		return m, fmt.Errorf("refmodel: not client_DH_inner_data: %08x", id)
	}
	m.Nonce = r.I128()
	m.ServerNonce = r.I128()
	m.RetryID = r.I64()
	m.GB = r.Bytes()
	return m, r.Err
}

// ExDHGen is dh_gen_ok / dh_gen_retry / dh_gen_fail.
type ExDHGen struct {
	ID                 uint32
	Nonce, ServerNonce [16]byte
	Hash               [16]byte
}

func (m ExDHGen) Encode() []byte {
	w := &ExTLW{}
	w.U32(m.ID)
	w.Raw(m.Nonce[:])
	w.Raw(m.ServerNonce[:])
	w.Raw(m.Hash[:])
	return w.B
}

func ExParseDHGen(b []byte) (m ExDHGen, err error) {
	r := &ExTLR{B: b}
	m.ID = r.U32()
	switch m.ID {
	case ExIDDHGenOk, ExIDDHGenRetry, ExIDDHGenFail:
	default:
		return m, fmt.Errorf("refmodel: not Set_client_DH_params_answer: %08x", m.ID)
	}
	m.Nonce = r.I128()
	m.ServerNonce = r.I128()
	m.Hash = r.I128()
	return m, r.Err
}
