// Package refmodel holds independent reference implementations written from
// the MTProto specification text (core.telegram.org/mtproto/description and
// /mtproto/description_v1), never by calling into gotd/td. Only the Go standard
// library primitives are shared with the code under test.
package refmodel

import (
	"crypto/aes"
	"crypto/sha1"
	"crypto/sha256"
	"encoding/binary"
	"errors"
)

// IGEEncrypt: y_i = E(x_i xor y_{i-1}) xor x_{i-1}; iv = y_0 || x_0.
func IGEEncrypt(key, iv, pt []byte) []byte {
	blk, err := aes.NewCipher(key)
	if err != nil {
		panic(err)
	}
	if len(pt)%16 != 0 || len(iv) != 32 {
		panic("refmodel: ige sizes")
	}
	out := make([]byte, len(pt))
	yPrev := append([]byte(nil), iv[:16]...)
	xPrev := append([]byte(nil), iv[16:]...)
	var t [16]byte
	for i := 0; i < len(pt); i += 16 {
		x := pt[i : i+16]
		for j := 0; j < 16; j++ {
			t[j] = x[j] ^ yPrev[j]
		}
		blk.Encrypt(t[:], t[:])
		for j := 0; j < 16; j++ {
			out[i+j] = t[j] ^ xPrev[j]
		}
		copy(xPrev, x)
		copy(yPrev, out[i:i+16])
	}
	return out
}

// IGEDecrypt: x_i = D(y_i xor x_{i-1}) xor y_{i-1}.
func IGEDecrypt(key, iv, ct []byte) []byte {
	blk, err := aes.NewCipher(key)
	if err != nil {
		panic(err)
	}
	if len(ct)%16 != 0 || len(iv) != 32 {
		panic("refmodel: ige sizes")
	}
	out := make([]byte, len(ct))
	yPrev := append([]byte(nil), iv[:16]...)
	xPrev := append([]byte(nil), iv[16:]...)
	var t [16]byte
	for i := 0; i < len(ct); i += 16 {
		y := ct[i : i+16]
		for j := 0; j < 16; j++ {
			t[j] = y[j] ^ xPrev[j]
		}
		blk.Decrypt(t[:], t[:])
		for j := 0; j < 16; j++ {
			out[i+j] = t[j] ^ yPrev[j]
		}
		copy(yPrev, y)
		copy(xPrev, out[i:i+16])
	}
	return out
}

// X returns the spec's x: 0 for messages from client to server, 8 for server to client.
func X(fromServer bool) int {
	if fromServer {
		return 8
	}
	return 0
}

// MsgKey2: msg_key_large = SHA256(substr(auth_key, 88+x, 32) + plaintext + random_padding);
// msg_key = substr(msg_key_large, 8, 16).
func MsgKey2(authKey []byte, padded []byte, x int) (k [16]byte) {
	h := sha256.New()
	h.Write(authKey[88+x : 88+x+32])
	h.Write(padded)
	s := h.Sum(nil)
	copy(k[:], s[8:24])
	return k
}

// KDF2: sha256_a = SHA256(msg_key + substr(auth_key, x, 36));
// sha256_b = SHA256(substr(auth_key, 40+x, 36) + msg_key);
// aes_key = substr(sha256_a, 0, 8) + substr(sha256_b, 8, 16) + substr(sha256_a, 24, 8);
// aes_iv = substr(sha256_b, 0, 8) + substr(sha256_a, 8, 16) + substr(sha256_b, 24, 8).
func KDF2(authKey []byte, msgKey [16]byte, x int) (key, iv [32]byte) {
	a := sha256.Sum256(append(append([]byte{}, msgKey[:]...), authKey[x:x+36]...))
	b := sha256.Sum256(append(append([]byte{}, authKey[40+x:40+x+36]...), msgKey[:]...))
	copy(key[0:8], a[0:8])
	copy(key[8:24], b[8:24])
	copy(key[24:32], a[24:32])
	copy(iv[0:8], b[0:8])
	copy(iv[8:24], a[8:24])
	copy(iv[24:32], b[24:32])
	return
}

// MsgKey1: msg_key = substr(SHA1(plaintext), 4, 16) (MTProto 1.0; plaintext without padding).
func MsgKey1(plaintext []byte) (k [16]byte) {
	s := sha1.Sum(plaintext)
	copy(k[:], s[4:20])
	return
}

// KDF1 (MTProto 1.0):
// sha1_a = SHA1(msg_key + substr(auth_key, x, 32));
// sha1_b = SHA1(substr(auth_key, 32+x, 16) + msg_key + substr(auth_key, 48+x, 16));
// sha1_c = SHA1(substr(auth_key, 64+x, 32) + msg_key);
// sha1_d = SHA1(msg_key + substr(auth_key, 96+x, 32));
// aes_key = substr(sha1_a, 0, 8) + substr(sha1_b, 8, 12) + substr(sha1_c, 4, 12);
// aes_iv = substr(sha1_a, 8, 12) + substr(sha1_b, 0, 8) + substr(sha1_c, 16, 4) + substr(sha1_d, 0, 8).
func KDF1(authKey []byte, msgKey [16]byte, x int) (key, iv [32]byte) {
	cat := func(parts ...[]byte) []byte {
		var r []byte
		for _, p := range parts {
			r = append(r, p...)
		}
		return r
	}
	a := sha1.Sum(cat(msgKey[:], authKey[x:x+32]))
	b := sha1.Sum(cat(authKey[32+x:48+x], msgKey[:], authKey[48+x:64+x]))
	c := sha1.Sum(cat(authKey[64+x:96+x], msgKey[:]))
	d := sha1.Sum(cat(msgKey[:], authKey[96+x:128+x]))
	copy(key[:], cat(a[0:8], b[8:20], c[4:16]))
	copy(iv[:], cat(a[8:20], b[0:8], c[16:20], d[0:8]))
	return
}

// KeyID: the 64 lower-order bits of SHA1(auth_key).
func KeyID(authKey []byte) (id [8]byte) {
	s := sha1.Sum(authKey)
	copy(id[:], s[12:20])
	return
}

// Header of an encrypted MTProto 2.0 message.
type Header struct {
	Salt, Session, MsgID int64
	SeqNo                int32
	Len                  int32 // declared message_data_length
}

// Plain builds salt|session|msg_id|seq_no|len|payload|padding.
func Plain(h Header, payload, padding []byte) []byte {
	b := make([]byte, 32, 32+len(payload)+len(padding))
	binary.LittleEndian.PutUint64(b[0:], uint64(h.Salt))
	binary.LittleEndian.PutUint64(b[8:], uint64(h.Session))
	binary.LittleEndian.PutUint64(b[16:], uint64(h.MsgID))
	binary.LittleEndian.PutUint32(b[24:], uint32(h.SeqNo))
	binary.LittleEndian.PutUint32(b[28:], uint32(h.Len))
	b = append(b, payload...)
	return append(b, padding...)
}

// EncryptPlain encrypts an already padded plaintext (length must be a multiple of 16).
func EncryptPlain(authKey []byte, padded []byte, fromServer bool) []byte {
	x := X(fromServer)
	mk := MsgKey2(authKey, padded, x)
	k, iv := KDF2(authKey, mk, x)
	id := KeyID(authKey)
	out := append([]byte{}, id[:]...)
	out = append(out, mk[:]...)
	return append(out, IGEEncrypt(k[:], iv[:], padded)...)
}

// Encrypt builds a wire message with exactly the given padding bytes.
func Encrypt(authKey []byte, h Header, payload, padding []byte, fromServer bool) []byte {
	return EncryptPlain(authKey, Plain(h, payload, padding), fromServer)
}

// Decrypted message as seen by the reference model.
type Decrypted struct {
	Header
	Padded     []byte // payload + padding
	PaddingLen int
	MsgKeyOK   bool
}

// Decrypt decrypts a wire message sent by (fromServer ? server : client).
func Decrypt(authKey []byte, wire []byte, fromServer bool) (*Decrypted, error) {
	if len(wire) < 24+32 || (len(wire)-24)%16 != 0 {
		return nil, errors.New("refmodel: bad length")
	}
	id := KeyID(authKey)
	if string(id[:]) != string(wire[:8]) {
		return nil, errors.New("refmodel: key id")
	}
	var mk [16]byte
	copy(mk[:], wire[8:24])
	x := X(fromServer)
	k, iv := KDF2(authKey, mk, x)
	pt := IGEDecrypt(k[:], iv[:], wire[24:])
	d := &Decrypted{}
	d.Salt = int64(binary.LittleEndian.Uint64(pt[0:]))
	d.Session = int64(binary.LittleEndian.Uint64(pt[8:]))
	d.MsgID = int64(binary.LittleEndian.Uint64(pt[16:]))
	d.SeqNo = int32(binary.LittleEndian.Uint32(pt[24:]))
	d.Len = int32(binary.LittleEndian.Uint32(pt[28:]))
	d.Padded = pt[32:]
	d.PaddingLen = len(d.Padded) - int(d.Len)
	d.MsgKeyOK = MsgKey2(authKey, pt, x) == mk
	return d, nil
}
