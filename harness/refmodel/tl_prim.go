package refmodel

// Reference codec for the TL primitive ("bare") types, transcribed from the
// serialization specification text (core.telegram.org/mtproto/serialize):
//
//   - int / long / double: 4 / 8 / 8 bytes, little endian (double = IEEE-754 bits);
//   - int128 / int256: 16 / 32 raw bytes;
//   - string / bytes with length L: if L <= 253 one byte L, the L bytes, then 0..3
//     zero bytes so that the total is divisible by 4; if L >= 254 the byte 254,
//     L as 3 little-endian bytes, the L bytes, then 0..3 zero bytes;
//   - Bool: constructor boolTrue#997275b5 or boolFalse#bc799737;
//   - Vector t: constructor vector#1cb5c415, int count, then the items.
//
// Nothing here calls into gotd/td; shifts are written out by hand so that not
// even encoding/binary is shared with the code under test.

import "math"

// Constructor ids fixed by the TL specification.
const (
	TLBoolTrue  uint32 = 0x997275b5
	TLBoolFalse uint32 = 0xbc799737
	TLVectorID  uint32 = 0x1cb5c415
	// TLMaxBytes is the largest length expressible by the 3-byte long form.
	TLMaxBytes = 1<<24 - 1
)

// TLStatus classifies a reference decode.
type TLStatus int

const (
	// TLOk: canonical, decodes to the returned value consuming n bytes.
	TLOk TLStatus = iota
	// TLShort: the input ends before the value (including its padding) does.
	TLShort
	// TLMalformed: enough bytes but not an encoding of the type (first byte 255,
	// unknown Bool constructor, wrong vector id, negative count).
	TLMalformed
	// TLNonCanonical: a decoder may accept or reject; the value/n returned are the
	// lenient reading (non-zero padding bytes, long form used for L < 254).
	TLNonCanonical
)

func (s TLStatus) String() string {
	switch s {
	case TLOk:
		return "ok"
	case TLShort:
		return "short"
	case TLMalformed:
		return "malformed"
	case TLNonCanonical:
		return "noncanonical"
	}
	return "?"
}

// TLPutUint32 appends v little endian.
func TLPutUint32(dst []byte, v uint32) []byte {
	return append(dst, byte(v), byte(v>>8), byte(v>>16), byte(v>>24))
}

// TLPutUint64 appends v little endian.
func TLPutUint64(dst []byte, v uint64) []byte {
	return append(dst, byte(v), byte(v>>8), byte(v>>16), byte(v>>24),
		byte(v>>32), byte(v>>40), byte(v>>48), byte(v>>56))
}

// TLPutInt appends a TL int.
func TLPutInt(dst []byte, v int32) []byte { return TLPutUint32(dst, uint32(v)) }

// TLPutLong appends a TL long.
func TLPutLong(dst []byte, v int64) []byte { return TLPutUint64(dst, uint64(v)) }

// TLPutDouble appends a TL double.
func TLPutDouble(dst []byte, v float64) []byte { return TLPutUint64(dst, math.Float64bits(v)) }

// TLPutBool appends a TL Bool.
func TLPutBool(dst []byte, v bool) []byte {
	if v {
		return TLPutUint32(dst, TLBoolTrue)
	}
	return TLPutUint32(dst, TLBoolFalse)
}

// TLPutRaw appends raw bytes (int128, int256 and opaque bodies).
func TLPutRaw(dst, v []byte) []byte { return append(dst, v...) }

// TLPutVectorHeader appends vector#1cb5c415 and the count.
func TLPutVectorHeader(dst []byte, n int32) []byte {
	return TLPutInt(TLPutUint32(dst, TLVectorID), n)
}

// TLPutBytes appends a TL string / bytes value. len(v) must be <= TLMaxBytes.
func TLPutBytes(dst, v []byte) []byte {
	l := len(v)
	if l > TLMaxBytes {
		panic("refmodel: TL bytes longer than 2^24-1")
	}
	total := 0
	if l <= 253 {
		dst = append(dst, byte(l))
		total = 1 + l
	} else {
		dst = append(dst, 254, byte(l), byte(l>>8), byte(l>>16))
		total = 4 + l
	}
	dst = append(dst, v...)
	for total%4 != 0 {
		dst = append(dst, 0)
		total++
	}
	return dst
}

// TLBytesEncodedLen is the length of the encoding of an L-byte string.
func TLBytesEncodedLen(l int) int {
	n := l + 1
	if l >= 254 {
		n = l + 4
	}
	return (n + 3) / 4 * 4
}

// TLUint32 decodes 4 little-endian bytes.
func TLUint32(b []byte) (v uint32, n int, st TLStatus) {
	if len(b) < 4 {
		return 0, 0, TLShort
	}
	return uint32(b[0]) | uint32(b[1])<<8 | uint32(b[2])<<16 | uint32(b[3])<<24, 4, TLOk
}

// TLUint64 decodes 8 little-endian bytes.
func TLUint64(b []byte) (v uint64, n int, st TLStatus) {
	if len(b) < 8 {
		return 0, 0, TLShort
	}
	for i := 7; i >= 0; i-- {
		v = v<<8 | uint64(b[i])
	}
	return v, 8, TLOk
}

// TLRaw decodes size raw bytes.
func TLRaw(b []byte, size int) (v []byte, n int, st TLStatus) {
	if len(b) < size {
		return nil, 0, TLShort
	}
	return b[:size], size, TLOk
}

// TLBool decodes a Bool.
func TLBool(b []byte) (v bool, n int, st TLStatus) {
	id, _, st := TLUint32(b)
	if st != TLOk {
		return false, 0, st
	}
	switch id {
	case TLBoolTrue:
		return true, 4, TLOk
	case TLBoolFalse:
		return false, 4, TLOk
	}
	return false, 0, TLMalformed
}

// TLVectorHeader decodes a vector header.
func TLVectorHeader(b []byte) (count int32, n int, st TLStatus) {
	id, _, st := TLUint32(b)
	if st != TLOk {
		return 0, 0, st
	}
	if id != TLVectorID {
		return 0, 0, TLMalformed
	}
	c, _, st := TLUint32(b[4:])
	if st != TLOk {
		return 0, 0, st
	}
	if int32(c) < 0 {
		return 0, 0, TLMalformed
	}
	return int32(c), 8, TLOk
}

// TLBytes decodes a string / bytes value. v aliases b.
func TLBytes(b []byte) (v []byte, n int, st TLStatus) {
	if len(b) == 0 {
		return nil, 0, TLShort
	}
	var l, hdr int
	st = TLOk
	switch {
	case b[0] <= 253:
		l, hdr = int(b[0]), 1
	case b[0] == 254:
		if len(b) < 4 {
			return nil, 0, TLShort
		}
		l, hdr = int(b[1])|int(b[2])<<8|int(b[3])<<16, 4
		if l < 254 {
			st = TLNonCanonical
		}
	default: // 255 is not a defined first byte
		return nil, 0, TLMalformed
	}
	total := (hdr + l + 3) / 4 * 4
	if len(b) < total {
		return nil, 0, TLShort
	}
	for _, p := range b[hdr+l : total] {
		if p != 0 {
			st = TLNonCanonical
		}
	}
	return b[hdr : hdr+l], total, st
}
