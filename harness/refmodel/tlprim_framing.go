package refmodel

// Reference (de)serialisers for the MTProto framing objects, transcribed from
// core.telegram.org/mtproto/service_messages and /mtproto/description:
//
//	msg_container#73f1f8dc messages:vector<%Message> = MessageContainer;
//	    (bare vector: int count, then the messages, no vector constructor)
//	message msg_id:long seqno:int bytes:int body:Object = Message;
//	rpc_result#f35c6d01 req_msg_id:long result:Object = RpcResult;
//	gzip_packed#3072cfa1 packed_data:string = Object;
//	unencrypted message: auth_key_id:int64 (= 0) message_id:int64
//	    message_data_length:int32 message_data:bytes
//
// Built only on tl_prim.go and the standard library (compress/gzip).

import (
	"bytes"
	"compress/gzip"
	"hash/fnv"
	"sync"
)

// Constructor ids from the specification.
const (
	MsgContainerID uint32 = 0x73f1f8dc
	RPCResultID    uint32 = 0xf35c6d01
	GzipPackedID   uint32 = 0x3072cfa1
	// MaxContainerBody is the largest message body accepted inside a container
	// (the protocol limits a container to 1 MiB).
	MaxContainerBody = 1 << 20
)

// FrMessage is one element of a container.
type FrMessage struct {
	ID    int64
	SeqNo int32
	Body  []byte
}

// FrPutMessage appends msg_id, seqno, bytes, body.
func FrPutMessage(dst []byte, m FrMessage) []byte {
	dst = TLPutLong(dst, m.ID)
	dst = TLPutInt(dst, m.SeqNo)
	dst = TLPutInt(dst, int32(len(m.Body)))
	return append(dst, m.Body...)
}

// FrPutContainer appends a msg_container.
func FrPutContainer(dst []byte, msgs []FrMessage) []byte {
	dst = TLPutUint32(dst, MsgContainerID)
	dst = TLPutInt(dst, int32(len(msgs)))
	for _, m := range msgs {
		dst = FrPutMessage(dst, m)
	}
	return dst
}

// FrStatus classifies a reference framing decode.
type FrStatus string

const (
	FrOk            FrStatus = "ok"
	FrShort         FrStatus = "short"          // input ends inside the object
	FrWrongID       FrStatus = "wrong-id"       // constructor mismatch
	FrNegativeCount FrStatus = "negative-count" // container count < 0
	FrNegativeLen   FrStatus = "negative-length"
	FrTooLong       FrStatus = "length>1MiB"
	FrBadKeyID      FrStatus = "auth-key-id!=0"
)

// FrMessageDecode decodes one container element.
func FrMessageDecode(b []byte) (m FrMessage, n int, st FrStatus) {
	id, _, s1 := TLUint64(b)
	if s1 != TLOk {
		return m, 0, FrShort
	}
	seq, _, s2 := TLUint32(b[8:])
	if s2 != TLOk {
		return m, 0, FrShort
	}
	l, _, s3 := TLUint32(b[12:])
	if s3 != TLOk {
		return m, 0, FrShort
	}
	switch ln := int32(l); {
	case ln < 0:
		return m, 0, FrNegativeLen
	case ln > MaxContainerBody:
		return m, 0, FrTooLong
	}
	if len(b)-16 < int(l) {
		return m, 0, FrShort
	}
	return FrMessage{ID: int64(id), SeqNo: int32(seq), Body: b[16 : 16+int(l)]}, 16 + int(l), FrOk
}

// FrContainerDecode decodes a msg_container; n is the number of bytes it spans.
func FrContainerDecode(b []byte) (msgs []FrMessage, n int, st FrStatus) {
	id, _, s := TLUint32(b)
	if s != TLOk {
		return nil, 0, FrShort
	}
	if id != MsgContainerID {
		return nil, 0, FrWrongID
	}
	cnt, _, s := TLUint32(b[4:])
	if s != TLOk {
		return nil, 0, FrShort
	}
	if int32(cnt) < 0 {
		return nil, 0, FrNegativeCount
	}
	off := 8
	for i := 0; i < int(cnt); i++ {
		m, k, st := FrMessageDecode(b[off:])
		if st != FrOk {
			return nil, 0, st
		}
		msgs = append(msgs, m)
		off += k
	}
	return msgs, off, FrOk
}

// FrMessagesHash is an order-sensitive digest of a message list.
func FrMessagesHash(msgs []FrMessage) uint64 {
	h := fnv.New64a()
	for _, m := range msgs {
		h.Write(TLPutInt(TLPutInt(TLPutLong(nil, m.ID), m.SeqNo), int32(len(m.Body))))
		h.Write(m.Body)
	}
	return h.Sum64()
}

// FrPutResult appends rpc_result.
func FrPutResult(dst []byte, reqMsgID int64, result []byte) []byte {
	return append(TLPutLong(TLPutUint32(dst, RPCResultID), reqMsgID), result...)
}

// FrResultDecode decodes rpc_result; the result object is the rest of the input.
func FrResultDecode(b []byte) (reqMsgID int64, result []byte, st FrStatus) {
	id, _, s := TLUint32(b)
	if s != TLOk {
		return 0, nil, FrShort
	}
	if id != RPCResultID {
		return 0, nil, FrWrongID
	}
	v, _, s := TLUint64(b[4:])
	if s != TLOk {
		return 0, nil, FrShort
	}
	return int64(v), b[12:], FrOk
}

// FrPutUnencrypted appends an unencrypted message.
func FrPutUnencrypted(dst []byte, msgID int64, data []byte) []byte {
	dst = TLPutLong(dst, 0)
	dst = TLPutLong(dst, msgID)
	dst = TLPutInt(dst, int32(len(data)))
	return append(dst, data...)
}

// FrUnencryptedDecode decodes an unencrypted message.
func FrUnencryptedDecode(b []byte) (msgID int64, data []byte, n int, st FrStatus) {
	key, _, s := TLUint64(b)
	if s != TLOk {
		return 0, nil, 0, FrShort
	}
	if key != 0 {
		return 0, nil, 0, FrBadKeyID
	}
	id, _, s := TLUint64(b[8:])
	if s != TLOk {
		return 0, nil, 0, FrShort
	}
	l, _, s := TLUint32(b[16:])
	if s != TLOk {
		return 0, nil, 0, FrShort
	}
	if int32(l) < 0 {
		return 0, nil, 0, FrNegativeLen
	}
	if len(b)-20 < int(l) {
		return 0, nil, 0, FrShort
	}
	return int64(id), b[20 : 20+int(l)], 20 + int(l), FrOk
}

var (
	gzWritersMu sync.Mutex
	gzWriters   = map[int]*gzip.Writer{}
)

// GzipStream compresses data into one gzip member with the standard library.
func GzipStream(data []byte, level int) []byte {
	var buf bytes.Buffer
	gzWritersMu.Lock()
	defer gzWritersMu.Unlock()
	w := gzWriters[level] // a writer costs ~1 MiB to create: keep one per level
	if w == nil {
		var err error
		if w, err = gzip.NewWriterLevel(&buf, level); err != nil {
			panic(err)
		}
		gzWriters[level] = w
	} else {
		w.Reset(&buf)
	}
	if _, err := w.Write(data); err != nil {
		panic(err)
	}
	if err := w.Close(); err != nil {
		panic(err)
	}
	return buf.Bytes()
}

// FrPutGzipPacked appends gzip_packed with the given (already compressed) stream.
func FrPutGzipPacked(dst, stream []byte) []byte {
	return TLPutBytes(TLPutUint32(dst, GzipPackedID), stream)
}
