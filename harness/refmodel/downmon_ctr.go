package refmodel

import (
	"crypto/aes"
	"crypto/subtle"
	"encoding/binary"
)

// CDNKeystreamXOR is the reference model of Telegram CDN file encryption
// (https://core.telegram.org/cdn#decrypting-files): AES-256-CTR where, for the
// data at byte offset `offset` of the file, the IV is encryption_iv with its
// last 4 bytes replaced by offset/16 in big-endian.
//
// The model is positional: the keystream block that covers file bytes
// [16*b, 16*b+16) is AES_k(iv[:12] ‖ be32(b)), computed independently for each
// block with the raw block cipher (no cipher.NewCTR, no running counter). For
// files below 64 GiB (b < 2^32) this is exactly the stream CTR mode produces
// from the documented per-offset IV, for every offset that is a multiple of 16.
// dst = src XOR keystream(offset ...); offset may be any non-negative value,
// also not a multiple of 16 (the block is entered in the middle).
func CDNKeystreamXOR(key, iv []byte, offset int64, src []byte) []byte {
	blk, err := aes.NewCipher(key)
	if err != nil {
		panic(err)
	}
	if len(iv) != 16 {
		panic("refmodel: CDN iv must be 16 bytes")
	}
	dst := make([]byte, len(src))
	var ctr, ks [16]byte
	copy(ctr[:12], iv[:12])
	pos := offset
	done := 0
	for done < len(src) {
		b := pos / 16
		in := int(pos % 16)
		binary.BigEndian.PutUint32(ctr[12:], uint32(b))
		blk.Encrypt(ks[:], ctr[:])
		n := 16 - in
		if n > len(src)-done {
			n = len(src) - done
		}
		subtle.XORBytes(dst[done:done+n], src[done:done+n], ks[in:in+n])
		done += n
		pos += int64(n)
	}
	return dst
}

// CDNPlanRangeValid reports whether one CDN request (offset, limit) obeys the
// documented rules (https://core.telegram.org/cdn#getting-files): offset and
// limit divisible by 4 KiB, 1 MiB divisible by limit, and the requested range
// inside a single 1 MiB-aligned window.
func CDNPlanRangeValid(offset int64, limit int) (bool, string) {
	const kb4, mb1 = 4096, 1 << 20
	switch {
	case limit <= 0:
		return false, "limit<=0"
	case offset < 0:
		return false, "offset<0"
	case offset%kb4 != 0:
		return false, "offset-not-4k"
	case limit%kb4 != 0:
		return false, "limit-not-4k"
	case mb1%limit != 0:
		return false, "limit-not-divisor-of-1mib"
	case offset/mb1 != (offset+int64(limit)-1)/mb1:
		return false, "crosses-1mib"
	}
	return true, ""
}
