package refmodel

// Cryptographic steps of "Creating an Authorization Key"
// (core.telegram.org/mtproto/auth_key), transcribed from the specification
// text. Shared with the code under test: crypto/sha1, crypto/sha256,
// crypto/aes, math/big only.

import (
	"bytes"
	"crypto/sha1"
	"crypto/sha256"
	"encoding/binary"
	"errors"
	"math/big"
)

// ExRSAKey is a raw RSA key (no padding scheme), big-endian 256-byte blocks.
type ExRSAKey struct {
	N, E, D *big.Int
}

// Fingerprint: "64 lower-order bits of SHA1(server_public_key)" where the key
// is the TL serialisation rsa_public_key n:string e:string (bare).
func (k ExRSAKey) Fingerprint() int64 {
	w := &ExTLW{}
	w.Bytes(k.N.Bytes())
	w.Bytes(k.E.Bytes())
	h := sha1.Sum(w.B)
	return int64(binary.LittleEndian.Uint64(h[12:20]))
}

// ExErrRSAPad is returned when an RSA_PAD block does not verify.
var ExErrRSAPad = errors.New("refmodel: RSA_PAD hash mismatch")

// ExRSAPadDecode inverts RSA_PAD (server side):
//
//	key_aes_encrypted := RSA^-1(encrypted_data)                  (256 bytes)
//	temp_key_xor := first 32 bytes; aes_encrypted := remaining 224 bytes
//	temp_key := temp_key_xor XOR SHA256(aes_encrypted)
//	data_with_hash := AES256_IGE_decrypt(aes_encrypted, temp_key, 0)
//	data_pad_reversed := first 192 bytes; hash := last 32 bytes
//	data_with_padding := BYTE_REVERSE(data_pad_reversed)
//	check hash == SHA256(temp_key + data_with_padding)
func ExRSAPadDecode(enc []byte, k ExRSAKey) ([]byte, error) {
	if len(enc) != 256 {
		return nil, errors.New("refmodel: encrypted_data must be 256 bytes")
	}
	c := new(big.Int).SetBytes(enc)
	if c.Cmp(k.N) >= 0 {
		return nil, errors.New("refmodel: encrypted_data >= modulus")
	}
	m := new(big.Int).Exp(c, k.D, k.N)
	if m.BitLen() > 2048 {
		return nil, errors.New("refmodel: RSA result too long")
	}
	block := make([]byte, 256)
	m.FillBytes(block)
	tempKeyXor, aesEnc := block[:32], block[32:]
	hEnc := sha256.Sum256(aesEnc)
	tempKey := make([]byte, 32)
	for i := range tempKey {
		tempKey[i] = tempKeyXor[i] ^ hEnc[i]
	}
	dwh := IGEDecrypt(tempKey, make([]byte, 32), aesEnc)
	rev := dwh[:192]
	data := make([]byte, 192)
	for i := range rev {
		data[i] = rev[191-i]
	}
	h := sha256.New()
	h.Write(tempKey)
	h.Write(data)
	if !bytes.Equal(h.Sum(nil), dwh[192:]) {
		return nil, ExErrRSAPad
	}
	return data, nil
}

// ExTmpAES derives the temporary AES key and iv:
//
//	tmp_aes_key := SHA1(new_nonce + server_nonce) + substr(SHA1(server_nonce + new_nonce), 0, 12)
//	tmp_aes_iv := substr(SHA1(server_nonce + new_nonce), 12, 8) + SHA1(new_nonce + new_nonce) + substr(new_nonce, 0, 4)
func ExTmpAES(newNonce [32]byte, serverNonce [16]byte) (key, iv []byte) {
	cat := func(a, b []byte) []byte { return append(append([]byte{}, a...), b...) }
	ns := sha1.Sum(cat(newNonce[:], serverNonce[:]))
	sn := sha1.Sum(cat(serverNonce[:], newNonce[:]))
	nn := sha1.Sum(cat(newNonce[:], newNonce[:]))
	key = cat(ns[:], sn[:12])
	iv = cat(cat(sn[12:20], nn[:]), newNonce[:4])
	return key, iv
}

// ExAnswerEncrypt: answer_with_hash := SHA1(answer) + answer + (0-15 padding
// bytes so that the length is divisible by 16); AES256-IGE with tmp key / iv.
// pad supplies the padding bytes (cycled; zeros if empty).
func ExAnswerEncrypt(answer, key, iv, pad []byte) []byte {
	h := sha1.Sum(answer)
	pt := append(append([]byte{}, h[:]...), answer...)
	for i := 0; len(pt)%16 != 0; i++ {
		var p byte
		if len(pad) > 0 {
			p = pad[i%len(pad)]
		}
		pt = append(pt, p)
	}
	return IGEEncrypt(key, iv, pt)
}

// ExAnswerDecrypt inverts ExAnswerEncrypt: returns the answer for which the first
// 20 decrypted bytes equal SHA1(answer) with 0..15 trailing padding bytes, or
// nil when there is none (or the length is not a positive multiple of 16).
func ExAnswerDecrypt(ct, key, iv []byte) []byte {
	if len(ct) == 0 || len(ct)%16 != 0 {
		return nil
	}
	pt := IGEDecrypt(key, iv, ct)
	if len(pt) <= 20 {
		return nil
	}
	for pad := 0; pad < 16 && len(pt)-pad >= 20; pad++ {
		d := pt[20 : len(pt)-pad]
		if h := sha1.Sum(d); bytes.Equal(h[:], pt[:20]) {
			return d
		}
	}
	return nil
}

// ExAuthKeyBytes: auth_key as a 2048-bit big-endian number (256 bytes, leading zeros kept).
func ExAuthKeyBytes(k *big.Int) [256]byte {
	var out [256]byte
	k.FillBytes(out[:])
	return out
}

// ExNewNonceHash: new_nonce_hashN := 128 lower-order bits of
// SHA1(new_nonce + byte(N) + auth_key_aux_hash), auth_key_aux_hash := 64
// higher-order bits of SHA1(auth_key).
func ExNewNonceHash(newNonce [32]byte, n byte, authKey [256]byte) (out [16]byte) {
	ak := sha1.Sum(authKey[:])
	buf := append(append([]byte{}, newNonce[:]...), n)
	buf = append(buf, ak[:8]...)
	h := sha1.Sum(buf)
	copy(out[:], h[4:20])
	return
}

// ExExchangeSalt: server_salt := substr(new_nonce, 0, 8) XOR substr(server_nonce, 0, 8)
// (as the little-endian int64 that is put on the wire).
func ExExchangeSalt(newNonce [32]byte, serverNonce [16]byte) int64 {
	var s [8]byte
	for i := range s {
		s[i] = newNonce[i] ^ serverNonce[i]
	}
	return int64(binary.LittleEndian.Uint64(s[:]))
}

// ExGOKForPrime: the quadratic-residue conditions of the specification for g in 2..7.
func ExGOKForPrime(g int, p *big.Int) bool {
	mod := func(m int64) int64 { return new(big.Int).Mod(p, big.NewInt(m)).Int64() }
	switch g {
	case 2:
		return mod(8) == 7
	case 3:
		return mod(3) == 2
	case 4:
		return true
	case 5:
		r := mod(5)
		return r == 1 || r == 4
	case 6:
		r := mod(24)
		return r == 19 || r == 23
	case 7:
		r := mod(7)
		return r == 3 || r == 5 || r == 6
	}
	return false
}

// ExSafePrime2048: 2^2047 < p < 2^2048, p and (p-1)/2 prime.
func ExSafePrime2048(p *big.Int) bool {
	if p.BitLen() != 2048 {
		return false
	}
	if !p.ProbablyPrime(24) {
		return false
	}
	h := new(big.Int).Rsh(p, 1)
	return h.ProbablyPrime(24)
}

// ExGAInSafeRange: 2^{2048-64} <= v <= p - 2^{2048-64} (the recommended range;
// the bounds themselves are left to the caller to treat as "either").
func ExGAInSafeRange(v, p *big.Int) (inside, onBoundary bool) {
	lo := new(big.Int).Lsh(big.NewInt(1), 2048-64)
	hi := new(big.Int).Sub(p, lo)
	cl, ch := v.Cmp(lo), v.Cmp(hi)
	if cl == 0 || ch == 0 {
		return false, true
	}
	return cl > 0 && ch < 0, false
}
