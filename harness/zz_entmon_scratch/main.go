package main

import (
	"bytes"
	"fmt"
	"os"
	"time"

	"github.com/gotd/td/telegram/message/entity"
	"github.com/gotd/td/telegram/message/html"
)

func main() {
	in, _ := os.ReadFile(os.Args[1])
	t0 := time.Now()
	var b entity.Builder
	err := html.HTML(bytes.NewReader(in), &b, html.Options{})
	t1 := time.Now()
	msg, ents := b.Complete()
	fmt.Println(err, len(msg), len(ents), "parse", t1.Sub(t0), "complete", time.Since(t1))
}
