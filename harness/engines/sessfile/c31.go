package main

import (
	"bytes"
	"context"
	"crypto/sha256"
	"errors"
	"fmt"
	"os"
	"os/exec"
	"path/filepath"
	"regexp"
	"sort"
	"strconv"
	"strings"
	"sync"
	"syscall"
	"time"

	"github.com/gotd/td/session"

	"verif/harness/mon"
	"verif/harness/refmodel"
)

const stracePath = "/usr/bin/strace"

// Calls the Go runtime issues on its own (scheduler, GC, signals, memory):
// never a crash point of the save itself, and their per-thread ordinals are
// not reproducible, so they are not used as kill points.
var noiseCalls = map[string]bool{
	"futex": true, "rt_sigreturn": true, "rt_sigprocmask": true, "rt_sigaction": true, "sched_yield": true,
	"nanosleep": true, "clock_nanosleep": true, "getpid": true, "gettid": true, "tgkill": true, "madvise": true,
	"mmap": true, "munmap": true, "mprotect": true, "brk": true, "epoll_pwait": true, "epoll_wait": true,
	"clone": true, "clone3": true, "sigaltstack": true, "restart_syscall": true, "membarrier": true,
	"sched_getaffinity": true, "timer_settime": true, "timer_create": true, "timer_delete": true, "setitimer": true,
	"prctl": true, "rseq": true, "set_robust_list": true, "exit": true, "exit_group": true,
}

// Calls without effect on file contents or names (ignored by the replay; still kill points).
var benignCalls = map[string]bool{
	"fcntl": true, "fstat": true, "newfstatat": true, "statx": true, "stat": true, "lstat": true, "epoll_ctl": true,
	"read": true, "pread64": true, "getdents64": true, "getrandom": true, "flock": true, "readlinkat": true,
	"faccessat": true, "faccessat2": true, "access": true, "ioctl": true, "uname": true, "fchmodat": true, "chmod": true,
	"fchown": true, "fchownat": true, "chown": true, "getcwd": true, "umask": true, "getuid": true, "geteuid": true,
	"getgid": true, "getegid": true, "clock_gettime": true, "gettimeofday": true, "fadvise64": true,
}

// File-mutating calls that must not come from another thread inside the save window.
var mutatingCalls = map[string]bool{
	"openat": true, "open": true, "creat": true, "rename": true, "renameat": true, "renameat2": true, "unlink": true, "unlinkat": true,
	"fsync": true, "fdatasync": true, "ftruncate": true, "truncate": true, "pwrite64": true, "writev": true, "pwritev": true, "pwritev2": true,
	"link": true, "linkat": true, "fallocate": true, "copy_file_range": true, "sendfile": true, "sync_file_range": true, "fchmod": true,
}

type scenario struct {
	Name           string
	A, B           *session.Data
	ADisk, BDisk   []byte // on-disk form produced by the real Loader
	ACanon, BCanon []byte
	Dir            string // holds a.json / b.json and the per-run directories
	Cs             []variant // sessions for a second save after a crash
}

// state class of the session file after a crash.
type verdict struct {
	Class   string // old new new2 empty-file missing corrupt not-found wrong-data
	Variant string // for new2: which second-save session
	Err    string
	Len    int
	Prefix string
}

func (s *scenario) classifyFile(path string) verdict {
	var v verdict
	raw, rerr := os.ReadFile(path)
	v.Len = len(raw)
	v.Prefix = clip(string(raw), 60)
	ld := session.Loader{Storage: &session.FileStorage{Path: path}}
	data, err := ld.Load(context.Background())
	if err != nil {
		v.Err = clip(err.Error(), 200)
	}
	switch {
	case err == nil && data != nil && bytes.Equal(canon(data), s.ACanon):
		v.Class = "old"
	case err == nil && data != nil && bytes.Equal(canon(data), s.BCanon):
		v.Class = "new"
	case err == nil && data != nil && s.matchVariant(canon(data)) != "":
		v.Class, v.Variant = "new2", s.matchVariant(canon(data))
	case err == nil:
		v.Class = "wrong-data"
	case os.IsNotExist(rerr):
		v.Class = "missing"
	case errors.Is(err, session.ErrNotFound) && len(raw) == 0:
		v.Class = "empty-file"
	case errors.Is(err, session.ErrNotFound):
		v.Class = "not-found"
	default:
		v.Class = "corrupt"
	}
	return v
}

func (s *scenario) matchVariant(cn []byte) string {
	for _, v := range s.Cs {
		if bytes.Equal(cn, v.Canon) {
			return v.Name
		}
	}
	return ""
}

func clip(s string, n int) string {
	if len(s) <= n {
		return s
	}
	return s[:n] + "..."
}

type killPoint struct {
	WinIdx  int    // index into the window (len(window) = the marker after the save)
	Name    string // syscall name = inject class
	Ordinal int    // per-thread ordinal of this class = `when=`
	FP      string
	Text    string
	Prev    string // the last call that completed before this one
	ClassFP []string // fingerprints of all earlier calls of this class on the thread, in order
}

type killResult struct {
	S            *scenario
	KP           killPoint
	WinLen       int
	Why          string // non-empty: the kill could not be verified
	V            verdict
	CrossChecked bool
	CrossDiff    string
	Leftover     int
	Resaves      []resaveResult
	ResaveErr    string
}

// size pairs that get real kill runs in the quick tier (all pairs in the thorough tier; the replay always covers all pairs)
var killPairs = map[string]bool{"min>300k": true, "300k>min": true, "4k>4k": true}

type dryRun struct {
	TID    int
	Window []*call
	Mark2  *call
	Points []killPoint
	Ops    []refmodel.FSOp
	OpWin  []int // window index of each op
	OpErr  string
	Final  []byte
}

var reTID = regexp.MustCompile(`VERIF-TID (\d+) PID (\d+)`)

func childEnv() []string {
	return append(os.Environ(), "GOMAXPROCS=2", "GOGC=off", "GODEBUG=asyncpreemptoff=1", "GOTRACEBACK=single")
}

// runStrace runs the save child under strace; returns the trace log, the child's stderr and whether the watchdog fired.
func runStrace(self string, extra []string, dataDir, fsDir, tracePath, stderrPath string) (timedOut bool, err error) {
	return runStraceMode(self, "save", nil, extra, dataDir, fsDir, tracePath, stderrPath)
}

// runStraceMode: prep == nil starts from an empty directory, otherwise from the given directory state.
func runStraceMode(self, mode string, prep dirState, extra []string, dataDir, fsDir, tracePath, stderrPath string) (timedOut bool, err error) {
	if prep == nil {
		prep = dirState{}
	}
	if err := materialise(fsDir, prep); err != nil {
		return false, err
	}
	args := append([]string{"-f", "-xx", "-o", tracePath}, extra...)
	args = append(args, self, "--child", mode, dataDir, fsDir)
	cmd := exec.Command(stracePath, args...)
	cmd.Env = childEnv()
	se, err := os.Create(stderrPath)
	if err != nil {
		return false, err
	}
	defer se.Close()
	cmd.Stdout, cmd.Stderr = se, se
	cmd.SysProcAttr = &syscall.SysProcAttr{Setpgid: true}
	if err := cmd.Start(); err != nil {
		return false, err
	}
	done := make(chan error, 1)
	go func() { done <- cmd.Wait() }()
	select {
	case <-done: // exit status is not used: strace mirrors the tracee's death
	case <-time.After(3 * time.Minute): // generous watchdog; firing makes the run inconclusive
		syscall.Kill(-cmd.Process.Pid, syscall.SIGKILL)
		<-done
		return true, nil
	}
	return false, nil
}

func isMarker(c *call, want string) bool {
	if c.Name != "write" {
		return false
	}
	a := splitArgs(c.Args)
	if len(a) < 3 || a[0] != "2" {
		return false
	}
	d, _, err := decodeStr(a[1])
	return err == nil && string(d) == want
}

func decodePath(s string) (string, bool) {
	d, trunc, err := decodeStr(s)
	if err != nil || trunc {
		return "", false
	}
	return string(d), true
}

// toOp translates a traced call into a model operation. ok=false + why="" means "no effect".
func toOp(c *call, targetDir string) (op refmodel.FSOp, effect bool, why string) {
	a := splitArgs(c.Args)
	ret, okRet := c.retInt()
	if !okRet {
		return op, false, "no return value for " + c.Name
	}
	op.Ret = ret
	op.Raw = c.pretty() + " = " + c.Ret
	atoi := func(s string) int { v, _ := strconv.ParseInt(strings.TrimSpace(s), 0, 64); return int(v) }
	absPath := func(dirfd, p string) (string, string) {
		path, ok := decodePath(p)
		if !ok {
			return "", "unparsable path in " + c.Name
		}
		if !filepath.IsAbs(path) {
			return "", fmt.Sprintf("relative path %q (dirfd %s) in %s", path, dirfd, c.Name)
		}
		return filepath.Clean(path), ""
	}
	switch c.Name {
	case "openat", "open", "creat":
		var p, flags, mode string
		switch c.Name {
		case "openat":
			if len(a) < 3 {
				return op, false, "short openat"
			}
			p, flags = a[1], a[2]
			if len(a) > 3 {
				mode = a[3]
			}
		case "open":
			p, flags = a[0], a[1]
			if len(a) > 2 {
				mode = a[2]
			}
		case "creat":
			p, flags, mode = a[0], "O_WRONLY|O_CREAT|O_TRUNC", a[1]
		}
		path, w := absPath(a[0], p)
		if w != "" {
			return op, false, w
		}
		op.Kind, op.Path, op.FD = "open", path, int(ret)
		op.Create = strings.Contains(flags, "O_CREAT")
		op.Trunc = strings.Contains(flags, "O_TRUNC")
		op.Excl = strings.Contains(flags, "O_EXCL")
		op.Append = strings.Contains(flags, "O_APPEND")
		op.Dir = strings.Contains(flags, "O_DIRECTORY") || path == targetDir
		if strings.Contains(flags, "O_TMPFILE") {
			return op, false, "O_TMPFILE is not modelled"
		}
		if mode != "" {
			m, _ := strconv.ParseUint(mode, 8, 32)
			op.Mode = uint32(m)
		}
		return op, true, ""
	case "write", "pwrite64":
		if len(a) < 3 {
			return op, false, "short write"
		}
		d, trunc, err := decodeStr(a[1])
		if err != nil || trunc {
			return op, false, "write data not fully recorded"
		}
		op.Kind, op.FD, op.Data, op.Len = "write", atoi(a[0]), d, atoi(a[2])
		if c.Name == "pwrite64" {
			op.Kind = "pwrite"
			if len(a) < 4 {
				return op, false, "short pwrite64"
			}
			op.Off = int64(atoi(a[3]))
		}
		return op, true, ""
	case "fsync", "fdatasync":
		op.Kind, op.FD = c.Name, atoi(a[0])
		return op, true, ""
	case "close":
		op.Kind, op.FD = "close", atoi(a[0])
		return op, true, ""
	case "ftruncate":
		op.Kind, op.FD, op.Len = "ftruncate", atoi(a[0]), atoi(a[1])
		return op, true, ""
	case "fchmod":
		m, _ := strconv.ParseUint(a[1], 8, 32)
		op.Kind, op.FD, op.Mode = "fchmod", atoi(a[0]), uint32(m)
		return op, true, ""
	case "rename", "renameat", "renameat2":
		var p1, p2 string
		if c.Name == "rename" {
			p1, p2 = a[0], a[1]
		} else {
			if len(a) < 4 {
				return op, false, "short renameat"
			}
			p1, p2 = a[1], a[3]
			if len(a) > 4 && a[4] != "0" {
				return op, false, "renameat2 flags " + a[4] + " not modelled"
			}
		}
		o, w := absPath(a[0], p1)
		if w != "" {
			return op, false, w
		}
		n, w := absPath(a[0], p2)
		if w != "" {
			return op, false, w
		}
		op.Kind, op.Path, op.Path2 = "rename", o, n
		return op, true, ""
	case "unlink", "unlinkat":
		p := a[0]
		if c.Name == "unlinkat" {
			p = a[1]
		}
		path, w := absPath(a[0], p)
		if w != "" {
			return op, false, w
		}
		op.Kind, op.Path = "unlink", path
		return op, true, ""
	}
	if benignCalls[c.Name] {
		return op, false, ""
	}
	return op, false, "unmodelled system call " + c.Name
}

// analyseDry extracts the save window of the pinned thread from an undisturbed, fully traced run.
func analyseDry(tl *traceLog, tid int, fsDir string) (*dryRun, error) {
	d := &dryRun{TID: tid}
	i1, i2 := -1, -1
	for i, c := range tl.Calls {
		if c.PID != tid {
			continue
		}
		if i1 < 0 && isMarker(c, mark1) {
			i1 = i
		} else if i1 >= 0 && isMarker(c, mark2) {
			i2 = i
			break
		}
	}
	if i1 < 0 || i2 < 0 {
		return nil, fmt.Errorf("markers not found in the dry-run trace (tid %d)", tid)
	}
	d.Mark2 = tl.Calls[i2]
	classFP := map[string][]string{}
	prev := ""
	for i, c := range tl.Calls[:i2+1] {
		if c.PID != tid {
			if i > i1 && mutatingCalls[c.Name] {
				return nil, fmt.Errorf("thread %d issued %s inside the save window: the save is not confined to the pinned thread", c.PID, c.Name)
			}
			continue
		}
		if i > i1 && (i < i2) {
			d.Window = append(d.Window, c)
		}
		if i > i1 && !noiseCalls[c.Name] {
			if !c.Finished {
				return nil, fmt.Errorf("unfinished %s in the dry-run window", c.Name)
			}
			wi := len(d.Window) - 1
			if i == i2 {
				wi = len(d.Window)
			}
			d.Points = append(d.Points, killPoint{WinIdx: wi, Name: c.Name, Ordinal: c.Ordinal, FP: c.fingerprint(),
				Text: c.pretty(), Prev: prev, ClassFP: append([]string(nil), classFP[c.Name]...)})
		}
		if !noiseCalls[c.Name] {
			prev = c.pretty()
			if c.Ret != "" {
				prev += " = " + c.Ret
			}
		}
		classFP[c.Name] = append(classFP[c.Name], c.fingerprint())
	}
	for wi, c := range d.Window {
		if noiseCalls[c.Name] {
			continue
		}
		op, effect, why := toOp(c, fsDir)
		if why != "" {
			d.OpErr = why
			break
		}
		if effect {
			d.Ops = append(d.Ops, op)
			d.OpWin = append(d.OpWin, wi)
		}
	}
	return d, nil
}

// modelAt replays the first n ops (+ optionally a prefix of op n) on a fresh model.
func modelAt(initial map[string][]byte, ops []refmodel.FSOp, n int, partial int) (*refmodel.ModelFS, error) {
	fs := refmodel.NewModelFS(initial)
	for i := 0; i < n; i++ {
		if err := fs.Apply(ops[i], -1); err != nil {
			return nil, fmt.Errorf("op %d (%s): %w", i, ops[i].Raw, err)
		}
	}
	if partial >= 0 {
		if err := fs.Apply(ops[n], partial); err != nil {
			return nil, err
		}
	}
	return fs, nil
}

func runC31(c *mon.Ctx) {
	c.Rule("For every ordered pair (old size, new size) of realistic sessions (random keys/salt/DC options from the seed; on-disk sizes: minimal ~0.7 KiB, 4 KiB, 300 KiB; " +
		"thorough adds 1 KiB, 64 KiB, 1 MiB) a child process saves session A and then session B over it with the real session.Loader/FileStorage, traced completely by strace (dry run). " +
		"(1) real kills (thorough: all pairs, all calls; quick: pair 4k>4k all calls, pairs min>300k and 300k>min only calls before which the file system state changed, " +
		"i.e. not after a mere fcntl/epoll_ctl/stat): for EACH system call the pinned thread issues during the save (runtime scheduler/memory calls excepted) " +
		"plus the first call after the save, one run is killed by strace (SIGKILL injected on entry to that call, verified in the kill run's own trace) and the surviving file is read by the real Loader in the parent. " +
		"(2) offline replay (all pairs) of the recorded calls with the recorded bytes on a model filesystem: every call boundary, every write cut at 1 / half / n-1 / first-page / last-page bytes " +
		"(thorough: also every 4 KiB boundary and 64 random byte counts), and for boundaries and basic cuts all power-loss states of the model. " +
		"(3) crash-then-save-again histories: every distinct directory state a crash of save #1 left behind (session file + leftover temporary files of size 0 / partial / full; " +
		"from the real kills, the replayed process-crash states and the power-loss directory states) is materialised and a second save of session C (shorter than any B / exactly len(B) / longer) is run on it by the real code: " +
		"a completed save must load as C, a failed one must leave complete old/new; for a sample (quick: pair min>300k, states 'full leftover' and 'half-written leftover', shorter C; thorough: all pairs) " +
		"the second save is itself killed at its system calls and must leave complete A, B or C. " +
		"Every state's bytes are judged by the real Loader: complete old or complete new session, anything else is a violation. " +
		"distinct non-trivial = distinct (size pair, monitor, crash point[, cut / durable-state choice]); exhaustive = the system-call boundaries of the recorded save, per size pair.")
	c.Assume("process-crash model: SIGKILL leaves the page cache intact; strace signal injection on syscall entry prevents that call from executing (cross-checked: every killed run's file equals the model state before the call)")
	c.Assume("power-loss model (a model, not an observation; generic POSIX/journalling semantics, not one particular filesystem): a file's durable content is its content at its last fsync/fdatasync " +
		"plus any PREFIX of the truncates/writes issued on it since, the next write possibly durable only as a byte prefix or as a size extension with unwritten (zero) blocks; " +
		"the namespace is durable up to the last directory fsync plus any PREFIX of later create/rename/unlink operations (ordered metadata journal); a rename may become durable before the data of the renamed file " +
		"(no ext4 auto_da_alloc-style flush-on-rename heuristic is assumed); fsync of a file does not make its directory entry durable; block-level reordering inside one write beyond prefixes and zero blocks is not modelled")
	c.Assume("the parent's Loader.Load stands for 'the next start loads the session' (same code path as telegram.Client uses)")
	c.Assume("strace 6.1 per-thread `when=` counting with one syscall class per inject expression; each kill is verified against the dry-run call sequence, a mismatch is inconclusive, never a verdict")

	if _, err := os.Stat(stracePath); err != nil {
		c.Inconclusive("strace not available: " + err.Error())
		return
	}
	self, err := os.Executable()
	if err != nil {
		c.Inconclusive("os.Executable: " + err.Error())
		return
	}
	out, err := filepath.Abs(c.Out)
	if err != nil {
		c.Inconclusive(err.Error())
		return
	}

	type sz struct {
		name   string
		target int
	}
	sizes := []sz{{"min", 0}, {"4k", 4 << 10}, {"300k", 300 << 10}}
	if !c.Quick() {
		sizes = []sz{{"min", 0}, {"1k", 1 << 10}, {"4k", 4 << 10}, {"64k", 64 << 10}, {"300k", 300 << 10}, {"1m", 1 << 20}}
	}
	var scs []*scenario
	for i, sa := range sizes {
		for j, sb := range sizes {
			r := c.RandN("c31-session", i*len(sizes)+j)
			s := &scenario{Name: sa.name + ">" + sb.name, A: genData(r, sa.target), B: genData(r, sb.target)}
			s.ADisk, s.BDisk, s.ACanon, s.BCanon = onDisk(s.A), onDisk(s.B), canon(s.A), canon(s.B)
			s.makeVariants(r)
			s.Dir = filepath.Join(out, fmt.Sprintf("sc%02d", len(scs)))
			scs = append(scs, s)
		}
	}

	var (
		allRes      [][]*killResult
		deferred    []func()
		tDry, tRep  time.Duration
		killOutcome = map[string]int{}
		replayOut   = map[string]int{}
		crossOK     int
		leftovers   int
		modes       = map[string]int{}
		states      int
		killRuns    int
		killSkipped int
		rsMu        sync.Mutex
		rsSeen      = map[string]bool{}
		rsOut       = map[string]int{}
		rsErrors    int
		rsStates    int
		rsCapped    int
		bestLeft    = map[*scenario]dirState{} // real-kill state with the largest leftover temporary file
		partLeft    = map[*scenario]dirState{} // replayed state with a partially written leftover
		sawSeq      = map[string]int{}
	)
	workers := 6
	sem := make(chan struct{}, workers)
	var wg sync.WaitGroup

	// second saves on crash states: completed save must load as C, failed save must leave old/new intact
	reportResave := func(s *scenario, model, origin string, rr resaveResult) {
		rsStates++
		c.Eval(1)
		c.Distinct(fmt.Sprintf("%s|%s|resave|%s|%s", s.Name, model, rr.State, rr.Variant))
		outcome := rr.V.Class
		if rr.SaveErr != "" {
			rsErrors++
			outcome = "save-error+" + rr.V.Class
		}
		rsOut[model+"/"+outcome]++
		w := map[string]any{"monitor": "crash-then-save-again", "model": model, "scenario": s.Name, "old_len": len(s.ADisk), "new_len": len(s.BDisk),
			"first_save_stopped": origin, "directory_after_crash": rr.State, "second_save": rr.Variant, "second_len": rr.CLen, "second_save_error": rr.SaveErr,
			"file_class": rr.V.Class, "file_len": rr.V.Len, "file_prefix": rr.V.Prefix, "loader_error": rr.V.Err}
		c.Sample("resave/"+model+"/"+outcome, w)
		if rr.Bad {
			c.Violate(model+"|resave|"+outcome, w)
		}
	}

	// ---- dry runs (all size pairs, in parallel): everything traced, full write data ----
	type dryOut struct {
		dry *dryRun
		why string
	}
	dries := make([]dryOut, len(scs))
	tD := time.Now()
	for si, s := range scs {
		wg.Add(1)
		sem <- struct{}{}
		go func(si int, s *scenario) {
			defer wg.Done()
			defer func() { <-sem }()
			fail := func(why string) { dries[si].why = s.Name + ": " + why }
			if err := os.MkdirAll(s.Dir, 0o755); err != nil {
				fail(err.Error())
				return
			}
			os.WriteFile(filepath.Join(s.Dir, "a.json"), s.ACanon, 0o600)
			os.WriteFile(filepath.Join(s.Dir, "b.json"), s.BCanon, 0o600)
			fsDir := filepath.Join(s.Dir, "fs-dry")
			tracePath, stderrPath := filepath.Join(s.Dir, "dry.trace"), filepath.Join(s.Dir, "dry.stderr")
			to, err := runStrace(self, []string{"-s", "8388608"}, s.Dir, fsDir, tracePath, stderrPath)
			if err != nil || to {
				fail(fmt.Sprintf("dry run failed (timeout=%v err=%v)", to, err))
				return
			}
			se, _ := os.ReadFile(stderrPath)
			m := reTID.FindSubmatch(se)
			if m == nil || !bytes.Contains(se, []byte(mark2)) {
				fail("undisturbed save did not complete under strace: " + clip(string(se), 300))
				return
			}
			tid, _ := strconv.Atoi(string(m[1]))
			tl, err := parseTrace(tracePath)
			if err != nil {
				fail(err.Error())
				return
			}
			os.Remove(tracePath) // up to several MiB with full write data
			dry, err := analyseDry(tl, tid, fsDir)
			if err != nil {
				fail(err.Error())
				return
			}
			dries[si].dry = dry
		}(si, s)
	}
	wg.Wait()
	tDry = time.Since(tD)

	for si, s := range scs {
		if dries[si].why != "" {
			c.Inconclusive(dries[si].why)
			return
		}
		dry := dries[si].dry
		fsDir := filepath.Join(s.Dir, "fs-dry")
		target := filepath.Join(fsDir, targetName)
		if v := s.classifyFile(target); v.Class != "new" {
			c.Inconclusive(fmt.Sprintf("%s: undisturbed save does not load as the new session (%s %s)", s.Name, v.Class, v.Err))
			return
		}
		dry.Final, _ = os.ReadFile(target)
		if st, err := os.Stat(target); err == nil {
			modes[fmt.Sprintf("%04o", st.Mode().Perm())]++
		}
		var seq []string
		for _, p := range dry.Points[:len(dry.Points)-1] {
			seq = append(seq, p.Name)
		}
		sawSeq[strings.Join(seq, " ")]++
		if si == 0 {
			var txt []string
			for _, p := range dry.Points {
				txt = append(txt, p.Text)
			}
			c.Set("save_window_calls_first_scenario", txt)
		}
		if len(dry.Points) < 2 {
			c.Inconclusive(s.Name + ": no system call between the markers")
			return
		}

		// ---- model of the same window ----
		initial := map[string][]byte{filepath.Join(fsDir, targetName): s.ADisk}
		modelOK := dry.OpErr == ""
		if !modelOK {
			c.Inconclusive(fmt.Sprintf("%s: offline replay impossible: %s", s.Name, dry.OpErr))
		} else if fs, err := modelAt(initial, dry.Ops, len(dry.Ops), -1); err != nil {
			modelOK = false
			c.Inconclusive(fmt.Sprintf("%s: replay error: %v", s.Name, err))
		} else if got, ok := fs.Volatile(target); !ok || !bytes.Equal(got, dry.Final) {
			modelOK = false
			c.Inconclusive(fmt.Sprintf("%s: model end state differs from the real file after the undisturbed save (model exists=%v len=%d, real len=%d)", s.Name, ok, len(got), len(dry.Final)))
		}
		// model state of the target before window call wi
		modelBefore := func(wi int) ([]byte, bool, bool) {
			if !modelOK {
				return nil, false, false
			}
			n := 0
			for n < len(dry.Ops) && dry.OpWin[n] < wi {
				n++
			}
			fs, err := modelAt(initial, dry.Ops, n, -1)
			if err != nil {
				return nil, false, false
			}
			b, ex := fs.Volatile(target)
			return b, ex, true
		}

		// ---- (1) real kills ----
		if killPairs[s.Name] || !c.Quick() {
			res := make([]*killResult, len(dry.Points))
			allRes = append(allRes, res)
			// quick tier: complete enumeration for the same-size pair; for the other pairs a kill point is
			// skipped when only state-neutral calls (fcntl, epoll_ctl, stat ...) completed since the previous one
			keep := selectPoints(dry, !c.Quick() || s.Name == "4k>4k")
			for pi, kp := range dry.Points {
				if !keep[pi] {
					killSkipped++
					continue
				}
				wg.Add(1)
				sem <- struct{}{}
				go func(s *scenario, pi int, kp killPoint) {
					defer wg.Done()
					defer func() { <-sem }()
					r := &killResult{S: s, KP: kp, WinLen: len(dry.Window)}
					tag := fmt.Sprintf("k%02d", pi)
					kfs := filepath.Join(s.Dir, "fs-"+tag)
					ktarget := filepath.Join(kfs, targetName)
					ktrace, kstderr := filepath.Join(s.Dir, tag+".trace"), filepath.Join(s.Dir, tag+".stderr")
					for attempt := 0; attempt < 2; attempt++ {
						r.Why = ""
						to, err := runStrace(self, []string{"-e", "trace=" + kp.Name, "-e", fmt.Sprintf("inject=%s:signal=KILL:when=%d", kp.Name, kp.Ordinal)},
							s.Dir, kfs, ktrace, kstderr)
						if err != nil || to {
							r.Why = fmt.Sprintf("kill run failed (timeout=%v err=%v)", to, err)
							continue
						}
						if r.Why = verifyKill(ktrace, kstderr, kp); r.Why == "" {
							break
						}
					}
					if r.Why == "" {
						r.V = s.classifyFile(ktarget)
						raw, rerr := os.ReadFile(ktarget)
						if want, ex, ok := modelBefore(kp.WinIdx); ok {
							r.CrossChecked = true
							if ex != (rerr == nil) || !bytes.Equal(want, raw) {
								r.CrossDiff = fmt.Sprintf("real exists=%v len=%d, model exists=%v len=%d", rerr == nil, len(raw), ex, len(want))
							}
						}
						st := readDirState(kfs)
						maxLeft := -1
						for n, b := range st {
							if n != targetName {
								r.Leftover++
								if len(b) > maxLeft {
									maxLeft = len(b)
								}
							}
						}
						rsMu.Lock()
						k := s.Name + "|process-crash|" + st.key()
						seen := rsSeen[k]
						rsSeen[k] = true
						if maxLeft >= 0 {
							cur, curMax := bestLeft[s], -1
							for n, b := range cur {
								if n != targetName && len(b) > curMax {
									curMax = len(b)
								}
							}
							if maxLeft > curMax {
								bestLeft[s] = st
							}
						}
						rsMu.Unlock()
						if !seen {
							rs, err := s.resaveAll(filepath.Join(s.Dir, "rs-"+tag), st)
							if err != nil {
								r.ResaveErr = err.Error()
							}
							r.Resaves = rs
						}
						os.Remove(ktrace)
					}
					os.RemoveAll(kfs)
					res[pi] = r
				}(s, pi, kp)
			}
		}

		// ---- (2) offline replay ----
		if modelOK {
			tR := time.Now()
			rdir := filepath.Join(s.Dir, "replay")
			os.MkdirAll(rdir, 0o755)
			rfile := filepath.Join(rdir, targetName)
			cache := map[string]verdict{}
			judge := func(data []byte, exists bool) verdict {
				key := "missing"
				if exists {
					h := sha256.Sum256(data)
					key = string(h[:])
				}
				if v, ok := cache[key]; ok {
					return v
				}
				os.Remove(rfile)
				if exists {
					if err := os.WriteFile(rfile, data, 0o600); err != nil {
						c.Inconclusive("replay state file: " + err.Error())
					}
				}
				v := s.classifyFile(rfile)
				c.Eval(1)
				cache[key] = v
				return v
			}
			// basic cut set: 1 byte, half, n-1, end of the first page, start of the last page
			basic := func(n int) map[int]bool {
				return map[int]bool{1: true, n / 2: true, n - 1: true, 4096: true, (n - 1) / 4096 * 4096: true}
			}
			toList := func(set map[int]bool, n int) []int {
				var out []int
				for k := range set {
					if k > 0 && k < n {
						out = append(out, k)
					}
				}
				sort.Ints(out)
				return out
			}
			splitsBasic := func(n int) []int { return toList(basic(n), n) }
			// thorough: additionally every page boundary and 64 random byte counts (process-crash states only;
			// power-loss states are derived at boundaries and basic cuts)
			splits := func(n int) []int {
				set := basic(n)
				if !c.Quick() {
					for k := 4096; k < n; k += 4096 {
						set[k] = true
					}
					r := c.RandN("c31-splits", si)
					for k := 0; k < 64 && n > 2; k++ {
						set[1+r.IntN(n-1)] = true
					}
				}
				return toList(set, n)
			}
			emit := func(model, point, sub string, data []byte, exists bool) {
				states++
				v := judge(data, exists)
				replayOut[model+"/"+v.Class]++
				c.Distinct(fmt.Sprintf("%s|%s|%s|%s", s.Name, model, point, sub))
				w := map[string]any{"monitor": "offline-replay", "model": model, "scenario": s.Name, "old_len": len(s.ADisk), "new_len": len(s.BDisk),
					"crash_point": point, "state": sub, "file_class": v.Class, "file_len": v.Len, "file_prefix": v.Prefix, "loader_error": v.Err}
				// reported after the real-kill results so that a real observation is the first witness of a shared signature
				deferred = append(deferred, func() {
					c.Sample("replay/"+model+"/"+v.Class, w)
					if v.Class != "old" && v.Class != "new" {
						c.Violate(model+"|"+v.Class, w)
					}
				})
			}
			resaveState := func(model, point, sub string, files map[string][]byte) {
				st := dirState(files)
				k := s.Name + "|replay-" + model + "|" + st.key()
				rsMu.Lock()
				seen := rsSeen[k]
				rsSeen[k] = true
				rsMu.Unlock()
				if seen {
					return
				}
				rs, err := s.resaveAll(filepath.Join(s.Dir, "rs-replay"), st)
				if err != nil {
					c.Inconclusive(s.Name + ": second save on a replayed state: " + err.Error())
				}
				for _, rr := range rs {
					deferred = append(deferred, func() { reportResave(s, model, "offline-replay: "+point+"; "+sub, rr) })
				}
			}
			for p := 0; p <= len(dry.Ops); p++ {
				point := fmt.Sprintf("after %d/%d calls", p, len(dry.Ops))
				if p < len(dry.Ops) {
					point += ", before " + clip(dry.Ops[p].Raw, 140)
				}
				var cuts []int
				if p < len(dry.Ops) && (dry.Ops[p].Kind == "write" || dry.Ops[p].Kind == "pwrite") && dry.Ops[p].Ret > 1 {
					cuts = splits(int(dry.Ops[p].Ret))
				}
				for ci := -1; ci < len(cuts); ci++ {
					cut, sub := -1, "boundary"
					if ci >= 0 {
						cut = cuts[ci]
						sub = fmt.Sprintf("write cut at %d/%d bytes", cut, dry.Ops[p].Ret)
					}
					fs, err := modelAt(initial, dry.Ops, p, cut)
					if err != nil {
						c.Inconclusive(s.Name + ": replay: " + err.Error())
						break
					}
					data, ex := fs.Volatile(target)
					emit("process-crash", point, sub, data, ex)
					vd := fs.VolatileDir(fsDir)
					resaveState("process-crash", point, sub, vd)
					if cut >= 0 && cut == int(dry.Ops[p].Ret)/2 && partLeft[s] == nil {
						for n, b := range vd {
							if n != targetName && len(b) > 0 && len(b) < len(s.BDisk) {
								partLeft[s] = dirState(vd)
							}
						}
					}
					if cut >= 0 && !basic(int(dry.Ops[p].Ret))[cut] {
						continue
					}
					for _, ds := range fs.PowerLossStates(target, splitsBasic) {
						emit("power-loss", point, sub+"; "+ds.Desc, ds.Data, ds.Exists)
					}
					dss, capped := fs.PowerLossDirStates(fsDir, splitsBasic, 64)
					if capped {
						rsCapped++
					}
					for _, ds := range dss {
						resaveState("power-loss", point, sub, ds.Files)
					}
				}
			}
			os.RemoveAll(rdir)
			tRep += time.Since(tR)
		}
	}
	t0 := time.Now()
	wg.Wait()
	tWait := time.Since(t0)

	// kill results are evaluated in a fixed order (scenario, window position)
	for _, res := range allRes {
		for _, r := range res {
			if r == nil {
				continue
			}
			killRuns++
			kp, s := r.KP, r.S
			where := fmt.Sprintf("%s kill at %s#%d (window call %d/%d: %s)", s.Name, kp.Name, kp.Ordinal, kp.WinIdx, r.WinLen, kp.Text)
			if r.Why != "" {
				c.Inconclusive(where + ": " + r.Why)
				continue
			}
			c.Eval(1)
			c.Distinct(fmt.Sprintf("%s|kill|%d:%s", s.Name, kp.WinIdx, kp.Name))
			if r.CrossDiff != "" {
				c.Inconclusive(where + ": real file after the kill differs from the model state before that call (" + r.CrossDiff + ")")
			} else if r.CrossChecked {
				crossOK++
			}
			killOutcome[r.V.Class]++
			leftovers += r.Leftover
			w := map[string]any{"monitor": "real-kill", "scenario": s.Name, "old_len": len(s.ADisk), "new_len": len(s.BDisk),
				"killed_on_entry_to": kp.Text, "last_completed_call": kp.Prev, "inject": fmt.Sprintf("%s:signal=KILL:when=%d", kp.Name, kp.Ordinal),
				"window_call": kp.WinIdx, "window_len": r.WinLen, "file_class": r.V.Class, "file_len": r.V.Len, "file_prefix": r.V.Prefix, "loader_error": r.V.Err}
			c.Sample("kill/"+r.V.Class, w)
			if r.V.Class != "old" && r.V.Class != "new" {
				c.Violate("process-crash|"+r.V.Class, w)
			}
			if r.ResaveErr != "" {
				c.Inconclusive(where + ": second save: " + r.ResaveErr)
			}
			for _, rr := range r.Resaves {
				reportResave(s, "process-crash", "real kill on entry to "+kp.Text, rr)
			}
		}
	}

	// ---- crash points of the SECOND save (sample): start state = a crash state of save #1 with a leftover temporary file ----
	type hist struct {
		s      *scenario
		st     dirState
		origin string
		dry    *dryRun
		res    []*killResult
	}
	var hists []*hist
	for _, s := range scs {
		if c.Quick() && s.Name != "min>300k" {
			continue
		}
		if st := bestLeft[s]; st != nil {
			hists = append(hists, &hist{s: s, st: st, origin: "real kill of save #1"})
		}
		if st := partLeft[s]; st != nil {
			hists = append(hists, &hist{s: s, st: st, origin: "replayed cut write of save #1"})
		}
	}
	for hi, h := range hists {
		wg.Add(1)
		sem <- struct{}{}
		go func(hi int, h *hist) {
			defer wg.Done()
			s := h.s
			hdir := filepath.Join(s.Dir, fmt.Sprintf("h%d", hi))
			os.MkdirAll(hdir, 0o755)
			os.WriteFile(filepath.Join(hdir, "c.json"), s.Cs[0].Canon, 0o600)
			fsDir := filepath.Join(hdir, "fs-dry")
			tracePath, stderrPath := filepath.Join(hdir, "dry.trace"), filepath.Join(hdir, "dry.stderr")
			to, err := runStraceMode(self, "resave", h.st, []string{"-s", "8388608"}, hdir, fsDir, tracePath, stderrPath)
			<-sem
			se, _ := os.ReadFile(stderrPath)
			m := reTID.FindSubmatch(se)
			if err != nil || to || m == nil || !bytes.Contains(se, []byte(mark2)) {
				return // a failing second save is judged by the completion runs; nothing to enumerate here
			}
			tid, _ := strconv.Atoi(string(m[1]))
			tl, err := parseTrace(tracePath)
			os.Remove(tracePath)
			if err != nil {
				return
			}
			dry, err := analyseDry(tl, tid, fsDir)
			if err != nil {
				return
			}
			h.dry = dry
			h.res = make([]*killResult, len(dry.Points))
			keep := selectPoints(dry, !c.Quick())
			var wg2 sync.WaitGroup
			for pi, kp := range dry.Points {
				if !keep[pi] {
					continue
				}
				wg2.Add(1)
				sem <- struct{}{}
				go func(pi int, kp killPoint) {
					defer wg2.Done()
					defer func() { <-sem }()
					r := &killResult{S: s, KP: kp, WinLen: len(dry.Window)}
					tag := fmt.Sprintf("k%02d", pi)
					kfs := filepath.Join(hdir, "fs-"+tag)
					ktrace, kstderr := filepath.Join(hdir, tag+".trace"), filepath.Join(hdir, tag+".stderr")
					for attempt := 0; attempt < 2; attempt++ {
						r.Why = ""
						to, err := runStraceMode(self, "resave", h.st, []string{"-e", "trace=" + kp.Name, "-e", fmt.Sprintf("inject=%s:signal=KILL:when=%d", kp.Name, kp.Ordinal)},
							hdir, kfs, ktrace, kstderr)
						if err != nil || to {
							r.Why = fmt.Sprintf("kill run failed (timeout=%v err=%v)", to, err)
							continue
						}
						if r.Why = verifyKill(ktrace, kstderr, kp); r.Why == "" {
							break
						}
					}
					if r.Why == "" {
						r.V = s.classifyFile(filepath.Join(kfs, targetName))
						os.Remove(ktrace)
					}
					os.RemoveAll(kfs)
					h.res[pi] = r
				}(pi, kp)
			}
			wg2.Wait()
		}(hi, h)
	}
	wg.Wait()
	hKills := 0
	hOut := map[string]int{}
	for _, h := range hists {
		for _, r := range h.res {
			if r == nil {
				continue
			}
			kp, s := r.KP, r.S
			where := fmt.Sprintf("%s second save (after %s; %s) kill at %s#%d", s.Name, h.origin, h.st.describe(s), kp.Name, kp.Ordinal)
			if r.Why != "" {
				c.Inconclusive(where + ": " + r.Why)
				continue
			}
			hKills++
			c.Eval(1)
			c.Distinct(fmt.Sprintf("%s|resave-kill|%s|%d:%s", s.Name, h.st.describe(s), kp.WinIdx, kp.Name))
			hOut[r.V.Class]++
			w := map[string]any{"monitor": "real-kill of the second save", "scenario": s.Name, "first_save_stopped": h.origin, "directory_after_first_crash": h.st.describe(s),
				"second_save": "shorter", "second_len": len(s.Cs[0].Disk), "killed_on_entry_to": kp.Text, "last_completed_call": kp.Prev,
				"file_class": r.V.Class, "file_len": r.V.Len, "file_prefix": r.V.Prefix, "loader_error": r.V.Err}
			c.Sample("resave-kill/"+r.V.Class, w)
			if r.V.Class != "old" && r.V.Class != "new" && r.V.Class != "new2" {
				c.Violate("process-crash|resave-crash|"+r.V.Class, w)
			}
		}
	}

	for _, f := range deferred {
		f()
	}

	c.Set("resave_runs", rsStates)
	c.Set("resave_outcomes", rsOut)
	c.Set("resave_save_errors", rsErrors)
	c.Set("resave_power_loss_state_products_capped", rsCapped)
	c.Set("second_save_crash_histories", len(hists))
	c.Set("second_save_kill_runs", hKills)
	c.Set("second_save_kill_outcomes", hOut)
	c.Set("scenarios", len(scs))
	c.Set("phase_seconds", map[string]float64{"dry_runs": tDry.Seconds(), "replay": tRep.Seconds(), "waiting_for_kill_runs": tWait.Seconds()})
	c.Set("real_kill_runs", killRuns)
	c.Set("real_kill_points_skipped_state_unchanged", killSkipped)
	c.Set("real_kill_outcomes", killOutcome)
	c.Set("real_kill_state_equals_model_state", crossOK)
	c.Set("replay_crash_states", states)
	c.Set("replay_outcomes", replayOut)
	c.Set("save_call_sequences", sawSeq)
	c.Set("leftover_temp_files_after_kills", leftovers)
	c.Set("final_file_modes", modes)
	c.Exhaustive(true)
	if killOutcome["old"] == 0 || killOutcome["new"] == 0 {
		c.Inconclusive(fmt.Sprintf("real kills never observed both a complete old and a complete new session (outcomes %v): the kill window is not placed around the save", killOutcome))
	}
	if states == 0 {
		c.Inconclusive("offline replay produced no crash states")
	}
}

// selectPoints: all kill points (full) or only those before which a state-changing call completed
// since the previously kept one (first and last are always kept).
func selectPoints(dry *dryRun, full bool) []bool {
	keep := make([]bool, len(dry.Points))
	prevWin := 0
	for pi, kp := range dry.Points {
		if !full && pi > 0 && pi < len(dry.Points)-1 {
			changed := false
			for wi := prevWin; wi < kp.WinIdx && wi < len(dry.Window); wi++ {
				if n := dry.Window[wi].Name; !noiseCalls[n] && !benignCalls[n] {
					changed = true
				}
			}
			if !changed {
				continue
			}
		}
		prevWin = kp.WinIdx
		keep[pi] = true
	}
	return keep
}

// verifyKill checks in the kill run's own trace that the process was killed on
// entry to exactly the intended call of the pinned thread.
func verifyKill(tracePath, stderrPath string, kp killPoint) string {
	se, _ := os.ReadFile(stderrPath)
	m := reTID.FindSubmatch(se)
	if m == nil {
		return "no TID line on the child's stderr: " + clip(string(se), 200)
	}
	tid, _ := strconv.Atoi(string(m[1]))
	if !bytes.Contains(se, []byte(mark1)) {
		return "killed before session A was saved"
	}
	if bytes.Contains(se, []byte(mark2)) || bytes.Contains(se, []byte(markErr)) {
		return "the save finished: the injection did not fire"
	}
	tl, err := parseTrace(tracePath)
	if err != nil {
		return err.Error()
	}
	if !tl.Killed[tid] {
		return "thread not reported killed by strace"
	}
	var mine []*call
	for _, c := range tl.Calls {
		if c.PID == tid && c.Name == kp.Name {
			mine = append(mine, c)
		}
	}
	if len(mine) != kp.Ordinal {
		return fmt.Sprintf("thread issued %d %s calls before dying, expected %d", len(mine), kp.Name, kp.Ordinal)
	}
	for i, fp := range kp.ClassFP {
		if mine[i].fingerprint() != fp {
			return fmt.Sprintf("%s call %d differs from the dry run (%s vs %s)", kp.Name, i+1, mine[i].fingerprint(), fp)
		}
	}
	last := mine[len(mine)-1]
	if last.fingerprint() != kp.FP {
		return fmt.Sprintf("killed call differs from the dry run (%s vs %s)", last.fingerprint(), kp.FP)
	}
	if r, ok := last.retInt(); ok {
		return fmt.Sprintf("killed call returned %d: it was executed", r)
	}
	return ""
}
