package main

import (
	"context"
	"encoding/json"
	"fmt"
	"math/rand/v2"

	"github.com/gotd/td/session"
	"github.com/gotd/td/tg"
)

func randBytes(r *rand.Rand, n int) []byte {
	b := make([]byte, n)
	for i := range b {
		b[i] = byte(r.Uint32())
	}
	return b
}

func genOption(r *rand.Rand) tg.DCOption {
	o := tg.DCOption{
		ID:        1 + r.IntN(5),
		IPAddress: fmt.Sprintf("149.154.%d.%d", 160+r.IntN(16), r.IntN(256)),
		Port:      []int{443, 80, 5222, 8443}[r.IntN(4)],
	}
	switch r.IntN(5) {
	case 0:
		o.Ipv6 = true
		o.IPAddress = fmt.Sprintf("2001:b28:f23d:f00%d:0000:0000:0000:000%x", r.IntN(4), r.IntN(16))
	case 1:
		o.MediaOnly = true
	case 2:
		o.TCPObfuscatedOnly = true
		o.Secret = randBytes(r, 16)
	case 3:
		o.CDN, o.Static = true, r.IntN(2) == 0
	}
	o.SetFlags()
	return o
}

// onDisk returns the bytes the real Loader hands to a Storage for d.
func onDisk(d *session.Data) []byte {
	mem := &session.StorageMemory{}
	ld := session.Loader{Storage: mem}
	if err := ld.Save(context.Background(), d); err != nil {
		panic(err)
	}
	b, err := mem.Bytes(nil)
	if err != nil {
		panic(err)
	}
	return b
}

func canon(d *session.Data) []byte {
	b, err := json.Marshal(d)
	if err != nil {
		panic(err)
	}
	return b
}

// genData builds a realistic session whose on-disk form is about target bytes
// (target 0: no DC options, the smallest realistic session).
func genData(r *rand.Rand, target int) *session.Data {
	dc := 1 + r.IntN(5)
	d := &session.Data{
		DC:        dc,
		Addr:      fmt.Sprintf("149.154.%d.%d:443", 160+r.IntN(16), r.IntN(256)),
		AuthKey:   randBytes(r, 256),
		AuthKeyID: randBytes(r, 8),
		Salt:      int64(r.Uint64()),
		Config: session.Config{
			Date:            1700000000 + r.IntN(1<<24),
			Expires:         1700003600 + r.IntN(1<<24),
			ThisDC:          dc,
			TestMode:        r.IntN(4) == 0,
			DCTxtDomainName: "apv3.stel.com",
			TmpSessions:     r.IntN(3),
			WebfileDCID:     4,
		},
	}
	if target <= 0 {
		return d
	}
	base := len(onDisk(d))
	for i := 0; i < 8; i++ {
		d.Config.DCOptions = append(d.Config.DCOptions, genOption(r))
	}
	per := (len(onDisk(d)) - base) / 8
	if per < 1 {
		per = 1
	}
	for n := (target - base) / per; len(d.Config.DCOptions) < n; {
		d.Config.DCOptions = append(d.Config.DCOptions, genOption(r))
	}
	return d
}
