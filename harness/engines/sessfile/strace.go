package main

import (
	"bytes"
	"fmt"
	"os"
	"regexp"
	"strconv"
	"strings"
)

// call is one system call of an strace -f -o log.
type call struct {
	PID      int
	Name     string
	Args     string // raw argument text (entry part + resumed part)
	Ret      string // text after " = " ("" while unfinished / killed)
	Ordinal  int    // 1-based count of this syscall name on this thread (entries) = strace `when=`
	Line     int
	Finished bool
}

type traceLog struct {
	Calls  []*call
	Killed map[int]bool // pid -> "+++ killed by SIGKILL +++" seen
	Exited map[int]bool
}

var (
	reEntry   = regexp.MustCompile(`^(\d+)\s+([a-z_0-9]+)\((.*)$`)
	reResumed = regexp.MustCompile(`^(\d+)\s+<\.\.\. ([a-z_0-9]+) resumed>(.*)$`)
	reKilled  = regexp.MustCompile(`^(\d+)\s+\+\+\+ killed by (\w+)`)
	reRet     = regexp.MustCompile(`\)\s+= `)
	reExited  = regexp.MustCompile(`^(\d+)\s+\+\+\+ exited with (\d+)`)
)

func splitRet(rest string) (args, ret string, finished bool) {
	if strings.HasSuffix(rest, "<unfinished ...>") {
		return strings.TrimSuffix(rest, "<unfinished ...>"), "", false
	}
	locs := reRet.FindAllStringIndex(rest, -1)
	if len(locs) == 0 {
		return rest, "", false
	}
	l := locs[len(locs)-1]
	return rest[:l[0]], strings.TrimSpace(rest[l[1]:]), true
}

func parseTrace(path string) (*traceLog, error) {
	raw, err := os.ReadFile(path)
	if err != nil {
		return nil, err
	}
	tl := &traceLog{Killed: map[int]bool{}, Exited: map[int]bool{}}
	pending := map[int]*call{}
	counts := map[string]int{}
	for n, lineB := range bytes.Split(raw, []byte("\n")) {
		line := string(lineB)
		if line == "" {
			continue
		}
		if m := reResumed.FindStringSubmatch(line); m != nil {
			pid, _ := strconv.Atoi(m[1])
			if c := pending[pid]; c != nil && c.Name == m[2] {
				a, r, fin := splitRet(m[3])
				c.Args += a
				c.Ret, c.Finished = r, fin
				delete(pending, pid)
			}
			continue
		}
		if m := reKilled.FindStringSubmatch(line); m != nil {
			pid, _ := strconv.Atoi(m[1])
			tl.Killed[pid] = true
			continue
		}
		if m := reExited.FindStringSubmatch(line); m != nil {
			pid, _ := strconv.Atoi(m[1])
			tl.Exited[pid] = true
			continue
		}
		if m := reEntry.FindStringSubmatch(line); m != nil {
			pid, _ := strconv.Atoi(m[1])
			c := &call{PID: pid, Name: m[2], Line: n + 1}
			c.Args, c.Ret, c.Finished = splitRet(m[3])
			key := m[1] + "/" + m[2]
			counts[key]++
			c.Ordinal = counts[key]
			if !c.Finished {
				pending[pid] = c
			}
			tl.Calls = append(tl.Calls, c)
		}
	}
	return tl, nil
}

// splitArgs splits the argument text at top-level commas.
func splitArgs(s string) []string {
	var out []string
	depth, inStr, start := 0, false, 0
	for i := 0; i < len(s); i++ {
		ch := s[i]
		switch {
		case inStr:
			if ch == '\\' {
				i++
			} else if ch == '"' {
				inStr = false
			}
		case ch == '"':
			inStr = true
		case ch == '{' || ch == '[' || ch == '(':
			depth++
		case ch == '}' || ch == ']' || ch == ')':
			depth--
		case ch == ',' && depth == 0:
			out = append(out, strings.TrimSpace(s[start:i]))
			start = i + 1
		}
	}
	if t := strings.TrimSpace(s[start:]); t != "" || len(out) > 0 {
		out = append(out, t)
	}
	return out
}

// decodeStr decodes an strace string literal ("...", optionally followed by ...).
func decodeStr(s string) (data []byte, truncated bool, err error) {
	s = strings.TrimSpace(s)
	if strings.HasSuffix(s, "...") {
		truncated = true
		s = strings.TrimSuffix(s, "...")
	}
	if len(s) < 2 || s[0] != '"' || s[len(s)-1] != '"' {
		return nil, false, fmt.Errorf("not a string literal: %.40q", s)
	}
	s = s[1 : len(s)-1]
	out := make([]byte, 0, len(s)/4+1)
	for i := 0; i < len(s); i++ {
		if s[i] != '\\' {
			out = append(out, s[i])
			continue
		}
		i++
		if i >= len(s) {
			return nil, false, fmt.Errorf("dangling escape")
		}
		switch s[i] {
		case 'x':
			if i+3 > len(s) {
				return nil, false, fmt.Errorf("short hex escape")
			}
			v, e := strconv.ParseUint(s[i+1:i+3], 16, 8)
			if e != nil {
				return nil, false, e
			}
			out = append(out, byte(v))
			i += 2
		case 'n':
			out = append(out, '\n')
		case 't':
			out = append(out, '\t')
		case 'r':
			out = append(out, '\r')
		case 'v':
			out = append(out, '\v')
		case 'f':
			out = append(out, '\f')
		case '"', '\\':
			out = append(out, s[i])
		default:
			// octal
			j := i
			for j < len(s) && j < i+3 && s[j] >= '0' && s[j] <= '7' {
				j++
			}
			if j == i {
				return nil, false, fmt.Errorf("unknown escape \\%c", s[i])
			}
			v, _ := strconv.ParseUint(s[i:j], 8, 16)
			out = append(out, byte(v))
			i = j - 1
		}
	}
	return out, truncated, nil
}

func (c *call) retInt() (int64, bool) {
	f := strings.Fields(c.Ret)
	if len(f) == 0 {
		return 0, false
	}
	v, err := strconv.ParseInt(f[0], 0, 64)
	return v, err == nil
}

// fingerprint identifies a call across runs: name, first argument, byte count for writes.
func (c *call) fingerprint() string {
	a := splitArgs(c.Args)
	fp := c.Name
	if len(a) > 0 {
		fp += "(" + a[0]
	}
	if (c.Name == "write" || c.Name == "pwrite64") && len(a) >= 3 {
		fp += ",n=" + a[2]
	}
	return fp
}

// pretty renders the call with string arguments decoded and clipped.
func (c *call) pretty() string {
	a := splitArgs(c.Args)
	for i, x := range a {
		if strings.HasPrefix(x, "\"") {
			if d, _, err := decodeStr(x); err == nil {
				if len(d) > 72 {
					a[i] = strconv.Quote(string(d[:72])) + fmt.Sprintf("...(%d bytes)", len(d))
				} else {
					a[i] = strconv.Quote(string(d))
				}
			}
		} else if len(x) > 60 {
			a[i] = x[:60] + "..."
		}
	}
	return c.Name + "(" + strings.Join(a, ", ") + ")"
}
