// Engine sessfile: crash-atomicity monitor for the file session storage (C31).
//
// Parent mode runs the property; child mode `--child save <dir>` is the
// program that is killed by strace at chosen system calls.
package main

import (
	"context"
	"encoding/json"
	"fmt"
	"os"
	"path/filepath"
	"runtime"
	"syscall"

	"github.com/gotd/td/session"

	"verif/harness/mon"
)

const (
	mark1      = "VERIF-MARK-1-A-SAVED\n"
	mark2      = "VERIF-MARK-2-B-SAVED\n"
	markErr    = "VERIF-MARK-2-B-ERROR "
	targetName = "session.json"
)

func init() {
	// strace counts `when=N` per thread: the child does all file I/O on the
	// main thread, from process start on.
	if len(os.Args) >= 3 && os.Args[1] == "--child" {
		runtime.LockOSThread()
	}
}

func mark(s string) { syscall.Write(2, []byte(s)) }

// childSave: save session A, marker, save session B over it, marker; all
// through the real session.Loader / session.FileStorage.
func childSave(args []string) {
	runtime.LockOSThread()
	if len(args) < 2 {
		fmt.Fprintln(os.Stderr, "child save: need <data dir> <fs dir>")
		os.Exit(4)
	}
	dir, fsDir := args[0], args[1]
	mark(fmt.Sprintf("VERIF-TID %010d PID %010d\n", syscall.Gettid(), os.Getpid()))
	var a, b session.Data
	for _, it := range []struct {
		name string
		to   *session.Data
	}{{"a.json", &a}, {"b.json", &b}} {
		raw, err := os.ReadFile(filepath.Join(dir, it.name))
		if err == nil {
			err = json.Unmarshal(raw, it.to)
		}
		if err != nil {
			fmt.Fprintln(os.Stderr, "child save:", err)
			os.Exit(4)
		}
	}
	ctx := context.Background()
	ld := session.Loader{Storage: &session.FileStorage{Path: filepath.Join(fsDir, targetName)}}
	if err := ld.Save(ctx, &a); err != nil {
		fmt.Fprintln(os.Stderr, "child save A:", err)
		os.Exit(4)
	}
	mark(mark1)
	if err := ld.Save(ctx, &b); err != nil {
		mark(markErr + err.Error() + "\n")
		os.Exit(5)
	}
	mark(mark2)
}

// childResave: one save of session C into an existing directory (the state a crashed save left behind).
func childResave(args []string) {
	runtime.LockOSThread()
	if len(args) < 2 {
		fmt.Fprintln(os.Stderr, "child resave: need <data dir> <fs dir>")
		os.Exit(4)
	}
	mark(fmt.Sprintf("VERIF-TID %010d PID %010d\n", syscall.Gettid(), os.Getpid()))
	var cdata session.Data
	raw, err := os.ReadFile(filepath.Join(args[0], "c.json"))
	if err == nil {
		err = json.Unmarshal(raw, &cdata)
	}
	if err != nil {
		fmt.Fprintln(os.Stderr, "child resave:", err)
		os.Exit(4)
	}
	ld := session.Loader{Storage: &session.FileStorage{Path: filepath.Join(args[1], targetName)}}
	mark(mark1)
	if err := ld.Save(context.Background(), &cdata); err != nil {
		mark(markErr + err.Error() + "\n")
		os.Exit(5)
	}
	mark(mark2)
}

func main() {
	mon.RegisterChild("save", childSave)
	mon.RegisterChild("resave", childResave)
	mon.Main("sessfile", map[string]mon.PropFunc{
		"C31": runC31,
	})
}
