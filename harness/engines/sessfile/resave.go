package main

// Crash-then-save-again histories: the directory state a crash of save #1 left
// behind (session file + leftover temporary files) is the start state of a
// second save of session C (shorter / equal / longer than B) by the real code.

import (
	"context"
	"crypto/sha256"
	"fmt"
	"os"
	"path/filepath"
	"sort"

	"github.com/gotd/td/session"
	"github.com/gotd/td/tg"
)

type variant struct {
	Name  string // shorter equal longer
	Data  *session.Data
	Canon []byte
	Disk  []byte
}

type dirState map[string][]byte // base name -> content

func (st dirState) key() string {
	names := make([]string, 0, len(st))
	for n := range st {
		names = append(names, n)
	}
	sort.Strings(names)
	h := sha256.New()
	for _, n := range names {
		fmt.Fprintf(h, "%s\x00%d\x00", n, len(st[n]))
		h.Write(st[n])
	}
	return string(h.Sum(nil))
}

// describe: seed-independent description (temporary names are random with the repaired code).
func (st dirState) describe(s *scenario) string {
	d := "session.json:absent"
	if b, ok := st[targetName]; ok {
		switch {
		case string(b) == string(s.ADisk):
			d = "session.json:old"
		case string(b) == string(s.BDisk):
			d = "session.json:new"
		default:
			d = fmt.Sprintf("session.json:%dB", len(b))
		}
	}
	var sizes []int
	for n, b := range st {
		if n != targetName {
			sizes = append(sizes, len(b))
		}
	}
	sort.Ints(sizes)
	for _, n := range sizes {
		d += fmt.Sprintf(" leftover:%dB/%dB", n, len(s.BDisk))
	}
	return d
}

func readDirState(dir string) dirState {
	st := dirState{}
	ents, _ := os.ReadDir(dir)
	for _, e := range ents {
		if e.Type().IsRegular() {
			if b, err := os.ReadFile(filepath.Join(dir, e.Name())); err == nil {
				st[e.Name()] = b
			}
		}
	}
	return st
}

func materialise(dir string, st dirState) error {
	os.RemoveAll(dir)
	if err := os.MkdirAll(dir, 0o755); err != nil {
		return err
	}
	for n, b := range st {
		if err := os.WriteFile(filepath.Join(dir, n), b, 0o600); err != nil {
			return err
		}
	}
	return nil
}

func cloneData(d *session.Data) *session.Data {
	c := *d
	c.AuthKey = append([]byte(nil), d.AuthKey...)
	c.AuthKeyID = append([]byte(nil), d.AuthKeyID...)
	c.Config.DCOptions = append([]tg.DCOption(nil), d.Config.DCOptions...)
	return &c
}

// makeVariants: session C for the second save. equal: exactly len(B) on disk (B with fresh keys);
// longer: B with fresh keys and 8 more DC options; shorter: a minimal session with short fields
// (shorter than every B and, except for the smallest B, than half of B).
func (s *scenario) makeVariants(r interface{ Uint32() uint32 }) {
	fresh := func(d *session.Data) {
		for i := range d.AuthKey {
			d.AuthKey[i] = byte(r.Uint32())
		}
		for i := range d.AuthKeyID {
			d.AuthKeyID[i] = byte(r.Uint32())
		}
	}
	eq := cloneData(s.B)
	fresh(eq)
	lg := cloneData(s.B)
	fresh(lg)
	for i := 0; i < 8; i++ {
		lg.Config.DCOptions = append(lg.Config.DCOptions, tg.DCOption{ID: 1 + i%5, IPAddress: fmt.Sprintf("149.154.167.%d", 40+i), Port: 443})
	}
	sh := &session.Data{DC: 2, Addr: "1.1.1.1:1", AuthKey: make([]byte, 256), AuthKeyID: make([]byte, 8), Salt: 1}
	fresh(sh)
	for _, v := range []variant{{Name: "shorter", Data: sh}, {Name: "equal", Data: eq}, {Name: "longer", Data: lg}} {
		v.Canon, v.Disk = canon(v.Data), onDisk(v.Data)
		s.Cs = append(s.Cs, v)
	}
}

type resaveResult struct {
	State   string // description of the start state
	Variant string
	CLen    int
	SaveErr string
	V       verdict
	Bad     bool
}

// resaveAll runs the real save of every variant on a directory materialised from st.
// Oracle: a completed save must load as C; a failed save must leave the complete old or new session.
func (s *scenario) resaveAll(work string, st dirState) ([]resaveResult, error) {
	var out []resaveResult
	for _, v := range s.Cs {
		if err := materialise(work, st); err != nil {
			return out, err
		}
		path := filepath.Join(work, targetName)
		ld := session.Loader{Storage: &session.FileStorage{Path: path}}
		r := resaveResult{State: st.describe(s), Variant: v.Name, CLen: len(v.Disk)}
		if err := ld.Save(context.Background(), v.Data); err != nil {
			r.SaveErr = clip(err.Error(), 200)
		}
		r.V = s.classifyFile(path)
		if r.SaveErr == "" {
			r.Bad = !(r.V.Class == "new2" && r.V.Variant == v.Name)
		} else {
			_, hadTarget := st[targetName]
			r.Bad = !(r.V.Class == "old" || r.V.Class == "new" || (r.V.Class == "missing" && !hadTarget))
		}
		out = append(out, r)
	}
	os.RemoveAll(work)
	return out, nil
}
