// Engine entmon: monitors for the message-entity properties
// C35 (entity ranges are exact UTF-16 ranges), C36 (entity order) and
// C37 (HTML / Markdown formatting never crashes and stays within the text).
//
// All three drive the real packages telegram/message/{entity,styling,html,markdown}
// through their public API only; no hooks are needed.
package main

import (
	"verif/harness/mon"
)

func main() {
	mon.RegisterBatch("c37", c37Child)
	mon.Main("entmon", map[string]mon.PropFunc{
		"C35": runC35,
		"C36": runC36,
		"C37": runC37,
	})
}
