package main

import (
	"math/rand/v2"
	"strings"
	"unicode/utf8"
)

// ---- HTML tag soup -----------------------------------------------------------------

var (
	htmlTags    = []string{"b", "strong", "i", "em", "u", "ins", "s", "strike", "del", "a", "pre", "code", "span", "tg-spoiler", "tg-emoji", "blockquote", "tg-time"}
	htmlOther   = []string{"div", "p", "br", "img", "font", "x", "abacaba", "h1", "li", "table", "B", "I", "Code", "PRE", "svg", "math"}
	htmlRawText = []string{"textarea", "title", "script", "style", "plaintext", "xmp", "iframe", "noembed", "noframes", "noscript"}
	hrefs       = []string{"http://www.example.com/", "https://telegram.org/a?b=c#d", "telegram.org", "tg://user?id=123456789", "tg://user?id=abc", "tg://user", "tg://resolve?domain=x",
		"", " ", "%zz", "http://[::1]/", "http://[::1", "//x", "mailto:a@b.c", "http://exa mple.org", "http://ж.рф/", "javascript:alert(1)", "http://x.org/\U0001F600", "?", "#", ":", "a:b:c", "http://a.b/%", "\x00", "http://<>"}
	charRefs = []string{"&lt;", "&gt;", "&amp;", "&quot;", "&lt", "&gt", "&amp", "&quot", "&laquo;", "&nbsp;", "&apos;", "&#60;", "&#x3c;", "&#X3C;", "&#12345678;", "&#57311;", "&#xDFDF;", "&#xD800;", "&#xDFDF",
		"&#x10FFFF;", "&#x10FFFE;", "&#x110000;", "&#x1F600;", "&#128512;", "&#128512", "&#0;", "&#;", "&#x;", "&#", "&", "&;", "&#99999999999999999999;", "&#xFFFFFFFFFFFFFFFFF;", "&#4294967361;", "&#x100000041;",
		"&#9;", "&#10;", "&#32;", "&#160;", "&#x2028;", "&#x3000;", "&#5", "&#5 ", "&ltx", "&amp;amp;", "&#x20", "&NotAnEntity;"}
)

type soup struct {
	r      *rand.Rand
	sb     strings.Builder
	budget int
}

func (g *soup) text() {
	switch g.r.IntN(10) {
	case 0, 1, 2:
		g.sb.WriteString(pick(g.r, charRefs))
	case 3:
		g.sb.WriteString(pick(g.r, poolWS))
	case 4:
		g.sb.WriteString([]string{"<", ">", "</", "< b>", "<>", "<3", "a<b", "\"", "'", "=", "/>", "<b", "</b"}[g.r.IntN(13)])
	default:
		t, _ := genPiece(g.r, 20)
		g.sb.WriteString(t)
	}
}

func (g *soup) quote(v string) string {
	switch g.r.IntN(6) {
	case 0:
		return "'" + v + "'"
	case 1:
		if !strings.ContainsAny(v, " \t\n>\"'") && v != "" {
			return v
		}
		return "\"" + v + "\""
	case 2:
		return "  \"" + v + "\"  "
	}
	return "\"" + v + "\""
}

func (g *soup) attrs(tag string) string {
	var as []string
	add := func(k, v string) {
		eq := []string{"=", " = ", "=  ", "  ="}[g.r.IntN(4)]
		as = append(as, k+eq+g.quote(v))
	}
	switch tag {
	case "a":
		if g.r.IntN(5) != 0 {
			add("href", pick(g.r, hrefs))
		}
	case "code", "pre":
		if g.r.IntN(2) == 0 {
			add("class", []string{"language-go", "language-", "language-fift", "go", "language-\U0001F600", ""}[g.r.IntN(6)])
		}
	case "span":
		add("class", []string{"tg-spoiler", "tg-spoiler", "x", "TG-SPOILER", " tg-spoiler"}[g.r.IntN(5)])
	case "tg-emoji":
		add("emoji-id", []string{"5368324170671202286", "1", "-1", "abc", "", "99999999999999999999", "0x10"}[g.r.IntN(7)])
	case "blockquote":
		if g.r.IntN(2) == 0 {
			as = append(as, "expandable")
		}
	case "tg-time":
		add("unix", []string{"1647531900", "0", "-1", "abc", "", "99999999999999999999"}[g.r.IntN(6)])
		if g.r.IntN(2) == 0 {
			add("format", []string{"t", "T", "d", "D", "w", "r", "R", "tdw", "rt", "x", "", "\U0001F600"}[g.r.IntN(12)])
		}
	}
	for g.r.IntN(5) == 0 {
		switch g.r.IntN(5) {
		case 0:
			as = append(as, "aba")
		case 1:
			add("aba", "190azAz-.")
		case 2:
			add("data-x", pick(g.r, charRefs))
		case 3:
			as = append(as, "=aba")
		case 4:
			add("href", pick(g.r, hrefs)) // duplicate / foreign href
		}
	}
	if len(as) == 0 {
		return ""
	}
	g.r.Shuffle(len(as), func(i, j int) { as[i], as[j] = as[j], as[i] })
	return " " + strings.Join(as, []string{" ", "  ", "\n", "\t"}[g.r.IntN(4)])
}

func (g *soup) element(depth int) {
	tag := pick(g.r, htmlTags)
	switch x := g.r.IntN(20); {
	case x == 0:
		tag = pick(g.r, htmlRawText)
	case x < 3:
		tag = pick(g.r, htmlOther)
	}
	name := tag
	if g.r.IntN(12) == 0 {
		name = strings.ToUpper(tag)
	}
	g.sb.WriteString("<" + name + g.attrs(tag))
	switch g.r.IntN(14) {
	case 0:
		g.sb.WriteString("/>") // self-closing: never pushed
		return
	case 1:
		g.sb.WriteString("   >")
	default:
		g.sb.WriteString(">")
	}
	kids := g.r.IntN(4)
	for i := 0; i < kids && g.budget > 0; i++ {
		g.node(depth + 1)
	}
	if g.r.IntN(3) == 0 { // white space at the end of the element (what Complete trims when it ends the message)
		for n := 1 + g.r.IntN(3); n > 0; n-- {
			g.sb.WriteString(pick(g.r, poolWS))
		}
	}
	switch x := g.r.IntN(24); {
	case x < 15:
		g.sb.WriteString("</" + name + ">")
	case x < 18:
		g.sb.WriteString("</>")
	case x < 19:
		g.sb.WriteString("</" + name + "   >")
	case x < 20:
		g.sb.WriteString("</ >") // a comment token shaped like an end tag
	case x < 21:
		g.sb.WriteString("</" + pick(g.r, htmlTags) + ">") // mis-nested
	case x < 22:
		g.sb.WriteString("</" + name) // unterminated
	default:
		// unclosed
	}
}

func (g *soup) node(depth int) {
	g.budget--
	if depth > 6 {
		g.text()
		return
	}
	switch x := g.r.IntN(20); {
	case x < 8:
		g.text()
	case x < 18:
		g.element(depth)
	case x < 19:
		g.sb.WriteString([]string{"<!-- c -->", "<!-->", "<!--->", "<!-- </b> -->", "<!doctype html>", "<?xml v?>", "<![CDATA[ <b>x</b> ]]>", "<!>", "</1>", "</ b>", "<!--", "</#x>", "<!-- --!>"}[g.r.IntN(13)])
	default:
		g.sb.WriteString("</" + pick(g.r, htmlTags) + ">") // stray end tag
	}
}

func genHTMLSoup(r *rand.Rand) string {
	g := &soup{r: r, budget: 4 + r.IntN(24)}
	top := 1 + r.IntN(4)
	for i := 0; i < top && g.budget > 0; i++ {
		g.node(0)
	}
	return g.sb.String()
}

// ---- Markdown soup -------------------------------------------------------------------

var mdURLs = []string{"http://x.org", "https://telegram.org/a?b=c#d", "tg://user?id=123", "tg://user?id=abc", "tg://user", "tg://emoji?id=5368324170671202286", "tg://emoji?id=x", "tg://emoji",
	"tg://time?unix=1647531900&format=t", "tg://time?unix=1&format=zz", "tg://time?unix=z", "tg://time", "%zz", "", "<a b>", "<>", "x y", "(a)", "((a)", "http://[::1", "/rel", "#", "\\)", "http://x.org \"title\"", "http://x.org 'ti\"tle'", "\U0001F600"}

type mdSoup struct {
	r      *rand.Rand
	budget int
}

func (g *mdSoup) inline(depth int) string {
	g.budget--
	if depth > 5 || g.budget <= 0 {
		t, _ := genPiece(g.r, 15)
		return t
	}
	inner := func() string {
		var sb strings.Builder
		for n := 1 + g.r.IntN(3); n > 0; n-- {
			sb.WriteString(g.inline(depth + 1))
		}
		if g.r.IntN(4) == 0 {
			sb.WriteString(pick(g.r, poolWS))
		}
		return sb.String()
	}
	switch g.r.IntN(24) {
	case 0, 1, 2, 3, 4:
		t, _ := genPiece(g.r, 15)
		return t
	case 5:
		return "*" + inner() + "*"
	case 6:
		return "**" + inner() + "**"
	case 7:
		return "_" + inner() + "_"
	case 8:
		return "__" + inner() + "__"
	case 9:
		return "***" + inner() + "***"
	case 10:
		return "~~" + inner() + "~~"
	case 11:
		return "||" + inner() + "||"
	case 12:
		d := []string{"`", "``", "```"}[g.r.IntN(3)]
		return d + inner() + d
	case 13, 14:
		return "[" + inner() + "](" + pick(g.r, mdURLs) + ")"
	case 15:
		return "![" + inner() + "](" + pick(g.r, mdURLs) + ")"
	case 16:
		return []string{"[" + inner() + "][ref]", "[" + inner() + "]", "[" + inner() + "](", "<http://auto.link/" + pick(g.r, poolASCII) + ">", "<a@b.c>", "<b>" + inner() + "</b>"}[g.r.IntN(6)]
	case 17:
		return []string{"\\*", "\\_", "\\`", "\\[", "\\]", "\\\\", "\\|", "\\~", "\\", "\\\n", "  \n", "\n", "\\a"}[g.r.IntN(13)]
	case 18:
		return []string{"*", "**", "_", "__", "~", "~~", "~~~", "|", "||", "|||", "||||", "`", "[", "]", "(", ")", "![", "]("}[g.r.IntN(18)] // unmatched delimiters
	case 19:
		return pick(g.r, charRefs)
	case 20:
		return pick(g.r, poolWS)
	case 21:
		return "*" + inner() + "**" + inner() + "*" + inner() + "**" // overlapping runs
	case 22:
		return "_*" + inner() + "_*"
	default:
		return "||**" + inner() + "**||"
	}
}

func (g *mdSoup) block(depth int) string {
	line := func() string {
		var sb strings.Builder
		for n := 1 + g.r.IntN(4); n > 0 && g.budget > 0; n-- {
			sb.WriteString(g.inline(0))
		}
		return sb.String()
	}
	switch g.r.IntN(16) {
	case 0, 1:
		if depth < 4 {
			var sb strings.Builder
			pfx := []string{">", "> ", ">>", " > ", ">\t"}[g.r.IntN(5)]
			for n := 1 + g.r.IntN(3); n > 0; n-- {
				for _, l := range strings.Split(g.block(depth+1), "\n") {
					if g.r.IntN(8) == 0 {
						sb.WriteString(l + "\n") // lazy continuation
					} else {
						sb.WriteString(pfx + l + "\n")
					}
				}
			}
			return sb.String()
		}
		return line() + "\n"
	case 2, 3:
		fence := []string{"```", "~~~", "````", "```  "}[g.r.IntN(4)]
		info := []string{"", "go", "python title", "\U0001F600", "go`x", "{.go}", " "}[g.r.IntN(7)]
		body := ""
		for n := g.r.IntN(4); n > 0; n-- {
			body += line() + "\n"
		}
		end := fence
		switch g.r.IntN(6) {
		case 0:
			end = "" // unclosed fence
		case 1:
			end = "``"
		}
		return fence + info + "\n" + body + end + "\n"
	case 4:
		return []string{"# ", "## ", "###### ", "####### ", "#"}[g.r.IntN(5)] + line() + "\n"
	case 5:
		return []string{"- ", "* ", "+ ", "1. ", "1) ", "0. ", "-"}[g.r.IntN(7)] + line() + "\n" + []string{"", "  " + line() + "\n", "    code\n"}[g.r.IntN(3)]
	case 6:
		return line() + "\n" + []string{"===", "---", "***", "___", "- - -"}[g.r.IntN(5)] + "\n"
	case 7:
		return "    " + line() + "\n"
	case 8:
		return []string{"<div>\n", "<!-- c -->\n", "<b>x</b>\n", "[ref]: http://x.org \"t\"\n", "\n\n", " \n", "\t\n", "\r\n"}[g.r.IntN(8)]
	default:
		s := line()
		for g.r.IntN(3) == 0 {
			s += []string{"\n", "  \n", "\\\n", "\r\n"}[g.r.IntN(4)] + line()
		}
		return s + []string{"\n", "\n\n", "", "  ", " \n \n"}[g.r.IntN(5)]
	}
}

func genMarkdownSoup(r *rand.Rand) string {
	g := &mdSoup{r: r, budget: 6 + r.IntN(30)}
	var sb strings.Builder
	for n := 1 + r.IntN(4); n > 0; n-- {
		sb.WriteString(g.block(0))
	}
	return sb.String()
}

// ---- byte-level mutation ------------------------------------------------------------

var markupBytes = []byte("<>/&#;bia x=\"'*_`[]()|~>\n")

var hotBytes = []byte("<>&/\"'=#;x \n\t\\*_`[]()|~!-\x00\x7f\x80\xbf\xc0\xc2\xe2\xed\xa0\xf0\xf4\xf8\xff")

func mutate(r *rand.Rand, in []byte) []byte {
	out := append([]byte(nil), in...)
	for n := 1 + r.IntN(3); n > 0; n-- {
		switch r.IntN(6) {
		case 0:
			if len(out) > 0 {
				i := r.IntN(len(out))
				out = append(out[:i], out[i+1:]...)
			}
		case 1:
			i := r.IntN(len(out) + 1)
			out = append(out[:i], append([]byte{hotBytes[r.IntN(len(hotBytes))]}, out[i:]...)...)
		case 2:
			if len(out) > 0 {
				out[r.IntN(len(out))] ^= 1 << r.IntN(8)
			}
		case 3:
			if len(out) > 1 {
				i := r.IntN(len(out))
				j := i + 1 + r.IntN(min(16, len(out)-i))
				seg := append([]byte(nil), out[i:j]...)
				k := r.IntN(len(out) + 1)
				out = append(out[:k], append(seg, out[k:]...)...)
			}
		case 4:
			if len(out) > 0 {
				out = out[:r.IntN(len(out))]
			}
		case 5:
			if len(out) > 0 {
				out[r.IntN(len(out))] = hotBytes[r.IntN(len(hotBytes))]
			}
		}
	}
	return out
}

// splitRune inserts markup in the middle of a multi-byte rune (the input becomes invalid UTF-8,
// the text the parser assembles from the pieces may be valid again).
func splitRune(r *rand.Rand, in []byte, markup []string) []byte {
	var pos []int
	for i := 0; i < len(in); {
		_, sz := utf8.DecodeRune(in[i:])
		if sz > 1 {
			pos = append(pos, i+1+r.IntN(sz-1))
		}
		i += sz
	}
	if len(pos) == 0 {
		in = append(append([]byte(nil), in...), "\U0001F600€"...)
		pos = []int{len(in) - 5, len(in) - 2}
	}
	p := pos[r.IntN(len(pos))]
	m := pick(r, markup)
	return append(append(append([]byte(nil), in[:p]...), m...), in[p:]...)
}

func randomBytes(r *rand.Rand) []byte {
	n := r.IntN(64)
	out := make([]byte, n)
	alpha := r.IntN(3)
	for i := range out {
		switch alpha {
		case 0:
			out[i] = byte(r.Uint32())
		case 1:
			out[i] = hotBytes[r.IntN(len(hotBytes))]
		default:
			out[i] = markupBytes[r.IntN(len(markupBytes))]
		}
	}
	return out
}

// genC37Input returns (class, parser kind, input) for case i.
func genC37Input(r *rand.Rand, i int) (string, string, []byte) {
	md := i%5 >= 3 // 40% Markdown, 60% HTML
	kind := "html"
	if md {
		kind = "markdown"
	} else if r.IntN(4) == 0 {
		kind = "html-noescape"
	}
	var base string
	if md {
		base = genMarkdownSoup(r)
	} else {
		base = genHTMLSoup(r)
	}
	switch x := r.IntN(100); {
	case x < 70:
		return "soup", kind, []byte(base)
	case x < 85:
		return "soup-mutated", kind, mutate(r, []byte(base))
	case x < 93:
		markup := []string{"<b>", "</b>", "<i>", "</>", "<b></b>", "<!-- -->", "&lt;"}
		if md {
			markup = []string{"*", "**", "`", "||", "~~", "_", "\\", "](u)", "\n> "}
		}
		return "rune-split", kind, splitRune(r, []byte(base), markup)
	default:
		return "random-bytes", kind, randomBytes(r)
	}
}
