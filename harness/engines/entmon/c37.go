package main

import (
	"bytes"
	"encoding/base64"
	"encoding/json"
	"fmt"
	"os"
	"path/filepath"
	"sort"
	"strings"
	"sync"
	"time"
	"unicode/utf8"

	"github.com/gotd/td/telegram/message/entity"
	"github.com/gotd/td/telegram/message/html"
	"github.com/gotd/td/telegram/message/markdown"
	"github.com/gotd/td/tg"

	"verif/harness/mon"
)

// parse runs one real parser over the input and finishes the builder the way
// message.StyledText does (Complete) or without the trim (Raw).
func parse(kind string, in []byte, final string) (string, []tg.MessageEntityClass, int, error) {
	var b entity.Builder
	var err error
	switch kind {
	case "html":
		err = html.HTML(bytes.NewReader(in), &b, html.Options{})
	case "html-noescape":
		err = html.HTML(bytes.NewReader(in), &b, html.Options{DisableTelegramEscape: true})
	case "markdown":
		err = markdown.Markdown(bytes.NewReader(in), &b, markdown.Options{})
	default:
		panic("harness: unknown parser kind " + kind)
	}
	if err != nil {
		return "", nil, 0, err
	}
	believed := b.UTF16Len() // the length the builder itself has counted (all offsets derive from it)
	if final == "raw" {
		msg, ents := b.Raw()
		return msg, ents, believed, nil
	}
	msg, ents := b.Complete()
	return msg, ents, believed, nil
}

// bounds returns the first entity that is not inside the text ("" if all are).
func bounds(msg string, ents []tg.MessageEntityClass) (string, int) {
	l := u16len(msg)
	for i, e := range ents {
		switch {
		case e == nil:
			return "nil-entity", i
		case e.GetOffset() < 0:
			return "negative-offset", i
		case e.GetLength() < 0:
			return "negative-length", i
		case e.GetOffset()+e.GetLength() > l:
			return "entity-past-end", i
		}
	}
	return "", -1
}

// truncatedLeads counts the UTF-8 lead bytes of the input whose sequence is cut short.
func truncatedLeads(in []byte) int {
	n := 0
	for i := 0; i < len(in); {
		r, sz := utf8.DecodeRune(in[i:])
		if r == utf8.RuneError && sz == 1 && in[i] >= 0xC2 && in[i] <= 0xF4 {
			n++
		}
		i += sz
	}
	return n
}

const splitRuneSig = "invalid-utf8|entity-past-end|builder-counts-split-rune-bytes"

type c37Finding struct {
	Sig     string         `json:"sig"`
	Witness map[string]any `json:"witness"`
}

type c37Result struct {
	Err      string       `json:"err,omitempty"`
	Text16   int          `json:"text_utf16_len"`
	Entities int          `json:"entities"`
	Trimmed  bool         `json:"trimmed"`
	Findings []c37Finding `json:"findings,omitempty"`
	Millis   int64        `json:"ms"`
}

func inputWitness(kind string, in []byte) map[string]any {
	w := map[string]any{"parser": kind, "input_len": len(in), "input_valid_utf8": utf8.Valid(in)}
	if len(in) <= 2048 {
		w["input_quoted"] = fmt.Sprintf("%+q", in)
		w["input_base64"] = base64.StdEncoding.EncodeToString(in)
	} else {
		w["input_head_quoted"] = fmt.Sprintf("%+q", in[:256])
		w["input_tail_quoted"] = fmt.Sprintf("%+q", in[len(in)-256:])
	}
	return w
}

func clipEnts(es []entRec) []entRec {
	if len(es) > 24 {
		return append(append([]entRec{}, es[:12]...), es[len(es)-12:]...)
	}
	return es
}

// checkInput runs the bound oracle for one parser over one input (no panic capture here).
//
// Inputs of a megabyte and more (deep-nesting batches only) are parsed once, for Complete: the Raw
// pass would double the cost and only refines the cause in the signature.
func checkInput(kind string, in []byte) c37Result {
	var res c37Result
	pfx := ""
	if !utf8.Valid(in) {
		pfx = "invalid-utf8|"
	}
	if len(in) >= 1<<20 {
		msg, ents, _, err := parse(kind, in, "complete")
		if err != nil {
			res.Err = err.Error()
			return res
		}
		res.Text16, res.Entities = u16len(msg), len(ents)
		if bad, i := bounds(msg, ents); bad != "" {
			w := inputWitness(kind, in)
			w["final"], w["text"], w["text_utf16_len"] = "Complete", q(msg), res.Text16
			w["entities"], w["bad_entity_index"], w["bad_entity"] = clipEnts(entRecs(ents)), i, entRecs(ents[i : i+1])[0]
			res.Findings = append(res.Findings, c37Finding{pfx + kind + "|complete|" + bad + "|large-input", w})
		}
		return res
	}
	rawMsg, rawEnts, believed, err := parse(kind, in, "raw")
	if err != nil {
		res.Err = err.Error()
		// an error is an allowed outcome; the second parse must not succeed with a bad result either
	}
	// Root-cause test for one known class: markup inside a multi-byte rune makes the input invalid
	// UTF-8, the builder counts the rune's bytes one unit each as they arrive in separate writes,
	// and the assembled text is shorter than the builder believes. Such an entity is inside the
	// believed length but past the real one.
	// The label is given only when the over-count is explained by the input itself: the input
	// contains S ≥ 1 truncated sequences (a lead byte 0xC2..0xF4 not followed by all its
	// continuation bytes), and the builder's surplus is between 1 and 2·S units (a rune put
	// together again from k separately counted bytes was counted k units instead of 1 or 2, i.e.
	// at most 2 too many). Any other over-count, or an entity beyond even the builder's own
	// length, keeps the general signature.
	isSplitRune := func(bad string, e tg.MessageEntityClass) bool {
		over := believed - u16len(rawMsg)
		return pfx != "" && bad == "entity-past-end" && over >= 1 && over <= 2*truncatedLeads(in) &&
			e.GetOffset() >= 0 && e.GetLength() >= 0 && e.GetOffset()+e.GetLength() <= believed
	}
	rawBad := ""
	if err == nil {
		var i int
		if rawBad, i = bounds(rawMsg, rawEnts); rawBad != "" {
			w := inputWitness(kind, in)
			w["final"], w["text"], w["text_utf16_len"] = "Raw", q(rawMsg), u16len(rawMsg)
			w["entities"], w["bad_entity_index"] = clipEnts(entRecs(rawEnts)), i
			w["bad_entity"] = entRecs(rawEnts[i : i+1])[0]
			sig := pfx + kind + "|raw|" + rawBad
			if isSplitRune(rawBad, rawEnts[i]) {
				sig = splitRuneSig
				w["builder_utf16_len"] = believed
			}
			res.Findings = append(res.Findings, c37Finding{sig, w})
		}
	}
	msg, ents, _, err2 := parse(kind, in, "complete")
	if err2 != nil {
		if res.Err == "" {
			res.Err = err2.Error()
		}
		return res
	}
	res.Text16, res.Entities = u16len(msg), len(ents)
	if err == nil {
		res.Trimmed = len(msg) < len(rawMsg)
	}
	if bad, i := bounds(msg, ents); bad != "" {
		cause := "raw-also-bad"
		if err == nil && rawBad == "" {
			cause = "no-trim"
			if res.Trimmed {
				reach := 0
				for _, e := range rawEnts {
					if e.GetOffset()+e.GetLength() > res.Text16 {
						reach++
					}
				}
				cause = "trailing-whitespace"
				if reach >= 2 {
					cause = "nested-trailing-whitespace"
				}
			}
		}
		w := inputWitness(kind, in)
		w["final"], w["text"], w["text_utf16_len"] = "Complete", q(msg), res.Text16
		w["entities"], w["bad_entity_index"] = clipEnts(entRecs(ents)), i
		w["bad_entity"] = entRecs(ents[i : i+1])[0]
		if err == nil {
			w["raw_text"], w["raw_entities"] = q(rawMsg), clipEnts(entRecs(rawEnts))
		}
		sig := pfx + kind + "|complete|" + bad + "|" + cause
		if err == nil && isSplitRune(bad, ents[i]) {
			sig = splitRuneSig
			w["builder_utf16_len"] = believed
		}
		res.Findings = append(res.Findings, c37Finding{sig, w})
	}
	return res
}

// panicSite: the innermost library frame of a captured panic stack (stable signature component),
// e.g. "html.(*stack).pop".
func panicSite(stack string) string {
	for _, line := range strings.Split(stack, "\n") {
		line = strings.TrimSpace(line)
		if !strings.HasPrefix(line, "github.com/gotd/td/") && !strings.HasPrefix(line, "github.com/yuin/goldmark") && !strings.HasPrefix(line, "golang.org/x/net/html") {
			continue
		}
		if i := strings.LastIndex(line, "("); i > 0 {
			line = line[:i]
		}
		if i := strings.LastIndex(line, "/"); i >= 0 {
			line = line[i+1:]
		}
		return line
	}
	return "unknown-frame"
}

// c37InProcess: one input, one parser, in-process with panic capture.
func c37InProcess(k *collector, class, kind string, in []byte) c37Result {
	var res c37Result
	pv, stack := mon.Try(func() { res = checkInput(kind, in) })
	k.evals++
	if pv != nil {
		pfx := ""
		if !utf8.Valid(in) {
			pfx = "invalid-utf8|"
		}
		k.violate(pfx+kind+"|panic|"+panicSite(stack), func() any {
			w := inputWitness(kind, in)
			w["class"], w["panic"], w["stack"] = class, fmt.Sprint(pv), clip(stack, 3000)
			return w
		})
		return res
	}
	for _, f := range res.Findings {
		f := f
		k.violate(f.Sig, func() any { f.Witness["class"] = class; return f.Witness })
	}
	return res
}

// ---- child batches: inputs that could kill the process ------------------------------

// c37Child input: one byte parser kind (h, n, m) followed by the document.
func c37Child(input []byte) any {
	kind := map[byte]string{'h': "html", 'n': "html-noescape", 'm': "markdown"}[input[0]]
	t0 := time.Now()
	res := checkInput(kind, input[1:])
	res.Millis = time.Since(t0).Milliseconds()
	return res
}

type deepShape struct {
	name  string
	kind  byte
	build func(n int) string
	// largest n per tier (sizes are 10^3, 10^4, ... up to the cap); chosen so that every
	// input finishes well inside the batch watchdog on a loaded machine (see report)
	quickMax, thoroughMax int
}

func rep(s string, n int) string { return strings.Repeat(s, n) }

var allTags = []string{"b", "strong", "i", "em", "u", "ins", "s", "strike", "del", "a href=\"http://x.org\"", "pre", "code", "span class=\"tg-spoiler\"", "tg-spoiler", "tg-emoji emoji-id=\"5\"", "blockquote", "tg-time unix=\"1\" format=\"t\""}

func nestMixed(n int, inner string) string {
	var sb strings.Builder
	for i := 0; i < n; i++ {
		sb.WriteString("<" + allTags[i%len(allTags)] + ">")
	}
	sb.WriteString(inner)
	for i := n - 1; i >= 0; i-- {
		t := allTags[i%len(allTags)]
		if j := strings.IndexByte(t, ' '); j >= 0 {
			t = t[:j]
		}
		sb.WriteString("</" + t + ">")
	}
	return sb.String()
}

var deepShapes = []deepShape{
	{"html/nest-b", 'h', func(n int) string { return rep("<b>", n) + "x" + rep("</b>", n) }, 10000, 1000000},
	{"html/nest-mixed-trailing-ws", 'h', func(n int) string { return nestMixed(n, "x \n ") }, 100000, 3000000},
	{"html/nest-mixed-noescape", 'n', func(n int) string { return nestMixed(n, "&amp;x") }, 10000, 1000000},
	{"html/unclosed", 'h', func(n int) string { return rep("<i>", n) + "x" }, 100000, 3000000},
	{"html/close-only", 'h', func(n int) string { return "x" + rep("</i>", n) }, 1000000, 3000000},
	{"html/nest-a-nohref", 'h', func(n int) string { return rep("<a>", n) + "telegram.org" + rep("</a>", n) }, 10000, 1000000},
	{"html/pre-code", 'h', func(n int) string {
		return rep("<pre><code class=\"language-go\">", n) + "x" + rep("</code></pre>", n)
	}, 10000, 1000000},
	{"html/empty-close", 'h', func(n int) string { return rep("<u>", n) + "x " + rep("</>", n) }, 100000, 3000000},
	{"html/comment-close", 'h', func(n int) string { return rep("<s>", n) + "x" + rep("</ >", n) }, 100000, 1000000},
	{"html/many-attrs", 'h', func(n int) string { return "<a " + rep("k=\"v\" ", n) + "href=\"http://x.org\">t</a>" }, 100000, 3000000},
	{"html/amps", 'h', func(n int) string { return "<b>" + rep("&", n) + "</b>" }, 1000000, 3000000},
	{"html/long-numeric-ref", 'h', func(n int) string { return "<b>&#" + rep("9", n) + ";&#x" + rep("f", n) + ";</b>" }, 1000000, 3000000},
	{"html/wide", 'h', func(n int) string { return rep("<b>x</b><i>\U0001F600 </i>", n) }, 10000, 100000},
	{"html/raw-text-elements", 'h', func(n int) string { return rep("<textarea><b>", n) + "x" + rep("</b></textarea>", n) }, 100000, 1000000},
	{"md/quote-nest", 'm', func(n int) string { return rep(">", n) + " x" }, 10000, 100000},
	{"md/quote-lines", 'm', func(n int) string { return rep("> x\n", n) }, 10000, 100000},
	{"md/emph-nest", 'm', func(n int) string { return rep("*", n) + "x" + rep("*", n) }, 10000, 1000000},
	{"md/emph-alternating", 'm', func(n int) string { return rep("*_", n) + "x" + rep("_*", n) }, 10000, 100000},
	{"md/bold-open", 'm', func(n int) string { return rep("**a ", n) }, 10000, 100000},
	{"md/link-nest", 'm', func(n int) string { return rep("[", n) + "x" + rep("](u)", n) }, 100000, 1000000},
	{"md/bracket-open", 'm', func(n int) string { return rep("[", n) }, 100000, 1000000},
	{"md/backticks", 'm', func(n int) string { return rep("`a", n) }, 1000, 10000},
	{"md/spoiler-nest", 'm', func(n int) string { return rep("||a", n) + rep("||", n) }, 10000, 100000},
	{"md/strike-tilde", 'm', func(n int) string { return rep("~~a", n) + rep("~~", n) }, 1000, 10000},
	{"md/fences", 'm', func(n int) string { return rep("```go\nx\n```\n", n) }, 100000, 1000000},
	{"md/paren-url", 'm', func(n int) string { return "[x](" + rep("(", n) + rep(")", n) + ")" }, 1000, 10000},
	{"md/backslashes", 'm', func(n int) string { return rep("\\", n) + rep("\\*", n) }, 10000, 100000},
	{"md/wide-trailing-ws", 'm', func(n int) string { return rep("*x* **y** ", n) + "\n" }, 1000, 10000},
}

func c37Deep(c *mon.Ctx) {
	type item struct {
		shape string
		n     int
	}
	var (
		inputs [][][]byte
		items  [][]item
	)
	const lanes = 6
	inputs, items = make([][][]byte, lanes), make([][]item, lanes)
	probe := os.Getenv("ENTMON_PROBE") != ""
	// longest-first assignment to the least loaded lane (cost estimate: n), so the few 10^6 inputs run side by side
	type todo struct {
		sh deepShape
		n  int
	}
	var todos []todo
	for _, sh := range deepShapes {
		limit := sh.quickMax
		if !c.Quick() {
			limit = sh.thoroughMax
		}
		if probe {
			limit = 3000000
		}
		for _, n := range []int{1000, 10000, 100000, 1000000, 3000000} {
			if n <= limit {
				todos = append(todos, todo{sh, n})
			}
		}
	}
	sort.SliceStable(todos, func(i, j int) bool { return todos[i].n > todos[j].n })
	load := make([]int, lanes)
	for _, t := range todos {
		lane := 0
		for l := range load {
			if load[l] < load[lane] {
				lane = l
			}
		}
		load[lane] += t.n
		inputs[lane] = append(inputs[lane], append([]byte{t.sh.kind}, t.sh.build(t.n)...))
		items[lane] = append(items[lane], item{t.sh.name, t.n})
	}
	timeout := 5 * time.Minute // per child process; firing = inconclusive, never a verdict
	if !c.Quick() {
		timeout = 30 * time.Minute
	}
	var wg sync.WaitGroup
	outs := make([][]mon.Outcome, lanes)
	for l := 0; l < lanes; l++ {
		wg.Add(1)
		go func(l int) {
			defer wg.Done()
			outs[l] = mon.RunBatch(c, "c37", fmt.Sprintf("deep%d", l), inputs[l], mon.BatchOpts{MemLimitMB: 3072, Timeout: timeout, MaxProcs: 2})
		}(l)
	}
	wg.Wait()
	for l := 0; l < lanes; l++ {
		for i, o := range outs[l] {
			it := items[l][i]
			c.Eval(1)
			kind := map[byte]string{'h': "html", 'n': "html-noescape", 'm': "markdown"}[inputs[l][i][0]]
			switch {
			case o.Class == "ok":
				var res c37Result
				if err := json.Unmarshal(o.Result, &res); err != nil {
					c.Inconclusive("deep batch: cannot decode child result: " + err.Error())
					continue
				}
				for _, f := range res.Findings {
					f.Witness["class"], f.Witness["shape"], f.Witness["n"] = "deep-nesting", it.shape, it.n
					c.Violate(f.Sig, f.Witness)
				}
				c.Distinct(fmt.Sprintf("deep/%s/n=%d/err=%v", it.shape, it.n, res.Err != ""))
				if probe {
					fmt.Fprintf(os.Stderr, "probe %-34s n=%-8d %6d ms ents=%d err=%v\n", it.shape, it.n, res.Millis, res.Entities, res.Err != "")
				}
			case o.Class == "timeout":
				c.Inconclusive(fmt.Sprintf("deep batch watchdog fired on %s n=%d (no verdict for this input)", it.shape, it.n))
			case o.Class == "missing":
				// RunBatch already marked the run inconclusive
			default: // panic | fatal:* | signal:N | exit:N
				site := ""
				if o.Class == "panic" {
					site = "|" + panicSite(o.Stderr)
				}
				c.Violate(kind+"|"+o.Class+site+"|"+it.shape, map[string]any{
					"class": "deep-nesting", "shape": it.shape, "n": it.n, "parser": kind, "input_len": len(inputs[l][i]) - 1,
					"input_head_quoted": fmt.Sprintf("%+q", clip(string(inputs[l][i][1:]), 200)), "child_class": o.Class, "stderr": o.Stderr,
				})
				c.Distinct(fmt.Sprintf("deep/%s/n=%d/%s", it.shape, it.n, o.Class))
				if probe {
					fmt.Fprintf(os.Stderr, "probe %-34s n=%-8d %s\n", it.shape, it.n, o.Class)
				}
			}
		}
	}
}

// ---- corpus -------------------------------------------------------------------------

type corpusCase struct {
	HTML    string  `json:"html"`
	Msg     *string `json:"msg"`
	WantErr bool    `json:"want_err"`
	Src     string  `json:"src"`
}

func loadCorpus(c *mon.Ctx) []corpusCase {
	dir := os.Getenv("VERIF_DIR")
	if dir == "" {
		dir = "/verif"
	}
	data, err := os.ReadFile(filepath.Join(dir, "data", "entmon", "tdlib_html_corpus.json"))
	if err != nil {
		c.Inconclusive("TDLib corpus missing (run tools/extract_tdlib_html.py): " + err.Error())
		return nil
	}
	var cs []corpusCase
	if err := json.Unmarshal(data, &cs); err != nil || len(cs) < 50 {
		c.Inconclusive(fmt.Sprintf("TDLib corpus unreadable or too small (%d cases): %v", len(cs), err))
		return nil
	}
	return cs
}

func runC37(c *mon.Ctx) {
	c.Rule("inputs: (1) all HTML test inputs of gotd/td (TDLib corpus + parser tests, data/entmon) and every prefix of each; (2) grammar-based HTML tag soup: nested/unclosed/mis-nested supported and unsupported tags incl. raw-text elements, " +
		"attributes (href/class/emoji-id/unix/format variants), character references (named, decimal, hex, surrogate, overflow), comments shaped like end tags, white space at the end of nested elements; " +
		"(3) Markdown soup: block quotes, fences, nested/unmatched emphasis, strike, spoilers, code spans, links/images incl. tg://user, tg://emoji, tg://time and invalid URLs, escapes, hard breaks; " +
		"(4) byte-level mutations of (2),(3): delete/insert/flip/duplicate/truncate, tags inserted inside multi-byte runes; (5) random bytes; (6) child-process batches: 28 deep/wide shapes at 10^3..10^6 (thorough 3*10^6) nesting. " +
		"Every input goes through html.HTML (Telegram escape on; off for 25%) or markdown.Markdown into a fresh entity.Builder, finished with Raw and with Complete; oracle: no panic/fatal death; on nil error every entity has offset ≥ 0, length ≥ 0, offset+length ≤ UTF-16 length of the returned text (harness counter). " +
		"Violations for inputs that are not valid UTF-8 carry the prefix invalid-utf8|. distinct non-trivial = distinct (input class, parser, error?, trimmed?, #entities bucket, max nesting bucket) among inputs that produced ≥1 entity or an error, plus one per deep shape and size")
	c.Assume("harness u16len is the UTF-16 reference; for invalid UTF-8 the text length is what Go's string→[]rune→UTF-16 conversion gives (one unit per invalid byte)")
	c.Assume("a parse that exceeds the child watchdog is reported as inconclusive, not as a violation (the statement does not bound running time)")

	tStart := time.Now() // diagnostics only, never part of a verdict
	corpus := loadCorpus(c)
	if corpus == nil {
		return
	}
	// (1) corpus, all of it every run, plus every prefix (truncated documents)
	var corpusInputs [][]byte
	agree, withMsg := 0, 0
	for _, cc := range corpus {
		corpusInputs = append(corpusInputs, []byte(cc.HTML))
		for i := 1; i < len(cc.HTML); i++ {
			corpusInputs = append(corpusInputs, []byte(cc.HTML[:i]))
		}
		// harness self-check: the extracted expectation is reproduced (extractor sanity, not an oracle)
		if cc.Msg != nil && !cc.WantErr {
			withMsg++
			if msg, _, _, err := parse("html", []byte(cc.HTML), "raw"); err == nil && msg == *cc.Msg {
				agree++
			}
		}
	}
	c.Set("corpus_cases", int64(len(corpus)))
	c.Set("corpus_expected_text_reproduced", fmt.Sprintf("%d/%d", agree, withMsg))
	if agree*10 < withMsg*9 {
		c.Inconclusive(fmt.Sprintf("corpus extraction looks wrong: only %d of %d expected texts reproduced", agree, withMsg))
	}
	c.Sample("corpus", map[string]any{"src": corpus[3].Src, "html": corpus[3].HTML})
	runCases(c, len(corpusInputs), func(i int, k *collector) {
		for _, kind := range []string{"html", "html-noescape"} {
			res := c37InProcess(k, "corpus", kind, corpusInputs[i])
			c37Distinct(k, "corpus", kind, corpusInputs[i], res)
		}
	})

	// (6) process-fatal candidates: child batches, running while the in-process inputs are checked
	deepDone := make(chan struct{})
	go func() {
		defer close(deepDone)
		t0 := time.Now()
		defer func() { c.Set("diag_wall_deep_batches_s", time.Since(t0).Seconds()) }()
		if pv, stack := mon.Try(func() { c37Deep(c) }); pv != nil {
			c.Inconclusive(fmt.Sprintf("harness panic in deep batches: %v\n%s", pv, stack))
		}
	}()

	// (2)..(5) generated inputs
	n := c.N(100000, 12000000)
	for i := 0; i < 4; i++ {
		class, kind, in := genC37Input(c.RandN("c37", i), i)
		c.Sample(class, map[string]any{"parser": kind, "input": fmt.Sprintf("%+q", clip(string(in), 300))})
	}
	runCases(c, n, func(i int, k *collector) {
		class, kind, in := genC37Input(c.RandN("c37", i), i)
		res := c37InProcess(k, class, kind, in)
		c37Distinct(k, class, kind, in, res)
		k.add("inputs/"+class, 1)
		if res.Err != "" {
			k.add("parse_errors", 1)
		}
		if res.Trimmed {
			k.add("results_trimmed_by_complete", 1)
		}
		k.add("entities_checked", int64(res.Entities))
	})

	c.Set("diag_wall_in_process_s", time.Since(tStart).Seconds())
	<-deepDone
	if c.DistinctCount() < 2 {
		c.Inconclusive("fewer than 2 distinct non-trivial inputs")
	}
}

func bucket(n int) int {
	switch {
	case n <= 3:
		return n
	case n <= 8:
		return 8
	case n <= 32:
		return 32
	}
	return 99
}

func c37Distinct(k *collector, class, kind string, in []byte, res c37Result) {
	if res.Entities == 0 && res.Err == "" {
		return
	}
	k.distinctKey(fmt.Sprintf("%s/%s/err=%v/trim=%v/ents%d/utf8=%v", class, kind, res.Err != "", res.Trimmed, bucket(res.Entities), utf8.Valid(in)))
}
