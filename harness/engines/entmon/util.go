package main

import (
	"fmt"
	"math/rand/v2"
	"runtime"
	"sort"
	"strings"
	"sync"
	"unicode"
	"unicode/utf16"
	"unicode/utf8"

	"github.com/gotd/td/tg"

	"verif/harness/mon"
)

// u16len is the harness's own UTF-16 length counter (the reference the
// monitors measure against; it shares no code with entity.ComputeLength).
//
// Valid UTF-8: counted on bytes — every non-continuation byte starts a code
// point (one unit) and every 4-byte lead (0xF0..0xF4, i.e. a code point
// ≥ 0x10000) needs a second unit (surrogate pair).
// Invalid UTF-8: the length Go itself gives the string when it is converted
// (each invalid byte becomes U+FFFD, one unit): len(utf16.Encode([]rune(s))).
func u16len(s string) int {
	if !utf8.ValidString(s) {
		return len(utf16.Encode([]rune(s)))
	}
	n := 0
	for i := 0; i < len(s); i++ {
		b := s[i]
		if b&0xC0 != 0x80 {
			n++
		}
		if b >= 0xF0 {
			n++
		}
	}
	return n
}

// isWS: Unicode White_Space property (what "whitespace" means in the statement).
func isWS(r rune) bool { return unicode.Is(unicode.White_Space, r) }

func trimRightWS(s string) string { return strings.TrimRightFunc(s, isWS) }

func allWS(s string) bool {
	for _, r := range s {
		if !isWS(r) {
			return false
		}
	}
	return true
}

// entRec is the JSON-friendly view of one produced entity.
type entRec struct {
	Type   string `json:"type"`
	Offset int    `json:"offset"`
	Length int    `json:"length"`
}

func entRecs(es []tg.MessageEntityClass) []entRec {
	out := make([]entRec, 0, len(es))
	for _, e := range es {
		if e == nil {
			out = append(out, entRec{Type: "<nil>"})
			continue
		}
		out = append(out, entRec{Type: e.TypeName(), Offset: e.GetOffset(), Length: e.GetLength()})
	}
	return out
}

func clip(s string, n int) string {
	if len(s) <= n {
		return s
	}
	return s[:n/2] + "…" + s[len(s)-n/2:]
}

func q(s string) string { return fmt.Sprintf("%+q", clip(s, 400)) }

// ---- deterministic parallel case runner ---------------------------------

type vrec struct {
	idx     int
	witness any
	count   int
}

// collector is worker-local; merged deterministically (by case index) afterwards.
type collector struct {
	viol     map[string]*vrec
	distinct map[string]struct{}
	counters map[string]int64
	evals    int
	idx      int // case index currently running
}

func newCollector() *collector {
	return &collector{viol: map[string]*vrec{}, distinct: map[string]struct{}{}, counters: map[string]int64{}}
}

// violate records a violation for the current case; witness is built lazily
// and only kept for the lowest case index per signature.
func (k *collector) violate(sig string, witness func() any) {
	v, ok := k.viol[sig]
	if !ok {
		k.viol[sig] = &vrec{idx: k.idx, witness: witness(), count: 1}
		return
	}
	v.count++
	if k.idx < v.idx {
		v.idx, v.witness = k.idx, witness()
	}
}

func (k *collector) distinctKey(key string)  { k.distinct[key] = struct{}{} }
func (k *collector) add(key string, n int64) { k.counters[key] += n }

// runCases runs f(i) for i in [0,n) on several goroutines. Every case derives
// its randomness from its index only, so the observations do not depend on the
// number of workers or on scheduling; violations are reported in case order.
func runCases(c *mon.Ctx, n int, f func(i int, k *collector)) {
	workers := runtime.GOMAXPROCS(0)
	if workers > 8 {
		workers = 8
	}
	if workers < 1 {
		workers = 1
	}
	cols := make([]*collector, workers)
	var wg sync.WaitGroup
	const chunk = 256
	var next int
	var mu sync.Mutex
	for w := 0; w < workers; w++ {
		cols[w] = newCollector()
		wg.Add(1)
		go func(k *collector) {
			defer wg.Done()
			for {
				mu.Lock()
				lo := next
				next += chunk
				mu.Unlock()
				if lo >= n {
					return
				}
				hi := min(lo+chunk, n)
				for i := lo; i < hi; i++ {
					k.idx = i
					f(i, k)
				}
			}
		}(cols[w])
	}
	wg.Wait()
	mergeCollectors(c, cols)
}

func mergeCollectors(c *mon.Ctx, cols []*collector) {
	merged := map[string]*vrec{}
	for _, k := range cols {
		c.Eval(k.evals)
		for d := range k.distinct {
			c.Distinct(d)
		}
		for key, n := range k.counters {
			c.Add(key, n)
		}
		for sig, v := range k.viol {
			m, ok := merged[sig]
			if !ok {
				cp := *v
				merged[sig] = &cp
				continue
			}
			m.count += v.count
			if v.idx < m.idx {
				m.idx, m.witness = v.idx, v.witness
			}
		}
	}
	sigs := make([]string, 0, len(merged))
	for s := range merged {
		sigs = append(sigs, s)
	}
	sort.Slice(sigs, func(i, j int) bool {
		a, b := merged[sigs[i]], merged[sigs[j]]
		if a.idx != b.idx {
			return a.idx < b.idx
		}
		return sigs[i] < sigs[j]
	})
	for _, s := range sigs {
		v := merged[s]
		c.Violate(s, v.witness)
		for i := 1; i < v.count; i++ {
			c.Violate(s, nil)
		}
	}
}

// ---- text pools -----------------------------------------------------------

const (
	clsASCII = 1 << iota
	clsBMP
	clsAstral
	clsCombining
	clsWS
	clsNearWS
	clsOddRune // WriteRune with runes that are not Unicode scalar values
)

var (
	poolASCII = []string{"a", "b", "x", "Z", "0", "hello", "telegram.org", "foo_bar", "#tag", "@user", "/cmd", "1+1=2", "~", "-", "!", ".", "a b", "don't"}
	poolBMP   = []string{"\u0436", "\u0421\u0442\u0440\u043e\u043a\u0430", "\u20ac", "\u4e2d", "\u65e5\u672c\u8a9e", "\u05e2", "\u0639\u0631\u0628\u0649", "\u00e9",
		"\uffff", "\ufffd", "\ud7ff", "\ue000", "\u07ff", "\u0800", "\u2192", "\u27a1\ufe0f", "\u2764\ufe0f", "\ufffe"}
	// U+10000 is the first code point that needs a surrogate pair, U+10FFFF the last.
	poolAstral = []string{"\U00010000", "\U0010FFFF", "\U0001F600", "\U0001F3DF", "\U0001F44D", "\U0001D4B3", "\U00020000",
		"\U0001F1FA\U0001F1E6", "\U0001F1EF\U0001F1F5", "\U0001F44D\U0001F3FD",
		"\U0001F468\u200d\U0001F469\u200d\U0001F467\u200d\U0001F466", "\U0001F3F3\ufe0f\u200d\U0001F308", "\U0001F9D1\U0001F3FF\u200d\U0001F680", "\U000E0061"}
	poolComb = []string{"e\u0301", "a\u0308\u0323", "n\u0303", "\u0301", "o\u0302\u0303\u0304\u0305", "\u0915\u094d\u0937\u093f", "Z\u0351\u036b\u0343", "\u1100\u1161\u11a8", "\u0e01\u0e33"}
	// every code point with the Unicode White_Space property (filled by init) plus a few runs
	poolWS = []string{"  ", "\r\n", "\n\n\n", " \t "}
	// look like white space but are not (must never be trimmed)
	poolNearWS = []string{"\u200b", "\u200c", "\u200d", "\u2060", "\u180e", "\ufeff", "\u00ad", "\u2800"}
)

func init() {
	for r := rune(0); r <= 0x3000; r++ {
		if unicode.Is(unicode.White_Space, r) {
			poolWS = append(poolWS, string(r))
		}
	}
	if len(poolWS) != 4+25 {
		panic("White_Space table changed")
	}
	// plain space and newline are by far the most common in real messages
	for i := 0; i < 6; i++ {
		poolWS = append(poolWS, " ", "\n")
	}
}

func pick(r *rand.Rand, p []string) string { return p[r.IntN(len(p))] }

// genPiece returns a valid-UTF-8, whole-rune text piece and the bit mask of the classes used.
// wsTail is the probability (in %) of a trailing white-space run.
func genPiece(r *rand.Rand, wsTail int) (string, int) {
	var sb strings.Builder
	cls := 0
	atoms := r.IntN(5)
	if r.IntN(12) == 0 {
		atoms = 0
	}
	if r.IntN(6) == 0 { // leading white space
		sb.WriteString(pick(r, poolWS))
		cls |= clsWS
	}
	for i := 0; i < atoms; i++ {
		switch r.IntN(12) {
		case 0, 1, 2:
			sb.WriteString(pick(r, poolASCII))
			cls |= clsASCII
		case 3, 4:
			sb.WriteString(pick(r, poolBMP))
			cls |= clsBMP
		case 5, 6, 7:
			sb.WriteString(pick(r, poolAstral))
			cls |= clsAstral
		case 8, 9:
			sb.WriteString(pick(r, poolComb))
			cls |= clsCombining
		case 10:
			sb.WriteString(pick(r, poolWS))
			cls |= clsWS
		case 11:
			sb.WriteString(pick(r, poolNearWS))
			cls |= clsNearWS
		}
	}
	if r.IntN(100) < wsTail {
		for n := 1 + r.IntN(3); n > 0; n-- {
			sb.WriteString(pick(r, poolWS))
		}
		cls |= clsWS
	}
	return sb.String(), cls
}

func utf16Encode(s string) []uint16 { return utf16.Encode([]rune(s)) }
