package main

import (
	"fmt"
	"math/rand/v2"
	"sort"

	"github.com/gotd/td/telegram/message/entity"
	"github.com/gotd/td/tg"

	"verif/harness/mon"
)

// mkEntity builds an entity of one of several types with the given range.
func mkEntity(kind, off, ln int) tg.MessageEntityClass {
	switch kind % 6 {
	case 0:
		return &tg.MessageEntityBold{Offset: off, Length: ln}
	case 1:
		return &tg.MessageEntityItalic{Offset: off, Length: ln}
	case 2:
		return &tg.MessageEntityCode{Offset: off, Length: ln}
	case 3:
		return &tg.MessageEntityTextURL{Offset: off, Length: ln, URL: "https://example.org/"}
	case 4:
		return &tg.MessageEntityPre{Offset: off, Length: ln, Language: "go"}
	}
	return &tg.MessageEntitySpoiler{Offset: off, Length: ln}
}

// checkOrder is the C36 oracle: adjacent pairs ordered by offset ascending, then length descending.
// Returns the first offending adjacent pair index or -1, and the kind of disorder.
func checkOrder(es []tg.MessageEntityClass) (int, string) {
	for i := 0; i+1 < len(es); i++ {
		a, b := es[i], es[i+1]
		switch {
		case a.GetOffset() > b.GetOffset():
			return i, "offset-descending"
		case a.GetOffset() == b.GetOffset() && a.GetLength() < b.GetLength():
			return i, "shorter-first-at-equal-offset"
		}
	}
	return -1, ""
}

// knownDefect is the comparator gotd/td ships today (known finding of C36): not a strict weak
// order. sort.Sort is deterministic for a given input sequence and toolchain, and the engine is
// built with the toolchain that builds gotd/td, so sorting a copy of the same input with this
// comparator reproduces the shipped behaviour element for element.
type knownDefect []tg.MessageEntityClass

func (e knownDefect) Len() int      { return len(e) }
func (e knownDefect) Swap(i, j int) { e[i], e[j] = e[j], e[i] }
func (e knownDefect) Less(i, j int) bool {
	a, b := e[i], e[j]
	return a.GetOffset() < b.GetOffset() || a.GetLength() > b.GetLength()
}

// knownDefectOrder returns what sort.Sort yields on a copy of in with the known comparator.
func knownDefectOrder(in []tg.MessageEntityClass) []tg.MessageEntityClass {
	ref := append([]tg.MessageEntityClass(nil), in...)
	sort.Sort(knownDefect(ref))
	return ref
}

// samePointers: out is a permutation of in (entities are pointers; identity is what must be preserved).
func samePointers(in, out []tg.MessageEntityClass) bool {
	if len(in) != len(out) {
		return false
	}
	cnt := make(map[tg.MessageEntityClass]int, len(in))
	for _, e := range in {
		cnt[e]++
	}
	for _, e := range out {
		cnt[e]--
		if cnt[e] < 0 {
			return false
		}
	}
	return true
}

func c36List(k *collector, class string, list []tg.MessageEntityClass) {
	in := append([]tg.MessageEntityClass(nil), list...)
	before := entRecs(in)
	pv, stack := mon.Try(func() { entity.SortEntities(list) })
	k.evals++
	wit := func(extra map[string]any) func() any {
		return func() any {
			w := map[string]any{"class": class, "input": before, "output": entRecs(list)}
			for kk, v := range extra {
				w[kk] = v
			}
			return w
		}
	}
	if pv != nil {
		k.violate("sort-entities|panic", wit(map[string]any{"panic": fmt.Sprint(pv), "stack": stack}))
		return
	}
	if !samePointers(in, list) {
		k.violate("sort-entities|not-a-permutation", wit(nil))
	}
	// the ranges themselves must be untouched
	for i, e := range in {
		if e.GetOffset() != before[i].Offset || e.GetLength() != before[i].Length {
			k.violate("sort-entities|range-modified", wit(nil))
			break
		}
	}
	if i, kind := checkOrder(list); i >= 0 {
		// a disorder that is element-for-element (pointer identity) what the known non-order
		// comparator produces on this very input is the known finding; anything else is not
		ref, same := knownDefectOrder(in), true
		for j := range ref {
			if j >= len(list) || ref[j] != list[j] {
				same = false
				break
			}
		}
		if same && len(ref) == len(list) {
			kind = "matches-known-non-order-comparator"
		}
		k.violate("sort-entities|"+kind, wit(map[string]any{"first_bad_adjacent_pair": i}))
	}
	// non-trivial: ≥ 2 entities that are not already in order
	if len(in) >= 2 {
		pre, _ := checkOrder(in)
		ties := false
		seen := map[int]bool{}
		for _, e := range in {
			if seen[e.GetOffset()] {
				ties = true
			}
			seen[e.GetOffset()] = true
		}
		if pre >= 0 {
			k.distinctKey(fmt.Sprintf("%s/len%d/ties=%v", class, min(len(in), 41), ties))
			k.add("lists_not_presorted", 1)
		}
	}
}

// completePreSort reconstructs the list Complete hands to its sort: the same program is run again
// on a fresh Builder and finished with Raw (entities in the builder's own order, nothing trimmed);
// then the documented fix step is applied with the text Complete actually returned — if that text
// is shorter, entities starting past its end are dropped and entities reaching past it are cut to
// it, order kept. If the reconstruction is wrong for any reason the comparison below fails and the
// violation keeps its specific signature (it can only fail towards "not the known finding").
func completePreSort(p *program, completeMsg string) ([]tg.MessageEntityClass, bool) {
	p2 := *p
	p2.Final = "raw"
	var (
		b      entity.Builder
		rawMsg string
		raw    []tg.MessageEntityClass
		err    error
	)
	if pv, _ := mon.Try(func() { rawMsg, raw, err = execProgram(&b, &p2) }); pv != nil || err != nil {
		return nil, false
	}
	if len(completeMsg) >= len(rawMsg) {
		return raw, true
	}
	end := u16len(completeMsg)
	out := raw[:0]
	for _, e := range raw {
		if e.GetOffset() > end {
			continue
		}
		if e.GetOffset()+e.GetLength() > end {
			e = withLength(e, end-e.GetOffset())
		}
		out = append(out, e)
	}
	return out, true
}

// withLength returns a copy of the entity (same type and payload key) with another length.
func withLength(e tg.MessageEntityClass, ln int) tg.MessageEntityClass {
	return &relen{MessageEntityClass: e, ln: ln}
}

type relen struct {
	tg.MessageEntityClass
	ln int
}

func (r *relen) GetLength() int { return r.ln }

// sameEntities: same length and element-for-element the same type/payload key, offset and length
// (the two lists come from two runs, so pointer identity is not available).
func sameEntities(a, b []tg.MessageEntityClass) bool {
	if len(a) != len(b) {
		return false
	}
	for i := range a {
		x, y := a[i], b[i]
		if r, ok := x.(*relen); ok {
			if entityKey(r.MessageEntityClass) != entityKey(y) || r.GetOffset() != y.GetOffset() || r.ln != y.GetLength() {
				return false
			}
			continue
		}
		if entityKey(x) != entityKey(y) || x.GetOffset() != y.GetOffset() || x.GetLength() != y.GetLength() {
			return false
		}
	}
	return true
}

// wide values: around and beyond 2^31 and 2^32 (entity offsets and lengths are Go ints)
func wideValue(r *rand.Rand) int {
	switch r.IntN(9) {
	case 0:
		return 1<<31 - 1
	case 1:
		return 1 << 31
	case 2:
		return 1<<31 + 1
	case 3:
		return 1 << 32
	case 4:
		return 1<<32 + 5
	case 5:
		return 1 << 40
	case 6:
		return 1<<32 + r.IntN(16)
	}
	bits := 33 + r.IntN(30) // 33..62-bit
	return 1<<(bits-1) | int(r.Uint64()&(1<<(bits-1)-1))
}

// distinctValues: n distinct values mixing small and wide ones.
func distinctValues(r *rand.Rand, n int) []int {
	seen := map[int]bool{}
	var out []int
	for len(out) < n {
		v := r.IntN(12)
		if r.IntN(2) == 0 {
			v = wideValue(r)
		}
		if !seen[v] {
			seen[v] = true
			out = append(out, v)
		}
	}
	return out
}

// genWideList: lists with values ≥ 2^31. In the first three shapes the pair relations are such
// that even the shipped comparator is a valid order (a longer entity never starts after a shorter
// one), so the expected order is unambiguous; the fourth is a free mix.
func genWideList(r *rand.Rand) (string, []tg.MessageEntityClass) {
	n := 2 + r.IntN(11)
	list := make([]tg.MessageEntityClass, n)
	class := ""
	switch r.IntN(4) {
	case 0:
		class = "wide/equal-lengths-distinct-offsets"
		ln := []int{3, 0, 1 << 31, 1<<32 + 5}[r.IntN(4)]
		for i, off := range distinctValues(r, n) {
			list[i] = mkEntity(r.IntN(6), off, ln)
		}
	case 1:
		class = "wide/equal-offsets-distinct-lengths"
		off := []int{0, 7, 1 << 31, 1 << 40}[r.IntN(4)]
		for i, ln := range distinctValues(r, n) {
			list[i] = mkEntity(r.IntN(6), off, ln)
		}
	case 2:
		class = "wide/nested"
		offs, lens := distinctValues(r, n), distinctValues(r, n)
		sort.Ints(offs)
		sort.Sort(sort.Reverse(sort.IntSlice(lens)))
		for i := range list {
			list[i] = mkEntity(r.IntN(6), offs[i], lens[i])
		}
	default:
		class = "wide/free-mix"
		for i := range list {
			off, ln := r.IntN(8), r.IntN(8)
			if r.IntN(3) == 0 {
				off = wideValue(r)
			}
			if r.IntN(3) == 0 {
				ln = wideValue(r)
			}
			list[i] = mkEntity(r.IntN(6), off, ln)
		}
	}
	r.Shuffle(n, func(a, b int) { list[a], list[b] = list[b], list[a] })
	return class, list
}

func genList(r *rand.Rand) (string, []tg.MessageEntityClass) {
	if r.IntN(5) == 0 {
		return genWideList(r)
	}
	n := r.IntN(41)
	class := "small-range"
	offMax, lenMax := 1+r.IntN(6), 1+r.IntN(6)
	switch r.IntN(4) {
	case 0:
		class, offMax, lenMax = "wide-range", 4096, 4096
	case 1:
		class, offMax, lenMax = "mixed-range", 1+r.IntN(6), 4096
	}
	list := make([]tg.MessageEntityClass, n)
	for i := range list {
		list[i] = mkEntity(r.IntN(6), r.IntN(offMax), r.IntN(lenMax))
	}
	if r.IntN(8) == 0 && n > 1 { // nested family: same start, shrinking lengths, shuffled
		class = "nested-family"
		for i := range list {
			list[i] = mkEntity(r.IntN(6), (i/4)*3, 40-i)
		}
		r.Shuffle(n, func(a, b int) { list[a], list[b] = list[b], list[a] })
	}
	return class, list
}

func runC36(c *mon.Ctx) {
	c.Rule("(a) every list of 0..5 entities with offset, length ∈ {0,1,2} (66 430 lists, enumerated completely) through entity.SortEntities; " +
		"(b) random lists of 0..40 entities of 6 types, offsets/lengths from tiny ranges (forced ties), wide ranges, mixed, and shuffled nested families; 20% lists with values around and beyond 2^31 / 2^32 (2^31-1, 2^31, 2^31+1, 2^32, 2^32+5, 2^40, random 33..62-bit) mixed with small ones: equal lengths/distinct offsets, equal offsets/distinct lengths, nested, free mix; " +
		"(c) the output of Builder.Complete for the C35 program generator (nesting, overlaps, trims). Oracle: adjacent pairs have ascending offset and, at equal offset, non-ascending length; " +
		"the output is the same multiset of entity pointers with untouched ranges. distinct non-trivial = distinct (class, list length, has-offset-ties) among inputs that are not already ordered")
	c.Assume("signature refinement only (never the verdict): a disordered output that equals, element for element, what sort.Sort gives on the same input with the shipped comparator (off< || len>) is labelled matches-known-non-order-comparator; " +
		"for Complete the pre-sort list is reconstructed by re-running the program with Raw and applying the documented trim step with the returned text; any other disorder keeps offset-descending / shorter-first-at-equal-offset")
	c.Assume("only offset/length order is demanded (the statement says nothing about the order of entities with identical ranges)")
	// (a) exhaustive small core
	var lists [][]tg.MessageEntityClass
	for n := 0; n <= 5; n++ { // shortest lists first, so the first witness is a minimal one
		total := 1
		for i := 0; i < n; i++ {
			total *= 9
		}
		for code := 0; code < total; code++ {
			l := make([]tg.MessageEntityClass, n)
			for i, v := 0, code; i < n; i, v = i+1, v/9 {
				l[i] = mkEntity(i, (v%9)/3, v%3)
			}
			lists = append(lists, l)
		}
	}
	c.Set("exhaustive_small_lists", int64(len(lists)))
	runCases(c, len(lists), func(i int, k *collector) { c36List(k, "exhaustive<=5", lists[i]) })
	c.Exhaustive(true)
	// (b) random lists
	n := c.N(150000, 15000000)
	for i := 0; i < 2; i++ {
		class, l := genList(c.RandN("c36", i))
		c.Sample("random-list", map[string]any{"class": class, "input": entRecs(l)})
	}
	runCases(c, n, func(i int, k *collector) {
		class, l := genList(c.RandN("c36", i))
		c36List(k, class, l)
	})
	// (c) builder outputs
	nb := c.N(100000, 8000000)
	runCases(c, nb, func(i int, k *collector) {
		c35Case(c, i, k, func(p *program, m *model, msg string, ents []tg.MessageEntityClass, stage string) checkResult {
			res := checkResult{nents: len(ents), trimmed: u16len(msg) < m.len16}
			if p.Final != "complete" {
				return res // Raw does not promise an order
			}
			k.add("complete_outputs_checked", 1)
			for _, e := range ents {
				if e == nil {
					return res
				}
			}
			if i, kind := checkOrder(ents); i >= 0 {
				var recon []entRec
				if pre, ok := completePreSort(p, msg); ok {
					recon = entRecs(knownDefectOrder(pre))
					if sameEntities(knownDefectOrder(pre), ents) {
						kind = "matches-known-non-order-comparator"
					}
				}
				k.violate("complete|"+kind, func() any {
					w := p.describe()
					w["text"], w["entities"], w["first_bad_adjacent_pair"] = q(msg), entRecs(ents), i
					w["known_comparator_on_reconstructed_presort_list"] = recon
					return w
				})
			}
			return res
		})
	})
	if c.DistinctCount() < 2 {
		c.Inconclusive("fewer than 2 distinct non-trivial lists")
	}
}
