package main

import (
	"fmt"
	"math/rand/v2"
	"sort"
	"strings"
	"unicode/utf8"

	"github.com/gotd/td/telegram/message/entity"
	"github.com/gotd/td/telegram/message/styling"
	"github.com/gotd/td/tg"

	"verif/harness/mon"
)

// ---- formatter catalogue (every formatter of package entity / styling) -----

type fkind struct {
	name  string // TL type name of the produced entity
	mk    func(id int) entity.Formatter
	named func(b *entity.Builder, s string, id int)       // the Builder's named helper
	style func(s string, id int) styling.StyledTextOption // the styling option
}

func urlOf(id int) string { return fmt.Sprintf("https://example.org/%d", id) }
func langOf(id int) string {
	return []string{"", "go", "python", "fift"}[id%4]
}
func userOf(id int) tg.InputUserClass { return &tg.InputUser{UserID: int64(id), AccessHash: 7} }

var fkinds = []fkind{
	{"messageEntityUnknown", func(int) entity.Formatter { return entity.Unknown() }, func(b *entity.Builder, s string, _ int) { b.Unknown(s) }, func(s string, _ int) styling.StyledTextOption { return styling.Unknown(s) }},
	{"messageEntityMention", func(int) entity.Formatter { return entity.Mention() }, func(b *entity.Builder, s string, _ int) { b.Mention(s) }, func(s string, _ int) styling.StyledTextOption { return styling.Mention(s) }},
	{"messageEntityHashtag", func(int) entity.Formatter { return entity.Hashtag() }, func(b *entity.Builder, s string, _ int) { b.Hashtag(s) }, func(s string, _ int) styling.StyledTextOption { return styling.Hashtag(s) }},
	{"messageEntityBotCommand", func(int) entity.Formatter { return entity.BotCommand() }, func(b *entity.Builder, s string, _ int) { b.BotCommand(s) }, func(s string, _ int) styling.StyledTextOption { return styling.BotCommand(s) }},
	{"messageEntityUrl", func(int) entity.Formatter { return entity.URL() }, func(b *entity.Builder, s string, _ int) { b.URL(s) }, func(s string, _ int) styling.StyledTextOption { return styling.URL(s) }},
	{"messageEntityEmail", func(int) entity.Formatter { return entity.Email() }, func(b *entity.Builder, s string, _ int) { b.Email(s) }, func(s string, _ int) styling.StyledTextOption { return styling.Email(s) }},
	{"messageEntityBold", func(int) entity.Formatter { return entity.Bold() }, func(b *entity.Builder, s string, _ int) { b.Bold(s) }, func(s string, _ int) styling.StyledTextOption { return styling.Bold(s) }},
	{"messageEntityItalic", func(int) entity.Formatter { return entity.Italic() }, func(b *entity.Builder, s string, _ int) { b.Italic(s) }, func(s string, _ int) styling.StyledTextOption { return styling.Italic(s) }},
	{"messageEntityCode", func(int) entity.Formatter { return entity.Code() }, func(b *entity.Builder, s string, _ int) { b.Code(s) }, func(s string, _ int) styling.StyledTextOption { return styling.Code(s) }},
	{"messageEntityPre", func(id int) entity.Formatter { return entity.Pre(langOf(id)) }, func(b *entity.Builder, s string, id int) { b.Pre(s, langOf(id)) }, func(s string, id int) styling.StyledTextOption { return styling.Pre(s, langOf(id)) }},
	{"messageEntityTextUrl", func(id int) entity.Formatter { return entity.TextURL(urlOf(id)) }, func(b *entity.Builder, s string, id int) { b.TextURL(s, urlOf(id)) }, func(s string, id int) styling.StyledTextOption { return styling.TextURL(s, urlOf(id)) }},
	{"inputMessageEntityMentionName", func(id int) entity.Formatter { return entity.MentionName(userOf(id)) }, func(b *entity.Builder, s string, id int) { b.MentionName(s, userOf(id)) }, func(s string, id int) styling.StyledTextOption { return styling.MentionName(s, userOf(id)) }},
	{"messageEntityPhone", func(int) entity.Formatter { return entity.Phone() }, func(b *entity.Builder, s string, _ int) { b.Phone(s) }, func(s string, _ int) styling.StyledTextOption { return styling.Phone(s) }},
	{"messageEntityCashtag", func(int) entity.Formatter { return entity.Cashtag() }, func(b *entity.Builder, s string, _ int) { b.Cashtag(s) }, func(s string, _ int) styling.StyledTextOption { return styling.Cashtag(s) }},
	{"messageEntityUnderline", func(int) entity.Formatter { return entity.Underline() }, func(b *entity.Builder, s string, _ int) { b.Underline(s) }, func(s string, _ int) styling.StyledTextOption { return styling.Underline(s) }},
	{"messageEntityStrike", func(int) entity.Formatter { return entity.Strike() }, func(b *entity.Builder, s string, _ int) { b.Strike(s) }, func(s string, _ int) styling.StyledTextOption { return styling.Strike(s) }},
	{"messageEntityBankCard", func(int) entity.Formatter { return entity.BankCard() }, func(b *entity.Builder, s string, _ int) { b.BankCard(s) }, func(s string, _ int) styling.StyledTextOption { return styling.BankCard(s) }},
	{"messageEntitySpoiler", func(int) entity.Formatter { return entity.Spoiler() }, func(b *entity.Builder, s string, _ int) { b.Spoiler(s) }, func(s string, _ int) styling.StyledTextOption { return styling.Spoiler(s) }},
	{"messageEntityCustomEmoji", func(id int) entity.Formatter { return entity.CustomEmoji(int64(id)) }, func(b *entity.Builder, s string, id int) { b.CustomEmoji(s, int64(id)) }, func(s string, id int) styling.StyledTextOption { return styling.CustomEmoji(s, int64(id)) }},
	{"messageEntityBlockquote", func(id int) entity.Formatter { return entity.Blockquote(id%2 == 0) }, func(b *entity.Builder, s string, id int) { b.Blockquote(s, id%2 == 0) }, func(s string, id int) styling.StyledTextOption { return styling.Blockquote(s, id%2 == 0) }},
	{"messageEntityFormattedDate", func(id int) entity.Formatter { return entity.FormattedDate(false, true, false, true, false, false, id) }, func(b *entity.Builder, s string, id int) {
		b.FormattedDate(s, false, true, false, true, false, false, id)
	}, func(s string, id int) styling.StyledTextOption {
		return styling.FormattedDate(s, false, true, false, true, false, false, id)
	}},
	{"messageEntityDiffInsert", func(int) entity.Formatter { return entity.DiffInsert() }, func(b *entity.Builder, s string, _ int) { b.DiffInsert(s) }, func(s string, _ int) styling.StyledTextOption { return styling.DiffInsert(s) }},
	{"messageEntityDiffReplace", func(id int) entity.Formatter { return entity.DiffReplace(urlOf(id)) }, func(b *entity.Builder, s string, id int) { b.DiffReplace(s, urlOf(id)) }, func(s string, id int) styling.StyledTextOption { return styling.DiffReplace(s, urlOf(id)) }},
	{"messageEntityDiffDelete", func(int) entity.Formatter { return entity.DiffDelete() }, func(b *entity.Builder, s string, _ int) { b.DiffDelete(s) }, func(s string, _ int) styling.StyledTextOption { return styling.DiffDelete(s) }},
}

const kindCode = 8 // index of messageEntityCode in fkinds

// ---- programs ---------------------------------------------------------------

type fmtRef struct {
	Kind int `json:"kind"`
	ID   int `json:"id"`
}

// op is one builder operation. Kinds:
//
//	plain      b.Plain(text)
//	write      b.WriteString(text)        writeb  b.Write([]byte(text))
//	runes      b.WriteRune per rune       bytes   b.WriteByte per byte (ASCII text only)
//	format     b.Format(text, fmts...)    named   b.<Kind>(text)  (one formatter)
//	open       tok[Tok] = b.Token()       apply   tok[Tok].Apply(b, fmts...)
type op struct {
	Kind string   `json:"op"`
	Text string   `json:"text,omitempty"`
	Fmts []fmtRef `json:"fmts,omitempty"`
	Tok  int      `json:"tok,omitempty"`
	// wrunes: b.WriteRune(r) for each r, including values that are not Unicode scalar values
	// (lone surrogates, > U+10FFFF, negative); Text holds what Go stores for them (U+FFFD each).
	Runes []int32 `json:"runes,omitempty"`
}

type program struct {
	Ops     []op   `json:"ops"`
	Styling bool   `json:"via_styling_perform"`
	Shrink  bool   `json:"shrink_pre_code"`
	Final   string `json:"final"` // complete | raw
	cls     int
	depth   int
}

func (p *program) describe() map[string]any {
	ops := make([]string, len(p.Ops))
	for i, o := range p.Ops {
		var names []string
		for _, f := range o.Fmts {
			names = append(names, strings.TrimPrefix(fkinds[f.Kind].name, "messageEntity"))
		}
		switch o.Kind {
		case "open":
			ops[i] = fmt.Sprintf("t%d := b.Token()", o.Tok)
		case "apply":
			ops[i] = fmt.Sprintf("t%d.Apply(b, %s)", o.Tok, strings.Join(names, ", "))
		case "format", "named":
			ops[i] = fmt.Sprintf("%s(%+q, %s)", o.Kind, o.Text, strings.Join(names, ", "))
		case "wrunes":
			ops[i] = fmt.Sprintf("WriteRune each of %x (stored as %+q)", o.Runes, o.Text)
		default:
			ops[i] = fmt.Sprintf("%s(%+q)", o.Kind, o.Text)
		}
	}
	return map[string]any{"ops": ops, "via_styling_perform": p.Styling, "shrink_pre_code": p.Shrink, "final": p.Final}
}

func genFmts(r *rand.Rand, noCode bool) []fmtRef {
	n := 1
	switch r.IntN(10) {
	case 0:
		n = 0
	case 1, 2:
		n = 2
	case 3:
		n = 3
	}
	out := make([]fmtRef, 0, n)
	for len(out) < n {
		k := r.IntN(len(fkinds))
		if r.IntN(2) == 0 { // common styles more often
			k = []int{6, 7, 14, 15, 17, 10, 8, 9, 19}[r.IntN(9)]
		}
		if noCode && k == kindCode {
			continue
		}
		out = append(out, fmtRef{Kind: k, ID: r.IntN(1000)})
	}
	return out
}

// runes for the wrunes operation: valid BMP and astral, U+FFFD itself, lone surrogates, beyond U+10FFFF, negative
var oddRunes = []int32{'a', ' ', '\n', 0x436, 0xFFFF, 0xFFFD, 0xD7FF, 0xE000, 0x10000, 0x1F600, 0x10FFFF,
	0xD800, 0xDBFF, 0xDC00, 0xDFFF, 0x110000, 0x7FFFFFFF, -1, -0x80000000}

func genProgram(r *rand.Rand) *program {
	p := &program{Final: "complete"}
	p.Styling = r.IntN(10) < 3
	p.Shrink = r.IntN(10) < 3
	if r.IntN(10) == 0 {
		p.Final = "raw"
	}
	nops := 1 + r.IntN(12)
	var open []int
	nextTok := 0
	depth := 0
	for len(p.Ops) < nops {
		last := len(p.Ops) >= nops-2
		wsTail := 15
		if last {
			wsTail = 55
		}
		switch x := r.IntN(20); {
		case x < 3:
			t, c := genPiece(r, wsTail)
			p.cls |= c
			p.Ops = append(p.Ops, op{Kind: "plain", Text: t})
		case x < 7 && r.IntN(5) == 0:
			// WriteRune with arbitrary rune values: Go stores U+FFFD (one UTF-16 unit) for every value
			// that is not a Unicode scalar value
			n := 1 + r.IntN(4)
			o := op{Kind: "wrunes"}
			var sb strings.Builder
			for i := 0; i < n; i++ {
				v := oddRunes[r.IntN(len(oddRunes))]
				o.Runes = append(o.Runes, v)
				sb.WriteString(string(rune(v))) // Go semantics: invalid rune -> "\uFFFD"
			}
			o.Text = sb.String()
			p.cls |= clsOddRune
			p.Ops = append(p.Ops, o)
		case x < 7:
			t, c := genPiece(r, wsTail)
			p.cls |= c
			kind := []string{"write", "writeb", "runes"}[r.IntN(3)]
			if c&^clsASCII == 0 && r.IntN(2) == 0 {
				kind = "bytes"
			}
			p.Ops = append(p.Ops, op{Kind: kind, Text: t})
		case x < 11:
			t, c := genPiece(r, wsTail)
			p.cls |= c
			f := genFmts(r, p.Shrink)
			if len(f) == 1 && r.IntN(2) == 0 {
				p.Ops = append(p.Ops, op{Kind: "named", Text: t, Fmts: f})
			} else {
				p.Ops = append(p.Ops, op{Kind: "format", Text: t, Fmts: f})
			}
		case x < 15:
			if len(open) >= 4 {
				continue
			}
			p.Ops = append(p.Ops, op{Kind: "open", Tok: nextTok})
			open = append(open, nextTok)
			nextTok++
			depth = max(depth, len(open))
		default:
			if len(open) == 0 {
				continue
			}
			i := len(open) - 1 // LIFO like the HTML parser, sometimes any open token (overlapping ranges)
			if r.IntN(6) == 0 {
				i = r.IntN(len(open))
			}
			p.Ops = append(p.Ops, op{Kind: "apply", Tok: open[i], Fmts: genFmts(r, p.Shrink)})
			if r.IntN(8) != 0 { // a token may be applied more than once
				open = append(open[:i], open[i+1:]...)
			}
		}
	}
	// close what is still open (innermost first), most of the time
	for i := len(open) - 1; i >= 0; i-- {
		if r.IntN(6) != 0 {
			p.Ops = append(p.Ops, op{Kind: "apply", Tok: open[i], Fmts: genFmts(r, p.Shrink)})
		}
	}
	p.depth = depth
	return p
}

// ---- execution on the real builder ---------------------------------------------

func execOp(b *entity.Builder, o op, toks map[int]entity.Token) {
	switch o.Kind {
	case "plain":
		b.Plain(o.Text)
	case "write":
		_, _ = b.WriteString(o.Text)
	case "writeb":
		_, _ = b.Write([]byte(o.Text))
	case "runes":
		for _, r := range o.Text {
			_, _ = b.WriteRune(r)
		}
	case "bytes":
		for i := 0; i < len(o.Text); i++ {
			_ = b.WriteByte(o.Text[i])
		}
	case "wrunes":
		for _, r := range o.Runes {
			_, _ = b.WriteRune(rune(r))
		}
	case "format":
		fs := make([]entity.Formatter, len(o.Fmts))
		for i, f := range o.Fmts {
			fs[i] = fkinds[f.Kind].mk(f.ID)
		}
		b.Format(o.Text, fs...)
	case "named":
		fkinds[o.Fmts[0].Kind].named(b, o.Text, o.Fmts[0].ID)
	case "open":
		toks[o.Tok] = b.Token()
	case "apply":
		fs := make([]entity.Formatter, len(o.Fmts))
		for i, f := range o.Fmts {
			fs[i] = fkinds[f.Kind].mk(f.ID)
		}
		toks[o.Tok].Apply(b, fs...)
	}
}

func execProgram(b *entity.Builder, p *program) (msg string, ents []tg.MessageEntityClass, err error) {
	toks := map[int]entity.Token{}
	if p.Styling {
		opts := make([]styling.StyledTextOption, 0, len(p.Ops))
		for _, o := range p.Ops {
			o := o
			switch o.Kind {
			case "plain":
				opts = append(opts, styling.Plain(o.Text))
			case "named":
				opts = append(opts, fkinds[o.Fmts[0].Kind].style(o.Text, o.Fmts[0].ID))
			default:
				opts = append(opts, styling.Custom(func(eb *entity.Builder) error {
					execOp(eb, o, toks)
					return nil
				}))
			}
		}
		if err := styling.Perform(b, opts...); err != nil {
			return "", nil, err
		}
	} else {
		for _, o := range p.Ops {
			execOp(b, o, toks)
		}
	}
	if p.Shrink {
		b.ShrinkPreCode()
	}
	if p.Final == "raw" {
		msg, ents = b.Raw()
	} else {
		msg, ents = b.Complete()
	}
	return msg, ents, nil
}

// ---- the harness's own record of what was asked for ------------------------------

type want struct {
	key   string // entity type + payload
	s, e  int    // intended UTF-16 range in the untrimmed text
	group int    // index of the Format / Apply call
	used  bool
}

type model struct {
	text  string // concatenation of all pieces
	len16 int    // by u16len, piece by piece
	wants []want
}

func payloadKey(kind, id int) string {
	switch fkinds[kind].name {
	case "messageEntityTextUrl", "messageEntityDiffReplace":
		return fkinds[kind].name + "|" + urlOf(id)
	case "messageEntityCustomEmoji", "inputMessageEntityMentionName", "messageEntityFormattedDate":
		return fmt.Sprintf("%s|%d", fkinds[kind].name, id)
	}
	return fkinds[kind].name
}

func entityKey(e tg.MessageEntityClass) string {
	switch v := e.(type) {
	case *tg.MessageEntityTextURL:
		return v.TypeName() + "|" + v.URL
	case *tg.MessageEntityDiffReplace:
		return v.TypeName() + "|" + v.OldText
	case *tg.MessageEntityCustomEmoji:
		return fmt.Sprintf("%s|%d", v.TypeName(), v.DocumentID)
	case *tg.InputMessageEntityMentionName:
		if u, ok := v.UserID.(*tg.InputUser); ok {
			return fmt.Sprintf("%s|%d", v.TypeName(), u.UserID)
		}
	case *tg.MessageEntityFormattedDate:
		return fmt.Sprintf("%s|%d", v.TypeName(), v.Date)
	}
	return e.TypeName()
}

func buildModel(p *program) *model {
	m := &model{}
	var sb strings.Builder
	tokPos := map[int]int{}
	group := 0
	for _, o := range p.Ops {
		switch o.Kind {
		case "plain", "write", "writeb", "runes", "bytes", "wrunes":
			sb.WriteString(o.Text)
			m.len16 += u16len(o.Text)
		case "format", "named":
			s := m.len16
			sb.WriteString(o.Text)
			m.len16 += u16len(o.Text)
			for _, f := range o.Fmts {
				m.wants = append(m.wants, want{key: payloadKey(f.Kind, f.ID), s: s, e: m.len16, group: group})
			}
			group++
		case "open":
			tokPos[o.Tok] = m.len16
		case "apply":
			for _, f := range o.Fmts {
				m.wants = append(m.wants, want{key: payloadKey(f.Kind, f.ID), s: tokPos[o.Tok], e: m.len16, group: group})
			}
			group++
		}
	}
	m.text = sb.String()
	return m
}

// ---- the oracle ------------------------------------------------------------------
//
// L  = UTF-16 length of the untrimmed concatenation, L' = of the returned text,
// T  = UTF-16 length of the concatenation without its trailing white space.
// The returned text must be a prefix of the concatenation that drops white space only.
// For a piece with intended range [s,e): the entity must start at s and its
// length ℓ must satisfy  lo ≤ ℓ ≤ hi  with
//
//	hi = min(e, L') - s          (never more than the piece, never past the text)
//	lo = max(min(e, T), s) - s   (everything of the piece up to the message's trailing white space)
//
// so a piece that does not reach the trailing white space of the message has
// lo = hi = e-s (exact), and only white space that ends the message may be cut.
// A piece that lies completely inside that trailing white space (lo = 0, this
// includes empty pieces) may also have no entity at all.

type checkResult struct {
	trimmed bool
	nents   int
}

func checkProgram(k *collector, p *program, m *model, msg string, ents []tg.MessageEntityClass, stage string) checkResult {
	res := checkResult{nents: len(ents)}
	wit := func(extra map[string]any) func() any {
		return func() any {
			w := p.describe()
			w["stage"] = stage
			w["concat"] = q(m.text)
			w["text"] = q(msg)
			w["text_utf16_len"] = u16len(msg)
			w["entities"] = entRecs(ents)
			var ws []map[string]any
			for _, x := range m.wants {
				ws = append(ws, map[string]any{"type": x.key, "from": x.s, "to": x.e})
			}
			w["intended_ranges"] = ws
			for kk, v := range extra {
				w[kk] = v
			}
			return w
		}
	}
	if !strings.HasPrefix(m.text, msg) || !allWS(m.text[len(msg):]) {
		k.violate("text-mismatch", wit(nil))
		return res
	}
	L, Lp, T := m.len16, u16len(msg), u16len(trimRightWS(m.text))
	res.trimmed = Lp < L
	// groups whose piece reaches into the cut part
	reach := map[int]bool{}
	for _, x := range m.wants {
		if x.e > Lp {
			reach[x.group] = true
		}
	}
	cause := "no-trim"
	if res.trimmed {
		cause = "trailing-whitespace"
		if len(reach) >= 2 {
			cause = "nested-trailing-whitespace"
		}
	}
	lohi := func(x *want) (int, int) {
		return max(min(x.e, T), x.s) - x.s, min(x.e, Lp) - x.s
	}
	// match produced entities to intended ranges: per (key, offset) shortest entity first,
	// each takes the admissible unused range with the smallest upper bound.
	unmatched := map[string]int{}
	order := make([]int, len(ents))
	for i := range order {
		order[i] = i
	}
	sort.SliceStable(order, func(a, b int) bool { return ents[order[a]].GetLength() < ents[order[b]].GetLength() })
	for _, i := range order {
		e := ents[i]
		if e == nil {
			k.violate("nil-entity", wit(nil))
			continue
		}
		key, off, ln := entityKey(e), e.GetOffset(), e.GetLength()
		best := -1
		for j := range m.wants {
			x := &m.wants[j]
			if x.used || x.key != key || x.s != off {
				continue
			}
			lo, hi := lohi(x)
			if ln < lo || ln > hi {
				continue
			}
			if best < 0 || hi < func() int { _, h := lohi(&m.wants[best]); return h }() {
				best = j
			}
		}
		if best >= 0 {
			m.wants[best].used = true
			continue
		}
		// classify (an intended range of the same type left over by this entity is not reported again as missing)
		unmatched[key]++
		bad := map[string]any{"entity": entRec{Type: e.TypeName(), Offset: off, Length: ln}}
		switch {
		case off < 0 || ln < 0:
			k.violate("negative-range", wit(bad))
		case off+ln > Lp:
			k.violate("entity-past-end|"+cause, wit(bad))
		default:
			sameKey, sameOff, tooLong := false, false, false
			for j := range m.wants {
				x := &m.wants[j]
				if x.key != key {
					continue
				}
				sameKey = true
				if x.s == off && !x.used {
					sameOff = true
					if _, hi := lohi(x); ln > hi {
						tooLong = true
					}
				}
			}
			switch {
			case !sameKey:
				k.violate("unexpected-entity", wit(bad))
			case !sameOff:
				k.violate("wrong-offset|"+cause, wit(bad))
			case tooLong:
				k.violate("too-long|"+cause, wit(bad))
			default:
				k.violate("too-short|"+cause, wit(bad))
			}
		}
	}
	for j := range m.wants {
		x := &m.wants[j]
		if lo, _ := lohi(x); !x.used && lo > 0 {
			if unmatched[x.key] > 0 {
				unmatched[x.key]--
				continue
			}
			k.violate("missing-entity|"+cause, wit(map[string]any{"missing": map[string]any{"type": x.key, "from": x.s, "to": x.e}}))
		}
	}
	return res
}

// runOne generates and runs case i; shared by C35 (range oracle) and C36 (order oracle).
func c35Case(c *mon.Ctx, i int, k *collector, check func(p *program, m *model, msg string, ents []tg.MessageEntityClass, stage string) checkResult) {
	r := c.RandN("c35", i)
	progs := []*program{genProgram(r)}
	if r.IntN(10) == 0 { // the same Builder value is used for a second message after Complete/Raw reset it
		progs = append(progs, genProgram(r))
	}
	var b entity.Builder
	for n, p := range progs {
		m := buildModel(p)
		if !utf8.ValidString(m.text) || u16len(m.text) != m.len16 {
			panic("harness: generated pieces are not whole runes")
		}
		var (
			msg  string
			ents []tg.MessageEntityClass
			err  error
		)
		stage := "fresh-builder"
		if n > 0 {
			stage = "reused-builder"
		}
		pv, stack := mon.Try(func() { msg, ents, err = execProgram(&b, p) })
		k.evals++
		if pv != nil {
			k.violate("panic", func() any {
				w := p.describe()
				w["panic"], w["stack"], w["stage"] = fmt.Sprint(pv), stack, stage
				return w
			})
			return
		}
		if err != nil {
			k.violate("perform-error", func() any {
				w := p.describe()
				w["error"] = err.Error()
				return w
			})
			return
		}
		res := check(p, m, msg, ents, stage)
		if len(m.wants) > 0 {
			k.distinctKey(fmt.Sprintf("%s/styling=%v/shrink=%v/%s/depth%d/cls%02x/trimmed=%v/ents%d",
				stage, p.Styling, p.Shrink, p.Final, min(p.depth, 3), p.cls, res.trimmed, min(res.nents, 6)))
			if res.trimmed {
				k.add("messages_trimmed", 1)
			}
			k.add("entities_checked", int64(res.nents))
		}
	}
}

func runC35(c *mon.Ctx) {
	c.Rule("random programs of 1..12 operations (+ closing applies) on the real entity.Builder, 30% driven through styling.Perform: Plain, WriteString/Write/WriteRune/WriteByte, " +
		"Format with 0..3 of all 24 formatters, the named helpers (b.Bold ...), Token/Apply nesting up to depth 4 (LIFO like the HTML parser, sometimes overlapping or applied twice), " +
		"WriteRune with arbitrary rune values incl. lone surrogates, > U+10FFFF and negative (Go stores U+FFFD, one unit), optional ShrinkPreCode (as html/markdown do), then Complete (90%) or Raw; 10% run a second message on the same Builder. Pieces are whole-rune valid UTF-8 from pools: ASCII, BMP (incl. U+FFFF, U+FFFD, U+D7FF, U+E000), " +
		"astral (U+10000, U+10FFFF, emoji, flags, ZWJ sequences), combining sequences, all 25 White_Space code points, white-space look-alikes (U+200B, U+FEFF ...), empty; last pieces end in white space 55% of the time. " +
		"Oracle: harness-side record of every piece + own UTF-16 counter; every returned entity must match an intended range (start exact, length exact unless the piece reaches the message's trailing white space, never past the returned text). " +
		"distinct non-trivial = distinct (builder fresh/reused, via styling, shrink, final call, nesting depth, text-class mask, trimmed?, #entities) among programs that asked for ≥1 entity")
	c.Assume("harness u16len (byte-level count, cross-checked against unicode/utf16 on every generated text) is the UTF-16 reference")
	c.Assume("whitespace = Unicode White_Space property; splitting a rune across two writes is outside the statement and never generated")
	n := c.N(200000, 20000000)
	// self-check of the reference counter against unicode/utf16 on the pools
	for _, pool := range [][]string{poolASCII, poolBMP, poolAstral, poolComb, poolWS, poolNearWS} {
		for _, s := range pool {
			if u16len(s) != len(utf16Encode(s)) {
				c.Inconclusive("harness u16len disagrees with unicode/utf16 on " + q(s))
				return
			}
		}
	}
	for i := 0; i < 3; i++ {
		p := genProgram(c.RandN("c35", i))
		c.Sample("program", p.describe())
	}
	runCases(c, n, func(i int, k *collector) {
		c35Case(c, i, k, func(p *program, m *model, msg string, ents []tg.MessageEntityClass, stage string) checkResult {
			return checkProgram(k, p, m, msg, ents, stage)
		})
	})
	if c.DistinctCount() < 2 {
		c.Inconclusive("fewer than 2 distinct non-trivial programs")
	}
}
