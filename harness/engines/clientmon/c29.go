package main

import (
	"context"
	"errors"
	"fmt"
	"io"
	"net"
	"sort"
	"strings"
	"sync"
	"sync/atomic"
	"time"

	"github.com/cenkalti/backoff/v4"

	"github.com/gotd/td/exchange"
	"github.com/gotd/td/pool"
	"github.com/gotd/td/rpc"
	"github.com/gotd/td/session"
	"github.com/gotd/td/telegram"
	"github.com/gotd/td/telegram/dcs"
	"github.com/gotd/td/tg"
	"github.com/gotd/td/tgtest"
	"github.com/gotd/td/tgtest/cluster"
	"github.com/gotd/td/transport"

	"verif/harness/mon"
)

// Protocol stage of one request at the moment the fault is injected.
type stage int

const (
	stHeld      stage = iota // before send: the write of the request is stuck in the link, fails at the kill
	stTorn                   // before send: frame length written, body stuck, fails at the kill
	stLost                   // before send (from the server's view): write succeeded locally, bytes never arrived
	stUnacked                // after send: server received (executed) it, sent nothing back
	stAcked                  // after ack: server acked, client is known to have consumed the ack
	stAckFly                 // ack written by the server right before the kill (may or may not be consumed)
	stResult                 // after result: caller already got the result
	stResultFly              // result written by the server right before the kill
	stSentinel               // not a probe: answered immediately
	stLate                   // issued while the client is reconnecting, just before it is closed: must return
	stFirst                  // issued during the very first connect: must return
	numStages   = int(stSentinel)
)

var stageNames = [...]string{"held", "torn", "lost", "unacked", "acked", "ack-inflight", "result", "result-inflight", "sentinel", "late-before-close", "during-first-connect"}

func (s stage) String() string { return stageNames[s] }
func (s stage) notSent() bool  { return s == stHeld || s == stTorn || s == stLost }

// mustRetry: the server had neither acknowledged nor answered: the statement demands a transparent re-send and a result.
func (s stage) mustRetry() bool { return s.notSent() || s == stUnacked }

type execRec struct {
	Seq       int64 `json:"seq"`
	Sess      int64 `json:"server_session"`
	MsgID     int64 `json:"msg_id"`
	AfterKill bool  `json:"after_fault"`
	NewConn   bool  `json:"on_replacement_connection"`
}

type probe struct {
	uid      int64
	cell     *cellRun
	stage    stage // owned by the cell goroutine
	sentinel bool  // immutable
	// guarded by env.mu
	execs []execRec
	seen  map[[2]int64]bool
	dups  int
	req   *tgtest.Request
	// closed by the server handler at first arrival
	arrived chan struct{}
	// written by the invoking goroutine before done is closed
	done    chan struct{}
	err     error
	users   []tg.UserClass
	retSeq  int64
	started chan struct{}
}

type cellSpec struct {
	Idx       int      `json:"cell"`
	Point     string   `json:"point"`
	After     string   `json:"after"` // reconnect | close
	K         int      `json:"in_flight"`
	Stages    []string `json:"stages"`
	Kill      string   `json:"kill"`       // local | remote
	CloseMode string   `json:"close_mode"` // down | race | only | failing | stalled (replacement connection never ready)
	Late      bool     `json:"invoke_just_before_close"`
	CloseVia  string   `json:"close_via,omitempty"`         // parent-cancel | callback-nil | callback-error
	Origin    string   `json:"invocation_origin,omitempty"` // harness-runctx | harness-background | handler-ctx | handler-background
	Fresh     bool     `json:"fresh_key"`
	stages    []stage
}

type cellRun struct {
	spec    cellSpec
	killed  bool  // guarded by env.mu: fault injected; requests arriving on another connection are answered immediately
	oldSess int64 // guarded by env.mu: server-side session of the connection that gets killed
}

type c29env struct {
	c    *mon.Ctx
	srv  *tgtest.Server
	keys []exchange.PublicKey
	list dcs.List
	boot [][]byte // restored sessions: [0] shared by most cells, the others for "fresh_key" cells

	mu      sync.Mutex
	seq     int64
	probes  map[int64]*probe
	nextUID int64
	// requests evaluated per stage
	stageCount map[string]int
	// fresh requests issued after the fault that failed, by error class (not a verdict)
	lateFail map[string]int
	// outcomes of the "replacement never ready, then close" cells
	notReady map[string]int
}

func (e *c29env) tick() int64 {
	e.mu.Lock()
	defer e.mu.Unlock()
	e.seq++
	return e.seq
}

func (e *c29env) newProbe(cell *cellRun, st stage) *probe {
	e.mu.Lock()
	defer e.mu.Unlock()
	e.nextUID++
	p := &probe{uid: e.nextUID, cell: cell, stage: st, sentinel: st == stSentinel, seen: map[[2]int64]bool{},
		arrived: make(chan struct{}), done: make(chan struct{}), started: make(chan struct{})}
	e.probes[p.uid] = p
	return p
}

func (e *c29env) drop(ps ...*probe) {
	e.mu.Lock()
	for _, p := range ps {
		delete(e.probes, p.uid)
	}
	e.mu.Unlock()
}

// onGetUsers is the server-side execution log. It never blocks: tgtest serves
// one connection from one goroutine.
func (e *c29env) onGetUsers(srv *tgtest.Server, req *tgtest.Request) error {
	var r tg.UsersGetUsersRequest
	if err := r.Decode(req.Buf); err != nil {
		return err
	}
	var uid int64
	if len(r.ID) == 1 {
		if u, ok := r.ID[0].(*tg.InputUser); ok {
			uid = u.UserID
		}
	}
	e.mu.Lock()
	p := e.probes[uid]
	if p == nil {
		e.mu.Unlock()
		return srv.SendVector(req, &tg.User{ID: uid})
	}
	key := [2]int64{req.Session.ID, req.MsgID}
	if p.seen[key] {
		// Same message in the same session: a real server does not execute it twice.
		p.dups++
		e.mu.Unlock()
		return nil
	}
	p.seen[key] = true
	e.seq++
	newConn := p.cell.oldSess != 0 && req.Session.ID != p.cell.oldSess
	p.execs = append(p.execs, execRec{Seq: e.seq, Sess: req.Session.ID, MsgID: req.MsgID, AfterKill: p.cell.killed, NewConn: newConn})
	// A probe request that still arrives on the doomed connection around the fault is not answered:
	// for the client it stays "received, nothing came back".
	respond := p.sentinel || (p.cell.killed && newConn)
	if len(p.execs) == 1 {
		p.req = &tgtest.Request{DC: req.DC, Session: req.Session, MsgID: req.MsgID, RequestCtx: req.RequestCtx}
		close(p.arrived)
	}
	e.mu.Unlock()
	if respond {
		return srv.SendVector(req, &tg.User{ID: uid})
	}
	return nil
}

func (e *c29env) invoke(ctx context.Context, client *telegram.Client, p *probe) {
	go e.invokeSync(ctx, client, p)
}

// invokeSync runs the monitored invocation on the calling goroutine (e.g. inside an update handler).
func (e *c29env) invokeSync(ctx context.Context, client *telegram.Client, p *probe) {
	defer close(p.done)
	probeCall(uint64(p.uid), func() {
		close(p.started)
		p.users, p.err = client.API().UsersGetUsers(ctx, []tg.InputUserClass{&tg.InputUser{UserID: p.uid, AccessHash: 1}})
		p.retSeq = e.tick()
	})
}

func errClass(err error) string {
	var ne net.Error
	var op *net.OpError
	switch {
	case err == nil:
		return "nil"
	case errors.Is(err, rpc.ErrEngineClosed):
		return "engine-closed"
	case errors.Is(err, pool.ErrConnDead):
		return "conn-dead"
	case errors.Is(err, context.Canceled):
		return "context-canceled"
	case errors.Is(err, context.DeadlineExceeded):
		return "deadline"
	case errors.Is(err, net.ErrClosed), errors.As(err, &op) && (op.Op == "write" || op.Op == "set"):
		return "transport-write-error"
	case errors.Is(err, io.EOF), errors.Is(err, io.ErrClosedPipe), errors.Is(err, io.ErrUnexpectedEOF):
		return "eof"
	case errors.As(err, &ne):
		return "net-error"
	}
	return "other"
}

func waitCh(ch <-chan struct{}, d time.Duration) bool {
	t := time.NewTimer(d)
	defer t.Stop()
	select {
	case <-ch:
		return true
	case <-t.C:
		return false
	}
}

const (
	wdLong  = 45 * time.Second // generous watchdogs: firing is never a verdict by itself
	wdShort = 25 * time.Second
	wdSteer = 2 * time.Second
)

type probeReport struct {
	UID      int64     `json:"uid"`
	Stage    string    `json:"stage"`
	Outcome  string    `json:"outcome"`
	Err      string    `json:"err,omitempty"`
	Execs    []execRec `json:"server_executions"`
	Dups     int       `json:"same_msg_retransmits"`
	RetSeq   int64     `json:"returned_at"`
	Goroutin string    `json:"goroutine,omitempty"`
}

type cellReport struct {
	Spec     cellSpec      `json:"spec"`
	FaultSeq int64         `json:"fault_at"`
	OldSess  int64         `json:"old_server_session"`
	Probes   []probeReport `json:"probes"`
	After    string        `json:"after_fault,omitempty"`
	Steer    string        `json:"steering,omitempty"`
	Log      []string      `json:"client_log,omitempty"`
}

// runCell executes one cell of the fault table. It returns "" or the reason the cell is undecided.
func (e *c29env) runCell(spec cellSpec) (undecided string) {
	c := e.c
	cell := &cellRun{spec: spec}
	cnet := newChaosNet()
	logger := newRecLogger()
	var readyCount atomic.Int64 // primary connection reported ready (Options.OnConnectionState)
	storage := &session.StorageMemory{}
	// Key exchanges are done once, serially, before the table runs (tgtest's session table is not
	// safe for an exchange concurrent with traffic); "fresh" cells use a key no other cell shares at that time.
	boot := e.boot[0]
	if spec.Fresh {
		boot = e.boot[1+spec.Idx%(len(e.boot)-1)]
	}
	_ = storage.StoreSession(context.Background(), append([]byte(nil), boot...))
	client := telegram.NewClient(1, "hash", telegram.Options{
		PublicKeys:     e.keys,
		DC:             2,
		DCList:         e.list,
		Resolver:       dcs.Plain(dcs.PlainOptions{Protocol: transport.Intermediate, Dial: cnet.Dial}),
		SessionStorage: storage,
		Logger:         logger,
		ReconnectionBackoff: func() backoff.BackOff {
			if spec.CloseMode == "failing" {
				// Dials fail: the reconnect loop must sit in a (short) backoff sleep, not spin.
				return backoff.NewConstantBackOff(30 * time.Millisecond)
			}
			return &backoff.ZeroBackOff{}
		},
		RetryInterval: time.Hour, // no same-connection retransmits inside a cell
		NoUpdates:     true,
		OnConnectionState: func(s telegram.ConnectionState) {
			if s == telegram.ConnectionStateReady {
				readyCount.Add(1)
			}
		},
	})
	runCtx, cancelRun := context.WithCancel(context.Background())
	callCtx, cancelCalls := context.WithCancel(context.Background())
	ready := make(chan struct{})
	runDone := make(chan struct{})
	var runErr error
	go func() {
		defer close(runDone)
		runErr = client.Run(runCtx, func(ctx context.Context) error {
			close(ready)
			<-ctx.Done()
			return ctx.Err()
		})
	}()
	var all []*probe
	defer func() {
		cancelRun()
		cnet.SetDown(false)
		if !waitCh(runDone, wdLong) {
			cnet.KillAll()
			if undecided == "" {
				undecided = "Run did not return at cleanup"
			}
		}
		cancelCalls()
		for _, p := range all {
			waitCh(p.done, 5*time.Second)
		}
		cnet.KillAll()
		e.drop(all...)
	}()
	select {
	case <-ready:
	case <-runDone:
		return "Run returned before ready: " + fmt.Sprint(runErr)
	case <-time.After(wdLong):
		c.Set("undecided_client_not_ready_example", map[string]any{"cell": spec, "dials": cnet.Dials(), "client_log": logger.Ring()})
		return "client not ready"
	}

	// Warm-up round trip: the connection works; learn the server-side session of the primary connection.
	s0 := e.newProbe(cell, stSentinel)
	all = append(all, s0)
	e.invoke(callCtx, client, s0)
	if !waitCh(s0.done, wdLong) || s0.err != nil {
		return "warm-up request failed: " + fmt.Sprint(s0.err)
	}
	e.mu.Lock()
	oldSess := s0.req.Session
	cell.oldSess = oldSess.ID
	e.mu.Unlock()
	conn0 := cnet.Current()

	probes := make([]*probe, spec.K)
	for i := range probes {
		probes[i] = e.newProbe(cell, spec.stages[i])
	}
	all = append(all, probes...)
	steering := ""

	// Phase 1: requests that reach the server.
	for _, p := range probes {
		if p.stage.notSent() {
			continue
		}
		e.invoke(callCtx, client, p)
		if !waitCh(p.arrived, wdLong) {
			return "request did not reach the server"
		}
		e.mu.Lock()
		req := p.req
		e.mu.Unlock()
		switch p.stage {
		case stAcked:
			if err := e.srv.SendAck(context.Background(), req.Session, req.MsgID); err != nil {
				return "server could not send ack: " + err.Error()
			}
			// The cell is decided as "acknowledged" only if the client is known to have consumed the ack.
			if !steer(10*time.Second, func() bool { return logger.Acked(req.MsgID) }) {
				p.stage = stAckFly
				steering += "ack-not-confirmed;"
			}
		case stResult:
			if err := e.srv.SendVector(req, &tg.User{ID: p.uid}); err != nil {
				return "server could not send result: " + err.Error()
			}
			if !waitCh(p.done, 10*time.Second) {
				p.stage = stResultFly
				steering += "result-not-confirmed;"
			}
		}
	}
	// Phase 2: requests whose write gets stuck / lost in the link.
	nNotSent := 0
	for _, p := range probes {
		if !p.stage.notSent() {
			continue
		}
		if nNotSent == 0 {
			switch p.stage {
			case stHeld:
				conn0.Hold(0)
			case stTorn:
				conn0.Hold(1)
			case stLost:
				conn0.Blackhole()
			}
		}
		nNotSent++
		e.invoke(callCtx, client, p)
		<-p.started
	}
	if nNotSent > 0 {
		if !steer(wdSteer, func() bool {
			b, s, _ := conn0.counters()
			return b > 0 || s >= 2*nNotSent
		}) {
			steering += "no-write-seen;"
		}
	}
	// Phase 3: messages written by the server right before the fault.
	for _, p := range probes {
		if p.stage != stAckFly && p.stage != stResultFly {
			continue
		}
		e.mu.Lock()
		req := p.req
		e.mu.Unlock()
		if req == nil {
			continue
		}
		if p.stage == stAckFly && !logger.Acked(req.MsgID) {
			_ = e.srv.SendAck(context.Background(), req.Session, req.MsgID)
		}
		if p.stage == stResultFly {
			_ = e.srv.SendVector(req, &tg.User{ID: p.uid})
		}
	}

	// The fault.
	e.mu.Lock()
	e.seq++
	faultSeq := e.seq
	cell.killed = true
	e.mu.Unlock()
	ready0 := readyCount.Load()
	replacementUp := func() bool { return readyCount.Load() > ready0 }
	kill := func() {
		if spec.Kill == "remote" {
			e.srv.ForceDisconnect(oldSess)
		} else {
			conn0.Kill()
		}
	}
	waiters := 0
	for _, p := range probes {
		if p.stage.mustRetry() {
			waiters++
		}
	}
	late := func() {
		if !spec.Late {
			return
		}
		// A new invocation issued while the client is still reconnecting, just before it is closed.
		p := e.newProbe(cell, stLate)
		all, probes = append(all, p), append(probes, p)
		e.invoke(callCtx, client, p)
		<-p.started
	}
	switch {
	case spec.After == "reconnect":
		kill()
	case spec.CloseMode == "down":
		cnet.SetDown(true)
		kill()
		if !steer(wdSteer, func() bool { return logger.Waiting() >= waiters }) {
			steering += "not-all-waiting;"
		}
		late()
		cancelRun()
	case spec.CloseMode == "failing":
		// Every dial of the replacement fails: the reconnect loop alternates between a dead attempt and its backoff sleep.
		cnet.SetFailing(true)
		kill()
		if !steer(wdSteer, func() bool { _, f := cnet.Stats(); return f >= 2 }) {
			steering += "no-failed-dials;"
		}
		late()
		cancelRun()
	case spec.CloseMode == "stalled":
		// The replacement connects, then its key exchange / initConnection never gets an answer.
		cnet.SetStall(true)
		kill()
		if !steer(wdSteer, func() bool {
			cur := cnet.Current()
			_, sw, _ := cur.counters()
			return cur != conn0 && sw > 0
		}) {
			steering += "replacement-not-stalled;"
		}
		late()
		cancelRun()
	case spec.CloseMode == "race":
		kill()
		cancelRun()
	default: // only
		cancelRun()
	}

	// All monitored invocations must return.
	rep := cellReport{Spec: spec, FaultSeq: faultSeq, OldSess: oldSess.ID, Steer: steering}
	hung := map[int64]string{}
	runReturned := false
	if spec.After == "close" {
		runReturned = waitCh(runDone, wdLong)
	}
	var sentinelErr error
	sentinelOK := false
	checkHung := func(p *probe, phase string) {
		// The invocation did not return within the watchdog. That alone is not a verdict;
		// it is one only if the goroutine is parked inside invokeConn's wait although the
		// event it can wait for has already happened (replacement reported ready / client closed).
		frame, stack, desc := parkedIn(uint64(p.uid))
		hung[p.uid] = desc
		w := map[string]any{"cell": spec, "uid": p.uid, "stage": p.stage.String(), "goroutine": stack, "phase": phase, "client_log": logger.Ring()}
		switch {
		case frame != "" && spec.After == "close" && runReturned:
			c.Violate("close|invocation-parked-in-"+frame+"-after-client-closed|"+phase, w)
		case frame == "invokeConn" && spec.After == "reconnect" && replacementUp():
			c.Violate("reconnect|invocation-parked-in-invokeConn-after-replacement-connection-ready|"+phase, w)
		default:
			undecided = "invocation did not return (" + desc + ")"
		}
	}
	if spec.After == "reconnect" {
		// The replacement connection reports ready (public OnConnectionState callback) ...
		if !steer(wdLong, replacementUp) {
			rep.After = "replacement connection never reported ready"
		} else {
			// ... and is proven functional by a fresh request. A fresh request issued while the dead
			// connection is not yet replaced was not pending when the link died: outside the statement.
			attempts := 0
			for deadline := time.Now().Add(wdShort); !sentinelOK && time.Now().Before(deadline); attempts++ {
				s1 := e.newProbe(cell, stSentinel)
				all = append(all, s1)
				e.invoke(callCtx, client, s1)
				if !waitCh(s1.done, wdShort) {
					sentinelErr = errors.New("fresh request did not return")
					checkHung(s1, "fresh")
					break
				}
				sentinelErr = s1.err
				sentinelOK = s1.err == nil
				if !sentinelOK {
					e.mu.Lock()
					e.lateFail[errClass(s1.err)]++
					e.mu.Unlock()
					time.Sleep(time.Millisecond)
				}
			}
			rep.After = fmt.Sprintf("fresh request after replacement ready: %v after %d failed attempts; dials=%d", sentinelErr, attempts-1, cnet.Dials())
		}
	}
	pendingDeadline := time.Now().Add(wdShort)
	for _, p := range probes {
		if !waitCh(p.done, max(time.Until(pendingDeadline), time.Second)) {
			checkHung(p, "pending")
		}
	}
	if spec.After == "close" {
		if !runReturned {
			undecided = "Run did not return after cancel"
		}
		// New invocation on the closed client must return.
		n1 := e.newProbe(cell, stSentinel)
		all = append(all, n1)
		e.invoke(callCtx, client, n1)
		if !waitCh(n1.done, wdShort) {
			checkHung(n1, "new")
		} else {
			rep.After = "new invocation after close: " + errClass(n1.err)
			c.Distinct("close/new-invocation/" + errClass(n1.err))
		}
	}

	// Evaluate.
	e.mu.Lock()
	for _, p := range probes {
		pr := probeReport{UID: p.uid, Stage: p.stage.String(), Execs: append([]execRec(nil), p.execs...), Dups: p.dups, Goroutin: hung[p.uid]}
		select {
		case <-p.done:
			pr.RetSeq = p.retSeq
			switch {
			case p.err != nil:
				pr.Outcome, pr.Err = "err:"+errClass(p.err), p.err.Error()
			case len(p.users) == 1 && p.users[0].GetID() == p.uid:
				pr.Outcome = "ok"
			default:
				pr.Outcome = "wrong-result"
			}
		default:
			pr.Outcome = "hung"
		}
		rep.Probes = append(rep.Probes, pr)
	}
	e.mu.Unlock()
	rep.Log = logger.Ring()
	stagesKey := make([]string, 0, len(rep.Probes))
	for _, pr := range rep.Probes {
		stagesKey = append(stagesKey, pr.Stage)
	}
	sort.Strings(stagesKey)
	for _, pr := range rep.Probes {
		c.Eval(1)
		st := stage(indexOf(stageNames[:], pr.Stage))
		before, after, newConn := 0, 0, 0
		for _, x := range pr.Execs {
			if x.AfterKill {
				after++
			} else {
				before++
			}
			if x.NewConn && x.AfterKill {
				newConn++
			}
		}
		mode := spec.After
		if spec.After == "close" {
			mode += "-" + spec.CloseMode
		}
		c.Distinct(fmt.Sprintf("%s/%s/%s/k%d/%s/exec%d+%d", mode, spec.Kill, pr.Stage, spec.K, pr.Outcome, before, after))
		e.mu.Lock()
		if spec.Point == "replacement-not-ready" {
			e.notReady[fmt.Sprintf("%s/%s/%s", spec.CloseMode, pr.Stage, pr.Outcome)]++
		}
		e.stageCount[pr.Stage]++
		e.mu.Unlock()
		if pr.Outcome == "hung" {
			continue
		}
		if pr.Outcome == "wrong-result" {
			c.Violate("wrong-result|"+pr.Stage, rep)
			continue
		}
		if pr.Outcome == "ok" && len(pr.Execs) == 0 {
			c.Violate("result-without-server-execution|"+pr.Stage, rep)
			continue
		}
		switch {
		case st == stAcked:
			// Acknowledged and the ack was consumed: never executed again, caller gets an error.
			if len(pr.Execs) > 1 {
				c.Violate(mode+"|acked-request-executed-again", rep)
			} else if pr.Outcome == "ok" {
				c.Violate(mode+"|acked-request-returned-nil", rep)
			}
		case st == stResult:
			if len(pr.Execs) > 1 {
				c.Violate(mode+"|completed-request-executed-again", rep)
			}
		case st.mustRetry() && spec.After == "reconnect":
			// Not acknowledged: transparently re-sent on the replacement connection, result returned.
			if pr.Outcome != "ok" {
				if sentinelOK {
					// One signature per protocol point, not per link mode: held and torn writes are the same point.
					point := map[stage]string{stHeld: "before-send", stTorn: "before-send", stLost: "sent-but-lost", stUnacked: "after-send"}[st]
					c.Violate("reconnect|unacked-request-failed|"+point+"|"+strings.TrimPrefix(pr.Outcome, "err:"), rep)
				} else {
					undecided = "unacked request failed but the replacement connection is not functional: " + fmt.Sprint(sentinelErr)
				}
			} else if newConn == 0 {
				c.Violate("reconnect|unacked-request-result-without-resend|"+pr.Stage, rep)
			}
		}
	}
	if spec.After == "reconnect" && !sentinelOK && undecided == "" {
		undecided = "replacement connection not functional: " + fmt.Sprint(sentinelErr)
	}
	c.Sample(spec.After+"/"+spec.Point, rep)
	return undecided
}

// runFirstConnect: the client is closed during its very first connect (the connection never gets
// ready: dial blocks / dials fail / connects and stalls) with an invocation already waiting, one
// issued just before the close and one after Run returned. All of them must return.
func (e *c29env) runFirstConnect(spec cellSpec) (undecided string) {
	c := e.c
	cell := &cellRun{spec: spec}
	cnet := newChaosNet()
	switch spec.CloseMode {
	case "down":
		cnet.SetDown(true)
	case "failing":
		cnet.SetFailing(true)
	case "stalled":
		cnet.SetStall(true)
	}
	logger := newRecLogger()
	storage := &session.StorageMemory{}
	_ = storage.StoreSession(context.Background(), append([]byte(nil), e.boot[0]...))
	client := telegram.NewClient(1, "hash", telegram.Options{
		PublicKeys: e.keys, DC: 2, DCList: e.list, SessionStorage: storage, Logger: logger, NoUpdates: true,
		Resolver:            dcs.Plain(dcs.PlainOptions{Protocol: transport.Intermediate, Dial: cnet.Dial}),
		ReconnectionBackoff: func() backoff.BackOff { return backoff.NewConstantBackOff(30 * time.Millisecond) },
		RetryInterval:       time.Hour,
	})
	runCtx, cancelRun := context.WithCancel(context.Background())
	callCtx, cancelCalls := context.WithCancel(context.Background())
	runDone := make(chan struct{})
	readyCalled := false
	go func() {
		defer close(runDone)
		_ = client.Run(runCtx, func(ctx context.Context) error {
			readyCalled = true
			<-ctx.Done()
			return ctx.Err()
		})
	}()
	var all []*probe
	defer func() {
		cancelRun()
		cnet.SetDown(false)
		waitCh(runDone, wdLong)
		cancelCalls()
		for _, p := range all {
			waitCh(p.done, 5*time.Second)
		}
		cnet.KillAll()
		e.drop(all...)
	}()
	// The first dial has been attempted: Run has set up the client, the connection is being established.
	if !steer(wdLong, func() bool {
		entered, failed := cnet.Stats()
		switch spec.CloseMode {
		case "failing":
			return failed >= 2
		case "stalled":
			if cur := cnet.Current(); cur != nil {
				_, sw, _ := cur.counters()
				return sw > 0
			}
			return false
		}
		return entered >= 1
	}) {
		return "first connect not attempted"
	}
	start := func(st stage) *probe {
		p := e.newProbe(cell, st)
		all = append(all, p)
		e.invoke(callCtx, client, p)
		<-p.started
		return p
	}
	probes := []*probe{start(stFirst)}
	// Let the invocation reach its wait (steering only).
	time.Sleep(2 * time.Millisecond)
	if spec.Late {
		probes = append(probes, start(stLate))
	}
	cancelRun()
	if !waitCh(runDone, wdLong) {
		return "Run did not return after cancel"
	}
	if readyCalled {
		return "client became ready although the network was unusable"
	}
	after := start(stSentinel)
	deadline := time.Now().Add(wdShort)
	for i, p := range append(probes, after) {
		phase := []string{"pending", "late", "new"}[min(i, 2)]
		if p == after {
			phase = "new"
		}
		c.Eval(1)
		if waitCh(p.done, max(time.Until(deadline), time.Second)) {
			c.Distinct(fmt.Sprintf("first-connect-%s/%s/%s", spec.CloseMode, phase, errClass(p.err)))
			if p.err == nil {
				c.Violate("first-connect|invocation-succeeded-without-connection", map[string]any{"cell": spec, "phase": phase})
			}
			continue
		}
		frame, stack, desc := parkedIn(uint64(p.uid))
		w := map[string]any{"cell": spec, "uid": p.uid, "phase": phase, "goroutine": stack, "client_log": logger.Ring()}
		if frame != "" {
			c.Violate("close|invocation-parked-in-"+frame+"-after-client-closed|first-connect-"+phase, w)
		} else {
			undecided = "invocation did not return (" + desc + ")"
		}
	}
	e.mu.Lock()
	e.stageCount[stFirst.String()]++
	e.mu.Unlock()
	return undecided
}

var errCallback = errors.New("harness: callback gives up")

// runCloseOrigin: the client is closed by cancelling Run's parent context, by the Run callback returning nil,
// or by the callback returning an error, while one request (unacked or acked) is pending that was issued from
// a harness goroutine (with the callback's ctx or an independent one) or from inside an update handler (with the
// handler's ctx or an independent one). The invocation must return and Run itself must return.
func (e *c29env) runCloseOrigin(spec cellSpec) (undecided string) {
	c := e.c
	cell := &cellRun{spec: spec}
	cnet := newChaosNet()
	logger := newRecLogger()
	storage := &session.StorageMemory{}
	_ = storage.StoreSession(context.Background(), append([]byte(nil), e.boot[0]...))
	jobs := make(chan func(ctx context.Context), 1)
	client := telegram.NewClient(1, "hash", telegram.Options{
		PublicKeys: e.keys, DC: 2, DCList: e.list, SessionStorage: storage, Logger: logger, NoUpdates: true,
		Resolver:            dcs.Plain(dcs.PlainOptions{Protocol: transport.Intermediate, Dial: cnet.Dial}),
		ReconnectionBackoff: func() backoff.BackOff { return &backoff.ZeroBackOff{} },
		RetryInterval:       time.Hour,
		UpdateHandler: telegram.UpdateHandlerFunc(func(ctx context.Context, _ tg.UpdatesClass) error {
			select {
			case job := <-jobs:
				job(ctx) // synchronously: the connection's read loop waits for its handlers
			default:
			}
			return nil
		}),
	})
	parentCtx, cancelParent := context.WithCancel(context.Background())
	callCtx, cancelCalls := context.WithCancel(context.Background())
	cbCtxCh := make(chan context.Context, 1)
	closeCh := make(chan error, 1)
	runDone := make(chan struct{})
	var runErr error
	e.mu.Lock()
	e.nextUID++
	runUID := uint64(e.nextUID)
	e.mu.Unlock()
	go func() {
		defer close(runDone)
		probeCall(runUID, func() {
			runErr = client.Run(parentCtx, func(ctx context.Context) error {
				cbCtxCh <- ctx
				select {
				case err := <-closeCh:
					return err
				case <-ctx.Done():
					return ctx.Err()
				}
			})
		})
	}()
	var all []*probe
	defer func() {
		cancelParent()
		if !waitCh(runDone, 5*time.Second) {
			// Release whatever Run is waiting for.
			cancelCalls()
			cnet.KillAll()
			waitCh(runDone, wdLong)
		}
		cancelCalls()
		for _, p := range all {
			waitCh(p.done, 5*time.Second)
		}
		cnet.KillAll()
		e.drop(all...)
	}()
	var cbCtx context.Context
	select {
	case cbCtx = <-cbCtxCh:
	case <-runDone:
		return "Run returned before ready: " + fmt.Sprint(runErr)
	case <-time.After(wdLong):
		return "client not ready"
	}
	s0 := e.newProbe(cell, stSentinel)
	all = append(all, s0)
	e.invoke(callCtx, client, s0)
	if !waitCh(s0.done, wdLong) || s0.err != nil {
		return "warm-up request failed: " + fmt.Sprint(s0.err)
	}
	e.mu.Lock()
	oldSess := s0.req.Session
	cell.oldSess = oldSess.ID
	e.mu.Unlock()

	p := e.newProbe(cell, spec.stages[0])
	all = append(all, p)
	switch spec.Origin {
	case "harness-runctx":
		e.invoke(cbCtx, client, p)
	case "harness-background":
		e.invoke(callCtx, client, p)
	default:
		jobs <- func(hctx context.Context) {
			if spec.Origin == "handler-background" {
				hctx = callCtx
			}
			e.invokeSync(hctx, client, p)
		}
		if err := e.srv.SendUpdates(context.Background(), oldSess, &tg.UpdateNewMessage{
			Message: &tg.Message{ID: 1, PeerID: &tg.PeerUser{UserID: 1}, Message: "probe"},
		}); err != nil {
			return "server could not push the update: " + err.Error()
		}
	}
	if !waitCh(p.arrived, wdLong) {
		return "request did not reach the server"
	}
	e.mu.Lock()
	req := p.req
	e.mu.Unlock()
	if p.stage == stAcked {
		if err := e.srv.SendAck(context.Background(), req.Session, req.MsgID); err != nil {
			return "server could not send ack: " + err.Error()
		}
		if !steer(10*time.Second, func() bool { return logger.Acked(req.MsgID) }) {
			p.stage = stAckFly
		}
	}
	// Close.
	e.mu.Lock()
	cell.killed = true
	e.mu.Unlock()
	switch spec.CloseVia {
	case "callback-nil":
		closeCh <- nil
	case "callback-error":
		closeCh <- errCallback
	default:
		cancelParent()
	}
	label := spec.CloseVia + "|" + spec.Origin + "|" + p.stage.String()
	w := map[string]any{"cell": spec, "uid": p.uid}
	runReturned := waitCh(runDone, wdShort)
	if !runReturned {
		// Run does not return. Verdict only if, in two dumps one second apart, Run's goroutine sits blocked in
		// (*Client).Run while the pending invocation is parked in invokeConn waiting for a reconnect / client close.
		blockedRun := func() (string, bool) {
			st, _, stack, ok := goroutineOf(runUID)
			return stack, ok && !strings.HasPrefix(st, "run") && strings.Contains(stack, "telegram.(*Client).Run(")
		}
		_, r1 := blockedRun()
		frame, pstack, desc := parkedIn(uint64(p.uid))
		rstack, r2 := blockedRun()
		w["run_goroutine"], w["invocation_goroutine"], w["client_log"] = rstack, pstack, logger.Ring()
		if r1 && r2 && frame == "invokeConn" {
			c.Eval(1)
			c.Violate("close|run-does-not-return|"+label, w)
			return ""
		}
		return "Run did not return after close (" + desc + ")"
	}
	c.Eval(1)
	if spec.CloseVia == "callback-error" && !errors.Is(runErr, errCallback) {
		c.Distinct("close-origin/run-error-lost/" + errClass(runErr))
	}
	if !waitCh(p.done, wdShort) {
		frame, stack, desc := parkedIn(uint64(p.uid))
		w["goroutine"], w["client_log"] = stack, logger.Ring()
		if frame != "" {
			c.Violate("close|invocation-parked-in-"+frame+"-after-client-closed|origin-"+spec.Origin, w)
			return ""
		}
		return "invocation did not return (" + desc + ")"
	}
	n1 := e.newProbe(cell, stSentinel)
	all = append(all, n1)
	e.invoke(callCtx, client, n1)
	if !waitCh(n1.done, wdShort) {
		frame, stack, desc := parkedIn(uint64(n1.uid))
		w["goroutine"] = stack
		if frame != "" {
			c.Violate("close|invocation-parked-in-"+frame+"-after-client-closed|new", w)
			return ""
		}
		return "new invocation did not return (" + desc + ")"
	}
	e.mu.Lock()
	execs := len(p.execs)
	e.stageCount[p.stage.String()]++
	e.mu.Unlock()
	outcome := "err:" + errClass(p.err)
	if p.err == nil {
		outcome = "ok"
	}
	w["outcome"], w["executions"] = outcome, execs
	if p.stage == stAcked && execs > 1 {
		c.Violate("close-"+spec.CloseVia+"|acked-request-executed-again", w)
	} else if p.err == nil {
		// The server never answered this request on any connection it executed it on before the close... unless it was re-sent.
		if execs < 2 {
			c.Violate("result-without-server-execution|"+p.stage.String(), w)
		}
	}
	c.Distinct(fmt.Sprintf("close-origin/%s/%s/exec%d", label, outcome, execs))
	return ""
}

// parkedIn inspects the goroutine of a monitored invocation that did not return: two goroutine dumps,
// one second apart, must both show it parked in a select whose innermost gotd/td frame is the same
// waiting function (invokeConn: waiting for a replacement connection; waitSession: waiting for a
// connection to become ready or die). Returns that function's short name, or "".
func parkedIn(uid uint64) (frame, stack, desc string) {
	short := func(state, f string, ok bool) string {
		if !ok || !strings.HasPrefix(state, "select") {
			return ""
		}
		switch {
		case strings.HasSuffix(f, "telegram.(*Client).invokeConn"):
			return "invokeConn"
		case strings.HasSuffix(f, "manager.(*Conn).waitSession"):
			return "waitSession"
		}
		return ""
	}
	st1, f1, _, ok1 := goroutineOf(uid)
	time.Sleep(time.Second)
	st2, f2, stack2, ok2 := goroutineOf(uid)
	desc = fmt.Sprintf("state=%q/%q frame=%q/%q found=%v/%v", st1, st2, f1, f2, ok1, ok2)
	a, b := short(st1, f1, ok1), short(st2, f2, ok2)
	if a != "" && a == b {
		return a, stack2, desc
	}
	return "", stack2, desc
}

func indexOf(xs []string, s string) int {
	for i, x := range xs {
		if x == s {
			return i
		}
	}
	return -1
}

func runC29(c *mon.Ctx) {
	c.Rule("fault table {before send (write held / frame torn / bytes lost), after send (server executed, silent), after ack (ack consumed by the client, confirmed through the client's own logger), " +
		"after result (caller returned)} x {reconnect, client close} x in-flight 1..3, enumerated completely for request 0 of every cell; the other in-flight requests take seeded stages incl. " +
		"ack/result written right before the kill (either outcome allowed); variations: local socket close vs server-side disconnect, close after kill with network down / racing the reconnect / without kill; plus 'replacement never ready' cells (dial blocks / dials fail and the loop sits in backoff / connects and stalls) and close during the very first connect, each with a pending request, an invocation just before the close and one after Run returned; plus 'who closes' cells: {parent ctx cancelled, Run callback returns nil, callback returns an error} x pending request issued from {harness goroutine with the callback ctx / an independent ctx, inside an update handler with the handler ctx / an independent ctx} x {unacked, acked}: the invocation and Run itself must return, " +
		"shared vs own restored key (all key exchanges happen serially before the table). Real telegram.Client over loopback TCP against tgtest; server handler logs every execution by the unique user id in users.getUsers. " +
		"evaluation = one monitored request; distinct = (fault mode, kill side, stage, in-flight, caller outcome, server executions before+after fault)")
	c.Assume("tgtest server is a faithful enough MTProto peer: it never acks or answers by itself for probe requests; harness dedupes a retransmit of the same msg_id in the same server session as a real server does")
	c.Assume("'ack consumed' is read from the client's rpc logger record 'Acknowledged, waiting for result' (public Options.Logger boundary); without it the request is classed ack-inflight and nothing is demanded")
	c.Assume("a hang becomes a violation only if two goroutine dumps one second apart show the invocation parked in invokeConn's select (or, after Run returned, in manager.Conn.waitSession's select) after the awaited event (replacement connection reported ready / Run returned) has happened; other watchdog expiries are inconclusive")

	bg, cancel := context.WithCancel(context.Background())
	defer cancel()
	cl := cluster.NewCluster(cluster.Options{Protocol: transport.Intermediate})
	env := &c29env{c: c, probes: map[int64]*probe{}, nextUID: 1000, stageCount: map[string]int{}, lateFail: map[string]int{}, notReady: map[string]int{}}
	srv, disp := cl.DC(2, "dc2")
	env.srv = srv
	disp.HandleFunc(tg.UsersGetUsersRequestTypeID, env.onGetUsers)
	upDone := make(chan error, 1)
	go func() { upDone <- cl.Up(bg) }()
	select {
	case <-cl.Ready():
	case err := <-upDone:
		c.Inconclusive("cluster did not start: " + fmt.Sprint(err))
		return
	case <-time.After(2 * time.Minute):
		c.Inconclusive("cluster did not start")
		return
	}
	env.keys, env.list = cl.Keys(), cl.List()

	// Bootstrap: a few key exchanges, one after the other; every cell restores one of these sessions.
	for i := 0; i < 4; i++ {
		st := &session.StorageMemory{}
		bc := telegram.NewClient(1, "hash", telegram.Options{
			PublicKeys: env.keys, DC: 2, DCList: env.list, SessionStorage: st, NoUpdates: true,
			Resolver: dcs.Plain(dcs.PlainOptions{Protocol: transport.Intermediate}),
		})
		bctx, bcancel := context.WithTimeout(bg, 3*time.Minute)
		err := bc.Run(bctx, func(ctx context.Context) error { return nil })
		bcancel()
		data, berr := st.Bytes(nil)
		if err != nil || berr != nil {
			c.Inconclusive(fmt.Sprintf("bootstrap client failed: %v / %v", err, berr))
			return
		}
		env.boot = append(env.boot, data)
	}

	// The table.
	points := []stage{stHeld, stUnacked, stAcked, stResult}
	pointNames := []string{"before-send", "after-send", "after-ack", "after-result"}
	variations := c.N(8, 300)
	var cells []cellSpec
	for v := 0; v < variations; v++ {
		for pi, pt := range points {
			for _, after := range []string{"reconnect", "close"} {
				for k := 1; k <= 3; k++ {
					idx := len(cells)
					r := c.RandN("c29-cell", idx)
					sp := cellSpec{Idx: idx, Point: pointNames[pi], After: after, K: k, Kill: "local", CloseMode: "down"}
					first := pt
					if pt == stHeld {
						first = []stage{stHeld, stTorn, stLost}[v%3]
					}
					if v%5 == 4 {
						switch pt {
						case stAcked:
							first = stAckFly
						case stResult:
							first = stResultFly
						}
					}
					sp.stages = []stage{first}
					for i := 1; i < k; i++ {
						sp.stages = append(sp.stages, stage(r.IntN(numStages)))
					}
					// One link mode for all not-sent requests of a cell.
					var link stage = -1
					for i, s := range sp.stages {
						if s.notSent() {
							if link < 0 {
								link = s
							}
							sp.stages[i] = link
						}
					}
					held := link == stHeld || link == stTorn
					if r.IntN(3) == 0 {
						// Server-side disconnect: the client learns of the death from its read side.
						sp.Kill = "remote"
					}
					if after == "close" {
						sp.CloseMode = []string{"down", "race", "only"}[(v+k)%3]
						if held && sp.CloseMode == "only" {
							sp.CloseMode = "down"
						}
					}
					sp.Fresh = r.IntN(12) == 0
					for _, s := range sp.stages {
						sp.Stages = append(sp.Stages, s.String())
					}
					cells = append(cells, sp)
				}
			}
		}
	}
	// Close while the replacement connection is not ready: {dial blocks, dials fail (loop in backoff), connects and stalls}
	// x pending request kinds x {with, without an invocation just before the close}; and close during the very first connect.
	nTable := len(cells)
	for v := 0; v < c.N(1, 12); v++ {
		for _, cm := range []string{"down", "failing", "stalled"} {
			for _, late := range []bool{false, true} {
				for _, stages := range [][]stage{{stUnacked}, {stLost, stUnacked}, {stAcked, stUnacked}} {
					sp := cellSpec{Idx: len(cells), Point: "replacement-not-ready", After: "close", K: len(stages), Kill: []string{"local", "remote"}[(v+len(stages))%2],
						CloseMode: cm, Late: late, stages: stages}
					for _, st := range stages {
						sp.Stages = append(sp.Stages, st.String())
					}
					cells = append(cells, sp)
				}
				cells = append(cells, cellSpec{Idx: len(cells), Point: "first-connect", After: "close", K: 1, CloseMode: cm, Late: late, Stages: []string{stFirst.String()}})
			}
		}
	}
	// Who closes x where the pending request was issued x request state.
	for v := 0; v < c.N(1, 10); v++ {
		for _, via := range []string{"parent-cancel", "callback-nil", "callback-error"} {
			for _, origin := range []string{"harness-runctx", "harness-background", "handler-ctx", "handler-background"} {
				for _, st := range []stage{stUnacked, stAcked} {
					cells = append(cells, cellSpec{Idx: len(cells), Point: "close-origin", After: "close", K: 1, CloseMode: "only", CloseVia: via, Origin: origin,
						stages: []stage{st}, Stages: []string{st.String()}})
				}
			}
		}
	}
	c.Set("cells", len(cells))
	c.Set("cells_fault_table", nTable)
	c.Exhaustive(true)

	var (
		wg        sync.WaitGroup
		work      = make(chan cellSpec)
		umu       sync.Mutex
		undecided = map[string]int{}
		decided   int
	)
	for w := 0; w < 12; w++ {
		wg.Add(1)
		go func() {
			defer wg.Done()
			for sp := range work {
				var why string
				if sp.Point == "first-connect" {
					why = env.runFirstConnect(sp)
				} else if sp.Point == "close-origin" {
					why = env.runCloseOrigin(sp)
				} else {
					why = env.runCell(sp)
				}
				umu.Lock()
				if why != "" {
					undecided[why]++
				} else {
					decided++
				}
				umu.Unlock()
			}
		}()
	}
	for _, sp := range cells {
		work <- sp
	}
	close(work)
	wg.Wait()
	c.Set("cells_decided", decided)
	if len(undecided) > 0 {
		c.Set("cells_undecided", undecided)
	}
	if decided < len(cells)*9/10 {
		c.Inconclusive(fmt.Sprintf("only %d of %d cells decided: %v", decided, len(cells), undecided))
	}
	env.mu.Lock()
	c.Set("requests_by_stage", env.stageCount)
	c.Set("close_with_replacement_not_ready_outcomes", env.notReady)
	c.Set("fresh_requests_failed_between_fault_and_replacement", env.lateFail)
	for _, need := range []string{"held", "torn", "lost", "unacked", "acked", "result"} {
		if env.stageCount[need] == 0 {
			c.Inconclusive("no request observed at stage " + need)
		}
	}
	env.mu.Unlock()
}
