package main

import (
	"bytes"
	"context"
	"crypto/sha1"
	"encoding/base64"
	"encoding/binary"
	"encoding/hex"
	"encoding/json"
	"errors"
	"fmt"
	"math/rand/v2"
	"strings"
	"sync"
	"time"

	"github.com/cenkalti/backoff/v4"

	"github.com/gotd/td/crypto"
	"github.com/gotd/td/exchange"
	"github.com/gotd/td/mtproto"
	"github.com/gotd/td/session"
	"github.com/gotd/td/telegram"
	"github.com/gotd/td/telegram/dcs"
	"github.com/gotd/td/tg"
	"github.com/gotd/td/tgtest"
	"github.com/gotd/td/tgtest/cluster"
	"github.com/gotd/td/transport"

	"verif/harness/mon"
)

// recStorage is the harness-owned session.Storage: it records every write.
type recStorage struct {
	mu     sync.Mutex
	data   []byte
	writes [][]byte
	loads  int
	calls  int
	// hook, if set, runs INSIDE every LoadSession / StoreSession call, before the call takes
	// effect and without any storage lock held (the storage is a boundary fake: whatever
	// happens elsewhere in the program during a slow storage call can be put here).
	hook func(kind string, idx int)
}

func (s *recStorage) enter(kind string) {
	s.mu.Lock()
	idx, h := s.calls, s.hook
	s.calls++
	s.mu.Unlock()
	if h != nil {
		h(kind, idx)
	}
}

func (s *recStorage) setHook(h func(kind string, idx int)) {
	s.mu.Lock()
	s.hook, s.calls = h, 0
	s.mu.Unlock()
}

func (s *recStorage) LoadSession(context.Context) ([]byte, error) {
	s.enter("load")
	s.mu.Lock()
	defer s.mu.Unlock()
	s.loads++
	if len(s.data) == 0 {
		return nil, session.ErrNotFound
	}
	return append([]byte(nil), s.data...), nil
}

func (s *recStorage) StoreSession(_ context.Context, data []byte) error {
	s.enter("store")
	s.mu.Lock()
	defer s.mu.Unlock()
	s.data = append([]byte(nil), data...)
	s.writes = append(s.writes, s.data)
	return nil
}

func (s *recStorage) snapshot() (n int, last []byte) {
	s.mu.Lock()
	defer s.mu.Unlock()
	return len(s.writes), s.data
}

// stored is the harness's own decoding of the persisted JSON (independent of session.Loader).
type stored struct {
	Version int
	Data    struct {
		DC        int
		Addr      string
		AuthKey   []byte
		AuthKeyID []byte
		Salt      int64
	}
}

func decodeStored(b []byte) (stored, error) {
	var v stored
	err := json.Unmarshal(b, &v)
	return v, err
}

// keyIDOf is the specification: key id = low 64 bits of SHA1(key).
func keyIDOf(key []byte) []byte {
	h := sha1.Sum(key)
	return h[12:20]
}

func randAuthKey(r *rand.Rand) crypto.AuthKey {
	var k crypto.Key
	for i := 0; i < len(k); i += 8 {
		binary.LittleEndian.PutUint64(k[i:], r.Uint64())
	}
	return k.WithID()
}

// dialRecorder is the harness-owned dcs.Resolver: it records every dial attempt and never connects.
type dialRecorder struct {
	mu    sync.Mutex
	dials int
	first chan struct{}
}

func newDialRecorder() *dialRecorder { return &dialRecorder{first: make(chan struct{})} }

func (d *dialRecorder) hit(ctx context.Context) (transport.Conn, error) {
	d.mu.Lock()
	d.dials++
	if d.dials == 1 {
		close(d.first)
	}
	d.mu.Unlock()
	<-ctx.Done()
	return nil, ctx.Err()
}

func (d *dialRecorder) Primary(ctx context.Context, _ int, _ dcs.List) (transport.Conn, error) {
	return d.hit(ctx)
}
func (d *dialRecorder) MediaOnly(ctx context.Context, _ int, _ dcs.List) (transport.Conn, error) {
	return d.hit(ctx)
}
func (d *dialRecorder) CDN(ctx context.Context, _ int, _ dcs.List) (transport.Conn, error) {
	return d.hit(ctx)
}
func (d *dialRecorder) count() int {
	d.mu.Lock()
	defer d.mu.Unlock()
	return d.dials
}

var c30Keys []exchange.PublicKey // any non-empty list: avoids parsing the vendored keys for every client

type note struct {
	Kind string `json:"kind"` // primary | other | cdn | migrate | restore
	DC   int    `json:"dc"`
	Key  string `json:"key_id,omitempty"`
	Perm string `json:"perm_key_id,omitempty"`
	Salt int64  `json:"salt,omitempty"`
}

type wantStored struct {
	dc   int
	key  crypto.AuthKey
	salt int64
	temp crypto.AuthKey // the temporary key of the same notification (zero without PFS)
}

func checkStored(c *mon.Ctx, arm string, last []byte, want *wantStored, hist []note) bool {
	w := map[string]any{"history": hist, "stored": string(last)}
	if want == nil {
		if len(last) != 0 {
			c.Violate(arm+"|storage-written-without-primary-notification", w)
			return false
		}
		return true
	}
	v, err := decodeStored(last)
	if err != nil {
		w["decode_error"] = err.Error()
		c.Violate(arm+"|stored-session-undecodable", w)
		return false
	}
	w["want_dc"], w["want_key_id"], w["want_salt"] = want.dc, hex.EncodeToString(want.key.ID[:]), want.salt
	switch {
	case !want.temp.Zero() && bytes.Equal(v.Data.AuthKey, want.temp.Value[:]):
		c.Violate(arm+"|pfs-temporary-key-stored", w)
	case v.Data.DC != want.dc:
		c.Violate(arm+"|stored-dc-is-not-the-notifying-primary-dc", w)
	case !bytes.Equal(v.Data.AuthKey, want.key.Value[:]):
		c.Violate(arm+"|stored-key-is-not-the-notified-key", w)
	case !bytes.Equal(v.Data.AuthKeyID, want.key.ID[:]) || !bytes.Equal(keyIDOf(v.Data.AuthKey), v.Data.AuthKeyID):
		c.Violate(arm+"|stored-key-id-does-not-match-key", w)
	case v.Data.Salt != want.salt:
		c.Violate(arm+"|stored-salt-is-not-the-notified-salt", w)
	default:
		return true
	}
	return false
}

func newOfflineClient(dc int, st session.Storage, pfs bool, res dcs.Resolver) *telegram.Client {
	return telegram.NewClient(1, "hash", telegram.Options{
		DC: dc, SessionStorage: st, NoUpdates: true, Resolver: res, PublicKeys: c30Keys, EnablePFS: pfs,
		ReconnectionBackoff: func() backoff.BackOff { return backoff.NewConstantBackOff(time.Millisecond) },
	})
}

// c30Direct: sequential histories of session notifications against the reference model
// "the last notification of the primary DC wins; everything else leaves the storage untouched".
func c30Direct(c *mon.Ctx) {
	n := c.N(5000, 200000)
	ctx := context.Background()
	for h := 0; h < n; h++ {
		r := c.RandN("c30-direct", h)
		pfs := r.IntN(2) == 0
		primary := 1 + r.IntN(5)
		st := &recStorage{}
		var hist []note
		var want *wantStored
		wantWrites := 0
		restored := r.IntN(3) == 0
		if restored {
			// Start from a persisted session of some DC (possibly not the DC of the options).
			k := randAuthKey(r)
			d := session.Data{DC: 1 + r.IntN(5), AuthKey: k.Value[:], AuthKeyID: k.ID[:], Salt: r.Int64(), Addr: "10.0.0.1:443"}
			l := session.Loader{Storage: st}
			if err := l.Save(ctx, &d); err != nil {
				c.Inconclusive("cannot seed storage: " + err.Error())
				return
			}
			want = &wantStored{dc: d.DC, key: k, salt: d.Salt}
			wantWrites = 1
			primary = d.DC
			hist = append(hist, note{Kind: "restore", DC: d.DC, Key: hex.EncodeToString(k.ID[:]), Salt: d.Salt})
		}
		cl := newOfflineClient(map[bool]int{true: 1 + r.IntN(5), false: primary}[restored], st, pfs, newDialRecorder())
		cl.VerifInit(ctx)
		if restored {
			if err := cl.VerifRestoreConnection(ctx); err != nil {
				c.Violate("direct|valid-session-refused", map[string]any{"history": hist, "err": err.Error()})
				continue
			}
		}
		if got := cl.VerifPrimarySession().DC; got != primary {
			c.Violate("direct|primary-dc-after-restore", map[string]any{"history": hist, "got": got, "want": primary})
			continue
		}
		steps := 3 + r.IntN(28)
		prev := "start"
		ok := true
		for s := 0; s < steps && ok; s++ {
			key := randAuthKey(r)
			sess := mtproto.Session{ID: r.Int64(), Key: key, Salt: r.Int64()}
			if pfs && r.IntN(8) != 0 {
				sess.PermKey = randAuthKey(r)
			}
			eff := sess.Key
			if !sess.PermKey.Zero() {
				eff = sess.PermKey
			}
			nt := note{Key: hex.EncodeToString(sess.Key.ID[:]), Salt: sess.Salt}
			if !sess.PermKey.Zero() {
				nt.Perm = hex.EncodeToString(sess.PermKey.ID[:])
			}
			var err error
			switch p := r.IntN(100); {
			case p < 40:
				nt.Kind, nt.DC = "primary", primary
				err = cl.VerifOnSession(tg.Config{ThisDC: primary}, sess)
				want = &wantStored{dc: primary, key: eff, salt: sess.Salt}
				if !sess.PermKey.Zero() {
					want.temp = sess.Key
				}
				wantWrites++
			case p < 68:
				d := 1 + r.IntN(5)
				for d == primary {
					d = 1 + r.IntN(5)
				}
				nt.Kind, nt.DC = "other", d
				err = cl.VerifOnSession(tg.Config{ThisDC: d}, sess)
			case p < 88:
				// CDN DC ids are arbitrary; hostile case: equal to the primary DC id.
				d := []int{primary, 1 + r.IntN(5), 201 + r.IntN(4)}[r.IntN(3)]
				nt.Kind, nt.DC = "cdn", d
				sess.PermKey = crypto.AuthKey{} // CDN connections never use PFS
				nt.Perm = ""
				err = cl.VerifOnCDNSession(tg.Config{ThisDC: d}, sess)
			default:
				d := 1 + r.IntN(5)
				nt = note{Kind: "migrate", DC: d}
				cl.VerifMigrate(d)
				primary = d
			}
			hist = append(hist, nt)
			c.Eval(1)
			if err != nil {
				c.Violate("direct|notification-handler-error|"+nt.Kind, map[string]any{"history": hist, "err": err.Error()})
				ok = false
				break
			}
			writes, last := st.snapshot()
			if writes != wantWrites {
				sig := "direct|" + nt.Kind + "-notification-wrote-storage"
				if writes < wantWrites {
					sig = "direct|primary-notification-not-stored"
				}
				c.Violate(sig, map[string]any{"history": hist, "writes": writes, "want_writes": wantWrites, "stored": string(last)})
				ok = false
				break
			}
			if !checkStored(c, "direct", last, want, hist) {
				ok = false
				break
			}
			if got := cl.VerifPrimarySession().DC; got != primary {
				c.Violate("direct|in-memory-primary-dc-changed-by-"+nt.Kind, map[string]any{"history": hist, "got": got, "want": primary})
				ok = false
				break
			}
			c.Distinct(fmt.Sprintf("direct/%s>%s/pfs=%v/perm=%v/restored=%v/stored=%v", prev, nt.Kind, pfs, nt.Perm != "", restored, want != nil))
			prev = nt.Kind
		}
		if h < 2 {
			c.Sample("direct-history", map[string]any{"pfs": pfs, "history": hist})
		}
	}
	c.Set("direct_histories", n)
}

// c30Concurrent: one goroutine delivers primary notifications in order, others deliver
// non-primary and CDN notifications at the same time: the storage write log must be exactly
// the primary sequence. The race detector watches the client's state.
func c30Concurrent(c *mon.Ctx) {
	n := c.N(150, 5000)
	ctx := context.Background()
	for h := 0; h < n; h++ {
		r := c.RandN("c30-conc", h)
		pfs := r.IntN(2) == 0
		primary := 1 + r.IntN(5)
		st := &recStorage{}
		cl := newOfflineClient(primary, st, pfs, newDialRecorder())
		cl.VerifInit(ctx)
		mk := func(r *rand.Rand) mtproto.Session {
			s := mtproto.Session{ID: r.Int64(), Key: randAuthKey(r), Salt: r.Int64()}
			if pfs {
				s.PermKey = randAuthKey(r)
			}
			return s
		}
		const np = 12
		prim := make([]mtproto.Session, np)
		for i := range prim {
			prim[i] = mk(r)
		}
		var wg sync.WaitGroup
		var errMu sync.Mutex
		var errs []string
		fail := func(err error) {
			if err != nil {
				errMu.Lock()
				errs = append(errs, err.Error())
				errMu.Unlock()
			}
		}
		wg.Add(1)
		go func() {
			defer wg.Done()
			for _, s := range prim {
				fail(cl.VerifOnSession(tg.Config{ThisDC: primary}, s))
			}
		}()
		for g := 0; g < 2; g++ {
			rg := c.RandN("c30-conc-g", h*2+g)
			others := make([]mtproto.Session, np)
			for i := range others {
				others[i] = mk(rg)
			}
			d := 1 + (primary+g)%5
			cdn := g == 1
			wg.Add(1)
			go func() {
				defer wg.Done()
				for _, s := range others {
					if cdn {
						s.PermKey = crypto.AuthKey{}
						fail(cl.VerifOnCDNSession(tg.Config{ThisDC: primary}, s))
					} else {
						fail(cl.VerifOnSession(tg.Config{ThisDC: d}, s))
					}
				}
			}()
		}
		wg.Wait()
		c.Eval(3 * np)
		st.mu.Lock()
		writes := st.writes
		st.mu.Unlock()
		w := map[string]any{"history": h, "primary": primary, "pfs": pfs, "errors": errs, "writes": len(writes)}
		if len(errs) > 0 {
			c.Violate("concurrent|notification-handler-error", w)
			continue
		}
		if len(writes) != np {
			c.Violate("concurrent|write-count-differs-from-primary-notifications", w)
			continue
		}
		for i, b := range writes {
			want := &wantStored{dc: primary, key: prim[i].Key, salt: prim[i].Salt}
			if pfs {
				want.key, want.temp = prim[i].PermKey, prim[i].Key
			}
			if !checkStored(c, "concurrent", b, want, []note{{Kind: "primary", DC: primary, Salt: prim[i].Salt}}) {
				break
			}
		}
		c.Distinct(fmt.Sprintf("concurrent/pfs=%v/primary=%d", pfs, primary))
	}
	c.Set("concurrent_histories", n)
}

// ---- scheduled arm: things that happen while a storage call is in progress ----

type schedAction struct {
	Kind string `json:"action"` // migrate | conn-dead | other | cdn | primary
	At   int    `json:"at_storage_call"`
	Go   bool   `json:"from_second_goroutine"`
}

type schedNote struct {
	note
	AsPrimary bool   `json:"delivered_as_primary"`
	Inside    string `json:"inside_storage_call,omitempty"`
	eff, temp crypto.AuthKey
	matched   bool
}

// primaryConnDeader is the optional hook H7b (VerifPrimaryConnDead).
type primaryConnDeader interface{ VerifPrimaryConnDead(err error) }

// c30RunScheduled delivers the main sequence P O P C P (P = notification of the current primary DC,
// O = other DC, C = CDN handler) and executes the scheduled actions inside the storage calls these
// make. Oracle (literal statement): the storage writes are exactly the triples of the notifications
// that were delivered for the primary DC, one write each; nothing else is ever persisted.
func c30RunScheduled(c *mon.Ctx, r *rand.Rand, pfs, restored bool, acts []schedAction, label string) (hookMissing bool) {
	ctx := context.Background()
	st := &recStorage{}
	primary := 1 + r.IntN(5)
	var seed *schedNote
	if restored {
		k := randAuthKey(r)
		d := session.Data{DC: 1 + r.IntN(5), AuthKey: k.Value[:], AuthKeyID: k.ID[:], Salt: r.Int64()}
		l := session.Loader{Storage: st}
		if err := l.Save(ctx, &d); err != nil {
			c.Inconclusive("cannot seed storage: " + err.Error())
			return
		}
		primary = d.DC
		seed = &schedNote{note: note{Kind: "restore", DC: d.DC, Key: hex.EncodeToString(k.ID[:]), Salt: d.Salt}}
	}
	cl := newOfflineClient(primary, st, pfs, newDialRecorder())
	cl.VerifInit(ctx)
	if restored {
		if err := cl.VerifRestoreConnection(ctx); err != nil {
			c.Violate("scheduled|valid-session-refused", map[string]any{"err": err.Error()})
			return
		}
	}
	// All of the following runs either on this goroutine or on a goroutine this one waits for.
	var (
		notes   []*schedNote
		errs    []string
		inside  string
		fired   = map[int]bool{}
		deliver func(kind string)
	)
	if seed != nil {
		notes = append(notes, seed)
	}
	deliver = func(kind string) {
		sess := mtproto.Session{ID: r.Int64(), Key: randAuthKey(r), Salt: r.Int64()}
		if pfs && kind != "cdn" {
			sess.PermKey = randAuthKey(r)
		}
		n := &schedNote{Inside: inside, eff: sess.Key}
		n.Key, n.Salt = hex.EncodeToString(sess.Key.ID[:]), sess.Salt
		if !sess.PermKey.Zero() {
			n.eff, n.temp, n.Perm = sess.PermKey, sess.Key, hex.EncodeToString(sess.PermKey.ID[:])
		}
		var err error
		switch kind {
		case "primary":
			n.Kind, n.DC, n.AsPrimary = "primary", primary, true
			notes = append(notes, n)
			err = cl.VerifOnSession(tg.Config{ThisDC: primary}, sess)
		case "other":
			d := 1 + r.IntN(5)
			for d == primary {
				d = 1 + r.IntN(5)
			}
			n.Kind, n.DC = "other", d
			notes = append(notes, n)
			err = cl.VerifOnSession(tg.Config{ThisDC: d}, sess)
		case "cdn":
			n.Kind, n.DC = "cdn", []int{primary, 203}[r.IntN(2)]
			notes = append(notes, n)
			err = cl.VerifOnCDNSession(tg.Config{ThisDC: n.DC}, sess)
		case "migrate":
			d := 1 + r.IntN(5)
			for d == primary {
				d = 1 + r.IntN(5)
			}
			notes = append(notes, &schedNote{note: note{Kind: "migrate", DC: d}, Inside: inside})
			cl.VerifMigrate(d)
			primary = d
		case "conn-dead":
			h, ok := any(cl).(primaryConnDeader)
			if !ok {
				hookMissing = true
				return
			}
			notes = append(notes, &schedNote{note: note{Kind: "conn-dead", DC: primary}, Inside: inside})
			h.VerifPrimaryConnDead(fmt.Errorf("primary: %w", mtproto.ErrPFSDropKeysRequired))
		}
		if err != nil {
			errs = append(errs, kind+": "+err.Error())
		}
	}
	st.setHook(func(kind string, idx int) {
		for i, a := range acts {
			if a.At != idx || fired[i] {
				continue
			}
			fired[i] = true
			prev := inside
			inside = fmt.Sprintf("%s#%d", kind, idx)
			if a.Go {
				done := make(chan struct{})
				go func() { defer close(done); deliver(a.Kind) }()
				<-done
			} else {
				deliver(a.Kind)
			}
			inside = prev
		}
	})
	for _, k := range []string{"primary", "other", "primary", "cdn", "primary"} {
		deliver(k)
	}
	st.setHook(nil)
	c.Eval(len(notes))

	st.mu.Lock()
	writes := append([][]byte(nil), st.writes...)
	st.mu.Unlock()
	if restored {
		writes = writes[1:] // the harness's own seed
	}
	w := map[string]any{"pfs": pfs, "restored": restored, "schedule": acts, "history": notes}
	if len(errs) > 0 {
		w["errors"] = errs
		c.Violate("scheduled|notification-handler-error", w)
		return
	}
	nfired := 0
	for i := range acts {
		if fired[i] {
			nfired++
		}
	}
	for i, b := range writes {
		v, err := decodeStored(b)
		w["write"], w["stored"] = i, string(b)
		if err != nil {
			c.Violate("scheduled|stored-session-undecodable", w)
			return
		}
		ok := false
		why := "matches-no-notification"
		allZero := len(bytes.Trim(v.Data.AuthKey, "\x00")) == 0
		for _, n := range notes {
			same := n.DC == v.Data.DC && bytes.Equal(v.Data.AuthKey, n.eff.Value[:]) && bytes.Equal(v.Data.AuthKeyID, n.eff.ID[:]) && v.Data.Salt == n.Salt
			switch {
			case same && n.AsPrimary && !n.matched:
				n.matched, ok = true, true
			case same && n.AsPrimary:
				// Stored once more: still a triple that DC confirmed; the statement does not forbid it.
				ok = true
			case same:
				why = n.Kind + "-notification-stored"
			case !n.temp.Zero() && bytes.Equal(v.Data.AuthKey, n.temp.Value[:]):
				why = "pfs-temporary-key"
			}
			if ok {
				break
			}
		}
		if !ok {
			if allZero {
				why = "zero-key"
			}
			// The persisted (DC, key, key id, salt) is not the triple any connection to that DC was confirmed with.
			c.Violate("scheduled|stored-triple-not-from-a-primary-notification-of-that-dc|"+why, w)
			return
		}
	}
	delete(w, "write")
	delete(w, "stored")
	nestedPrimary := false
	for i, a := range acts {
		nestedPrimary = nestedPrimary || (fired[i] && a.Kind == "primary")
	}
	for _, n := range notes {
		// With two primary notifications overlapping, which one ends up stored is not demanded.
		if n.AsPrimary && !n.matched && !nestedPrimary {
			c.Violate("scheduled|primary-notification-not-stored", w)
			return
		}
	}
	for i, a := range acts {
		if fired[i] && !(a.Kind == "conn-dead" && hookMissing) {
			c.Distinct(fmt.Sprintf("scheduled/%s/%s@%d/go=%v/pfs=%v/restored=%v", label, a.Kind, a.At, a.Go, pfs, restored))
		}
	}
	if nfired > 0 && label == "grid" && acts[0].At == 0 && !acts[0].Go && !restored {
		c.Sample("scheduled-"+acts[0].Kind, w)
	}
	return
}

func c30Scheduled(c *mon.Ctx) {
	kinds := []string{"migrate", "conn-dead", "other", "cdn", "primary"}
	grid, hookMissing := 0, false
	// Systematic: one action x every storage call of the main sequence (3 primary notifications = load,store x3)
	// x inline / second goroutine x PFS x restored.
	for _, k := range kinds {
		for at := 0; at < 6; at++ {
			for _, viaGo := range []bool{false, true} {
				for _, pfs := range []bool{false, true} {
					for _, restored := range []bool{false, true} {
						r := c.RandN("c30-sched-grid", grid)
						grid++
						if c30RunScheduled(c, r, pfs, restored, []schedAction{{Kind: k, At: at, Go: viaGo}}, "grid") {
							hookMissing = true
						}
					}
				}
			}
		}
	}
	// Random schedules: several actions, also nested inside each other's storage calls.
	n := c.N(1500, 60000)
	for h := 0; h < n; h++ {
		r := c.RandN("c30-sched-rand", h)
		var acts []schedAction
		for i, m := 0, 1+r.IntN(4); i < m; i++ {
			acts = append(acts, schedAction{Kind: kinds[r.IntN(len(kinds))], At: r.IntN(10), Go: r.IntN(2) == 0})
		}
		if c30RunScheduled(c, r, r.IntN(2) == 0, r.IntN(3) == 0, acts, "random") {
			hookMissing = true
		}
	}
	c.Set("scheduled_histories", grid+n)
	if hookMissing {
		c.Set("scheduled_conn_dead_action", "skipped: hook H7b (VerifPrimaryConnDead) not present in this tree")
	}
}

type loadCase struct {
	Class string `json:"class"`
	Pos   int    `json:"pos"`
	Val   int    `json:"val"`
	blob  []byte
}

// runLoad starts a real Client.Run on the blob; it reports Run's error, whether the callback ran and the dials seen.
func runLoad(blob []byte) (err error, ready bool, dials int, returned bool) {
	st := &recStorage{data: blob}
	res := newDialRecorder()
	cl := newOfflineClient(2, st, false, res)
	ctx, cancel := context.WithCancel(context.Background())
	defer cancel()
	done := make(chan struct{})
	go func() {
		defer close(done)
		err = cl.Run(ctx, func(context.Context) error { ready = true; return nil })
	}()
	t := time.NewTimer(60 * time.Second)
	defer t.Stop()
	select {
	case <-done:
		return err, ready, res.count(), true
	case <-res.first:
		// The client went to the network. Stop it.
		cancel()
		select {
		case <-done:
			return err, ready, res.count(), true
		case <-time.After(60 * time.Second):
			return nil, false, res.count(), false
		}
	case <-t.C:
		return nil, false, res.count(), false
	}
}

// c30Load: corruptions of the persisted key / key id must make Run fail before any dial.
func c30Load(c *mon.Ctx) {
	r := c.Rand("c30-load")
	ctx := context.Background()
	mkBlob := func(d session.Data) []byte {
		st := &recStorage{}
		l := session.Loader{Storage: st}
		if err := l.Save(ctx, &d); err != nil {
			panic(err)
		}
		return st.data
	}
	keyA, keyB := randAuthKey(r), randAuthKey(r)
	for keyA.Value[255] == 0 || keyA.Value[0] == 0 {
		keyA = randAuthKey(r)
	}
	base := session.Data{DC: 2, Addr: "127.0.0.1:1", AuthKey: keyA.Value[:], AuthKeyID: keyA.ID[:], Salt: 77}
	baseBlob := mkBlob(base)

	// Controls: valid sessions must reach the dialer (otherwise "no dial" proves nothing).
	controls := 0
	for _, k := range []crypto.AuthKey{keyA, keyB} {
		d := base
		d.AuthKey, d.AuthKeyID = k.Value[:], k.ID[:]
		err, _, dials, returned := runLoad(mkBlob(d))
		if !returned {
			c.Inconclusive("control Run did not return")
			return
		}
		if dials == 0 {
			c.Violate("load|valid-session-not-used", map[string]any{"err": fmt.Sprint(err)})
			continue
		}
		controls++
	}
	c.Set("load_controls_dialed", controls)
	if controls == 0 {
		c.Inconclusive("no control session reached the dialer")
		return
	}

	var cases []loadCase
	mutData := func(class string, pos, val int, f func(d *session.Data)) {
		d := base
		d.AuthKey = append([]byte(nil), base.AuthKey...)
		d.AuthKeyID = append([]byte(nil), base.AuthKeyID...)
		f(&d)
		cases = append(cases, loadCase{Class: class, Pos: pos, Val: val, blob: mkBlob(d)})
	}
	// Every byte of the key id, every value (thorough) / 24 values (quick).
	for pos := 0; pos < 8; pos++ {
		for _, x := range xorValues(r, c.N(24, 255)) {
			pos, x := pos, x
			mutData("id-byte", pos, x, func(d *session.Data) { d.AuthKeyID[pos] ^= byte(x) })
		}
	}
	// Every byte of the key; 3 values quick, all 255 thorough.
	for pos := 0; pos < 256; pos++ {
		for _, x := range xorValues(r, c.N(3, 255)) {
			pos, x := pos, x
			mutData("key-byte", pos, x, func(d *session.Data) { d.AuthKey[pos] ^= byte(x) })
		}
	}
	// Multi-byte corruptions, truncations, swaps.
	for i := 0; i < c.N(100, 5000); i++ {
		mutData("key-multi", i, 0, func(d *session.Data) {
			for j := 2 + r.IntN(6); j > 0; j-- {
				d.AuthKey[r.IntN(256)] ^= byte(1 + r.IntN(255))
			}
		})
	}
	for l := 0; l < 256; l += c.N(8, 1) {
		l := l
		mutData("key-truncated", l, 0, func(d *session.Data) { d.AuthKey = d.AuthKey[:l] })
	}
	for l := 0; l < 8; l++ {
		l := l
		mutData("id-truncated", l, 0, func(d *session.Data) { d.AuthKeyID = d.AuthKeyID[:l] })
	}
	mutData("swap-id-of-other-session", 0, 0, func(d *session.Data) { d.AuthKeyID = keyB.ID[:] })
	mutData("swap-key-of-other-session", 0, 0, func(d *session.Data) { d.AuthKey = keyB.Value[:] })
	mutData("key-zeroed", 0, 0, func(d *session.Data) { d.AuthKey = make([]byte, 256) })
	mutData("id-zeroed", 0, 0, func(d *session.Data) { d.AuthKeyID = make([]byte, 8) })
	mutData("key-and-id-reversed", 0, 0, func(d *session.Data) {
		for i, j := 0, 255; i < j; i, j = i+1, j-1 {
			d.AuthKey[i], d.AuthKey[j] = d.AuthKey[j], d.AuthKey[i]
		}
	})
	// Corruptions of the stored text itself: every character of the two base64 strings.
	keyText := base64.StdEncoding.EncodeToString(base.AuthKey)
	idText := base64.StdEncoding.EncodeToString(base.AuthKeyID)
	const alphabet = "ABCDEFGHIJKLMNOPQRSTUVWXYZabcdefghijklmnopqrstuvwxyz0123456789+/=!"
	for _, f := range []struct{ class, text string }{{"key-text", keyText}, {"id-text", idText}} {
		off := bytes.Index(baseBlob, []byte(f.text))
		if off < 0 {
			c.Inconclusive("stored JSON does not contain the base64 " + f.class)
			return
		}
		for pos := 0; pos < len(f.text); pos++ {
			per := c.N(2, len(alphabet))
			for j := 0; j < per; j++ {
				ch := alphabet[(r.IntN(len(alphabet)))]
				if !c.Quick() {
					ch = alphabet[j]
				}
				if ch == f.text[pos] {
					continue
				}
				b := append([]byte(nil), baseBlob...)
				b[off+pos] = ch
				cases = append(cases, loadCase{Class: f.class, Pos: pos, Val: int(ch), blob: b})
			}
		}
	}

	// Execute, 16 wide.
	type res struct {
		lc       loadCase
		err      error
		ready    bool
		dials    int
		returned bool
	}
	out := make([]res, len(cases))
	var wg sync.WaitGroup
	idx := make(chan int)
	for w := 0; w < 16; w++ {
		wg.Add(1)
		go func() {
			defer wg.Done()
			for i := range idx {
				e, rd, d, ret := runLoad(cases[i].blob)
				out[i] = res{cases[i], e, rd, d, ret}
			}
		}()
	}
	for i := range cases {
		idx <- i
	}
	close(idx)
	wg.Wait()

	nontrivial := 0
	for _, o := range out {
		c.Eval(1)
		// Oracle: decode independently; the session is consistent iff the (zero-extended) key hashes to the id.
		consistent := false
		if v, err := decodeStored(o.lc.blob); err == nil && v.Version == 1 {
			var k [256]byte
			var id [8]byte
			copy(k[:], v.Data.AuthKey)
			copy(id[:], v.Data.AuthKeyID)
			consistent = bytes.Equal(keyIDOf(k[:]), id[:])
		}
		w := map[string]any{"case": o.lc, "blob": string(o.lc.blob), "run_error": fmt.Sprint(o.err), "dials": o.dials, "callback_ran": o.ready}
		if !o.returned {
			c.Inconclusive(fmt.Sprintf("Run did not return for %s/%d", o.lc.Class, o.lc.Pos))
			continue
		}
		if consistent {
			// The corruption did not change the decoded key/id (e.g. unused base64 bits): nothing to demand.
			c.Add("load_corruptions_without_effect", 1)
			continue
		}
		nontrivial++
		bucket := o.lc.Pos / 32
		switch {
		case o.dials > 0 || o.ready:
			c.Violate("load|corrupted-session-used|"+o.lc.Class, w)
		case o.err == nil:
			c.Violate("load|corrupted-session-no-error|"+o.lc.Class, w)
		default:
			cls := "other"
			switch {
			case strings.Contains(o.err.Error(), "corrupted key"):
				cls = "corrupted-key"
			case strings.Contains(o.err.Error(), "unmarshal"):
				cls = "unmarshal"
			}
			c.Distinct(fmt.Sprintf("load/%s/%d/refused:%s", o.lc.Class, bucket, cls))
		}
		if nontrivial <= 2 {
			c.Sample("load-corruption", map[string]any{"case": o.lc, "run_error": fmt.Sprint(o.err), "dials": o.dials})
		}
	}
	c.Set("load_corruptions", len(cases))
	c.Set("load_corruptions_effective", nontrivial)
	if nontrivial == 0 {
		c.Inconclusive("no effective corruption generated")
	}
}

func xorValues(r *rand.Rand, n int) []int {
	if n >= 255 {
		out := make([]int, 255)
		for i := range out {
			out[i] = i + 1
		}
		return out
	}
	seen := map[int]bool{}
	var out []int
	for _, x := range []int{0x01, 0x80, 0xff} {
		if len(out) < n {
			seen[x] = true
			out = append(out, x)
		}
	}
	for len(out) < n {
		x := 1 + r.IntN(255)
		if !seen[x] {
			seen[x] = true
			out = append(out, x)
		}
	}
	return out
}

// c30E2E: a real client against a 3-DC tgtest cluster: primary connection, a sub-DC pool
// and a primary migration; with and without PFS. Every storage write must carry a key the
// server of that very DC has used (and, under PFS, the permanent key named in bindTempAuthKey,
// never a key that encrypted traffic).
func c30E2E(c *mon.Ctx) {
	runs := c.N(2, 12)
	bg, cancel := context.WithCancel(context.Background())
	defer cancel()
	cl := cluster.NewCluster(cluster.Options{Protocol: transport.Intermediate})
	type seen struct {
		mu      sync.Mutex
		traffic map[int]map[[8]byte]bool // dc -> key ids that decrypted requests
		perm    map[int]map[int64]bool   // dc -> perm_auth_key_id bound on that DC
	}
	sv := &seen{traffic: map[int]map[[8]byte]bool{}, perm: map[int]map[int64]bool{}}
	for _, dc := range []int{1, 2, 3} {
		dc := dc
		sv.traffic[dc], sv.perm[dc] = map[[8]byte]bool{}, map[int64]bool{}
		d := cl.Dispatch(dc, fmt.Sprintf("dc%d", dc))
		d.HandleFunc(tg.HelpGetConfigRequestTypeID, func(srv *tgtest.Server, req *tgtest.Request) error {
			sv.mu.Lock()
			sv.traffic[dc][req.Session.AuthKey.ID] = true
			sv.mu.Unlock()
			return cl.Common().OnMessage(srv, req)
		})
		d.HandleFunc(tg.AuthBindTempAuthKeyRequestTypeID, func(srv *tgtest.Server, req *tgtest.Request) error {
			var b tg.AuthBindTempAuthKeyRequest
			if err := b.Decode(req.Buf); err != nil {
				return err
			}
			sv.mu.Lock()
			sv.perm[dc][b.PermAuthKeyID] = true
			sv.traffic[dc][req.Session.AuthKey.ID] = true
			sv.mu.Unlock()
			return srv.SendBool(req, true)
		})
	}
	cl.Common().HandleFunc(tg.AuthExportAuthorizationRequestTypeID, func(srv *tgtest.Server, req *tgtest.Request) error {
		return srv.SendResult(req, &tg.AuthExportedAuthorization{ID: 10, Bytes: []byte{1, 2, 3}})
	})
	cl.Common().HandleFunc(tg.AuthImportAuthorizationRequestTypeID, func(srv *tgtest.Server, req *tgtest.Request) error {
		return srv.SendResult(req, &tg.AuthAuthorization{User: &tg.User{ID: 10}})
	})
	upDone := make(chan error, 1)
	go func() { upDone <- cl.Up(bg) }()
	select {
	case <-cl.Ready():
	case err := <-upDone:
		c.Set("e2e", "cluster did not start: "+fmt.Sprint(err))
		return
	case <-time.After(3 * time.Minute):
		c.Set("e2e", "cluster did not start")
		return
	}
	done := 0
	var notes []string
	for run := 0; run < runs; run++ {
		pfs := run%2 == 1
		st := &recStorage{}
		client := telegram.NewClient(1, "hash", telegram.Options{
			PublicKeys: cl.Keys(), DC: 2, DCList: cl.List(), Resolver: cl.Resolver(), SessionStorage: st,
			NoUpdates: true, EnablePFS: pfs, MigrationTimeout: 2 * time.Minute,
			ReconnectionBackoff: func() backoff.BackOff { return backoff.NewConstantBackOff(time.Millisecond) },
		})
		ctx, cancelRun := context.WithTimeout(bg, 4*time.Minute)
		var steps []string
		err := client.Run(ctx, func(ctx context.Context) error {
			steps = append(steps, "ready")
			sub, err := client.DC(ctx, 1, 1)
			if err != nil {
				return fmt.Errorf("sub-DC pool: %w", err)
			}
			if _, err := tg.NewClient(sub).HelpGetConfig(ctx); err != nil {
				return fmt.Errorf("sub-DC request: %w", err)
			}
			steps = append(steps, "sub-dc-1")
			if err := client.MigrateTo(ctx, 3); err != nil {
				return fmt.Errorf("migrate: %w", err)
			}
			if _, err := client.API().HelpGetConfig(ctx); err != nil {
				return fmt.Errorf("request after migrate: %w", err)
			}
			steps = append(steps, "migrated-3")
			if _, err := tg.NewClient(sub).HelpGetConfig(ctx); err != nil {
				return fmt.Errorf("sub-DC request 2: %w", err)
			}
			return nil
		})
		cancelRun()
		if err != nil && !errors.Is(err, context.Canceled) {
			notes = append(notes, fmt.Sprintf("run %d pfs=%v: %v (steps %v)", run, pfs, err, steps))
		}
		st.mu.Lock()
		writes := append([][]byte(nil), st.writes...)
		st.mu.Unlock()
		if len(writes) == 0 {
			continue
		}
		done++
		dcsSeen := map[int]bool{}
		for i, b := range writes {
			c.Eval(1)
			v, derr := decodeStored(b)
			w := map[string]any{"run": run, "pfs": pfs, "write": i, "stored": string(b), "steps": steps}
			if derr != nil {
				c.Violate("e2e|stored-session-undecodable", w)
				continue
			}
			var id [8]byte
			copy(id[:], v.Data.AuthKeyID)
			sv.mu.Lock()
			traffic := sv.traffic[v.Data.DC][id]
			perm := sv.perm[v.Data.DC][int64(binary.LittleEndian.Uint64(id[:]))]
			sv.mu.Unlock()
			dcsSeen[v.Data.DC] = true
			switch {
			case !bytes.Equal(keyIDOf(v.Data.AuthKey), v.Data.AuthKeyID):
				c.Violate("e2e|stored-key-id-does-not-match-key", w)
			case v.Data.DC == 1:
				c.Violate("e2e|sub-dc-session-persisted", w)
			case pfs && traffic:
				c.Violate("e2e|pfs-traffic-key-persisted", w)
			case pfs && !perm:
				c.Violate("e2e|pfs-stored-key-was-not-bound-on-that-dc", w)
			case !pfs && !traffic:
				c.Violate("e2e|stored-key-unknown-to-the-server-of-that-dc", w)
			}
			c.Distinct(fmt.Sprintf("e2e/pfs=%v/dc=%d/write=%d", pfs, v.Data.DC, min(i, 3)))
		}
		if run < 2 {
			c.Sample("e2e-run", map[string]any{"pfs": pfs, "steps": steps, "writes": len(writes), "dcs": fmt.Sprint(dcsSeen)})
		}
	}
	c.Set("e2e_runs_with_writes", done)
	if len(notes) > 0 {
		c.Set("e2e_notes", notes)
	}
}

func runC30(c *mon.Ctx) {
	c.Rule("direct arm: random sequential histories (3..30 events) of session notifications delivered through the client's own connection handlers (hook H7): primary DC, other DCs, CDN handler " +
		"(also with the primary's DC id), with/without PFS permanent key, primary migrations, optionally starting from a restored session; after every event the recording storage must equal the model " +
		"'last primary notification wins (permanent key under PFS), anything else writes nothing'. concurrent arm: primary sequence racing non-primary and CDN notifications. " +
		"load arm: every byte of the stored key id and key XOR-corrupted (all 255 values thorough), multi-byte, truncations, swaps between sessions and every character of the base64 texts; " +
		"an independently decoded inconsistent (key,id) must make Client.Run return an error with zero dial attempts at the recording resolver; valid controls must dial. " +
		"e2e arm: 3-DC tgtest cluster, sub-DC pool + primary migration, PFS on/off; stored key must be one the server of the stored DC knows. " +
		"distinct = (arm, event transition / corruption class and position bucket / e2e write index, flags, outcome)")
	c.Assume("encoding/json, encoding/base64 and crypto/sha1 are the trusted base of the load-arm oracle; a corruption that decodes to the same (zero-extended) key and id is not counted")
	c.Assume("direct arm enters at manager.Handler.OnSession (telegram.clientHandler / cdnClientHandler); manager.Conn's buffering of notifications until config is covered only by the e2e arm")
	c30Keys = []exchange.PublicKey{{}}
	walls := map[string]float64{}
	for _, arm := range []struct {
		name string
		f    func(*mon.Ctx)
	}{{"direct", c30Direct}, {"scheduled", c30Scheduled}, {"concurrent", c30Concurrent}, {"load", c30Load}, {"e2e", c30E2E}} {
		t0 := time.Now()
		arm.f(c)
		walls[arm.name] = time.Since(t0).Seconds()
	}
	c.Set("arm_wall_s", walls)
}
