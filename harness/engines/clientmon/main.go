// Engine clientmon: monitors for the telegram.Client connection-loss and
// session-persistence properties (C29 C30).
package main

import (
	"verif/harness/mon"
)

func main() {
	mon.Main("clientmon", map[string]mon.PropFunc{
		"C29": runC29,
		"C30": runC30,
	})
}
