package main

import (
	"context"
	"fmt"
	"net"
	"regexp"
	"runtime"
	"strings"
	"sync"
	"time"

	"github.com/gotd/log"
)

// chaosNet is the harness-owned dialer: every connection the client opens is
// wrapped in a chaosConn with a kill switch; dials can be blocked ("network down").
var errNetUnreachable = fmt.Errorf("network is unreachable (harness)")

type chaosNet struct {
	mu      sync.Mutex
	failing bool // dials fail at once
	stall   bool // new connections open but swallow everything after the transport header
	entered int  // dial calls entered
	failed  int  // dial calls failed by the harness
	down    bool
	upCh    chan struct{}
	dials   int
	conns   []*chaosConn
}

func newChaosNet() *chaosNet { return &chaosNet{upCh: make(chan struct{})} }

// Dial implements dcs.DialFunc.
func (n *chaosNet) Dial(ctx context.Context, network, addr string) (net.Conn, error) {
	n.mu.Lock()
	n.entered++
	failing, stall := n.failing, n.stall
	if failing {
		n.failed++
	}
	n.mu.Unlock()
	if failing {
		return nil, &net.OpError{Op: "dial", Net: network, Err: errNetUnreachable}
	}
	for {
		n.mu.Lock()
		down, up := n.down, n.upCh
		n.mu.Unlock()
		if !down {
			break
		}
		select {
		case <-ctx.Done():
			return nil, ctx.Err()
		case <-up:
		}
	}
	// The TCP connection is opened by the first Write (the transport header): a client that gives
	// up between connect and header would otherwise kill tgtest's accept loop (fake-server artefact).
	cc := &chaosConn{network: network, addr: addr}
	cc.cond = sync.NewCond(&cc.mu)
	if stall {
		// The connection opens (transport header gets through), then nothing the client
		// sends arrives: key exchange / initConnection never complete.
		cc.blackholeAfter = 1
	}
	n.mu.Lock()
	n.dials++
	n.conns = append(n.conns, cc)
	n.mu.Unlock()
	return cc, nil
}

func (n *chaosNet) SetFailing(v bool) { n.mu.Lock(); n.failing = v; n.mu.Unlock() }
func (n *chaosNet) SetStall(v bool)   { n.mu.Lock(); n.stall = v; n.mu.Unlock() }

// Stats returns dial calls entered and failed by the harness.
func (n *chaosNet) Stats() (entered, failed int) {
	n.mu.Lock()
	defer n.mu.Unlock()
	return n.entered, n.failed
}

func (n *chaosNet) SetDown(down bool) {
	n.mu.Lock()
	defer n.mu.Unlock()
	if n.down == down {
		return
	}
	n.down = down
	if !down {
		close(n.upCh)
		n.upCh = make(chan struct{})
	}
}

// Current returns the most recently dialed connection (nil if none).
func (n *chaosNet) Current() *chaosConn {
	n.mu.Lock()
	defer n.mu.Unlock()
	if len(n.conns) == 0 {
		return nil
	}
	return n.conns[len(n.conns)-1]
}

func (n *chaosNet) Dials() int {
	n.mu.Lock()
	defer n.mu.Unlock()
	return n.dials
}

// KillAll closes every connection ever dialed (cleanup).
func (n *chaosNet) KillAll() {
	n.mu.Lock()
	conns := append([]*chaosConn(nil), n.conns...)
	n.mu.Unlock()
	for _, c := range conns {
		c.Kill()
	}
}

// chaosConn wraps the client side of a loopback TCP connection.
//
//	Hold(pass): after `pass` more Write calls, Write blocks until Kill/Close
//	            (a write stuck in a dying link); the blocked write then fails
//	            with the error of the closed socket.
//	Blackhole(): Write reports success but the bytes are lost.
//	Kill(): closes the socket (both directions).
type chaosConn struct {
	network, addr  string
	mu             sync.Mutex
	cond           *sync.Cond
	raw            net.Conn // nil until the first Write
	hold           bool
	pass           int
	blackhole      bool
	blackholeAfter int // >0: become a black hole after that many writes
	killed         bool
	blocked        int // writes that ever blocked in hold
	swallowed      int // writes swallowed by the black hole
	writes         int
}

var errChaosClosed = &net.OpError{Op: "write", Net: "tcp", Err: net.ErrClosed}

func (c *chaosConn) Write(p []byte) (int, error) {
	c.mu.Lock()
	c.writes++
	if c.raw == nil && !c.killed {
		d := net.Dialer{Timeout: 20 * time.Second}
		raw, err := d.Dial(c.network, c.addr)
		if err != nil {
			c.killed = true
			c.cond.Broadcast()
			c.mu.Unlock()
			return 0, err
		}
		c.raw = raw
		c.cond.Broadcast()
	}
	if c.hold && !c.killed {
		if c.pass > 0 {
			c.pass--
		} else {
			c.blocked++
			for c.hold && !c.killed {
				c.cond.Wait()
			}
		}
	}
	if c.blackholeAfter > 0 && c.writes > c.blackholeAfter {
		c.blackhole = true
	}
	if c.blackhole && !c.killed {
		c.swallowed++
		c.mu.Unlock()
		return len(p), nil
	}
	raw := c.raw
	c.mu.Unlock()
	if raw == nil {
		return 0, errChaosClosed
	}
	return raw.Write(p)
}

// Read passes through; once the read side reports the connection dead (peer
// closed / reset) writes stuck in the link are released, as a kernel fails or
// completes pending writes of a reset connection.
func (c *chaosConn) Read(p []byte) (int, error) {
	c.mu.Lock()
	for c.raw == nil && !c.killed {
		c.cond.Wait()
	}
	raw := c.raw
	c.mu.Unlock()
	if raw == nil {
		return 0, &net.OpError{Op: "read", Net: "tcp", Err: net.ErrClosed}
	}
	n, err := raw.Read(p)
	if ne, ok := err.(net.Error); err != nil && !(ok && ne.Timeout()) {
		c.mu.Lock()
		c.killed = true
		c.cond.Broadcast()
		c.mu.Unlock()
	}
	return n, err
}

func (c *chaosConn) Hold(pass int) {
	c.mu.Lock()
	c.hold, c.pass = true, pass
	c.mu.Unlock()
}

func (c *chaosConn) Blackhole() {
	c.mu.Lock()
	c.blackhole = true
	c.mu.Unlock()
}

func (c *chaosConn) shut() error {
	// Close first: a write released from the hold must find the socket already dead.
	c.mu.Lock()
	raw := c.raw
	c.mu.Unlock()
	var err error
	if raw != nil {
		err = raw.Close()
	}
	c.mu.Lock()
	c.killed = true
	c.cond.Broadcast()
	// A connect racing with shut: close whatever got opened meanwhile.
	if c.raw != nil && c.raw != raw {
		_ = c.raw.Close()
	}
	c.mu.Unlock()
	return err
}

// Kill is the harness's kill switch: closes the socket (both directions).
func (c *chaosConn) Kill() { _ = c.shut() }

// Close is what the client calls; it also releases held writes.
func (c *chaosConn) Close() error { return c.shut() }

func (c *chaosConn) withRaw(f func(net.Conn) error) error {
	c.mu.Lock()
	raw, killed := c.raw, c.killed
	c.mu.Unlock()
	if raw != nil {
		return f(raw)
	}
	if killed {
		return &net.OpError{Op: "set", Net: "tcp", Err: net.ErrClosed}
	}
	return nil
}

func (c *chaosConn) LocalAddr() net.Addr  { return &net.TCPAddr{IP: net.IPv4(127, 0, 0, 1)} }
func (c *chaosConn) RemoteAddr() net.Addr { return &net.TCPAddr{IP: net.IPv4(127, 0, 0, 1)} }
func (c *chaosConn) SetDeadline(t time.Time) error {
	return c.withRaw(func(r net.Conn) error { return r.SetDeadline(t) })
}
func (c *chaosConn) SetReadDeadline(t time.Time) error {
	return c.withRaw(func(r net.Conn) error { return r.SetReadDeadline(t) })
}
func (c *chaosConn) SetWriteDeadline(t time.Time) error {
	return c.withRaw(func(r net.Conn) error { return r.SetWriteDeadline(t) })
}

func (c *chaosConn) counters() (blocked, swallowed, writes int) {
	c.mu.Lock()
	defer c.mu.Unlock()
	return c.blocked, c.swallowed, c.writes
}

// steer polls pred until it holds or d elapses. Only used to steer executions
// towards interesting interleavings; the outcome never enters a verdict.
func steer(d time.Duration, pred func() bool) bool {
	deadline := time.Now().Add(d)
	for {
		if pred() {
			return true
		}
		if time.Now().After(deadline) {
			return false
		}
		time.Sleep(200 * time.Microsecond)
	}
}

// recLogger is the harness-owned log.Logger given to the client. It is used as
// an observation boundary: the rpc engine reports "Acknowledged, waiting for
// result" (with msg_id) after it consumed the server's acknowledgement.
type recLogger struct {
	mu      sync.Mutex
	acked   map[int64]bool
	waiting int // invokeConn reported waiting for a replacement connection
	ring    []string
}

func newRecLogger() *recLogger { return &recLogger{acked: map[int64]bool{}} }

func (l *recLogger) Enabled(context.Context, log.Level) bool { return true }

const (
	msgAcked   = "Acknowledged, waiting for result"
	msgWaiting = "Primary connection is dead, waiting for new connection to retry"
)

func (l *recLogger) Log(_ context.Context, level log.Level, msg string, attrs ...log.Attr) {
	switch {
	case msg == msgAcked:
		for _, a := range attrs {
			if a.Key == "msg_id" {
				l.mu.Lock()
				l.acked[a.Value.Int64()] = true
				l.mu.Unlock()
			}
		}
	case msg == msgWaiting:
		l.mu.Lock()
		l.waiting++
		l.mu.Unlock()
	}
	if level >= log.LevelInfo || msg == msgWaiting || msg == "Primary connection replaced, retrying request" ||
		msg == "Send failed" || msg == "Connection dead" {
		var sb strings.Builder
		sb.WriteString(msg)
		for _, a := range attrs {
			if a.Key == "error" || a.Key == "msg_id" || a.Key == "reason" {
				fmt.Fprintf(&sb, " %s=%s", a.Key, a.Value.String())
			}
		}
		l.mu.Lock()
		if len(l.ring) < 60 {
			l.ring = append(l.ring, sb.String())
		}
		l.mu.Unlock()
	}
}

func (l *recLogger) Acked(msgID int64) bool {
	l.mu.Lock()
	defer l.mu.Unlock()
	return l.acked[msgID]
}

func (l *recLogger) Waiting() int {
	l.mu.Lock()
	defer l.mu.Unlock()
	return l.waiting
}

func (l *recLogger) Ring() []string {
	l.mu.Lock()
	defer l.mu.Unlock()
	return append([]string(nil), l.ring...)
}

// probeCall is the marker frame of every monitored invocation; its first
// argument identifies the goroutine in a traceback.
//
//go:noinline
func probeCall(uid uint64, f func()) {
	f()
	runtime.KeepAlive(uid)
}

var reGoroutineHdr = regexp.MustCompile(`^goroutine \d+ \[([^\]]*)\]:`)

// goroutineOf finds the goroutine running probeCall(uid) and reports its
// scheduler state ("select", "runnable", ...) and its innermost gotd/td frame.
func goroutineOf(uid uint64) (state, tdFrame, stack string, ok bool) {
	buf := make([]byte, 16<<20)
	buf = buf[:runtime.Stack(buf, true)]
	re := regexp.MustCompile(fmt.Sprintf(`main\.probeCall\(0x%x[,?)]`, uid))
	for _, block := range strings.Split(string(buf), "\n\n") {
		if !re.MatchString(block) {
			continue
		}
		m := reGoroutineHdr.FindStringSubmatch(block)
		if m == nil {
			continue
		}
		state = m[1]
		for _, line := range strings.Split(block, "\n")[1:] {
			if strings.HasPrefix(line, "\t") || strings.HasPrefix(line, "created by") {
				continue
			}
			if strings.HasPrefix(line, "github.com/gotd/td/") {
				tdFrame = line[:strings.LastIndex(line, "(")]
				break
			}
		}
		if len(block) > 6000 {
			block = block[:6000]
		}
		return state, tdFrame, block, true
	}
	return "", "", "", false
}
