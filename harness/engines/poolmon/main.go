// Engine poolmon: controlled-schedule runtime monitors for the connection pool
// (C27 limit / exclusivity / no dead hand-out, C28 no lost capacity).
package main

import (
	"verif/harness/mon"
)

func main() {
	mon.Main("poolmon", map[string]mon.PropFunc{
		"C27": runC27,
		"C28": runC28,
	})
}
