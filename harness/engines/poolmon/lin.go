package main

import (
	"fmt"
	"math/bits"
	"sort"
	"time"

	"github.com/anishathalye/porcupine"
)

// Sequential specification of the pool as a resource allocator, checked with
// porcupine against the boundary history of one schedule.
//
//	create(K)   a slot is taken and connection K constructed: needs |live| < max
//	acquire(K)  K handed to a caller: K must be live (death not yet accounted) and not held
//	release(K)  the caller stops using K (DC.Invoke releases it or declares it dead)
//	kill(K)     the pool accounts the death of K: K leaves the live set
//
// Intervals: create = [start of the acquire that constructed K, constructor call];
// acquire = [start of the caller's acquire (DC.Invoke entry or end of its previous
// use), Invoke begin on K]; release = [Invoke end on K, next boundary event of that
// caller]; kill = [kill action, pool.dead.done]. An inherent race (death while
// idle, during hand-over or during creation) overlaps the acquire and linearizes.
type linIn struct {
	op string
	k  int
}

type linState struct {
	live, held uint64
}

func poolModel(max int64) porcupine.Model {
	return porcupine.Model{
		Init: func() interface{} { return linState{} },
		Step: func(state, input, _ interface{}) (bool, interface{}) {
			s := state.(linState)
			in := input.(linIn)
			bit := uint64(1) << uint(in.k)
			switch in.op {
			case "create":
				if max >= 1 && int64(bits.OnesCount64(s.live)) >= max {
					return false, s
				}
				s.live |= bit
			case "acquire":
				if s.live&bit == 0 || s.held&bit != 0 {
					return false, s
				}
				s.held |= bit
			case "release":
				if s.held&bit == 0 {
					return false, s
				}
				s.held &^= bit
			case "kill":
				s.live &^= bit
			}
			return true, s
		},
		Equal: func(a, b interface{}) bool { return a.(linState) == b.(linState) },
		DescribeOperation: func(in, _ interface{}) string {
			x := in.(linIn)
			return fmt.Sprintf("%s(K%d)", x.op, x.k)
		},
	}
}

// history builds the porcupine history of the world (events recorded before
// teardown only).
func (w *world) history() []porcupine.Operation {
	w.mu.Lock()
	defer w.mu.Unlock()
	end := w.clock + 1
	var ops []porcupine.Operation
	add := func(op string, h histOp, client int) {
		ret := h.ret
		if ret < 0 {
			ret = end
		}
		ops = append(ops, porcupine.Operation{ClientId: client, Input: linIn{op: op, k: h.k}, Call: h.call, Return: ret})
	}
	for _, h := range w.createOps {
		add("create", h, h.client)
	}
	for _, h := range w.acqOps {
		add("acquire", h, h.client)
	}
	for _, h := range w.relOps {
		add("release", h, h.client)
	}
	for _, h := range w.killOps {
		f := w.conns[h.k]
		if f.deadAt > 0 {
			h.ret = f.deadAt
		}
		add("kill", h, 100+h.k)
	}
	sort.SliceStable(ops, func(i, j int) bool { return ops[i].Call < ops[j].Call })
	return ops
}

func describeHistory(ops []porcupine.Operation) []string {
	var out []string
	for _, o := range ops {
		in := o.Input.(linIn)
		out = append(out, fmt.Sprintf("[%d,%d] c%d %s(K%d)", o.Call, o.Return, o.ClientId, in.op, in.k))
	}
	return out
}

// checkLinearizable returns "ok", "illegal" or "unknown".
func checkLinearizable(max int64, ops []porcupine.Operation) string {
	res := porcupine.CheckOperationsTimeout(poolModel(max), ops, 60*time.Second)
	switch res {
	case porcupine.Ok:
		return "ok"
	case porcupine.Illegal:
		return "illegal"
	}
	return "unknown"
}
