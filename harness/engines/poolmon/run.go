package main

import (
	"fmt"
	"math/rand/v2"
	"os"
	"runtime"
	"sort"
	"strings"

	"verif/harness/mon"
)

type totals struct {
	hookHits  map[string]int
	handouts  map[string]int
	states    map[string]struct{}
	invokes   int
	dumps     int
	actions   int
	histories int
	linOps    int
	other     map[string]int
	worlds    int
}

func newTotals() *totals {
	return &totals{hookHits: map[string]int{}, handouts: map[string]int{}, states: map[string]struct{}{}, other: map[string]int{}}
}

// finishWorld closes the world, checks its history with porcupine (if lin) and
// reports what was observed. Returns false when the run must stop (inconclusive).
func finishWorld(c *mon.Ctx, tt *totals, w *world, lin bool, params map[string]any, sigKey string) bool {
	var ops = w.history()
	ok := w.close()
	if lin && ok && len(ops) > 0 {
		tt.histories++
		tt.linOps += len(ops)
		switch checkLinearizable(w.max, ops) {
		case "illegal":
			w.mu.Lock()
			cls := "model-only"
			for _, v := range w.viols {
				if v.prop == "C27" {
					cls = "with:" + strings.SplitN(v.sig, "|", 2)[0]
					break
				}
			}
			w.violate("C27", "history-not-linearizable|"+cls, strings.Join(describeHistory(ops), "; "))
			w.mu.Unlock()
		case "ok":
			w.mu.Lock()
			for _, v := range w.viols {
				if v.prop == "C27" {
					tt.other["direct-oracle-hit-with-linearizable-history"]++
					if os.Getenv("POOLMON_DEBUG") != "" {
						fmt.Fprintln(os.Stderr, "DIRECT-ONLY", v.sig, v.detail, "\n", strings.Join(describeHistory(ops), "\n"), "\n", strings.Join(w.log, "\n"))
					}
					break
				}
			}
			w.mu.Unlock()
		case "unknown":
			c.Inconclusive("porcupine timeout on a history of " + fmt.Sprint(len(ops)) + " operations")
		}
	}
	w.mu.Lock()
	viols := append([]violation(nil), w.viols...)
	inc := append([]string(nil), w.inconcl...)
	for k, v := range w.hookHits {
		tt.hookHits[k] += v
	}
	for k, v := range w.handouts {
		if k == "" {
			k = "unknown-path"
		}
		tt.handouts[strings.TrimPrefix(k, "pool.acquire.")] += v
	}
	for k := range w.states {
		tt.states[k] = struct{}{}
	}
	tt.invokes += w.invokes
	tt.dumps += w.dumps
	tt.actions += len(w.actions)
	nact := len(w.actions)
	unattrib := w.unattrib
	w.mu.Unlock()
	tt.worlds++
	c.Eval(1)
	if sigKey != "" {
		c.Distinct(sigKey)
	}
	if unattrib > 0 {
		tt.other["dead-accounting-unattributed"] += unattrib
	}
	seen := map[string]bool{}
	for _, v := range viols {
		if v.prop != c.Property {
			tt.other[v.prop+"|"+v.sig]++
			continue
		}
		if seen[v.sig] {
			continue
		}
		seen[v.sig] = true
		c.Violate(v.sig, w.witness(v, params))
	}
	if len(viols) == 0 {
		c.Sample("schedule", map[string]any{"params": params, "actions": nact, "first_actions": firstN(w.actions, 12)})
	}
	for _, s := range inc {
		c.Inconclusive(s)
	}
	return len(inc) == 0
}

func firstN(s []string, n int) []string {
	if len(s) > n {
		s = s[:n]
	}
	return append([]string(nil), s...)
}

func (tt *totals) publish(c *mon.Ctx) {
	c.Set("worlds", tt.worlds)
	c.Set("controller_actions", tt.actions)
	c.Set("conn_invokes_observed", tt.invokes)
	c.Set("goroutine_snapshots", tt.dumps)
	c.Set("hook_hits", tt.hookHits)
	c.Set("handout_paths", tt.handouts)
	c.Set("abstract_states_reached", len(tt.states))
	if tt.histories > 0 {
		c.Set("porcupine_histories", tt.histories)
		c.Set("porcupine_operations", tt.linOps)
	}
	if len(tt.other) > 0 {
		c.Set("observations_belonging_to_other_property", tt.other)
	}
	var st []string
	for k := range tt.states {
		st = append(st, k)
	}
	sort.Strings(st)
	if len(st) > 8 {
		st = st[:8]
	}
	c.Sample("abstract-states", st)
	for _, p := range []string{hpRelease, hpPop, hpCounted, hpWait, hpTransfer, hpDead} {
		if tt.hookHits[p] == 0 {
			c.Inconclusive("hook point never reached: " + p + " (hook patch not applied?)")
		}
	}
	c.Set("goroutines_left_at_end", runtime.NumGoroutine())
	if tt.invokes == 0 {
		c.Inconclusive("no connection hand-out observed")
	}
}

var maxChoices = []int64{1, 2, 3, 0, 1, 2}

// randomSchedule runs one randomized controlled schedule.
func randomSchedule(c *mon.Ctx, tt *totals, i int, lin bool, quiesceEvery int) bool {
	r := c.RandN("sched", i)
	max := maxChoices[r.IntN(len(maxChoices))]
	prob := []uint32{256, 160, 96, 48}[r.IntN(4)]
	nAct := 8 + r.IntN(23)
	w := newWorld(max, r.Uint64(), prob, prob == 256)
	params := map[string]any{"mode": "random", "index": i, "max": max, "park_prob_256": prob, "actions": nAct}
	var sig []string
	ok := true
	for step := 0; step < nAct; step++ {
		if !w.settle() {
			ok = false
			break
		}
		acts := w.enabled(6, 10)
		if len(acts) == 0 {
			break
		}
		x := pickAction(r, acts)
		sig = append(sig, x.String())
		w.do(x)
		if quiesceEvery > 0 && (step+1)%quiesceEvery == 0 && r.IntN(2) == 0 {
			if !w.quiesce(r, true) {
				ok = false
				break
			}
			sig = append(sig, "Q")
		}
	}
	if ok {
		ok = w.quiesce(r, quiesceEvery > 0)
	}
	key := fmt.Sprintf("max%d:%s", max, strings.Join(sig, ","))
	if len(key) > 160 {
		key = key[:160]
	}
	return finishWorld(c, tt, w, lin, params, key) && ok
}

var _ = rand.Int
