package main

import (
	"context"
	"errors"
	"fmt"
	"hash/fnv"
	"runtime"
	"sort"
	"strings"
	"sync"
	"sync/atomic"
	"time"

	"github.com/gotd/td/bin"
	"github.com/gotd/td/pool"
	"github.com/gotd/td/rpc"
	"github.com/gotd/td/verifhook"
)

// Hook points (patch hook-H3-pool-points.diff).
const (
	hpDead         = "pool.dead.done"             // end of dead(), under the pool mutex: record only
	hpRelease      = "pool.release"               // release entry, before the pool mutex
	hpPop          = "pool.acquire.pop"           // after pop + unlock, before the Dead() check
	hpCounted      = "pool.acquire.counted"       // after total++ + unlock, before the connection is constructed
	hpWait         = "pool.acquire.wait"          // waiter registered + unlock, before the 3rd-case select
	hpStuckWoken   = "pool.acquire.stuck.woken"   // woken by stuck, before freeReq.delete
	hpStuckDeleted = "pool.acquire.stuck.deleted" // after freeReq.delete, before the non-blocking receive
	hpGiveupWoken  = "pool.acquire.giveup.woken"
	hpGiveupDel    = "pool.acquire.giveup.deleted"
	hpTransfer     = "pool.transfer.unlocked" // key removed + map unlocked, before the channel send (pool mutex held)
)

var allHookPoints = []string{hpDead, hpRelease, hpPop, hpCounted, hpWait, hpStuckWoken, hpStuckDeleted, hpGiveupWoken, hpGiveupDel, hpTransfer}

var errFakeKilled = errors.New("fake connection killed")
var errFakeRPC = errors.New("fake rpc error (not retryable)")

const settleWatchdog = 60 * time.Second

type actorKind int

const (
	akCaller actorKind = iota
	akRunner
	akAnon
)

type actor struct {
	kind actorKind
	idx  int
	gid  int64

	parkedAt string
	resume   chan struct{}
	hits     map[string]int
	noPark   bool

	// caller state
	ctx             context.Context
	cancelFn        context.CancelFunc
	cancelled       bool
	done            bool
	doneCh          chan struct{}
	err             error
	probe           bool
	inInvoke        *fakeConn
	lastConn        *fakeConn
	lastHook        string // last acquire-path hook of the current acquire iteration
	iterStart       int64  // lower bound of the start of the current acquire iteration
	pendingIter     int64
	acqStart        int64  // lower bound of the start of the current acquire call
	openRel         int    // index into w.relOps of the release whose end is not yet known, -1
	pos             string // filled by settle for callers blocked inside the pool
	starvedReported bool
	releasing       *fakeConn // connection this caller is releasing right after using it (nil if unknown)
	creating        *fakeConn // connection constructed by this actor in its current acquire iteration

	conn *fakeConn // runner
}

func (a *actor) name() string {
	switch a.kind {
	case akCaller:
		if a.probe {
			return fmt.Sprintf("P%d", a.idx)
		}
		return fmt.Sprintf("W%d", a.idx)
	case akRunner:
		return fmt.Sprintf("R%d", a.idx)
	}
	return fmt.Sprintf("X%d", a.idx)
}

type invocation struct {
	a     *actor
	resCh chan error
}

type fakeConn struct {
	w   *world
	idx int

	readyCh     chan struct{}
	readyClosed bool
	killCh      chan struct{}
	killed      bool
	killedAt    int64
	inUse       atomic.Int32
	invs        []*invocation
	uses        int
	creator     *actor
	createdAt   int64
	createCall  int64
	runEntered  bool
	runReturned bool
	deadAt      int64 // logical time of the pool's death accounting (pool.dead.done), 0 = not accounted
	lastUseEnd  int64
	transferAt  int64 // logical time of the last pool.transfer.unlocked hit by the releaser of this connection (under the pool mutex)
	released    int   // number of releases seen by the release hook after a use of this connection
}

func (f *fakeConn) Ready() <-chan struct{}         { return f.readyCh }
func (f *fakeConn) Ping(ctx context.Context) error { return nil }

func (f *fakeConn) Run(ctx context.Context) error {
	w := f.w
	gid := curGID()
	w.mu.Lock()
	a := &actor{kind: akRunner, idx: f.idx, gid: gid, conn: f, hits: map[string]int{}, openRel: -1}
	w.byGid[gid] = a
	f.runEntered = true
	w.logf(w.tick(), "run.enter", a, f.idx)
	w.mu.Unlock()
	var err error
	select {
	case <-f.killCh:
		err = errFakeKilled
	case <-ctx.Done():
		err = ctx.Err()
	}
	w.mu.Lock()
	f.runReturned = true
	w.logf(w.tick(), "run.return", a, f.idx)
	w.mu.Unlock()
	return err
}

func (f *fakeConn) Invoke(ctx context.Context, _ bin.Encoder, _ bin.Decoder) error {
	w := f.w
	gid := curGID()
	w.mu.Lock()
	a := w.actorFor(gid)
	n := f.inUse.Add(1)
	t := w.tick()
	w.logf(t, "invoke.begin", a, f.idx)
	w.invokes++
	if n > 1 {
		w.violate("C27", "shared-connection|two-invokes-overlap", fmt.Sprintf("conn K%d already in use by %s when %s invoked on it", f.idx, f.invs[0].a.name(), a.name()))
	}
	w.checkDeadHandout(a, f, t)
	f.uses++
	inv := &invocation{a: a, resCh: make(chan error, 1)}
	f.invs = append(f.invs, inv)
	a.inInvoke, a.lastConn = f, f
	if a.openRel >= 0 {
		w.relOps[a.openRel].ret = t
		a.openRel = -1
	}
	if !w.closing {
		w.acqOps = append(w.acqOps, histOp{client: a.idx, k: f.idx, call: a.acqStart, ret: t})
	}
	w.handouts[a.lastHook]++
	w.mu.Unlock()

	var res error
	select {
	case res = <-inv.resCh:
	case <-ctx.Done():
		res = ctx.Err()
	}

	w.mu.Lock()
	f.inUse.Add(-1)
	t = w.tick()
	w.logf(t, "invoke.end:"+errName(res), a, f.idx)
	for i, x := range f.invs {
		if x == inv {
			f.invs = append(f.invs[:i], f.invs[i+1:]...)
			break
		}
	}
	f.lastUseEnd = t
	a.inInvoke = nil
	a.iterStart, a.acqStart, a.pendingIter = t, t, 0
	a.lastHook = ""
	if !w.closing {
		w.relOps = append(w.relOps, histOp{client: a.idx, k: f.idx, call: t, ret: -1})
		a.openRel = len(w.relOps) - 1
	}
	w.mu.Unlock()
	return res
}

func errName(err error) string {
	switch {
	case err == nil:
		return "nil"
	case errors.Is(err, pool.ErrConnDead):
		return "ErrConnDead"
	case errors.Is(err, rpc.ErrEngineClosed):
		return "ErrEngineClosed"
	case errors.Is(err, context.Canceled):
		return "canceled"
	case errors.Is(err, errFakeRPC):
		return "rpcerr"
	}
	return "err"
}

type histOp struct {
	client int
	k      int
	call   int64
	ret    int64
}

type violation struct {
	prop   string
	sig    string
	detail string
	at     int64
}

// world is one pool under test plus everything the harness knows about it.
type world struct {
	max      int64
	dc       *pool.DC
	cancelDC context.CancelFunc

	mu      sync.Mutex
	clock   int64
	log     []string
	conns   []*fakeConn
	callers []*actor
	anons   []*actor
	byGid   map[int64]*actor
	ctlGid  int64

	parkSeed uint64
	parkProb uint32 // out of 256
	parkAll  bool
	noPark   bool
	closing  bool

	viols        []violation
	inconcl      []string
	hookHits     map[string]int
	handouts     map[string]int
	invokes      int
	actions      []string
	states       map[string]struct{}
	unattrib     int
	anonReleases int // releases performed by goroutines the pool spawned itself

	acqOps, relOps, createOps, killOps []histOp
	lastDump                           []gInfo
	dumps                              int
}

var curWorld atomic.Pointer[world]

func installHook() {
	verifhook.Set(func(point string) {
		if w := curWorld.Load(); w != nil {
			w.hook(point)
		}
	})
}

func newWorld(max int64, parkSeed uint64, parkProb uint32, parkAll bool) *world {
	w := &world{
		max: max, byGid: map[int64]*actor{}, parkSeed: parkSeed, parkProb: parkProb, parkAll: parkAll,
		hookHits: map[string]int{}, handouts: map[string]int{}, states: map[string]struct{}{},
		ctlGid: curGID(),
	}
	ctx, cancel := context.WithCancel(context.Background())
	w.cancelDC = cancel
	w.dc = pool.NewDC(ctx, 2, w.factory, pool.DCOptions{MaxOpenConnections: max})
	curWorld.Store(w)
	return w
}

func (w *world) tick() int64 { w.clock++; return w.clock }

func (w *world) logf(t int64, what string, a *actor, k int) {
	s := fmt.Sprintf("%d %s", t, what)
	if a != nil {
		s += " " + a.name()
	}
	if k >= 0 {
		s += fmt.Sprintf(" K%d", k)
	}
	w.log = append(w.log, s)
}

func (w *world) violate(prop, sig, detail string) {
	w.viols = append(w.viols, violation{prop: prop, sig: sig, detail: detail, at: w.clock})
	w.log = append(w.log, fmt.Sprintf("%d !! %s %s: %s", w.clock, prop, sig, detail))
}

// actorFor: caller must hold w.mu.
func (w *world) actorFor(gid int64) *actor {
	a := w.byGid[gid]
	if a == nil {
		a = &actor{kind: akAnon, idx: len(w.anons), gid: gid, hits: map[string]int{}, openRel: -1}
		w.anons = append(w.anons, a)
		w.byGid[gid] = a
	}
	return a
}

func (w *world) factory() pool.Conn {
	gid := curGID()
	w.mu.Lock()
	defer w.mu.Unlock()
	a := w.actorFor(gid)
	f := &fakeConn{w: w, idx: len(w.conns), readyCh: make(chan struct{}), killCh: make(chan struct{}), creator: a}
	t := w.tick()
	f.createdAt, f.createCall = t, a.acqStart
	live := 0
	for _, o := range w.conns {
		if !o.killed {
			live++
		}
	}
	w.conns = append(w.conns, f)
	a.creating = f
	w.logf(t, "conn.created", a, f.idx)
	if w.max >= 1 && int64(live+1) > w.max {
		w.violate("C27", "limit-exceeded|live-connections>max", fmt.Sprintf("K%d constructed while %d live connections exist, max=%d", f.idx, live, w.max))
	}
	if !w.closing {
		w.createOps = append(w.createOps, histOp{client: a.idx, k: f.idx, call: f.createCall, ret: t})
	}
	return f
}

func (w *world) shouldPark(a *actor, point string) bool {
	if w.noPark || a.noPark {
		return false
	}
	if w.parkAll {
		return true
	}
	h := fnv.New64a()
	fmt.Fprintf(h, "%d/%d/%d/%s/%d", w.parkSeed, a.kind, a.idx, point, a.hits[point])
	return uint32(h.Sum64()>>13&0xff) < w.parkProb
}

func (w *world) hook(point string) {
	gid := curGID()
	w.mu.Lock()
	a := w.actorFor(gid)
	t := w.tick()
	w.hookHits[point]++
	a.hits[point]++
	switch point {
	case hpDead:
		var f *fakeConn
		switch a.kind {
		case akRunner:
			f = a.conn
		case akCaller:
			f = a.lastConn
			if a.lastHook == hpCounted && a.creating != nil {
				f = a.creating // death declared by the creator for the connection it is creating
			}
		}
		if f != nil && f.deadAt == 0 {
			f.deadAt = t
			w.logf(t, point, a, f.idx)
		} else {
			w.unattrib++
			w.logf(t, point+"(unattributed)", a, -1)
		}
		w.mu.Unlock()
		return
	case hpPop, hpCounted, hpWait, hpStuckWoken, hpStuckDeleted:
		a.lastHook = point
		if point != hpCounted {
			a.creating = nil
		}
		a.releasing = nil
		// iterStart is a lower bound of the start of the acquire iteration the actor
		// is in: a hook of a later iteration proves the previous hook preceded the retry.
		if point == hpPop || point == hpCounted || point == hpWait {
			if a.pendingIter > 0 {
				a.iterStart, a.pendingIter = a.pendingIter, 0
			}
		}
		if point == hpPop || point == hpCounted || point == hpStuckDeleted {
			a.pendingIter = t
		}
	case hpRelease:
		if a.lastConn != nil {
			a.lastConn.released++
		}
		a.releasing = nil
		if a.kind == akCaller && a.lastHook == "" && a.inInvoke == nil {
			a.releasing = a.lastConn // DC.Invoke releases the connection it has just used
		}
	case hpTransfer:
		if a.releasing != nil {
			a.releasing.transferAt = t
			a.releasing = nil
		}
		if a.kind == akAnon {
			w.anonReleases++
		}
	}
	w.logf(t, point, a, -1)
	if !w.shouldPark(a, point) {
		w.mu.Unlock()
		return
	}
	ch := make(chan struct{})
	a.parkedAt, a.resume = point, ch
	w.mu.Unlock()
	<-ch
}

// checkDeadHandout is the C27 "never hands out a connection that has died"
// oracle. Caller holds w.mu. Only deaths the pool had already accounted before
// the decision chain of this hand-out began count (inherent races excluded).
func (w *world) checkDeadHandout(a *actor, f *fakeConn, t int64) {
	if f.deadAt == 0 {
		return
	}
	switch a.lastHook {
	case hpWait, hpStuckWoken, hpStuckDeleted:
		// Obtained through a transfer. The pool's decisions that led here are the
		// release of the previous user (after lastUseEnd) and this waiter's
		// registration (after iterStart); both take the pool mutex, as does the death
		// accounting. A death accounted before either of them was visible to the
		// transferring release.
		switch {
		case f.uses > 0 && f.deadAt < f.lastUseEnd:
			w.violate("C27", "dead-handout|transfer-of-accounted-dead-connection",
				fmt.Sprintf("K%d: death accounted at t=%d, previous use ended t=%d (release began after), handed to waiter %s at t=%d", f.idx, f.deadAt, f.lastUseEnd, a.name(), t))
		case f.transferAt > f.lastUseEnd && f.deadAt < f.transferAt:
			// Both events happen while holding the pool mutex (end of dead(), transfer
			// inside release()), so their order is the order of the critical sections:
			// the transferring release ran entirely after the death accounting.
			w.violate("C27", "dead-handout|transfer-of-accounted-dead-connection",
				fmt.Sprintf("K%d: death accounted under the pool mutex at t=%d (pool.dead.done), transfer decided under the same mutex at t=%d (pool.transfer.unlocked), handed to waiter %s and invoked at t=%d", f.idx, f.deadAt, f.transferAt, a.name(), t))
		case f.deadAt < a.iterStart:
			w.violate("C27", "dead-handout|transfer-of-accounted-dead-connection",
				fmt.Sprintf("K%d: death accounted at t=%d, acquire iteration of waiter %s started at t>=%d (registered after), handed over and invoked at t=%d", f.idx, f.deadAt, a.name(), a.iterStart, t))
		default:
			w.deadRaces("transfer")
		}
	case hpPop:
		if f.deadAt < a.iterStart {
			w.violate("C27", "dead-handout|pop-of-accounted-dead-connection",
				fmt.Sprintf("K%d: death accounted at t=%d, acquire iteration of %s started at t>=%d, invoked at t=%d", f.idx, f.deadAt, a.name(), a.iterStart, t))
		} else {
			w.deadRaces("pop")
		}
	default:
		w.deadRaces("new")
	}
}

func (w *world) deadRaces(path string) { w.handouts["inherent-dead-race/"+path]++ }

// settle waits until every goroutine that belongs to the world (tracked actors
// and anything with a gotd/td frame) is parked by the runtime on a
// synchronisation object. Pacing only; the decision is the scheduler state.
func (w *world) settle() bool {
	deadline := time.Now().Add(settleWatchdog)
	for i := 0; ; i++ {
		runtime.Gosched()
		gs := dumpGoroutines()
		w.dumps++
		stable := true
		w.mu.Lock()
		for k := range gs {
			g := &gs[k]
			if g.id == w.ctlGid {
				continue
			}
			_, tracked := w.byGid[g.id]
			if !tracked && !g.td {
				continue
			}
			if !waitingStatus(g.status) || g.onHarnessLock() {
				stable = false
				break
			}
		}
		if stable {
			for _, f := range w.conns {
				if !f.runEntered {
					stable = false
				}
			}
		}
		if stable {
			w.lastDump = gs
			byID := map[int64]*gInfo{}
			for k := range gs {
				byID[gs[k].id] = &gs[k]
			}
			for _, a := range w.callers {
				a.pos = ""
				if a.done || a.parkedAt != "" || a.inInvoke != nil {
					continue
				}
				g := byID[a.gid]
				if g == nil {
					a.pos = "gone"
					continue
				}
				switch {
				case strings.Contains(g.status, "Mutex"):
					a.pos = "lock"
				case strings.Contains(g.stack, "pool.(*DC).acquire") && g.status == "select":
					if a.lastHook == hpCounted {
						a.pos = "creating"
					} else {
						a.pos = "waiting"
					}
				default:
					a.pos = "other:" + g.status
				}
			}
			w.states[w.stateKeyLocked()] = struct{}{}
			w.mu.Unlock()
			return true
		}
		w.mu.Unlock()
		if time.Now().After(deadline) {
			var diag []string
			w.mu.Lock()
			for k := range gs {
				g := &gs[k]
				_, tracked := w.byGid[g.id]
				if g.id == w.ctlGid || (!tracked && !g.td) {
					continue
				}
				if !waitingStatus(g.status) || g.onHarnessLock() {
					st := g.stack
					if len(st) > 700 {
						st = st[:700]
					}
					diag = append(diag, st)
				}
			}
			for _, f := range w.conns {
				if !f.runEntered {
					diag = append(diag, fmt.Sprintf("K%d constructed but Run not entered", f.idx))
				}
			}
			w.mu.Unlock()
			w.inconcl = append(w.inconcl, "settle watchdog: goroutines did not reach a stable state: "+strings.Join(diag, " || "))
			return false
		}
		if i > 50 {
			time.Sleep(time.Duration(min(i, 2000)) * time.Microsecond)
		}
	}
}

func (w *world) stateKeyLocked() string {
	var parts []string
	for _, a := range w.callers {
		switch {
		case a.done:
		case a.parkedAt != "":
			parts = append(parts, "@"+strings.TrimPrefix(a.parkedAt, "pool."))
		case a.inInvoke != nil:
			parts = append(parts, "use")
		default:
			parts = append(parts, a.pos)
		}
	}
	for _, a := range w.anons {
		if a.parkedAt != "" {
			parts = append(parts, "x@"+a.parkedAt)
		}
	}
	sort.Strings(parts)
	live, nr := 0, 0
	for _, f := range w.conns {
		if !f.killed {
			live++
			if !f.readyClosed {
				nr++
			}
		}
	}
	return fmt.Sprintf("max%d live%d notready%d %s", w.max, live, nr, strings.Join(parts, ","))
}

// ---- controller actions (controller goroutine only, world must be settled) ----

func (w *world) act(desc string) {
	w.mu.Lock()
	w.actions = append(w.actions, desc)
	w.logf(w.tick(), "ACTION "+desc, nil, -1)
	w.mu.Unlock()
}

func (w *world) startCaller(probe bool) *actor {
	ctx, cancel := context.WithCancel(context.Background())
	a := &actor{kind: akCaller, ctx: ctx, cancelFn: cancel, hits: map[string]int{}, doneCh: make(chan struct{}), probe: probe, noPark: probe, openRel: -1}
	w.mu.Lock()
	a.idx = len(w.callers)
	w.callers = append(w.callers, a)
	w.mu.Unlock()
	w.act("call " + a.name())
	started := make(chan struct{})
	go func() {
		gid := curGID()
		w.mu.Lock()
		a.gid = gid
		w.byGid[gid] = a
		t := w.tick()
		a.iterStart, a.acqStart = t, t
		w.logf(t, "call.begin", a, -1)
		w.mu.Unlock()
		close(started)
		err := w.dc.Invoke(ctx, nil, nil)
		w.mu.Lock()
		t = w.tick()
		a.err, a.done = err, true
		if a.openRel >= 0 {
			w.relOps[a.openRel].ret = t
			a.openRel = -1
		}
		w.logf(t, "call.end:"+errName(err), a, -1)
		// stays in byGid: until the goroutine is really gone it counts as running
		w.mu.Unlock()
		close(a.doneCh)
	}()
	<-started
	return a
}

func (w *world) resumeActor(a *actor) {
	w.mu.Lock()
	ch, pt := a.resume, a.parkedAt
	a.resume, a.parkedAt = nil, ""
	w.mu.Unlock()
	if ch == nil {
		return
	}
	w.act("resume " + a.name() + "@" + strings.TrimPrefix(pt, "pool."))
	close(ch)
}

func (w *world) finish(f *fakeConn, res error) {
	w.mu.Lock()
	var inv *invocation
	if len(f.invs) > 0 {
		inv = f.invs[0]
	}
	if !f.killed && (errors.Is(res, pool.ErrConnDead) || errors.Is(res, rpc.ErrEngineClosed)) {
		// a fake connection reports its own death only after the schedule killed it
		res = nil
	}
	w.mu.Unlock()
	if inv == nil {
		return
	}
	w.act(fmt.Sprintf("finish K%d %s", f.idx, errName(res)))
	select {
	case inv.resCh <- res:
	default:
	}
}

func (w *world) makeReady(f *fakeConn) {
	w.mu.Lock()
	was := f.readyClosed
	f.readyClosed = true
	w.mu.Unlock()
	if was {
		return
	}
	w.act(fmt.Sprintf("ready K%d", f.idx))
	close(f.readyCh)
}

func (w *world) kill(f *fakeConn) {
	w.mu.Lock()
	was := f.killed
	f.killed = true
	w.mu.Unlock()
	if was {
		return
	}
	w.act(fmt.Sprintf("kill K%d", f.idx))
	w.mu.Lock()
	f.killedAt = w.clock
	if !w.closing {
		w.killOps = append(w.killOps, histOp{client: -1, k: f.idx, call: f.killedAt, ret: -1})
	}
	w.mu.Unlock()
	close(f.killCh)
}

func (w *world) cancelCaller(a *actor) {
	w.mu.Lock()
	was := a.cancelled
	a.cancelled = true
	w.mu.Unlock()
	if was {
		return
	}
	w.act("cancel " + a.name())
	a.cancelFn()
}

// parkedActors returns actors parked at a hook point, in a deterministic order.
func (w *world) parkedActors() []*actor {
	w.mu.Lock()
	defer w.mu.Unlock()
	var out []*actor
	for _, a := range w.callers {
		if a.parkedAt != "" {
			out = append(out, a)
		}
	}
	for _, a := range w.anons {
		if a.parkedAt != "" {
			out = append(out, a)
		}
	}
	return out
}

func (w *world) activeCallers() []*actor {
	w.mu.Lock()
	defer w.mu.Unlock()
	var out []*actor
	for _, a := range w.callers {
		if !a.done {
			out = append(out, a)
		}
	}
	return out
}

func (w *world) connsSnapshot() []*fakeConn {
	w.mu.Lock()
	defer w.mu.Unlock()
	return append([]*fakeConn(nil), w.conns...)
}

// witness builds the JSON witness of a violation.
func (w *world) witness(v violation, params map[string]any) map[string]any {
	w.mu.Lock()
	defer w.mu.Unlock()
	lg := w.log
	if len(lg) > 400 {
		lg = lg[len(lg)-400:]
	}
	return map[string]any{
		"params": params, "detail": v.detail, "at": v.at,
		"actions":   append([]string(nil), w.actions...),
		"event_log": append([]string(nil), lg...),
	}
}
