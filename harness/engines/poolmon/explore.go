package main

import (
	"fmt"
	"math/rand/v2"
	"strings"
	"time"

	"github.com/gotd/td/pool"
	"github.com/gotd/td/rpc"
)

type action struct {
	kind string // call resume finish ready kill cancel
	a    *actor
	f    *fakeConn
	res  error
	wt   float64
}

func (x action) String() string {
	switch x.kind {
	case "call":
		return "call"
	case "resume":
		return "resume@" + strings.TrimPrefix(x.a.parkedAt, "pool.")
	case "finish":
		return "finish:" + errName(x.res)
	}
	return x.kind
}

// enabled lists the actions possible in the current (settled) state.
func (w *world) enabled(maxCallers, maxConns int) []action {
	w.mu.Lock()
	defer w.mu.Unlock()
	var out []action
	active := 0
	for _, a := range w.callers {
		if !a.done {
			active++
		}
	}
	if len(w.callers) < maxCallers && active < 6 {
		out = append(out, action{kind: "call", wt: 3})
	}
	for _, a := range w.callers {
		if a.done {
			continue
		}
		if a.parkedAt != "" {
			out = append(out, action{kind: "resume", a: a, wt: 6})
		}
		if !a.cancelled {
			out = append(out, action{kind: "cancel", a: a, wt: 1.2})
		}
	}
	for _, a := range w.anons {
		if a.parkedAt != "" {
			out = append(out, action{kind: "resume", a: a, wt: 6})
		}
	}
	for _, f := range w.conns {
		if len(f.invs) > 0 && !f.invs[0].a.cancelled {
			out = append(out, action{kind: "finish", f: f, res: nil, wt: 3})
			out = append(out, action{kind: "finish", f: f, res: errFakeRPC, wt: 0.5})
			if f.killed {
				out = append(out, action{kind: "finish", f: f, res: pool.ErrConnDead, wt: 2})
				out = append(out, action{kind: "finish", f: f, res: rpc.ErrEngineClosed, wt: 1})
			}
		}
		if !f.readyClosed && !f.killed {
			out = append(out, action{kind: "ready", f: f, wt: 4})
		}
		if !f.killed && f.runEntered && len(w.conns) < maxConns {
			out = append(out, action{kind: "kill", f: f, wt: 1.2})
		}
	}
	return out
}

func (w *world) do(x action) {
	switch x.kind {
	case "call":
		w.startCaller(false)
	case "resume":
		w.resumeActor(x.a)
	case "finish":
		w.finish(x.f, x.res)
	case "ready":
		w.makeReady(x.f)
	case "kill":
		w.kill(x.f)
	case "cancel":
		w.cancelCaller(x.a)
	}
}

func pickAction(r *rand.Rand, acts []action) action {
	var tot float64
	for _, a := range acts {
		tot += a.wt
	}
	x := r.Float64() * tot
	for _, a := range acts {
		x -= a.wt
		if x < 0 {
			return a
		}
	}
	return acts[len(acts)-1]
}

// drain runs everything to completion: releases every parked actor, completes
// every Invoke with nil, makes every unfinished connection Ready. It returns
// false if the settle watchdog fired.
func (w *world) drain(r *rand.Rand) bool {
	for guard := 0; guard < 2000; guard++ {
		if !w.settle() {
			return false
		}
		if ps := w.parkedActors(); len(ps) > 0 {
			i := 0
			if r != nil {
				i = r.IntN(len(ps))
			}
			w.resumeActor(ps[i])
			continue
		}
		w.midflightStarvation()
		progressed := false
		for _, f := range w.connsSnapshot() {
			w.mu.Lock()
			busy := len(f.invs) > 0
			needReady := !f.readyClosed && !f.killed
			w.mu.Unlock()
			if busy {
				w.finish(f, nil)
				progressed = true
				break
			}
			if needReady {
				w.makeReady(f)
				progressed = true
				break
			}
		}
		if !progressed {
			return true
		}
	}
	w.inconcl = append(w.inconcl, "drain did not terminate in 2000 steps")
	return false
}

// quiesce drains the world, evaluates the C28 oracles (starved waiters,
// conservation equation, probe) and leaves the world quiescent.
func (w *world) quiesce(r *rand.Rand, withProbe bool) bool {
	if !w.drain(r) {
		return false
	}
	// Callers still inside DC.Invoke now are blocked in acquire with nothing left
	// that could serve them except capacity the pool should already have.
	deadline := time.Now().Add(settleWatchdog)
	for round := 0; ; round++ {
		act := w.activeCallers()
		if len(act) == 0 {
			break
		}
		var starved, unsure []*actor
		for _, a := range act {
			w.mu.Lock()
			pos := a.pos
			w.mu.Unlock()
			if a.cancelled {
				// a cancelled caller must leave by itself; give it time (below) before judging
				unsure = append(unsure, a)
				continue
			}
			class, detail, verdict := w.confirmStarved(a, true)
			switch verdict {
			case "starved":
				w.mu.Lock()
				w.violate("C28", "starved-waiter|"+class, fmt.Sprintf("%s blocked in acquire's 3rd-case select at a fully drained state: %s", a.name(), detail))
				w.mu.Unlock()
				starved = append(starved, a)
			case "not":
				// it moved on by itself: the drain below completes it
			default:
				w.mu.Lock()
				w.hookHits["waiter.nonfinal-position/"+pos]++
				w.mu.Unlock()
				unsure = append(unsure, a)
			}
		}
		for _, a := range starved {
			w.cancelCaller(a)
		}
		if len(unsure) > 0 && time.Now().After(deadline) {
			for _, a := range unsure {
				w.mu.Lock()
				pos := a.pos
				if a.cancelled {
					w.violate("C28", "stuck-after-cancel|"+pos, fmt.Sprintf("%s cancelled but still inside DC.Invoke (%s) after %s", a.name(), pos, settleWatchdog))
				} else {
					w.inconcl = append(w.inconcl, fmt.Sprintf("watchdog: %s still inside DC.Invoke after drain, starvation not confirmed (%s)", a.name(), pos))
				}
				w.mu.Unlock()
				w.cancelCaller(a)
			}
			if !w.drain(r) {
				return false
			}
			w.mu.Lock()
			bad := len(w.inconcl) > 0
			w.mu.Unlock()
			if bad || len(w.activeCallers()) > 0 {
				return false
			}
			break
		}
		if len(unsure) > 0 && len(starved) == 0 {
			time.Sleep(time.Duration(min(round+1, 20)) * time.Millisecond)
		}
		if !w.drain(r) {
			return false
		}
	}
	w.conservation()
	if withProbe {
		return w.probe(r)
	}
	return true
}

func (w *world) capacityClass(snap pool.VerifPoolSnapshot) string {
	w.mu.Lock()
	defer w.mu.Unlock()
	for _, c := range snap.Free {
		if f, ok := c.(*fakeConn); ok && !f.killed {
			return "idle-connection-available"
		}
	}
	if snap.Max < 1 || snap.Total < snap.Max {
		return "slot-free"
	}
	return "capacity-lost"
}

func (w *world) connSummaryLocked() string {
	var sb strings.Builder
	for _, f := range w.conns {
		st := "live"
		if f.killed {
			st = "killed"
		}
		fmt.Fprintf(&sb, "K%d[%s uses=%d ready=%v creator=%s] ", f.idx, st, f.uses, f.readyClosed, f.creator.name())
	}
	return sb.String()
}

// conservation checks live = in_use + free + in_handover at a quiescent point
// (in_use = in_handover = 0 there): every live connection is idle in `free`,
// total equals the number of live connections, no waiter entry remains.
func (w *world) conservation() {
	// The snapshot must be the same in two consecutive settled states with no
	// boundary or hook event in between; otherwise retry, finally inconclusive.
	var snap pool.VerifPoolSnapshot
	confirmed := false
	for attempt := 0; attempt < 5 && !confirmed; attempt++ {
		if !w.settle() {
			return
		}
		w.mu.Lock()
		c1 := w.clock
		w.mu.Unlock()
		s1 := w.dc.VerifSnapshot()
		if !w.settle() {
			return
		}
		s2 := w.dc.VerifSnapshot()
		w.mu.Lock()
		c2 := w.clock
		w.mu.Unlock()
		if c1 == c2 && s1.Total == s2.Total && s1.Waiters == s2.Waiters && fmt.Sprint(s1.FreeIDs) == fmt.Sprint(s2.FreeIDs) {
			snap, confirmed = s2, true
		} else {
			w.mu.Lock()
			w.hookHits["unconfirmed-conservation-snapshot"]++
			w.mu.Unlock()
		}
	}
	if !confirmed {
		w.mu.Lock()
		w.inconcl = append(w.inconcl, "pool snapshot did not stay unchanged between two settled states at a quiescent point")
		w.mu.Unlock()
		return
	}
	w.mu.Lock()
	defer w.mu.Unlock()
	w.hookHits["quiescence.checks"]++
	inFree := map[*fakeConn]int{}
	for _, c := range snap.Free {
		if f, ok := c.(*fakeConn); ok {
			inFree[f]++
		}
	}
	live := 0
	for _, f := range w.conns {
		if f.killed {
			if f.deadAt == 0 && f.runEntered {
				w.violate("C28", "death-not-accounted", fmt.Sprintf("K%d was killed, everything drained, but the pool never accounted its death", f.idx))
			}
			continue
		}
		live++
		if len(f.invs) > 0 {
			continue // cannot happen after drain
		}
		switch {
		case inFree[f] == 0:
			class := "other"
			switch {
			case f.uses == 0 && f.creator.done && f.creator.err != nil && w.anonReleases == 0:
				class = "creator-gave-up-during-create"
			case f.uses == 0 && w.anonReleases > 0:
				class = "released-but-not-idle"
			case f.uses == 0:
				class = "never-handed-out"
			case f.uses > 0:
				class = "released-but-not-idle"
			}
			w.violate("C28", "lost-connection|"+class, fmt.Sprintf("K%d is live, not in use, not idle in free (free=%v total=%d waiters=%d); %s",
				f.idx, snap.FreeIDs, snap.Total, snap.Waiters, w.connSummaryLocked()))
		case inFree[f] > 1:
			w.violate("C28", "free-list-duplicate", fmt.Sprintf("K%d appears %d times in free", f.idx, inFree[f]))
		}
	}
	if snap.Total != int64(live) {
		cls := "total>live"
		if snap.Total < int64(live) {
			cls = "total<live"
		}
		w.violate("C28", "count-mismatch|"+cls, fmt.Sprintf("total=%d but %d live connections; %s", snap.Total, live, w.connSummaryLocked()))
	}
	if snap.Waiters != 0 {
		w.violate("C28", "stale-waiter-entry", fmt.Sprintf("%d waiter entries remain with no caller inside the pool", snap.Waiters))
	}
}

// probe: with nothing in use a fresh Invoke must be served.
func (w *world) probe(r *rand.Rand) bool {
	p := w.startCaller(true)
	deadline := time.Now().Add(settleWatchdog)
	for guard := 0; ; guard++ {
		if !w.settle() {
			return false
		}
		w.mu.Lock()
		f, done, pos, hook := p.inInvoke, p.done, p.pos, p.lastHook
		w.mu.Unlock()
		if done {
			w.mu.Lock()
			w.inconcl = append(w.inconcl, "probe returned without being served: "+fmt.Sprint(p.err))
			w.mu.Unlock()
			return false
		}
		if f != nil {
			w.mu.Lock()
			w.hookHits["probe.served"]++
			w.mu.Unlock()
			w.finish(f, nil)
			return w.drain(r)
		}
		// whatever the probe is doing: a connection constructed on its behalf becomes Ready
		madeReady := false
		for _, c := range w.connsSnapshot() {
			w.mu.Lock()
			need := c.creator == p && !c.readyClosed && !c.killed
			w.mu.Unlock()
			if need {
				w.makeReady(c)
				madeReady = true
			}
		}
		if madeReady {
			continue
		}
		if ps := w.parkedActors(); len(ps) > 0 {
			w.resumeActor(ps[0])
			continue
		}
		if pos == "waiting" && hook == hpWait {
			// Parked in the 3rd-case select with nothing left to release: starved if
			// (and only if) the two-snapshot observation confirms it.
			class, detail, verdict := w.confirmStarved(p, true)
			if verdict == "starved" {
				w.mu.Lock()
				w.violate("C28", "probe-starved|"+class, "fresh Invoke on a quiescent pool is parked in acquire's 3rd-case select: "+detail)
				w.mu.Unlock()
				w.cancelCaller(p)
				return w.drain(r)
			}
		} else {
			// any other position is not final: the probe is simply not finished yet
			w.mu.Lock()
			w.hookHits["probe.nonfinal-position/"+pos]++
			w.mu.Unlock()
		}
		if time.Now().After(deadline) {
			w.mu.Lock()
			w.inconcl = append(w.inconcl, fmt.Sprintf("probe watchdog: neither served nor confirmed starved after %s (pos=%s last_hook=%s)", settleWatchdog, pos, hook))
			w.mu.Unlock()
			w.cancelCaller(p)
			w.drain(r)
			return false
		}
		time.Sleep(time.Duration(min(guard+1, 20)) * time.Millisecond)
	}
}

// close tears the world down; every goroutine must be gone afterwards.
func (w *world) close() bool {
	w.mu.Lock()
	w.closing = true
	w.noPark = true
	w.mu.Unlock()
	for _, a := range w.parkedActors() {
		w.resumeActor(a)
	}
	for _, a := range w.activeCallers() {
		w.cancelCaller(a)
	}
	ok := true
	wait := func(ch <-chan struct{}, what string) {
		select {
		case <-ch:
		case <-time.After(settleWatchdog):
			w.mu.Lock()
			w.inconcl = append(w.inconcl, "teardown watchdog: "+what)
			w.mu.Unlock()
			ok = false
		}
	}
	for _, a := range w.activeCallers() {
		wait(a.doneCh, "caller "+a.name()+" did not return")
	}
	w.cancelDC()
	closed := make(chan struct{})
	go func() { _ = w.dc.Close(); close(closed) }()
	wait(closed, "DC.Close did not return")
	curWorld.Store(nil)
	return ok
}

// confirmStarved decides whether caller a is starved: parked in acquire's
// 3rd-case select (last hook pool.acquire.wait, goroutine in [select] inside
// acquire, the pool itself reports a registered waiter) while the pool has
// capacity for it (a live idle connection, a free slot, or counted connections
// that are neither idle nor in use). The observation must be identical in two
// consecutive settled snapshots with no boundary or hook event in between;
// otherwise it is retried and finally reported as unconfirmed, never as a
// violation. With drained=false connections may still be in use (mid-flight
// check): then only a free slot or a live idle connection counts. verdict: "starved", "not" (the caller moved on), "unsure".
func (w *world) confirmStarved(a *actor, drained bool) (class, detail, verdict string) {
	type obs struct {
		clock            int64
		pos, hook, stack string
		done, inUse      bool
		total, max       int64
		free             string
		waiters          int
		class            string
		busy, notReady   int
		parked           int
	}
	observe := func() (obs, bool) {
		var o obs
		if !w.settle() {
			return o, false
		}
		snap := w.dc.VerifSnapshot()
		o.class = w.capacityClass(snap)
		w.mu.Lock()
		defer w.mu.Unlock()
		o.clock, o.pos, o.hook, o.done, o.inUse = w.clock, a.pos, a.lastHook, a.done, a.inInvoke != nil
		for k := range w.lastDump {
			if w.lastDump[k].id == a.gid {
				o.stack = w.lastDump[k].stack
			}
		}
		o.total, o.max, o.free, o.waiters = snap.Total, snap.Max, fmt.Sprint(snap.FreeIDs), snap.Waiters
		for _, f := range w.conns {
			if len(f.invs) > 0 {
				o.busy++
			}
			if !f.killed && !f.readyClosed {
				o.notReady++
			}
		}
		for _, x := range w.callers {
			if x.parkedAt != "" {
				o.parked++
			}
		}
		for _, x := range w.anons {
			if x.parkedAt != "" {
				o.parked++
			}
		}
		return o, true
	}
	note := func(why string) {
		w.mu.Lock()
		w.hookHits["unconfirmed-starvation/"+why]++
		w.mu.Unlock()
	}
	var last string
	for attempt := 0; attempt < 6; attempt++ {
		o1, ok := observe()
		if !ok {
			return "", "settle watchdog", "unsure"
		}
		if o1.done || o1.inUse {
			return "", "", "not"
		}
		desc := fmt.Sprintf("pos=%s last_hook=%s total=%d max=%d free=%s waiters=%d in_use=%d not_ready=%d parked=%d", o1.pos, o1.hook, o1.total, o1.max, o1.free, o1.waiters, o1.busy, o1.notReady, o1.parked)
		last = desc
		if o1.pos != "waiting" || o1.hook != hpWait || !strings.Contains(o1.stack, "pool.(*DC).acquire") {
			note("not-in-third-case-select:" + o1.pos)
			continue
		}
		if o1.waiters < 1 {
			note("pool-reports-no-waiter")
			continue
		}
		if o1.parked > 0 {
			note("actors-parked")
			return "", desc, "unsure"
		}
		if drained && (o1.busy > 0 || o1.notReady > 0) {
			note("world-not-drained")
			return "", desc, "unsure"
		}
		if !drained && o1.class == "capacity-lost" {
			// connections are still in use: being full is legitimate
			return "", desc, "not"
		}
		o2, ok := observe()
		if !ok {
			return "", "settle watchdog", "unsure"
		}
		o1.stack, o2.stack = trimStack(o1.stack), trimStack(o2.stack)
		if o1 != o2 {
			note("observation-changed")
			continue
		}
		w.mu.Lock()
		conns := w.connSummaryLocked()
		w.mu.Unlock()
		return o1.class, desc + "; observed twice at logical time " + fmt.Sprint(o1.clock) + "; " + conns + "; goroutine: " + o1.stack, "starved"
	}
	return "", last, "unsure"
}

func trimStack(s string) string {
	if len(s) > 1200 {
		s = s[:1200]
	}
	return s
}

// midflightStarvation runs at a settled state with no actor parked at a hook
// point (so nobody holds the pool mutex): a caller parked in the 3rd-case
// select while a slot is free or a live connection is idle is starved even
// though other connections are still in use: the pool only ever registers a
// waiter when it is full and has nothing idle, every death wakes the waiters
// and an idle connection is only stored when no waiter is registered.
func (w *world) midflightStarvation() {
	var cands []*actor
	w.mu.Lock()
	for _, a := range w.callers {
		if !a.done && !a.cancelled && !a.starvedReported && a.parkedAt == "" && a.inInvoke == nil && a.pos == "waiting" && a.lastHook == hpWait {
			cands = append(cands, a)
		}
	}
	w.mu.Unlock()
	if len(cands) == 0 {
		return
	}
	snap := w.dc.VerifSnapshot()
	if w.capacityClass(snap) == "capacity-lost" {
		return
	}
	for _, a := range cands {
		class, detail, verdict := w.confirmStarved(a, false)
		if verdict == "starved" {
			w.mu.Lock()
			a.starvedReported = true
			w.violate("C28", "starved-waiter|"+class, fmt.Sprintf("%s parked in acquire's 3rd-case select while capacity is available (other connections may still be in use): %s", a.name(), detail))
			w.mu.Unlock()
		}
	}
}
