package main

import (
	"fmt"
	"strings"

	"github.com/gotd/td/pool"
)

// script drives a world (all hook points parking) through one scripted fault
// window. Every step is "try to get there": if the code under test takes a
// different path the script simply continues; the verdict comes from the
// oracles at the quiescent point, never from the script's expectations.
type script struct {
	w       *world
	reached []string
	bad     bool
}

func (s *script) settle() bool {
	if s.bad {
		return false
	}
	if !s.w.settle() {
		s.bad = true
	}
	return !s.bad
}

func (s *script) mark(m string) { s.reached = append(s.reached, m) }

func (s *script) call() *actor {
	if s.bad {
		return nil
	}
	a := s.w.startCaller(false)
	s.settle()
	return a
}

type where struct {
	parked string
	use    *fakeConn
	pos    string
	done   bool
}

func (s *script) where(a *actor) where {
	s.w.mu.Lock()
	defer s.w.mu.Unlock()
	return where{parked: a.parkedAt, use: a.inInvoke, pos: a.pos, done: a.done}
}

// toPoint resumes a through its hook points until it is parked at point.
func (s *script) toPoint(a *actor, point string) bool {
	for i := 0; i < 40 && a != nil && s.settle(); i++ {
		wh := s.where(a)
		if wh.parked == point {
			s.mark(a.name() + "@" + point)
			return true
		}
		if wh.parked == "" {
			if wh.pos == "creating" && point != "" {
				if !s.readyFor(a) {
					return false
				}
				continue
			}
			return false
		}
		s.w.resumeActor(a)
	}
	return false
}

func (s *script) readyFor(a *actor) bool {
	did := false
	for _, f := range s.w.connsSnapshot() {
		s.w.mu.Lock()
		need := f.creator == a && !f.readyClosed && !f.killed
		s.w.mu.Unlock()
		if need {
			s.w.makeReady(f)
			did = true
		}
	}
	return did
}

// toRest resumes a until it is no longer parked at a hook: it is then using a
// connection, blocked inside the pool (pos) or done. With ready=true a
// connection being created for a is made Ready.
func (s *script) toRest(a *actor, ready bool) where {
	for i := 0; i < 60 && a != nil && s.settle(); i++ {
		wh := s.where(a)
		if wh.parked != "" {
			s.w.resumeActor(a)
			continue
		}
		if wh.pos == "creating" && ready && s.readyFor(a) {
			continue
		}
		return wh
	}
	return where{}
}

// step resumes a once (if parked) and settles.
func (s *script) step(a *actor) {
	if a == nil || !s.settle() {
		return
	}
	if s.where(a).parked != "" {
		s.w.resumeActor(a)
		s.settle()
	}
}

// fill starts n callers and drives each into a connection Invoke.
func (s *script) fill(n int) []*actor {
	var out []*actor
	for i := 0; i < n; i++ {
		a := s.call()
		if wh := s.toRest(a, true); wh.use == nil {
			s.mark("fill-failed")
		}
		out = append(out, a)
	}
	return out
}

func (s *script) connOf(a *actor) *fakeConn {
	if a == nil {
		return nil
	}
	s.w.mu.Lock()
	defer s.w.mu.Unlock()
	return a.inInvoke
}

func (s *script) finish(a *actor, res error) {
	if f := s.connOf(a); f != nil && s.settle() {
		s.w.finish(f, res)
		s.settle()
	}
}

func (s *script) kill(f *fakeConn) {
	if f != nil && s.settle() {
		s.w.kill(f)
		s.settle()
	}
}

func (s *script) cancel(a *actor) {
	if a != nil && s.settle() {
		s.w.cancelCaller(a)
		s.settle()
	}
}

func (s *script) ready(f *fakeConn) {
	if f != nil && s.settle() {
		s.w.makeReady(f)
		s.settle()
	}
}

func (s *script) createdBy(a *actor) *fakeConn {
	for _, f := range s.w.connsSnapshot() {
		if f.creator == a {
			return f
		}
	}
	return nil
}

type window struct {
	name string
	run  func(s *script, max int)
	min  int // smallest max the window makes sense for
}

func errVariant(v int) error {
	switch v {
	case 0:
		return nil
	case 1:
		return errFakeRPC
	}
	return pool.ErrConnDead
}

// windows builds the table of scripted fault windows (DESIGN C28 "Monitor").
func windows() []window {
	var ws []window
	add := func(name string, min int, f func(s *script, max int)) {
		ws = append(ws, window{name: name, run: f, min: min})
	}

	// W1: the caller gives up while its new connection is being created.
	for _, at := range []string{"counted-hook", "ready-select"} {
		for _, after := range []string{"ready", "kill"} {
			for _, extra := range []string{"none", "waiter-before", "waiter-after"} {
				at, after, extra := at, after, extra
				add(fmt.Sprintf("cancel-during-create/%s/%s/%s", at, after, extra), 1, func(s *script, max int) {
					s.fill(max - 1)
					a := s.call()
					if !s.toPoint(a, hpCounted) {
						return
					}
					var x *actor
					if extra == "waiter-before" {
						x = s.call()
						s.toRest(x, false)
					}
					if at == "ready-select" {
						s.toRest(a, false)
					}
					s.cancel(a)
					s.toRest(a, false)
					if extra == "waiter-after" {
						x = s.call()
						s.toRest(x, false)
					}
					if f := s.createdBy(a); f != nil {
						if after == "ready" {
							s.ready(f)
						} else {
							s.kill(f)
						}
					}
					if x != nil {
						s.toRest(x, true)
					}
				})
			}
		}
	}

	// W2: a waiter gives up around a hand-over.
	for _, v := range []string{"woken-before-transfer/waiter-first", "woken-before-transfer/transfer-first",
		"during-transfer/waiter-first", "during-transfer/transfer-first", "after-send", "before-release"} {
		for _, extra := range []int{0, 1} {
			v, extra := v, extra
			add(fmt.Sprintf("waiter-cancel/%s/extra%d", v, extra), 1, func(s *script, max int) {
				hs := s.fill(max)
				h := hs[0]
				wt := s.call()
				var x *actor
				switch v {
				case "after-send":
					if !s.toPoint(wt, hpWait) {
						return
					}
					s.finish(h, nil)
					s.toRest(h, true) // full release: connection sits in the waiter's channel
					s.cancel(wt)
					s.toRest(wt, true)
				case "before-release":
					s.toRest(wt, false)
					s.cancel(wt)
					s.toRest(wt, false)
					s.finish(h, nil)
					s.toRest(h, true)
				default:
					s.toRest(wt, false) // in the 3rd-case select
					first := strings.HasSuffix(v, "waiter-first")
					if strings.HasPrefix(v, "woken") {
						s.cancel(wt) // parks at giveup.woken, key still registered
						s.finish(h, nil)
						if !s.toPoint(h, hpTransfer) {
							return
						}
					} else {
						s.finish(h, nil)
						if !s.toPoint(h, hpTransfer) {
							return
						}
						s.cancel(wt)
					}
					if first {
						s.toRest(wt, false)
						s.toRest(h, true)
					} else {
						s.toPoint(wt, hpGiveupDel)
						s.toRest(h, true)
						s.toRest(wt, false)
					}
				}
				if extra == 1 {
					x = s.call()
					s.toRest(x, true)
				}
			})
		}
	}

	// W3: the same hand-over race on the `stuck` wake-up path.
	for _, order := range []string{"waiter-first", "transfer-first"} {
		order := order
		add("stuck-wakeup-during-transfer/"+order, 1, func(s *script, max int) {
			hs := s.fill(max)
			wt := s.call()
			s.toRest(wt, false)
			victim := hs[len(hs)-1]
			s.kill(s.connOf(victim)) // death accounted, stuck fires, waiter parks at stuck.woken
			if s.where(wt).parked != hpStuckWoken {
				return
			}
			s.mark("waiter@stuck.woken")
			s.finish(hs[0], nil)
			if !s.toPoint(hs[0], hpTransfer) {
				return
			}
			if order == "waiter-first" {
				s.toPoint(wt, hpStuckDeleted)
				s.step(wt) // non-blocking receive finds nothing, retry blocks on the pool mutex
				s.toRest(hs[0], true)
				s.toRest(wt, true)
			} else {
				s.toPoint(wt, hpStuckDeleted)
				s.toRest(hs[0], true)
				s.toRest(wt, true)
			}
		})
	}

	// W4: a slot becomes free between waiter registration and its select.
	for _, how := range []string{"run-returns", "invoke-reports-dead"} {
		how := how
		add("death-between-register-and-select/"+how, 1, func(s *script, max int) {
			hs := s.fill(max)
			wt := s.call()
			if !s.toPoint(wt, hpWait) {
				return
			}
			victim := hs[0]
			f := s.connOf(victim)
			s.kill(f)
			if how == "invoke-reports-dead" {
				s.finish(victim, pool.ErrConnDead)
			}
			s.toRest(wt, true)
		})
	}

	// W5: the connection dies while it is being handed over (inherent race; must not alarm).
	for v := 0; v < 3; v++ {
		v := v
		add(fmt.Sprintf("death-during-handover/%s", errName(errVariant(v))), 1, func(s *script, max int) {
			hs := s.fill(max)
			wt := s.call()
			s.toRest(wt, false)
			f := s.connOf(hs[0])
			s.finish(hs[0], nil)
			if !s.toPoint(hs[0], hpTransfer) {
				return
			}
			s.kill(f) // dead() blocks on the pool mutex held by release
			s.toRest(hs[0], true)
			s.toRest(wt, true)
			s.finish(wt, errVariant(v))
			s.toRest(wt, true)
		})
	}

	// W6: the connection dies during its use, the death is accounted, then it is released.
	for v := 0; v < 2; v++ {
		for _, waiter := range []bool{true, false} {
			v, waiter := v, waiter
			add(fmt.Sprintf("release-after-accounted-death/%s/waiter=%v", errName(errVariant(v)), waiter), 1, func(s *script, max int) {
				hs := s.fill(max)
				var wt *actor
				if waiter {
					wt = s.call()
					s.toRest(wt, false)
				}
				s.kill(s.connOf(hs[0]))
				if wt != nil && s.where(wt).parked == hpStuckWoken {
					// woken by stuck: retries, creates its own connection (a slot is free)
					s.toRest(wt, true)
					wt = s.call()
					s.toRest(wt, false)
				}
				s.finish(hs[0], errVariant(v))
				s.toRest(hs[0], true)
				if wt != nil {
					s.toRest(wt, true)
				} else {
					x := s.call()
					s.toRest(x, true)
				}
			})
		}
	}

	// W7: idle connections die; later callers must get fresh ones.
	add("idle-death", 1, func(s *script, max int) {
		hs := s.fill(max)
		var cs []*fakeConn
		for _, h := range hs {
			cs = append(cs, s.connOf(h))
			s.finish(h, nil)
			s.toRest(h, true)
		}
		s.kill(cs[0])
		for i := 0; i < max+1; i++ {
			a := s.call()
			s.toRest(a, true)
		}
	})

	// W8: a caller is cancelled while using a connection, a waiter is present.
	add("cancel-during-use", 1, func(s *script, max int) {
		hs := s.fill(max)
		wt := s.call()
		s.toRest(wt, false)
		s.cancel(hs[0])
		s.toRest(hs[0], true)
		s.toRest(wt, true)
	})

	// W10: a release is queued on the pool mutex behind the death accounting of
	// the connection it releases (the mutex is held meanwhile by another release
	// parked in transfer): whatever release decided before it got the mutex is stale.
	for _, nw := range []int{2, 3} {
		nw := nw
		add(fmt.Sprintf("release-queued-behind-death/waiters%d", nw), 2, func(s *script, max int) {
			hs := s.fill(max)
			var ws []*actor
			for i := 0; i < nw; i++ {
				wt := s.call()
				s.toRest(wt, false)
				ws = append(ws, wt)
			}
			h1, h2 := hs[0], hs[1]
			k1 := s.connOf(h1)
			s.finish(h2, nil)
			if !s.toPoint(h2, hpTransfer) { // h2 now holds the pool mutex
				return
			}
			s.kill(k1)        // Run returns, dead(k1) queues on the pool mutex
			s.finish(h1, nil) // h1 parks at pool.release
			s.step(h1)        // release(k1) runs up to the pool mutex and queues behind dead(k1)
			s.toRest(h2, true)
			for _, wt := range ws {
				s.toRest(wt, true)
			}
			s.toRest(h1, true)
		})
	}

	// W9: pop, then the popped connection dies before the Dead() check.
	add("death-between-pop-and-check", 1, func(s *script, max int) {
		hs := s.fill(max)
		f := s.connOf(hs[0])
		s.finish(hs[0], nil)
		s.toRest(hs[0], true)
		a := s.call()
		if !s.toPoint(a, hpPop) {
			return
		}
		s.kill(f)
		s.toRest(a, true)
	})
	return ws
}
