package main

import (
	"bytes"
	"runtime"
	"strconv"
	"strings"
)

// curGID returns the id of the calling goroutine (parsed from its own stack
// header; the only way to attribute a verifhook.At(point) call, which carries no
// arguments, to an actor).
func curGID() int64 {
	var buf [64]byte
	n := runtime.Stack(buf[:], false)
	// "goroutine 123 [running]:"
	b := buf[:n]
	b = bytes.TrimPrefix(b, []byte("goroutine "))
	i := bytes.IndexByte(b, ' ')
	if i < 0 {
		return -1
	}
	id, err := strconv.ParseInt(string(b[:i]), 10, 64)
	if err != nil {
		return -1
	}
	return id
}

// gInfo is the scheduler state of one goroutine as printed by runtime.Stack.
type gInfo struct {
	id     int64
	status string // e.g. "select", "chan receive", "sync.Mutex.Lock", "running", "runnable"
	td     bool   // a gotd/td frame (or creator) appears in the stack
	stack  string
}

// waitingStatus: the goroutine is parked by the runtime on a synchronisation
// object. A goroutine woken by close/send/unlock is made runnable synchronously
// by the waker, so "all relevant goroutines are in a waiting status" is a stable
// condition, not a timing guess. Plain "semacquire" is NOT in the list: it is the
// runtime-internal wait (a goroutine that wants to start a GC cycle queues on
// the world semaphore that the controller's own runtime.Stack snapshot holds),
// i.e. a transient state caused by the observation itself.
func waitingStatus(s string) bool {
	switch s {
	case "select", "chan receive", "chan send", "select (no cases)",
		"sync.Mutex.Lock", "sync.RWMutex.Lock", "sync.RWMutex.RLock",
		"sync.WaitGroup.Wait", "sync.Cond.Wait",
		"chan receive (nil chan)", "chan send (nil chan)":
		return true
	}
	return false
}

var dumpBuf = make([]byte, 1<<18)

// dumpGoroutines takes a stop-the-world snapshot of all goroutines.
func dumpGoroutines() []gInfo {
	for {
		n := runtime.Stack(dumpBuf, true)
		if n < len(dumpBuf) {
			return parseDump(string(dumpBuf[:n]))
		}
		dumpBuf = make([]byte, 2*len(dumpBuf))
	}
}

func parseDump(s string) []gInfo {
	var out []gInfo
	for _, blk := range strings.Split(s, "\n\n") {
		if !strings.HasPrefix(blk, "goroutine ") {
			continue
		}
		rest := blk[len("goroutine "):]
		sp := strings.IndexByte(rest, ' ')
		if sp < 0 {
			continue
		}
		id, err := strconv.ParseInt(rest[:sp], 10, 64)
		if err != nil {
			continue
		}
		lb := strings.IndexByte(rest, '[')
		rb := strings.IndexByte(rest, ']')
		if lb < 0 || rb < lb {
			continue
		}
		st := rest[lb+1 : rb]
		if c := strings.IndexByte(st, ','); c >= 0 {
			st = st[:c]
		}
		out = append(out, gInfo{
			id:     id,
			status: st,
			td:     strings.Contains(blk, "github.com/gotd/td/"),
			stack:  blk,
		})
	}
	return out
}

// onHarnessLock: the goroutine waits for a mutex of the harness itself (the
// innermost non-runtime frame is harness code). Harness locks are only held for
// a few instructions by a running goroutine, so this is never a stable state.
func (g *gInfo) onHarnessLock() bool {
	if !strings.Contains(g.status, "Mutex") && g.status != "semacquire" {
		return false
	}
	lines := strings.Split(g.stack, "\n")
	for _, ln := range lines[1:] {
		if strings.HasPrefix(ln, "\t") || ln == "" {
			continue
		}
		if strings.HasPrefix(ln, "sync.") || strings.HasPrefix(ln, "internal/sync.") || strings.HasPrefix(ln, "runtime.") || strings.HasPrefix(ln, "internal/") {
			continue
		}
		return strings.HasPrefix(ln, "main.")
	}
	return false
}
