package main

import (
	"fmt"

	"verif/harness/mon"
)

const commonAssume = "Connections are harness fakes behind pool.NewDC's constructor: Run blocks until the schedule kills it, Ready closes on schedule, Invoke returns what the schedule says " +
	"(dead-connection errors only after the kill). Goroutine positions are read from stop-the-world runtime.Stack snapshots: a step is taken only when every goroutine with a gotd/td frame is parked on a synchronisation object."

func runC27(c *mon.Ctx) {
	c.Rule("Randomized controlled schedules of the real pool.DC: 8..30 controller actions (start caller, resume an actor parked at one of 10 verifhook points, finish an Invoke with nil/rpc error/ErrConnDead/ErrEngineClosed, " +
		"make a connection Ready, kill a connection, cancel a caller) for max in {1,2,3,unlimited}, 2..6 callers; plus the scripted fault-window table. Monitors: live fake connections <= max at every construction; " +
		"atomic in-use counter inside each fake (overlapping Invokes); dead hand-out (death accounted by pool.dead.done before the decision chain of the hand-out began); porcupine check of every schedule's " +
		"create/acquire/release/kill history against a resource-allocator model. distinct non-trivial = distinct (max, sequence of released points/actions) signatures with at least one hand-out.")
	c.Assume(commonAssume)
	c.Assume("porcupine v1.3.0 checker; history intervals are boundary events on one logical clock")
	installHook()
	tt := newTotals()
	n := c.N(2400, 40000)
	for i := 0; i < n; i++ {
		if !randomSchedule(c, tt, i, true, 0) {
			break
		}
	}
	// the scripted windows also exercise hand-outs around deaths
	ws := windows()
	for round := 0; round < c.N(1, 20); round++ {
		for wi, win := range ws {
			for max := 1; max <= 3; max++ {
				if max < win.min {
					continue
				}
				if !scripted(c, tt, win, wi, max, round, true) {
					tt.publish(c)
					return
				}
			}
		}
	}
	tt.publish(c)
}

func runC28(c *mon.Ctx) {
	c.Rule("Scripted fault windows (cancel while the new connection is not Ready; waiter gives up before / between map removal and channel send / after the send; the same on the stuck wake-up path; " +
		"death between waiter registration and select, during hand-over, during use, while idle, between pop and Dead check) x max 1..3, plus randomized controlled schedules with quiescence checks every <=10 actions. " +
		"At every quiescent point (no caller inside DC.Invoke, nothing parked, all deaths accounted): callers still blocked in acquire are starved; VerifSnapshot must satisfy total = |live| and every live connection idle in free, " +
		"no waiter entries; then a probe Invoke must be served. distinct non-trivial = distinct window/max or schedule signatures.")
	c.Assume(commonAssume)
	installHook()
	tt := newTotals()
	ws := windows()
	c.Set("scripted_windows", len(ws))
	for round := 0; round < c.N(3, 30); round++ {
		for wi, win := range ws {
			for max := 1; max <= 3; max++ {
				if max < win.min {
					continue
				}
				if !scripted(c, tt, win, wi, max, round, false) {
					tt.publish(c)
					return
				}
			}
		}
	}
	n := c.N(1600, 30000)
	for i := 0; i < n; i++ {
		if !randomSchedule(c, tt, i, false, 10) {
			break
		}
	}
	tt.publish(c)
}

// scripted runs one fault window. Round 0 is the plain window; later rounds
// prepend a few random actions so the window is entered from varied states.
func scripted(c *mon.Ctx, tt *totals, win window, wi, max, round int, lin bool) bool {
	r := c.RandN("script", wi*1000+max*100+round)
	w := newWorld(int64(max), r.Uint64(), 256, true)
	s := &script{w: w}
	params := map[string]any{"mode": "scripted", "window": win.name, "max": max, "round": round}
	if round > 0 {
		for k := 0; k < 1+r.IntN(4) && s.settle(); k++ {
			acts := w.enabled(3, 6)
			if len(acts) == 0 {
				break
			}
			w.do(pickAction(r, acts))
		}
		// leave no connection in use by the preamble: the windows fill the pool themselves
		if !w.drain(r) {
			s.bad = true
		}
		for _, a := range w.activeCallers() {
			w.cancelCaller(a)
		}
		if !w.drain(r) {
			s.bad = true
		}
	}
	if !s.bad {
		win.run(s, max)
	}
	ok := !s.bad
	if ok {
		ok = w.quiesce(r, true)
	}
	params["reached"] = s.reached
	key := fmt.Sprintf("window:%s/max%d", win.name, max)
	if round > 0 {
		key += fmt.Sprintf("/pre%d", len(w.actions)%7)
	}
	return finishWorld(c, tt, w, lin, params, key) && ok
}
