package main

import (
	"math"
	"math/rand/v2"
	"reflect"

	"github.com/gotd/td/bin"
)

// genStats records what a generated value contains (for the non-triviality rule).
type genStats struct {
	optionalSet int // conditional fields given a non-zero value
	ifaces      int // class-typed (interface) fields or vector elements filled
	vectors     int // non-empty vectors
	depth       int // deepest nesting reached
	generic     int // generic !X fields filled
}

type generator struct {
	reg *registry
	rnd *rand.Rand
	st  genStats
	// full: every conditional field present and every vector non-empty while the budget lasts.
	full bool
	// zero: deterministic minimal value: scalars zero, strings empty, vectors empty, conditional
	// fields absent, required class fields filled with the shallowest constructor (no randomness).
	zero bool
}

var (
	int32Pool = []int{0, 1, -1, 2, 127, 128, 255, 256, 65535, 65536, math.MaxInt32, math.MinInt32, math.MaxInt32 - 1, math.MinInt32 + 1,
		0x1cb5c415, 1023, 1024, 1025}
	int64Pool = []int64{0, 1, -1, math.MaxInt64, math.MinInt64, math.MaxInt32, math.MinInt32, 1 << 32, -(1 << 32), 1<<53 - 1, 1 << 53, -(1 << 53)}
	f64Pool   = []float64{0, math.Copysign(0, -1), 1, -1, math.Inf(1), math.Inf(-1), math.MaxFloat64, math.SmallestNonzeroFloat64, math.Pi,
		math.Float64frombits(0x7ff8000000000001), math.Float64frombits(0x7ff0000000000001), math.Float64frombits(0xfff8000000000000)}
	strLens = []int{0, 0, 1, 2, 3, 4, 5, 7, 8, 15, 16, 252, 253, 254, 255, 256, 257, 300, 1000}
)

func (g *generator) intn(n int) int { return g.rnd.IntN(n) }

func (g *generator) genInt32() int {
	if g.intn(3) == 0 {
		return int32Pool[g.intn(len(int32Pool))]
	}
	return int(int32(g.rnd.Uint32()))
}

func (g *generator) genInt64() int64 {
	if g.intn(3) == 0 {
		return int64Pool[g.intn(len(int64Pool))]
	}
	return int64(g.rnd.Uint64())
}

func (g *generator) genBytes() []byte {
	var n int
	if g.intn(4) == 0 {
		n = strLens[g.intn(len(strLens))]
	} else {
		n = g.intn(24)
	}
	b := make([]byte, n)
	for i := range b {
		b[i] = byte(g.rnd.Uint32())
	}
	return b
}

func (g *generator) genString() string {
	b := g.genBytes()
	if g.intn(2) == 0 {
		// mostly printable, so that samples stay readable; raw bytes otherwise
		for i := range b {
			b[i] = 'a' + b[i]%26
		}
	}
	return string(b)
}

// value generates a value of constructor c into a fresh object. budget is the
// remaining nesting depth; when it is exhausted only required fields are filled
// with the shallowest constructors.
func (g *generator) value(c *ctor, budget, depth int) bin.Object {
	obj := c.newObj()
	g.fillStruct(c, reflect.ValueOf(obj).Elem(), budget, depth)
	return obj
}

func (g *generator) fillStruct(c *ctor, v reflect.Value, budget, depth int) {
	if depth > g.st.depth {
		g.st.depth = depth
	}
	var present map[string]bool // flag bit -> fields guarded by it are present (decided once per bit)
	for i := 0; i < v.NumField(); i++ {
		sf := c.typ.Field(i)
		if sf.Type == tFields {
			continue // flag words are derived by the generated SetFlags during Encode
		}
		opt := c.optional[sf.Name]
		f := v.Field(i)
		if opt {
			// absent with probability ~1/2, always absent when the budget is exhausted;
			// fields that share a flag bit are present or absent together (a canonical value)
			if budget <= 0 || g.zero {
				continue
			}
			key := c.group[sf.Name]
			p, ok := present[key]
			if !ok {
				p = g.full || g.intn(2) == 0
				if present == nil {
					present = map[string]bool{}
				}
				present[key] = p
			}
			if !p {
				continue
			}
			if sf.Type.Kind() == reflect.Bool {
				f.SetBool(true)
				g.st.optionalSet++
				continue
			}
		}
		g.fill(c, f, budget, depth)
		if opt && !f.IsZero() {
			g.st.optionalSet++
		}
	}
}

func (g *generator) fill(c *ctor, f reflect.Value, budget, depth int) {
	t := f.Type()
	if g.zero {
		switch t.Kind() {
		case reflect.Struct:
			g.fillStruct(g.reg.byType[t], f, 0, depth+1)
		case reflect.Interface:
			var pick *ctor
			if t == tObject {
				pick = g.reg.shallowest(g.reg.ctorsOf(c.pkg))
			} else {
				pick = g.reg.shallowest(g.reg.implementors(t, c.pkg))
			}
			f.Set(reflect.ValueOf(g.value(pick, 0, depth+1)))
		}
		return
	}
	switch {
	case t == tBytes:
		f.SetBytes(g.genBytes())
		return
	case t == tInt128, t == tInt256:
		for i := 0; i < f.Len(); i++ {
			f.Index(i).SetUint(uint64(g.rnd.Uint32() & 0xff))
		}
		return
	}
	switch t.Kind() {
	case reflect.Bool:
		f.SetBool(g.intn(2) == 0)
	case reflect.Int:
		f.SetInt(int64(g.genInt32()))
	case reflect.Int32:
		f.SetInt(int64(int32(g.genInt32())))
	case reflect.Int64:
		f.SetInt(g.genInt64())
	case reflect.Float64:
		if g.intn(2) == 0 {
			f.SetFloat(f64Pool[g.intn(len(f64Pool))])
		} else {
			f.SetFloat(math.Float64frombits(g.rnd.Uint64()))
		}
	case reflect.String:
		f.SetString(g.genString())
	case reflect.Slice:
		n := 0
		if budget > 0 {
			n = g.intn(4)
			if g.full && n == 0 {
				n = 1 + g.intn(3)
			}
		}
		if n == 0 {
			if g.intn(2) == 0 {
				f.Set(reflect.MakeSlice(t, 0, 0)) // empty but non-nil: must behave like nil
			}
			return
		}
		s := reflect.MakeSlice(t, n, n)
		for i := 0; i < n; i++ {
			g.fill(c, s.Index(i), budget, depth)
		}
		f.Set(s)
		g.st.vectors++
	case reflect.Struct:
		g.fillStruct(g.reg.byType[t], f, budget-1, depth+1)
	case reflect.Interface:
		var cands []*ctor
		if t == tObject {
			g.st.generic++
			cands = g.reg.ctors[:0:0]
			ids := g.reg.ids[c.pkg]
			// a handful of random constructors of the package
			for k := 0; k < 4; k++ {
				cands = append(cands, g.reg.byID[c.pkg][ids[g.intn(len(ids))]])
			}
		} else {
			g.st.ifaces++
			cands = g.reg.implementors(t, c.pkg)
		}
		pick := g.pick(cands, budget-1)
		f.Set(reflect.ValueOf(g.value(pick, budget-1, depth+1)))
	default:
		panic("tlmon generator: unsupported type " + t.String())
	}
}

// pick chooses a random candidate that fits the budget, or the shallowest one.
func (g *generator) pick(cands []*ctor, budget int) *ctor {
	fit := 0
	for _, c := range cands {
		if c.minDepth <= budget {
			fit++
		}
	}
	if fit > 0 {
		k := g.intn(fit)
		for _, c := range cands {
			if c.minDepth <= budget {
				if k == 0 {
					return c
				}
				k--
			}
		}
	}
	return g.reg.shallowest(cands)
}

// shallowest returns the first candidate of least minimal depth.
func (r *registry) shallowest(cands []*ctor) *ctor {
	best := cands[0]
	for _, c := range cands {
		if c.minDepth < best.minDepth {
			best = c
		}
	}
	return best
}

func (r *registry) ctorsOf(pkg int) []*ctor {
	var out []*ctor
	for _, c := range r.ctors {
		if c.pkg == pkg {
			out = append(out, c)
		}
	}
	return out
}

// skeleton returns a fresh object of the same constructor as v, as the type
// map would create it, with generic (!X) fields pre-set to fresh objects of the
// same dynamic type (the documented way to decode a request wrapper: the caller
// supplies the inner query object).
func (r *registry) skeleton(v bin.Object) bin.Object {
	rv := reflect.ValueOf(v).Elem()
	c := r.byType[rv.Type()]
	out := c.newObj()
	ov := reflect.ValueOf(out).Elem()
	for _, i := range c.generic {
		inner := rv.Field(i)
		if inner.IsNil() {
			continue
		}
		ov.Field(i).Set(reflect.ValueOf(r.skeleton(inner.Interface().(bin.Object))))
	}
	return out
}

// genericChain lists the constructor ids needed to rebuild skeleton(v) elsewhere
// (only single generic field per constructor occurs in the schemas; checked by the caller).
func (r *registry) genericChain(v bin.Object) []uint32 {
	var chain []uint32
	for {
		rv := reflect.ValueOf(v).Elem()
		c := r.byType[rv.Type()]
		if len(c.generic) == 0 {
			return chain
		}
		inner := rv.Field(c.generic[0])
		if inner.IsNil() {
			return chain
		}
		v = inner.Interface().(bin.Object)
		chain = append(chain, r.byType[reflect.ValueOf(v).Elem().Type()].id)
	}
}

// fromChain builds the decode target for constructor c with the generic chain.
func (r *registry) fromChain(c *ctor, chain []uint32) bin.Object {
	obj := c.newObj()
	cur, curC := obj, c
	for _, id := range chain {
		if len(curC.generic) == 0 {
			break
		}
		nc := r.byID[c.pkg][id]
		if nc == nil {
			break
		}
		inner := nc.newObj()
		reflect.ValueOf(cur).Elem().Field(curC.generic[0]).Set(reflect.ValueOf(inner))
		cur, curC = inner, nc
	}
	return obj
}
