package main

import (
	"bytes"
	"encoding/binary"
	"encoding/json"
	"fmt"
	"math/rand/v2"
	"reflect"
	"runtime/metrics"
	"strings"
	"sync"
	"time"

	"github.com/gotd/td/bin"

	"verif/harness/mon"
)

const vectorID = 0x1cb5c415

// hostile input wire format handed to the child:
//   pkg u8 | ctor id u32 | prefill u8 | nchain u8 | chain ids u32... | payload
// prefill=1: generic (!X) fields of the target are pre-set following chain (the
// documented way to decode request wrappers); prefill=0: the object exactly as the
// type map creates it.

type hostileCase struct {
	c       *ctor
	class   string
	prefill bool
	chain   []uint32
	payload []byte
}

func (h hostileCase) encode() []byte {
	out := make([]byte, 0, 8+4*len(h.chain)+len(h.payload))
	out = append(out, byte(h.c.pkg))
	out = binary.LittleEndian.AppendUint32(out, h.c.id)
	if h.prefill {
		out = append(out, 1)
	} else {
		out = append(out, 0)
	}
	out = append(out, byte(len(h.chain)))
	for _, id := range h.chain {
		out = binary.LittleEndian.AppendUint32(out, id)
	}
	return append(out, h.payload...)
}

// hostileResult is what the child reports per input.
type hostileResult struct {
	Err    int    `json:"e"`           // 1: Decode returned an error
	Alloc  uint64 `json:"a"`           // bytes allocated during Decode
	Stab   string `json:"s,omitempty"` // "" ok / not applicable, otherwise the failed stability oracle
	Detail string `json:"d,omitempty"`
}

var allocSample = []metrics.Sample{{Name: "/gc/heap/allocs:bytes"}}

func allocCounter() uint64 {
	metrics.Read(allocSample)
	return allocSample[0].Value.Uint64()
}

var (
	childRegOnce sync.Once
	childReg     *registry
)

func getChildReg() *registry {
	childRegOnce.Do(func() {
		r, err := buildRegistry(false)
		if err != nil {
			panic("tlmon child: " + err.Error())
		}
		childReg = r
	})
	return childReg
}

func init() {
	mon.RegisterBatch("hostile", func(in []byte) any {
		reg := getChildReg()
		pkg := int(in[0])
		id := binary.LittleEndian.Uint32(in[1:])
		prefill := in[5] == 1
		n := int(in[6])
		chain := make([]uint32, n)
		for i := range chain {
			chain[i] = binary.LittleEndian.Uint32(in[7+4*i:])
		}
		payload := in[7+4*n:]
		c := reg.byID[pkg][id]
		mk := func() bin.Object {
			if prefill {
				return reg.fromChain(c, chain)
			}
			return c.newObj()
		}
		obj := mk()
		buf := &bin.Buffer{Buf: payload}
		var err error
		// no recover: a panic must kill the child exactly as it would kill a caller.
		// Allocation: cheap runtime/metrics screening (may be off by a few hundred KiB of
		// not yet flushed small-object spans, large objects are exact); anything above
		// 1 MiB is measured again with the exact stop-the-world meter on a fresh object.
		a0 := allocCounter()
		err = obj.Decode(buf)
		alloc := allocCounter() - a0
		if alloc > 1<<20 {
			obj2 := mk()
			buf2 := &bin.Buffer{Buf: payload}
			alloc, _ = mon.MeasureAlloc(func() { _ = obj2.Decode(buf2) })
		}
		res := hostileResult{Alloc: alloc}
		if err != nil {
			res.Err = 1
			return res
		}
		// A successfully decoded value is a value of the constructor: it must survive
		// Encode -> Decode unchanged and its encoding must be a fixed point.
		var e1 bin.Buffer
		if err := obj.Encode(&e1); err != nil {
			res.Stab, res.Detail = "encode-error", err.Error()
			return res
		}
		obj2 := mk()
		b2 := &bin.Buffer{Buf: append([]byte(nil), e1.Buf...)}
		if err := obj2.Decode(b2); err != nil {
			res.Stab, res.Detail = "redecode-error", err.Error()
			return res
		}
		if b2.Len() != 0 {
			res.Stab, res.Detail = "leftover-bytes", fmt.Sprint(b2.Len())
			return res
		}
		normalizeFlags(reflect.ValueOf(obj))
		normalizeFlags(reflect.ValueOf(obj2))
		if d := structEq(reflect.ValueOf(obj), reflect.ValueOf(obj2), c.name); d != "" {
			res.Stab, res.Detail = "value-mismatch", d
			return res
		}
		var e2 bin.Buffer
		if err := obj2.Encode(&e2); err != nil {
			res.Stab, res.Detail = "reencode-error", err.Error()
			return res
		}
		if !bytes.Equal(e1.Buf, e2.Buf) {
			res.Stab, res.Detail = "reencode-mismatch", ""
		}
		return res
	})
}

// mutator derives hostile inputs from a valid encoding.
type mutator struct {
	reg *registry
	rnd *rand.Rand
	pkg int
}

func (m *mutator) randBytes(n int) []byte {
	b := make([]byte, n)
	for i := range b {
		b[i] = byte(m.rnd.Uint32())
	}
	return b
}

func put32(b []byte, off int, v uint32) []byte {
	out := append([]byte(nil), b...)
	binary.LittleEndian.PutUint32(out[off:], v)
	return out
}

type mutant struct {
	class string
	data  []byte
}

// mutants returns up to k hostile variants of the valid encoding e, spread over the classes.
func (m *mutator) mutants(e []byte, k int) []mutant {
	var countOff, flagOff, idOff []int
	for off := 0; off+4 <= len(e); off += 4 {
		w := binary.LittleEndian.Uint32(e[off:])
		if w == vectorID && off+8 <= len(e) {
			countOff = append(countOff, off+4)
		}
		if c := m.reg.byID[m.pkg][w]; c != nil {
			idOff = append(idOff, off)
			if c.flagsAt0 && off+8 <= len(e) {
				flagOff = append(flagOff, off+4)
			}
		}
	}
	per := k / 7
	if per < 1 {
		per = 1
	}
	var out []mutant
	add := func(class string, d []byte) { out = append(out, mutant{class, d}) }

	// truncation at 4-byte boundaries (all of them if they fit, else a sample incl. both ends)
	bounds := len(e) / 4
	if bounds <= 2*per {
		for i := 0; i < bounds; i++ {
			add("trunc", e[:4*i])
		}
	} else {
		add("trunc", e[:0])
		add("trunc", e[:4])
		add("trunc", e[:len(e)-4])
		for i := 3; i < 2*per; i++ {
			add("trunc", e[:4*m.rnd.IntN(bounds)])
		}
	}
	// vector counts
	counts := []uint32{0x7fffffff, 0xffffffff, 0x01000000, 0x00100000, 1023, 1024, 1025, 0x80000000}
	for i := 0; i < per && len(countOff) > 0; i++ {
		off := countOff[m.rnd.IntN(len(countOff))]
		old := binary.LittleEndian.Uint32(e[off:])
		var v uint32
		switch r := m.rnd.IntN(len(counts) + 3); {
		case r < len(counts):
			v = counts[r]
		case r == len(counts):
			v = old + 1
		case r == len(counts)+1:
			v = old - 1
		default:
			v = old ^ 1<<uint(m.rnd.IntN(32))
		}
		add("count", put32(e, off, v))
	}
	// flag words
	for i := 0; i < per && len(flagOff) > 0; i++ {
		off := flagOff[m.rnd.IntN(len(flagOff))]
		old := binary.LittleEndian.Uint32(e[off:])
		var v uint32
		switch m.rnd.IntN(6) {
		case 0:
			v = 0xffffffff
		case 1:
			v = 0
		default:
			v = old
			for n := 1 + m.rnd.IntN(3); n > 0; n-- {
				v ^= 1 << uint(m.rnd.IntN(32))
			}
		}
		add("flags", put32(e, off, v))
	}
	// constructor ids replaced by other valid ids
	ids := m.reg.ids[m.pkg]
	for i := 0; i < per && len(idOff) > 0; i++ {
		off := idOff[m.rnd.IntN(len(idOff))]
		cur := m.reg.byID[m.pkg][binary.LittleEndian.Uint32(e[off:])]
		var v uint32
		sib := m.reg.siblings(cur)
		switch r := m.rnd.IntN(8); {
		case r < 4 && len(sib) > 0:
			v = sib[m.rnd.IntN(len(sib))].id
		case r == 7:
			v = vectorID
		case r == 6:
			v = m.rnd.Uint32()
		default:
			v = ids[m.rnd.IntN(len(ids))]
		}
		add("id", put32(e, off, v))
	}
	// random tails
	for i := 0; i < per; i++ {
		switch m.rnd.IntN(3) {
		case 0:
			add("tail", append(append([]byte(nil), e...), m.randBytes(1+m.rnd.IntN(64))...))
		case 1:
			cut := 4 * m.rnd.IntN(len(e)/4+1)
			add("tail", append(append([]byte(nil), e[:cut]...), m.randBytes(len(e)-cut)...))
		default:
			cut := 4 * m.rnd.IntN(len(e)/4+1)
			add("tail", append(append([]byte(nil), e[:cut]...), m.randBytes(m.rnd.IntN(96))...))
		}
	}
	// random bit flips anywhere
	for i := 0; i < per && len(e) > 0; i++ {
		d := append([]byte(nil), e...)
		for n := 1 + m.rnd.IntN(4); n > 0; n-- {
			d[m.rnd.IntN(len(d))] ^= 1 << uint(m.rnd.IntN(8))
		}
		add("bitflip", d)
	}
	// id followed by random bytes
	for len(out) < k {
		add("random", append(append([]byte(nil), e[:4]...), m.randBytes(m.rnd.IntN(80))...))
	}
	return out
}

// siblings: the other constructors of every class c belongs to.
func (r *registry) siblings(c *ctor) []*ctor {
	r.sibOnce.Do(func() {
		r.sib = map[*ctor][]*ctor{}
		r.mu.Lock()
		defer r.mu.Unlock()
		for k, impl := range r.impls {
			if k.t == tObject {
				continue
			}
			for _, a := range impl {
				for _, b := range impl {
					if a != b {
						r.sib[a] = append(r.sib[a], b)
					}
				}
			}
		}
		for _, l := range r.sib {
			sortCtors(l)
		}
	})
	return r.sib[c]
}

// allocBound is the most a decode of input may allocate: 64 bytes per input byte,
// one capped preallocation (PreallocateLimit elements of the largest element type)
// per vector header that can be present in the input, and 4 MiB of slack.
func (r *registry) allocBound(input []byte, bareVectors bool) uint64 {
	nvec := uint64(bytes.Count(input, []byte{0x15, 0xc4, 0xb5, 0x1c})) + 1
	if bareVectors {
		nvec += uint64(len(input) / 4)
	}
	return 64*uint64(len(input)) + nvec*uint64(bin.PreallocateLimit)*uint64(r.maxElemSize) + 4<<20
}

// bareVectorTypes: constructors whose DecodeBare reads a bare vector (count without
// the vector id). Reflection cannot see this; the four types are listed here and
// cross-checked against the generated sources when VERIF_REPO_DIR is readable.
var bareVectorTypes = map[string]bool{"tg.AccessPointRule": true, "tg.HelpConfigSimple": true, "mt.MsgContainer": true, "mt.FutureSalts": true}

// reachesBareVector reports whether decoding c can reach a bare vector.
func (r *registry) reachesBareVector(c *ctor) bool {
	r.bareOnce.Do(func() {
		r.bare = map[*ctor]bool{}
		// backwards closure over the edge relation
		for changed := true; changed; {
			changed = false
			for _, x := range r.ctors {
				if r.bare[x] {
					continue
				}
				if bareVectorTypes[x.name] {
					r.bare[x], changed = true, true
					continue
				}
				for _, e := range r.edges(x) {
					if r.bare[e.to] {
						r.bare[x], changed = true, true
						break
					}
				}
			}
		}
	})
	return r.bare[c] || len(c.generic) > 0
}

// runHostile: per constructor nbase valid encodings, k mutants each, decoded in child processes.
func runHostile(c *mon.Ctx, reg *registry, nbase, k, parallel int) {
	var cases []hostileCase
	for _, ct := range reg.ctors {
		for b := 0; b < nbase; b++ {
			g := &generator{reg: reg, rnd: c.RandN("hostile-base/"+ct.name, b), full: b == 0}
			v := g.value(ct, 2+b%3, 0)
			var enc bin.Buffer
			if err := v.Encode(&enc); err != nil {
				continue // reported by the round-trip arm
			}
			chain := reg.genericChain(v)
			m := &mutator{reg: reg, rnd: c.RandN("hostile-mut/"+ct.name, b), pkg: ct.pkg}
			if len(ct.generic) > 0 && b == 0 {
				// the object exactly as the type map creates it, fed its own valid encoding
				cases = append(cases, hostileCase{c: ct, class: "valid-tmap-object", prefill: false, payload: append([]byte(nil), enc.Buf...)})
			}
			cases = append(cases, hostileCase{c: ct, class: "valid", prefill: true, chain: chain, payload: append([]byte(nil), enc.Buf...)})
			for _, mu := range m.mutants(enc.Buf, k/nbase) {
				cases = append(cases, hostileCase{c: ct, class: mu.class, prefill: true, chain: chain, payload: mu.data})
			}
		}
	}
	// split into batches of consecutive cases
	const batchSize = 18000
	type batch struct {
		name  string
		cases []hostileCase
	}
	var batches []batch
	for i := 0; i < len(cases); i += batchSize {
		j := i + batchSize
		if j > len(cases) {
			j = len(cases)
		}
		batches = append(batches, batch{fmt.Sprintf("hostile-%03d", len(batches)), cases[i:j]})
	}
	c.Set("hostile_inputs", int64(len(cases)))
	c.Set("hostile_batches", int64(len(batches)))

	var mu sync.Mutex
	classCount := map[string]int64{}
	var decodedOK, errored, maxAlloc int64
	var maxAllocRatio float64
	sem := make(chan struct{}, parallel)
	var wg sync.WaitGroup
	for _, bt := range batches {
		wg.Add(1)
		sem <- struct{}{}
		go func(bt batch) {
			defer wg.Done()
			defer func() { <-sem }()
			inputs := make([][]byte, len(bt.cases))
			for i, hc := range bt.cases {
				inputs[i] = hc.encode()
			}
			outs := mon.RunBatch(c, "hostile", bt.name, inputs, mon.BatchOpts{MemLimitMB: 2048, MaxProcs: 1, Timeout: 15 * time.Minute})
			if len(outs) != len(inputs) {
				return
			}
			clean := true
			for i, o := range outs {
				hc := bt.cases[i]
				c.Eval(1)
				w := func() map[string]any {
					return map[string]any{"constructor": hc.c.name, "id": fmt.Sprintf("%08x", hc.c.id), "mutation": hc.class, "prefilled_generic_chain": hc.chain,
						"tmap_object": !hc.prefill, "input": hx(hc.payload), "input_len": len(hc.payload), "batch": bt.name, "index": i}
				}
				if o.Class == "missing" {
					clean = false
					continue
				}
				if o.Class != "ok" {
					clean = false
					wit := w()
					wit["stderr"] = o.Stderr
					sig := o.Class + "|decode|" + hc.c.name
					if !hc.prefill && len(hc.c.generic) > 0 && strings.Contains(o.Stderr, "nil pointer dereference") {
						// one defect class: generic field decoded through a nil bin.Object
						sig = "panic|decode|nil-generic-field"
					}
					c.Violate(sig, wit)
					c.Distinct("hostile:" + hc.class + ":" + o.Class)
					continue
				}
				var r hostileResult
				if err := json.Unmarshal(o.Result, &r); err != nil {
					c.Inconclusive("hostile: bad child result: " + err.Error())
					continue
				}
				bound := reg.allocBound(hc.payload, reg.reachesBareVector(hc.c))
				mu.Lock()
				classCount[hc.class]++
				if r.Err == 1 {
					errored++
				} else {
					decodedOK++
				}
				if int64(r.Alloc) > maxAlloc {
					maxAlloc = int64(r.Alloc)
				}
				if ratio := float64(r.Alloc) / float64(bound); ratio > maxAllocRatio {
					maxAllocRatio = ratio
				}
				mu.Unlock()
				outcome := "decoded"
				if r.Err == 1 {
					outcome = "error"
				}
				c.Distinct("hostile:" + hc.class + ":" + outcome + ":" + pkgNames[hc.c.pkg])
				if r.Alloc > bound {
					clean = false
					wit := w()
					wit["allocated"], wit["bound"] = r.Alloc, bound
					c.Violate("overalloc|decode|"+hc.c.name, wit)
				}
				if r.Stab != "" {
					clean = false
					wit := w()
					wit["detail"] = r.Detail
					name := hc.c.name
					if strings.HasSuffix(r.Stab, "-error") {
						name = innermostCtor(reg, hc.c.pkg, r.Detail, name)
					}
					c.Violate("decoded-value-unstable|"+r.Stab+"|"+name, wit)
				}
				if hc.class == "valid" && r.Err == 1 {
					// the round-trip arm reports this defect with the value; only counted here
					c.Add("hostile_valid_controls_rejected", 1)
				}
				if i%3001 == 0 && r.Err == 1 && hc.class != "valid" {
					c.Sample("hostile", map[string]any{"constructor": hc.c.name, "mutation": hc.class, "input_len": len(hc.payload), "outcome": outcome, "allocated": r.Alloc})
				}
			}
			if clean {
				cleanupBatch(c, bt.name)
			}
			for i := range bt.cases {
				bt.cases[i].payload, bt.cases[i].chain = nil, nil // release (bt.cases aliases the big case list)
			}
		}(bt)
	}
	wg.Wait()
	c.Set("hostile_by_mutation", classCount)
	c.Set("hostile_decoded_ok", decodedOK)
	c.Set("hostile_rejected", errored)
	c.Set("hostile_max_alloc_bytes", maxAlloc)
	c.Set("hostile_max_alloc_over_bound", fmt.Sprintf("%.4f", maxAllocRatio))
}
