// Engine tlmon: runtime monitors for the generated TL codecs (C21).
package main

import (
	"verif/harness/mon"
)

func main() {
	mon.Main("tlmon", map[string]mon.PropFunc{
		"C21": runC21,
	})
}
