package main

import (
	"bufio"
	"os"
	"path/filepath"
	"regexp"
	"sort"
	"strings"

	"verif/harness/mon"
)

// cleanupBatch removes the (large) input and result files of a batch that produced no finding.
func cleanupBatch(c *mon.Ctx, name string) {
	os.RemoveAll(filepath.Join(c.Out, "batch-"+name))
}

var reDecodeBare = regexp.MustCompile(`^func \(\w+ \*(\w+)\) DecodeBare\(`)

// scanBareVectorTypes lists, from the generated sources, the types whose DecodeBare
// reads a bare vector header (b.Int() instead of b.VectorHeader()).
func scanBareVectorTypes(repo string) ([]string, error) {
	var out []string
	for pkg, dir := range map[string]string{"tg": "tg", "mt": "mt", "e2e": "tg/e2e"} {
		files, err := filepath.Glob(filepath.Join(repo, dir, "tl_*_gen.go"))
		if err != nil || len(files) == 0 {
			return nil, os.ErrNotExist
		}
		for _, fn := range files {
			f, err := os.Open(fn)
			if err != nil {
				return nil, err
			}
			sc := bufio.NewScanner(f)
			sc.Buffer(make([]byte, 1<<20), 1<<24)
			cur := ""
			for sc.Scan() {
				line := sc.Text()
				if m := reDecodeBare.FindStringSubmatch(line); m != nil {
					cur = m[1]
				}
				if strings.Contains(line, "headerLen, err := b.Int()") && cur != "" {
					out = append(out, pkg+"."+cur)
				}
			}
			f.Close()
		}
	}
	sort.Strings(out)
	return out, nil
}
