package main

import (
	"bufio"
	"os"
	"path/filepath"
	"regexp"
	"sort"
	"strconv"
	"strings"

	"verif/harness/mon"
)

// cleanupBatch removes the (large) input and result files of a batch that produced no finding.
func cleanupBatch(c *mon.Ctx, name string) {
	os.RemoveAll(filepath.Join(c.Out, "batch-"+name))
}

var reTypeID = regexp.MustCompile(`#([0-9a-f]{1,8})\b`)

// innermostCtor names the innermost constructor mentioned in a generated error chain
// ("unable to decode a#1: field x: unable to decode b#2: ..." -> b), so that one defect
// gets one signature no matter which outer constructor happened to carry the value.
func innermostCtor(reg *registry, pkg int, errText, fallback string) string {
	name := fallback
	for _, m := range reTypeID.FindAllStringSubmatch(errText, -1) {
		id, err := strconv.ParseUint(m[1], 16, 32)
		if err != nil {
			continue
		}
		if c := reg.byID[pkg][uint32(id)]; c != nil {
			name = c.name
		}
	}
	return name
}

var reDecodeBare = regexp.MustCompile(`^func \(\w+ \*(\w+)\) DecodeBare\(`)

// scanBareVectorTypes lists, from the generated sources, the types whose DecodeBare
// reads a bare vector header (b.Int() instead of b.VectorHeader()).
func scanBareVectorTypes(repo string) ([]string, error) {
	var out []string
	for pkg, dir := range map[string]string{"tg": "tg", "mt": "mt", "e2e": "tg/e2e"} {
		files, err := filepath.Glob(filepath.Join(repo, dir, "tl_*_gen.go"))
		if err != nil || len(files) == 0 {
			return nil, os.ErrNotExist
		}
		for _, fn := range files {
			f, err := os.Open(fn)
			if err != nil {
				return nil, err
			}
			sc := bufio.NewScanner(f)
			sc.Buffer(make([]byte, 1<<20), 1<<24)
			cur := ""
			for sc.Scan() {
				line := sc.Text()
				if m := reDecodeBare.FindStringSubmatch(line); m != nil {
					cur = m[1]
				}
				if strings.Contains(line, "headerLen, err := b.Int()") && cur != "" {
					out = append(out, pkg+"."+cur)
				}
			}
			f.Close()
		}
	}
	sort.Strings(out)
	return out, nil
}
