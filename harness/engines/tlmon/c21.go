package main

import (
	"fmt"
	"os"
	"sync"
	"time"

	"verif/harness/mon"
)

func runC21(c *mon.Ctx) {
	reg, err := buildRegistry(true)
	if err != nil {
		c.Inconclusive("registry: " + err.Error())
		return
	}
	for _, ct := range reg.ctors {
		if len(ct.generic) > 1 {
			c.Inconclusive("constructor with more than one generic field: " + ct.name)
			return
		}
	}
	n := [3]int{}
	for _, ct := range reg.ctors {
		n[ct.pkg]++
	}
	c.Set("constructors", map[string]int{"tg": n[0], "mt": n[1], "e2e": n[2], "total": len(reg.ctors)})
	c.Set("largest_vector_element_bytes", int64(reg.maxElemSize))
	c.Exhaustive(false)
	c.Rule("ALL constructors of tg/mt/e2e TypesConstructorMap() are enumerated (2600 on this tree). " +
		"(1) round trip, in process: per constructor N values from a reflection generator (value 0 has every conditional field present and every vector non-empty; " +
		"the others choose per flag bit, scalars from boundary+random pools, strings/bytes incl. empty and 253/254/255-byte lengths, vectors of 0..3, class fields filled " +
		"with any implementing constructor, nesting budget 1..4); oracles: Encode ok, Decode ok into the object the type map creates, all bytes consumed, structural equality " +
		"(nil==empty slice, doubles by bits, flag words after SetFlags), re-encode byte-identical, and the same value encoded into dirty reused buffers (backing array full of 0xAA, " +
		"after Reset() and after bin.Pool Put/Get) gives the same bytes as into a fresh buffer. " +
		"(2) hostile, in child processes: per constructor the valid encoding and K mutants (truncation at 4-byte boundaries, vector counts 2^31-1/-1/2^24/1023..1025/+-1, " +
		"flag-word bit flips, ids replaced by sibling/other/vector/random ids, random tails, bit flips, id+random bytes); oracles: the child survives, allocation <= " +
		"64*len + (vector headers in input+1)*PreallocateLimit*largest element + 4 MiB, and a successfully decoded mutant must itself round-trip (Encode/Decode fixed point). " +
		"(3) recursion: every cycle of the constructor graph found by reflection gets a wire template prefix^n leaf suffix^n (verified against the real encoder at 3 levels): " +
		"valid nestings of 10^3..4*10^6 levels raw and inside proto.GZIP in a child with the default 1 GB stack limit, truncated nestings (error travels up n levels) and nestings whose " +
		"vector counts all claim 1023 elements, with the allocation meter. A crash counts only if the input fits what a peer can deliver (16 MiB frame minus envelope raw, <10 MiB after gunzip). " +
		"distinct non-trivial = constructors whose generated value had at least one conditional field set and one class-typed field filled, plus (mutation class, outcome, package) and (bomb kind, family, outcome).")
	c.Assume("reflection view of the generated structs is faithful: conditional fields are those that TypeInfo() reports Null on the zero value; fields sharing a flag bit are present together in a canonical value")
	c.Assume("an optional double equal to -0.0 is 'absent' by the generated zero test (== 0); -0/+0 are therefore not distinguished by the structural comparer (the byte-identity oracle still sees required doubles)")
	c.Assume("generic !X fields (bin.Object) must be pre-set by the caller before Decode; the harness pre-sets them except in the dedicated tmap-object cases")
	c.Assume("peer limits: proto/codec maxMessageSize 1<<24, proto.GZIP output < 10 MiB; envelope allowance 256 bytes")
	if repo := os.Getenv("VERIF_REPO_DIR"); repo != "" {
		if got, err := scanBareVectorTypes(repo); err == nil {
			for _, name := range got {
				if !bareVectorTypes[name] {
					c.Inconclusive("bare vector in a type the allocation bound does not know about: " + name)
				}
			}
			c.Set("bare_vector_types_in_sources", got)
		}
	}
	// the three arms are independent (the bombs spend most of their time copying gigabyte stacks
	// in child processes), so they run side by side
	var wg sync.WaitGroup
	arm := func(skip string, f func()) {
		if os.Getenv(skip) != "" {
			return
		}
		wg.Add(1)
		go func() {
			defer wg.Done()
			t0 := time.Now()
			if pv, stack := mon.Try(f); pv != nil {
				c.Inconclusive(fmt.Sprintf("engine panic in arm: %v\n%s", pv, stack))
			}
			c.Set("arm_wall_s_"+skip[11:], int64(time.Since(t0).Seconds()))
		}()
	}
	arm("TLMON_SKIP_BOMBS", func() { runBombs(c, reg) })
	arm("TLMON_SKIP_RT", func() { runRoundTrips(c, reg, c.N(3, 200)) })
	arm("TLMON_SKIP_HOSTILE", func() { runHostile(c, reg, c.N(1, 10), c.N(40, 1000), c.N(5, 6)) })
	wg.Wait()
}
