package main

import (
	"fmt"
	"reflect"
	"sort"
	"sync"

	"github.com/gotd/td/bin"
	"github.com/gotd/td/mt"
	"github.com/gotd/td/tdp"
	"github.com/gotd/td/tg"
	"github.com/gotd/td/tg/e2e"
)

// ctor is one entry of a generated TypesConstructorMap.
type ctor struct {
	idx      int
	pkg      int    // index into pkgNames
	id       uint32 // TL constructor id
	name     string // "tg.TextBold"
	typ      reflect.Type
	newObj   func() bin.Object
	optional map[string]bool   // Go field name -> conditional (flag-guarded) field
	group    map[string]string // conditional field -> "flagsFieldIndex:bit" (fields sharing a bit are present together)
	flagsAt0 bool              // first field is a bin.Fields word (flags directly after the id)
	generic  []int             // indices of fields of type bin.Object (generic !X)
	minDepth int
}

var pkgNames = []string{"tg", "mt", "e2e"}

var (
	tObject  = reflect.TypeOf((*bin.Object)(nil)).Elem()
	tFields  = reflect.TypeOf(bin.Fields(0))
	tBytes   = reflect.TypeOf([]byte(nil))
	tInt128  = reflect.TypeOf(bin.Int128{})
	tInt256  = reflect.TypeOf(bin.Int256{})
	infDepth = 1 << 20
)

// registry is the reflection index over the three constructor maps.
type registry struct {
	ctors  []*ctor
	byType map[reflect.Type]*ctor
	byID   [3]map[uint32]*ctor
	ids    [3][]uint32

	mu    sync.Mutex
	impls map[implKey][]*ctor

	maxElemSize uintptr // largest sizeof of any slice element type seen in the graph

	sibOnce  sync.Once
	sib      map[*ctor][]*ctor
	bareOnce sync.Once
	bare     map[*ctor]bool
}

func sortCtors(l []*ctor) {
	sort.Slice(l, func(i, j int) bool { return l[i].idx < l[j].idx })
}

type implKey struct {
	t   reflect.Type
	pkg int
}

// buildRegistry indexes the three constructor maps. withGroups additionally finds the
// flag bit of every conditional field (needed by the value generator only).
func buildRegistry(withGroups bool) (*registry, error) {
	r := &registry{byType: map[reflect.Type]*ctor{}, impls: map[implKey][]*ctor{}}
	maps := []map[uint32]func() bin.Object{tg.TypesConstructorMap(), mt.TypesConstructorMap(), e2e.TypesConstructorMap()}
	for p, m := range maps {
		r.byID[p] = map[uint32]*ctor{}
		ids := make([]uint32, 0, len(m))
		for id := range m {
			ids = append(ids, id)
		}
		sort.Slice(ids, func(i, j int) bool { return ids[i] < ids[j] })
		r.ids[p] = ids
		for _, id := range ids {
			f := m[id]
			obj := f()
			pt := reflect.TypeOf(obj)
			if pt.Kind() != reflect.Ptr || pt.Elem().Kind() != reflect.Struct {
				return nil, fmt.Errorf("constructor %s#%08x is not a pointer to struct: %v", pkgNames[p], id, pt)
			}
			c := &ctor{idx: len(r.ctors), pkg: p, id: id, name: pkgNames[p] + "." + pt.Elem().Name(), typ: pt.Elem(), newObj: f,
				optional: map[string]bool{}, minDepth: infDepth}
			if tid, ok := obj.(interface{ TypeID() uint32 }); !ok || tid.TypeID() != id {
				return nil, fmt.Errorf("%s: map key %08x does not match TypeID()", c.name, id)
			}
			if ti, ok := obj.(interface{ TypeInfo() tdp.Type }); ok {
				// On the zero value every flag is clear, so exactly the conditional fields report Null.
				for _, f := range ti.TypeInfo().Fields {
					if f.Null {
						c.optional[f.Name] = true
					}
				}
			} else {
				return nil, fmt.Errorf("%s has no TypeInfo", c.name)
			}
			c.group = map[string]string{}
			for i := 0; i < c.typ.NumField(); i++ {
				ft := c.typ.Field(i).Type
				if ft == tFields && withGroups {
					// which conditional fields does each bit of this flags word guard?
					probe := f()
					pf := reflect.ValueOf(probe).Elem().Field(i)
					for bit := 0; bit < 32; bit++ {
						pf.SetUint(1 << uint(bit))
						for _, fi := range probe.(interface{ TypeInfo() tdp.Type }).TypeInfo().Fields {
							if !fi.Null && c.optional[fi.Name] {
								c.group[fi.Name] = fmt.Sprintf("%d:%d", i, bit)
							}
						}
					}
				}
				if ft == tObject {
					c.generic = append(c.generic, i)
				}
				if i == 0 && ft == tFields {
					c.flagsAt0 = true
				}
			}
			if prev, dup := r.byType[c.typ]; dup {
				return nil, fmt.Errorf("type %s registered twice (%08x, %08x)", c.name, prev.id, id)
			}
			r.byType[c.typ] = c
			r.byID[p][id] = c
			r.ctors = append(r.ctors, c)
		}
	}
	for _, c := range r.ctors {
		for name := range c.optional {
			if _, ok := c.typ.FieldByName(name); !ok {
				return nil, fmt.Errorf("%s: TypeInfo field %s is not a struct field", c.name, name)
			}
			if withGroups && c.group[name] == "" {
				return nil, fmt.Errorf("%s: no flag bit found for conditional field %s", c.name, name)
			}
		}
	}
	if err := r.checkFieldKinds(); err != nil {
		return nil, err
	}
	r.computeMinDepth()
	return r, nil
}

// implementors returns the constructors of package pkg whose pointer type implements iface.
func (r *registry) implementors(iface reflect.Type, pkg int) []*ctor {
	k := implKey{iface, pkg}
	r.mu.Lock()
	defer r.mu.Unlock()
	if v, ok := r.impls[k]; ok {
		return v
	}
	var out []*ctor
	for _, c := range r.ctors {
		if c.pkg == pkg && reflect.PointerTo(c.typ).Implements(iface) {
			out = append(out, c)
		}
	}
	r.impls[k] = out
	return out
}

// checkFieldKinds makes sure the generator understands every field type that occurs.
func (r *registry) checkFieldKinds() error {
	var walk func(c *ctor, t reflect.Type, where string) error
	walk = func(c *ctor, t reflect.Type, where string) error {
		switch {
		case t == tFields, t == tBytes, t == tInt128, t == tInt256:
			return nil
		}
		switch t.Kind() {
		case reflect.Bool, reflect.Int, reflect.Int32, reflect.Int64, reflect.Float64, reflect.String:
			return nil
		case reflect.Slice:
			if sz := t.Elem().Size(); sz > r.maxElemSize {
				r.maxElemSize = sz
			}
			return walk(c, t.Elem(), where+"[]")
		case reflect.Struct:
			if _, ok := r.byType[t]; !ok {
				return fmt.Errorf("%s: struct type %v is not a registered constructor", where, t)
			}
			return nil
		case reflect.Interface:
			if t == tObject {
				return nil
			}
			if len(r.implementors(t, c.pkg)) == 0 {
				return fmt.Errorf("%s: interface %v has no implementing constructor", where, t)
			}
			return nil
		}
		return fmt.Errorf("%s: unsupported field type %v", where, t)
	}
	for _, c := range r.ctors {
		for i := 0; i < c.typ.NumField(); i++ {
			f := c.typ.Field(i)
			if err := walk(c, f.Type, c.name+"."+f.Name); err != nil {
				return err
			}
		}
	}
	return nil
}

// computeMinDepth: least nesting depth of a value of each constructor when
// optional fields are absent and vectors are empty (fixpoint).
func (r *registry) computeMinDepth() {
	need := func(c *ctor, t reflect.Type) int {
		switch t.Kind() {
		case reflect.Struct:
			return r.byType[t].minDepth
		case reflect.Interface:
			best := infDepth
			if t == tObject {
				// any constructor of the package; the shallowest has depth 1
				return 1
			}
			for _, im := range r.implementors(t, c.pkg) {
				if im.minDepth < best {
					best = im.minDepth
				}
			}
			return best
		}
		return 0
	}
	for changed := true; changed; {
		changed = false
		for _, c := range r.ctors {
			d := 0
			for i := 0; i < c.typ.NumField(); i++ {
				f := c.typ.Field(i)
				if c.optional[f.Name] || f.Type.Kind() == reflect.Slice {
					continue
				}
				if n := need(c, f.Type); n > d {
					d = n
				}
			}
			if d < infDepth {
				d++
			}
			if d < c.minDepth {
				c.minDepth = d
				changed = true
			}
		}
	}
}

// edge of the type graph used for recursion analysis: holder constructor,
// field index, and whether the field is a vector.
type edge struct {
	from   *ctor
	field  int
	vector bool
	to     *ctor
}

// edges lists the constructors directly nestable into c (generic !X fields excluded:
// they occur only in requests, which a peer never sends to a client).
func (r *registry) edges(c *ctor) []edge {
	var out []edge
	for i := 0; i < c.typ.NumField(); i++ {
		t := c.typ.Field(i).Type
		vec := false
		if t.Kind() == reflect.Slice && t != tBytes {
			t = t.Elem()
			vec = true
		}
		switch t.Kind() {
		case reflect.Struct:
			out = append(out, edge{c, i, vec, r.byType[t]})
		case reflect.Interface:
			if t == tObject {
				continue
			}
			for _, im := range r.implementors(t, c.pkg) {
				out = append(out, edge{c, i, vec, im})
			}
		}
	}
	return out
}
