package main

import (
	"bytes"
	"encoding/hex"
	"fmt"
	"reflect"
	"runtime"
	"sync"

	"github.com/gotd/td/bin"

	"verif/harness/mon"
)

func hx(b []byte) string {
	if len(b) > 4096 {
		return hex.EncodeToString(b[:4096]) + fmt.Sprintf("...(%d bytes)", len(b))
	}
	return hex.EncodeToString(b)
}

// rtResult is the outcome of one round trip.
type rtResult struct {
	sig     string // "" if all oracles held
	detail  string
	encoded []byte
	st      genStats
}

// roundTrip runs the four oracles on one generated value.
func roundTrip(reg *registry, c *ctor, v bin.Object) (res rtResult) {
	var enc bin.Buffer
	pv, stack := mon.Try(func() {
		if err := v.Encode(&enc); err != nil {
			res.sig, res.detail = "roundtrip|encode-error|"+innermostCtor(reg, c.pkg, err.Error(), c.name), err.Error()
			return
		}
		res.encoded = append([]byte(nil), enc.Buf...)
		// Encoding must be a function of the value, not of the buffer's history: the same value
		// encoded into a reused buffer whose backing array holds non-zero bytes of an earlier message
		// (Reset() with ample spare capacity; bin.Pool after a dirty Put) must give the same bytes.
		for variant, dirty := range dirtyBuffers(len(enc.Buf)) {
			if err := v.Encode(dirty); err != nil {
				res.sig, res.detail = "roundtrip|dirty-buffer-encode-error|"+c.name, err.Error()
				return
			}
			if !bytes.Equal(dirty.Buf, enc.Buf) {
				res.sig = "roundtrip|dirty-buffer-encoding-differs|" + c.name
				res.detail = fmt.Sprintf("%s: first difference at byte %d; reused buffer: %s", variant, firstDiff(dirty.Buf, enc.Buf), hx(dirty.Buf))
				return
			}
		}
		dst := reg.skeleton(v)
		in := bin.Buffer{Buf: append([]byte(nil), enc.Buf...)}
		if err := dst.Decode(&in); err != nil {
			res.sig, res.detail = "roundtrip|decode-error|"+innermostCtor(reg, c.pkg, err.Error(), c.name), err.Error()
			return
		}
		if in.Len() != 0 {
			res.sig, res.detail = "roundtrip|leftover-bytes|"+c.name, fmt.Sprintf("%d of %d bytes not consumed", in.Len(), len(enc.Buf))
			return
		}
		// flag words are compared after SetFlags on both sides
		normalizeFlags(reflect.ValueOf(v))
		normalizeFlags(reflect.ValueOf(dst))
		if d := structEq(reflect.ValueOf(v), reflect.ValueOf(dst), c.name); d != "" {
			res.sig, res.detail = "roundtrip|value-mismatch|"+c.name, d
			return
		}
		var enc2 bin.Buffer
		if err := dst.Encode(&enc2); err != nil {
			res.sig, res.detail = "roundtrip|reencode-error|"+innermostCtor(reg, c.pkg, err.Error(), c.name), err.Error()
			return
		}
		if !bytes.Equal(enc.Buf, enc2.Buf) {
			res.sig, res.detail = "roundtrip|reencode-mismatch|"+c.name, "re-encoded: "+hx(enc2.Buf)
			return
		}
	})
	if pv != nil {
		res.sig, res.detail = "panic|roundtrip|"+c.name, fmt.Sprintf("%v\n%s", pv, stack)
	}
	return res
}

// runRoundTrips: every constructor x nvals generated values, in parallel (the code under test is pure).
func runRoundTrips(c *mon.Ctx, reg *registry, nvals int) {
	workers := runtime.GOMAXPROCS(0)
	if workers > 8 {
		workers = 8
	}
	var wg sync.WaitGroup
	jobs := make(chan *ctor, 64)
	var mu sync.Mutex
	var totOpt, totIface, totVec, totGeneric, maxDepth, totBytes int64
	for w := 0; w < workers; w++ {
		wg.Add(1)
		go func() {
			defer wg.Done()
			for ct := range jobs {
				nontrivial := false
				for k := 0; k < nvals; k++ {
					// value 0 of every constructor is "full" (all conditional fields present, vectors non-empty)
					g := &generator{reg: reg, rnd: c.RandN("rt/"+ct.name, k), full: k == 0}
					budget := 1 + (k+1)%4
					v := g.value(ct, budget, 0)
					r := roundTrip(reg, ct, v)
					c.Eval(1)
					mu.Lock()
					totOpt += int64(g.st.optionalSet)
					totIface += int64(g.st.ifaces)
					totVec += int64(g.st.vectors)
					totGeneric += int64(g.st.generic)
					totBytes += int64(len(r.encoded))
					if int64(g.st.depth) > maxDepth {
						maxDepth = int64(g.st.depth)
					}
					mu.Unlock()
					if g.st.optionalSet > 0 && g.st.ifaces > 0 {
						nontrivial = true
					}
					if r.sig != "" {
						c.Violate(r.sig, map[string]any{"constructor": ct.name, "id": fmt.Sprintf("%08x", ct.id), "value_index": k, "budget": budget,
							"detail": r.detail, "encoded": hx(r.encoded), "value": trunc2(fmt.Sprintf("%+v", v), 4000)})
					} else if ct.idx%700 == 0 && k == nvals-1 {
						c.Sample("roundtrip", map[string]any{"constructor": ct.name, "encoded_len": len(r.encoded), "optional_set": g.st.optionalSet,
							"interfaces": g.st.ifaces, "vectors": g.st.vectors, "depth": g.st.depth})
					}
				}
				if nontrivial {
					c.Distinct("rt:" + ct.name)
				}
			}
		}()
	}
	for _, ct := range reg.ctors {
		jobs <- ct
	}
	close(jobs)
	wg.Wait()
	c.Set("roundtrip_values", int64(len(reg.ctors)*nvals))
	c.Set("roundtrip_optional_fields_set", totOpt)
	c.Set("roundtrip_interfaces_filled", totIface)
	c.Set("roundtrip_nonempty_vectors", totVec)
	c.Set("roundtrip_generic_fields_filled", totGeneric)
	c.Set("roundtrip_max_depth", maxDepth)
	c.Set("roundtrip_encoded_bytes", totBytes)
}

func trunc2(s string, n int) string {
	if len(s) > n {
		return s[:n] + "..."
	}
	return s
}

var dirtyPool = bin.NewPool(0)

// dirtyBuffers returns reused buffers with spare capacity >= 2n+64 whose backing arrays are
// full of 0xAA: one after Reset(), one that went through bin.Pool Put/Get (sync.Pool may hand
// out a fresh buffer instead; then that variant is merely a second clean encoding).
func dirtyBuffers(n int) map[string]*bin.Buffer {
	fill := func() *bin.Buffer {
		arr := make([]byte, 2*n+64)
		for i := range arr {
			arr[i] = 0xAA
		}
		return &bin.Buffer{Buf: arr}
	}
	a := fill()
	a.Reset()
	dirtyPool.Put(fill())
	return map[string]*bin.Buffer{"reset": a, "pool": dirtyPool.Get()}
}

func firstDiff(a, b []byte) int {
	for i := 0; i < len(a) && i < len(b); i++ {
		if a[i] != b[i] {
			return i
		}
	}
	if len(a) < len(b) {
		return len(a)
	}
	return len(b)
}
