package main

import (
	"bytes"
	"encoding/hex"
	"encoding/json"
	"errors"
	"fmt"
	"os"
	"path/filepath"
	"reflect"
	"runtime"
	"sort"
	"strings"
	"sync"
	"time"

	"github.com/gotd/td/bin"
	"github.com/gotd/td/proto"

	"verif/harness/mon"
)

// Limits a peer is subject to (proto/codec: frame <= 1<<24; proto.GZIP: output < 10 MiB).
const (
	frameLimit = 1 << 24
	// envelope of an encrypted message around the payload: auth_key_id 8, msg_key 16, salt 8,
	// session 8, msg_id 8, seq_no 4, length 4, padding >= 12, plus an rpc_result / updates
	// wrapper; 256 bytes is a generous allowance.
	frameEnvelope = 256
	rawBudget     = frameLimit - frameEnvelope
	gzipBudget    = 10*1024*1024 - 1
)

// bombTemplate is the wire shape of one recursive cycle: prefix^n leaf suffix^n
// is the encoding of n nested levels.
type bombTemplate struct {
	cy       cycle
	family   string
	root     *ctor
	prefix   []byte
	leaf     []byte
	suffix   []byte
	perLevel int
	vecCount int // offset in prefix of the count of the vector through which the cycle closes at its last edge, -1 if none
}

// familyOf names the recursion family of a cycle: the smallest class (interface)
// name among the fields the cycle passes through, else the smallest struct name.
func familyOf(cy cycle) string {
	var classes, structs []string
	for _, e := range cy.edges {
		t := e.from.typ.Field(e.field).Type
		if e.vector {
			t = t.Elem()
		}
		if t.Kind() == reflect.Interface {
			classes = append(classes, holeName(e))
		} else {
			structs = append(structs, holeName(e))
		}
	}
	sort.Strings(classes)
	sort.Strings(structs)
	if len(classes) > 0 {
		return classes[0]
	}
	return structs[0]
}

// wrap builds one level of the cycle around inner (nil: the innermost leaf).
func (r *registry) wrap(cy cycle, inner bin.Object) bin.Object {
	g := &generator{reg: r, zero: true}
	cur := inner
	for i := len(cy.edges) - 1; i >= 0; i-- {
		e := cy.edges[i]
		holder := g.value(e.from, 0, 0)
		hv := reflect.ValueOf(holder).Elem()
		f := hv.Field(e.field)
		ft := f.Type()
		elemT := ft
		if e.vector {
			elemT = ft.Elem()
		}
		var val reflect.Value
		if cur == nil {
			// innermost: shallowest value admissible in the hole
			tmp := reflect.New(elemT).Elem()
			g.fill(e.from, tmp, 0, 0)
			val = tmp
		} else if elemT.Kind() == reflect.Interface {
			val = reflect.ValueOf(cur)
		} else {
			val = reflect.ValueOf(cur).Elem()
		}
		if e.vector {
			s := reflect.MakeSlice(ft, 1, 1)
			s.Index(0).Set(val)
			f.Set(s)
		} else {
			f.Set(val)
		}
		// fields guarded by the same flag bit as the hole must be present too
		if name := e.from.typ.Field(e.field).Name; e.from.optional[name] {
			for j := 0; j < hv.NumField(); j++ {
				sf := e.from.typ.Field(j)
				if j != e.field && e.from.optional[sf.Name] && e.from.group[sf.Name] == e.from.group[name] {
					g.fill(e.from, hv.Field(j), 0, 0)
				}
			}
		}
		cur = holder
	}
	return cur
}

// template derives prefix / leaf / suffix from the encodings of 1 and 2 levels
// and verifies them against the real encoder at 3 levels.
func (r *registry) template(cy cycle) (*bombTemplate, error) {
	enc := func(levels int) ([]byte, error) {
		var v bin.Object
		for i := 0; i < levels; i++ {
			v = r.wrap(cy, v)
		}
		var b bin.Buffer
		if err := v.Encode(&b); err != nil {
			return nil, err
		}
		return b.Buf, nil
	}
	e1, err := enc(1)
	if err != nil {
		return nil, err
	}
	e2, err := enc(2)
	if err != nil {
		return nil, err
	}
	e3, err := enc(3)
	if err != nil {
		return nil, err
	}
	d := len(e2) - len(e1)
	if d <= 0 || len(e3)-len(e2) != d {
		return nil, fmt.Errorf("level size not constant: %d %d %d", len(e1), len(e2), len(e3))
	}
	for p := 0; p <= d; p += 4 {
		s := d - p
		if p > len(e1) || s > len(e1)-p {
			continue
		}
		P, S := e2[:p], e2[len(e2)-s:]
		leaf := e1[p : len(e1)-s]
		build := func(n int) []byte {
			out := bytes.Repeat(P, n)
			out = append(out, leaf...)
			return append(out, bytes.Repeat(S, n)...)
		}
		if bytes.Equal(build(1), e1) && bytes.Equal(build(2), e2) && bytes.Equal(build(3), e3) {
			t := &bombTemplate{cy: cy, family: familyOf(cy), root: cy.edges[0].from, prefix: P, leaf: leaf, suffix: S, perLevel: d, vecCount: -1}
			last := cy.edges[len(cy.edges)-1]
			if last.vector && p >= 4 && bytes.Equal(P[p-4:], []byte{1, 0, 0, 0}) {
				t.vecCount = p - 4
			}
			return t, nil
		}
	}
	return nil, fmt.Errorf("no prefix/suffix decomposition")
}

// bombSpec is the child input: the child builds the bytes itself.
type bombSpec struct {
	Pkg    int    `json:"pkg"`
	ID     uint32 `json:"id"`
	Prefix string `json:"prefix"`
	Leaf   string `json:"leaf"`
	Suffix string `json:"suffix"`
	Depth  int    `json:"depth"`
	Gzip   bool   `json:"gzip"`
	// Prealloc: replace the 4 bytes at this offset of every prefix copy by 1023 and
	// drop the suffixes (nested vector headers that each claim 1023 elements).
	Prealloc int `json:"prealloc"`
	// Trunc: prefixes only (the innermost level is cut off), so the decode fails at the
	// bottom of the nesting and the error travels up through every level.
	Trunc bool `json:"trunc,omitempty"`
}

type bombResult struct {
	Err      string `json:"err,omitempty"`
	InputLen int    `json:"input_len"`
	Left     int    `json:"left"`
	Alloc    uint64 `json:"alloc"`
	GzipLen  int    `json:"gzip_len,omitempty"`
	Ms       int64  `json:"ms"`                // wall time of the decode, informational only (never used for a verdict)
	Stack    uint64 `json:"stack"`             // runtime StackInuse after the decode (the goroutine stack does not shrink before the next GC)
	Chain    int    `json:"chain,omitempty"`   // length of the errors.Unwrap chain of the returned error
	ErrLen   int    `json:"err_len,omitempty"` // length of its message
}

func (s bombSpec) build() []byte {
	p, _ := hex.DecodeString(s.Prefix)
	l, _ := hex.DecodeString(s.Leaf)
	x, _ := hex.DecodeString(s.Suffix)
	if s.Prealloc >= 0 {
		p = append([]byte(nil), p...)
		copy(p[s.Prealloc:], []byte{0xff, 0x03, 0, 0})
		return bytes.Repeat(p, s.Depth)
	}
	if s.Trunc {
		return bytes.Repeat(p, s.Depth)
	}
	out := make([]byte, 0, s.Depth*(len(p)+len(x))+len(l))
	out = append(out, bytes.Repeat(p, s.Depth)...)
	out = append(out, l...)
	return append(out, bytes.Repeat(x, s.Depth)...)
}

func init() {
	mon.RegisterBatch("bomb", func(in []byte) any {
		var s bombSpec
		if err := json.Unmarshal(in, &s); err != nil {
			return bombResult{Err: "spec: " + err.Error()}
		}
		reg := getChildReg()
		c := reg.byID[s.Pkg][s.ID]
		data := s.build()
		res := bombResult{InputLen: len(data)}
		if s.Gzip {
			// the way an rpc_result / container body travels: gzip_packed, unpacked by the real proto.GZIP
			var b bin.Buffer
			if err := (proto.GZIP{Data: data}).Encode(&b); err != nil {
				return bombResult{Err: "gzip encode: " + err.Error()}
			}
			res.GzipLen = b.Len()
			var g proto.GZIP
			if err := g.Decode(&b); err != nil {
				res.Err = "gzip: " + err.Error()
				return res
			}
			data = g.Data
		}
		obj := c.newObj()
		buf := &bin.Buffer{Buf: data}
		var err error
		t0 := time.Now()
		res.Alloc, _ = mon.MeasureAlloc(func() { err = obj.Decode(buf) })
		res.Ms = time.Since(t0).Milliseconds()
		var ms runtime.MemStats
		runtime.ReadMemStats(&ms)
		res.Stack = ms.StackInuse
		if err != nil {
			msg := err.Error()
			res.Err, res.ErrLen = trunc2(msg, 200), len(msg)
			for e := err; e != nil; e = errors.Unwrap(e) {
				res.Chain++
			}
		}
		res.Left = buf.Len()
		return res
	})
}

func (t *bombTemplate) spec(depth int, gz bool) bombSpec {
	return bombSpec{Pkg: t.root.pkg, ID: t.root.id, Prefix: hex.EncodeToString(t.prefix), Leaf: hex.EncodeToString(t.leaf),
		Suffix: hex.EncodeToString(t.suffix), Depth: depth, Gzip: gz, Prealloc: -1}
}

type bombCase struct {
	t         *bombTemplate
	spec      bombSpec
	kind      string // "depth" | "errchain" | "prealloc"
	reachable string // "gzip+raw" | "raw" | "no"
}

// quickFamilies: the families a server can send to a client (response / update types), used by the quick tier.
var quickFamilies = map[string]bool{"tg.RichText": true, "tg.PageBlock": true, "tg.JSONValue": true, "tg.MessageMedia": true, "tg.MessageExtendedMedia": true}

// runBombs builds depth bombs, truncated deep inputs and nested-preallocation bombs for the recursive families.
func runBombs(c *mon.Ctx, reg *registry) {
	cycles, nrec := reg.recursiveCycles()
	c.Set("recursive_constructors", int64(nrec))
	c.Set("recursive_cycles", int64(len(cycles)))
	if len(cycles) == 0 {
		c.Inconclusive("no recursive type found by reflection")
		return
	}
	byFamily := map[string][]*bombTemplate{}
	var families []string
	for _, cy := range cycles {
		t, err := reg.template(cy)
		if err != nil {
			c.Inconclusive(fmt.Sprintf("bomb template for %s: %v", cy.String(), err))
			continue
		}
		if _, ok := byFamily[t.family]; !ok {
			families = append(families, t.family)
		}
		byFamily[t.family] = append(byFamily[t.family], t)
	}
	sort.Strings(families)
	famInfo := map[string]any{}
	var cases []bombCase
	var caseGroup []int
	ngroups := c.N(2, 6)
	tidx := 0
	heavy := 0
	add := func(bcs ...bombCase) {
		for _, bc := range bcs {
			cases = append(cases, bc)
			// a deep decode costs tens of CPU seconds (the runtime copies the growing stack frame by
			// frame): deep cases are dealt round the child processes, the light ones follow their template
			g := tidx % ngroups
			if bc.kind == "depth" && bc.spec.Depth >= 500000 {
				g = heavy % ngroups
				if c.Quick() {
					g = 0
				}
				heavy++
			} else if c.Quick() {
				g = ngroups - 1
			}
			caseGroup = append(caseGroup, g)
		}
	}
	depthCase := func(t *bombTemplate, depth int, gz bool) {
		maxGz := (gzipBudget - len(t.leaf)) / t.perLevel
		maxRaw := (rawBudget - len(t.leaf)) / t.perLevel
		reach := "no"
		switch {
		case depth <= maxGz:
			reach = "gzip+raw"
		case depth <= maxRaw && !gz:
			reach = "raw"
		}
		if gz && depth > maxGz {
			return
		}
		for _, bc := range cases {
			if bc.t == t && bc.kind == "depth" && bc.spec.Depth == depth && bc.spec.Gzip == gz {
				return
			}
		}
		add(bombCase{t, t.spec(depth, gz), "depth", reach})
	}
	widest := families[0]
	for _, fam := range families {
		if len(byFamily[fam]) > len(byFamily[widest]) {
			widest = fam
		}
	}
	for _, fam := range families {
		ts := byFamily[fam]
		sort.SliceStable(ts, func(i, j int) bool { return ts[i].perLevel < ts[j].perLevel })
		var names []string
		for _, t := range ts {
			names = append(names, fmt.Sprintf("%s (%d B/level)", t.cy.String(), t.perLevel))
		}
		famInfo[fam] = names
		if c.Quick() {
			if !quickFamilies[fam] {
				continue
			}
			// the cheapest cycle of the family (most levels per byte)
			t := ts[0]
			depthCase(t, 1000, false)
			depthCase(t, 20000, true)
			if fam == widest {
				// one real crash observation per quick run, for the family with the most recursive constructors:
				// the deepest nesting a gzip-packed body can carry (~30 CPU seconds: the runtime copies the
				// growing stack frame by frame); every family gets its sweep in the thorough tier
				depthCase(t, (gzipBudget-len(t.leaf))/t.perLevel, true)
			}
			add(allocCases(c, t)...)
			if fv := firstVec(ts); fv > 0 && t.vecCount < 0 {
				tidx++
				add(allocCases(c, ts[fv])...)
			}
			tidx++
			continue
		}
		for ti, t := range ts {
			maxGz := (gzipBudget - len(t.leaf)) / t.perLevel
			maxRaw := (rawBudget - len(t.leaf)) / t.perLevel
			depthCase(t, 1000, false)
			depthCase(t, 1000, true)
			if t.perLevel <= 4 || maxGz < 500000 {
				// every cycle at the deepest nesting a gzip body can carry (for larger levels that are
				// still deep only the representative below: a deep decode costs ~30 CPU seconds)
				depthCase(t, maxGz, true)
			}
			if ti == 0 || t.perLevel != ts[ti-1].perLevel {
				// representative of its level size within the family: the depth sweep
				depthCase(t, 10000, false)
				depthCase(t, 100000, true)
				for _, d := range []int{300000, 1000000} {
					if d <= maxRaw {
						depthCase(t, d, false)
					}
				}
				if t.perLevel <= 8 && 2000000 <= maxRaw {
					depthCase(t, 2000000, false)
				}
				depthCase(t, maxGz, true)
				depthCase(t, maxRaw, false)
				if 4000000 > maxRaw && 4000000*t.perLevel <= 64<<20 {
					depthCase(t, 4000000, false) // beyond what a peer can deliver: noted, never a violation
				}
			}
			add(allocCases(c, t)...)
			tidx++
		}
	}
	c.Set("recursive_families", famInfo)
	inputs := make([][][]byte, ngroups)
	index := make([][]int, ngroups)
	for i, bc := range cases {
		b, _ := json.Marshal(bc.spec)
		g := caseGroup[i]
		inputs[g] = append(inputs[g], b)
		index[g] = append(index[g], i)
	}
	outs := make([]mon.Outcome, len(cases))
	for i := range outs {
		outs[i].Class = "missing"
	}
	fullStderr := make([]string, len(cases))
	var wg sync.WaitGroup
	for g := 0; g < ngroups; g++ {
		if len(inputs[g]) == 0 {
			continue
		}
		wg.Add(1)
		go func(g int) {
			defer wg.Done()
			// default 1 GB goroutine stack limit in the child; address space and heap guarded.
			// (GOGC only spares the collector rescanning a gigabyte of stack over and over; allocation totals do not depend on it)
			res := mon.RunBatch(c, "bomb", fmt.Sprintf("bombs-%d", g), inputs[g],
				mon.BatchOpts{MemLimitMB: 6144, MaxProcs: 1, Timeout: 40 * time.Minute, Env: []string{"GOGC=400"}})
			died := 0
			for k, o := range res {
				if k >= len(index[g]) {
					break
				}
				outs[index[g][k]] = o
				if o.Class != "ok" && o.Class != "missing" {
					// the j-th input that killed a child of this batch ended child run j: its complete stderr is on disk
					if data, err := os.ReadFile(filepath.Join(c.Out, fmt.Sprintf("batch-bombs-%d", g), fmt.Sprintf("stderr-%d.txt", died))); err == nil {
						fullStderr[index[g][k]] = string(data)
					}
					died++
				}
			}
		}(g)
	}
	wg.Wait()
	type note struct {
		Family    string `json:"family"`
		Cycle     string `json:"cycle"`
		Depth     int    `json:"depth"`
		Bytes     int    `json:"input_bytes"`
		Gzip      bool   `json:"gzip"`
		Reachable string `json:"reachable"`
		Outcome   string `json:"outcome"`
	}
	designBound := func(inputLen int) uint64 {
		// 64 bytes per input byte + one capped preallocation of the largest element type + 4 MiB
		return 64*uint64(inputLen) + uint64(bin.PreallocateLimit)*uint64(reg.maxElemSize) + 4<<20
	}
	var unreachable []note
	minCrash := map[string]int{}
	maxOK := map[string]int{}
	errAlloc := map[string]uint64{} // cycle/depth -> allocation of the truncated input
	type series struct {
		Levels    int    `json:"levels"`
		Input     int    `json:"input_bytes"`
		Allocated uint64 `json:"allocated"`
		Ms        int64  `json:"decode_ms_informational"`
	}
	errSeries := map[string][]series{}
	var slowest int64
	var preallocNotes []map[string]any
	for pass := 0; pass < 2; pass++ { // pass 0: depth + errchain, pass 1: prealloc (needs the errchain baseline)
		for i, o := range outs {
			bc := cases[i]
			if (bc.kind == "prealloc") != (pass == 1) {
				continue
			}
			c.Eval(1)
			key := bc.t.cy.String()
			inLen := bc.spec.Depth*bc.t.perLevel + len(bc.t.leaf)
			wit := map[string]any{"family": bc.t.family, "cycle": key, "decoded_as": bc.t.root.name, "depth": bc.spec.Depth, "kind": bc.kind,
				"bytes_per_level": bc.t.perLevel, "input_bytes": inLen, "inside_gzip": bc.spec.Gzip, "reachable_by_peer": bc.reachable,
				"limits": map[string]int{"frame": frameLimit, "gzip_output": gzipBudget + 1}, "spec": bc.spec, "outcome": o.Class}
			if o.Class == "missing" {
				continue
			}
			c.Distinct(fmt.Sprintf("bomb:%s:%s:%s", bc.kind, bc.t.family, o.Class))
			var r bombResult
			if o.Class == "ok" {
				if err := json.Unmarshal(o.Result, &r); err != nil {
					c.Inconclusive("bomb: bad child result: " + err.Error())
					continue
				}
				if r.Ms > slowest {
					slowest = r.Ms
				}
			}
			switch bc.kind {
			case "errchain", "prealloc":
				if o.Class != "ok" {
					wit["stderr"] = o.Stderr
					c.Violate(o.Class+"|"+bc.kind+"|"+bc.t.family, wit)
					continue
				}
				if r.Err == "" {
					c.Inconclusive(fmt.Sprintf("%s input for %s decoded without error", bc.kind, key))
					continue
				}
				bound := designBound(r.InputLen)
				wit["input_bytes"], wit["allocated"], wit["bound"], wit["error_prefix"] = r.InputLen, r.Alloc, bound, trunc2(r.Err, 120)
				if bc.kind == "errchain" {
					errAlloc[fmt.Sprintf("%s/%d", key, bc.spec.Depth)] = r.Alloc
					errSeries[key] = append(errSeries[key], series{bc.spec.Depth, r.InputLen, r.Alloc, r.Ms})
					wit["series"] = errSeries[key]
					wit["error_chain_length"], wit["error_message_bytes"] = r.Chain, r.ErrLen
					if r.Alloc > bound {
						// the named cause only when it is confirmed: the input is a nesting cut off at the bottom, the
						// returned error is a %w chain at least as long as the nesting and its message grew with it
						if r.Chain >= bc.spec.Depth && r.ErrLen >= 20*bc.spec.Depth {
							c.Violate("overalloc|nested-error-wrapping", wit)
						} else {
							c.Violate("overalloc|truncated-nesting|"+bc.t.family, wit)
						}
					}
					c.Sample("truncated-deep-input", map[string]any{"cycle": key, "levels": bc.spec.Depth, "input_bytes": r.InputLen, "allocated": r.Alloc})
					continue
				}
				base, ok := errAlloc[fmt.Sprintf("%s/%d", key, bc.spec.Depth)]
				if !ok {
					c.Inconclusive("prealloc bomb without error-chain baseline: " + key)
					continue
				}
				// what the claimed vector lengths add on top of the same failing decode with honest counts
				var extra uint64
				if r.Alloc > base {
					extra = r.Alloc - base
				}
				wit["allocated_with_honest_counts"], wit["extra_allocated_by_claimed_counts"] = base, extra
				// Not a violation: every single preallocation stays within PreallocateLimit elements, the statement
				// bounds a preallocation, not the sum over nested vectors. Counted in the evidence only.
				preallocNotes = append(preallocNotes, map[string]any{"cycle": key, "levels": bc.spec.Depth, "input_bytes": r.InputLen,
					"extra_allocated_by_claimed_counts": extra, "per_level": extra / uint64(bc.spec.Depth), "design_bound": bound, "above_design_bound": extra > bound})
				c.Sample("prealloc-bomb", map[string]any{"cycle": key, "levels": bc.spec.Depth, "input_bytes": r.InputLen, "extra_allocated": extra})
			case "depth":
				if o.Class == "ok" {
					if r.Err != "" || r.Left != 0 {
						// a bomb is a valid encoding; if it does not decode the template is wrong: never a silent pass
						c.Inconclusive(fmt.Sprintf("bomb %s depth %d did not decode: err=%q left=%d", key, bc.spec.Depth, r.Err, r.Left))
						continue
					}
					if bc.spec.Depth > maxOK[key] {
						maxOK[key] = bc.spec.Depth
					}
					if bc.spec.Depth >= 1000000 {
						c.Sample("depth-bomb-survived", map[string]any{"cycle": key, "depth": bc.spec.Depth, "input_bytes": inLen, "gzip": bc.spec.Gzip})
					}
					continue
				}
				wit["stderr"] = o.Stderr
				if bc.reachable == "no" {
					// needs an input larger than a peer can deliver: recorded, not a violation
					unreachable = append(unreachable, note{bc.t.family, key, bc.spec.Depth, inLen, bc.spec.Gzip, bc.reachable, o.Class})
					continue
				}
				if m, ok := minCrash[key]; !ok || bc.spec.Depth < m {
					minCrash[key] = bc.spec.Depth
				}
				path, fam := crashPath(fullStderr[i], bc.t)
				wit["traceback_generated_decode_frames"] = strings.Count(fullStderr[i], "github.com/gotd/td/") // informational
				c.Violate(o.Class+"|"+path+"|"+fam, wit)
			}
		}
	}
	c.Set("bomb_cases", int64(len(cases)))
	c.Set("depth_bomb_min_crashing_depth", minCrash)
	c.Set("depth_bomb_max_surviving_depth", maxOK)
	c.Set("depth_bomb_crashes_beyond_peer_limits", unreachable)
	c.Set("truncated_deep_input_allocation", errSeries)
	c.Set("nested_vector_prealloc_observations_not_violations", preallocNotes)
	c.Set("bomb_slowest_decode_ms_informational", slowest)
}

func firstVec(ts []*bombTemplate) int {
	for i, t := range ts {
		if t.vecCount >= 0 {
			return i
		}
	}
	return -1
}

// allocCases: truncated deep inputs (error travels up through every level) and, for
// cycles closing through a vector, the same input with every count claiming 1023 elements.
func allocCases(c *mon.Ctx, t *bombTemplate) []bombCase {
	var out []bombCase
	depths := []int{125, 250, 500}
	if !c.Quick() {
		depths = append(depths, 1000)
		if t.perLevel <= 12 {
			depths = append(depths, 2000)
		}
	}
	for _, n := range depths {
		s := t.spec(n, false)
		s.Trunc = true
		out = append(out, bombCase{t, s, "errchain", "gzip+raw"})
	}
	if t.vecCount >= 0 && (!c.Quick() || t.perLevel <= 12) {
		// (quick: only the small-level vector cycles; the baseline below allocates ~120 MB for them)
		if c.Quick() {
			s := t.spec(1000, false)
			s.Trunc = true
			out = append(out, bombCase{t, s, "errchain", "gzip+raw"})
		}
		s := t.spec(1000, false)
		s.Prealloc = t.vecCount
		out = append(out, bombCase{t, s, "prealloc", "gzip+raw"})
	}
	return out
}

// crashPath classifies a child death from its complete traceback: "recursive-decode" and the
// family only when the dying goroutine is inside generated Decode frames of the cycle's own
// constructors with frames elided (deep recursion); anything else gets its own names so that a
// known recursive-decode finding cannot hide a different defect.
func crashPath(stderr string, t *bombTemplate) (path, family string) {
	decodeFrames := 0
	own := 0
	for _, line := range strings.Split(stderr, "\n") {
		if !strings.HasPrefix(line, "github.com/gotd/td/") {
			continue
		}
		if strings.Contains(line, ").DecodeBare(") || strings.Contains(line, ").Decode(") || strings.Contains(line, ".Decode") {
			decodeFrames++
			for _, e := range t.cy.edges {
				if strings.Contains(line, "(*"+e.from.typ.Name()+").DecodeBare(") {
					own++
				}
			}
		}
	}
	path, family = "other-path", "unattributed"
	if decodeFrames >= 20 && strings.Contains(stderr, "frames elided") {
		path = "recursive-decode"
	}
	if own >= 5 {
		family = t.family
	}
	return path, family
}
