package main

import (
	"fmt"
	"math"
	"reflect"
)

// structEq compares two decoded TL values structurally: nil and empty slices are
// alike, float64 by bit pattern, interfaces by dynamic type and content. It
// returns the path of the first difference ("" if equal).
func structEq(a, b reflect.Value, path string) string {
	if a.IsValid() != b.IsValid() {
		return path + ": validity"
	}
	if !a.IsValid() {
		return ""
	}
	if a.Type() != b.Type() {
		return fmt.Sprintf("%s: type %v vs %v", path, a.Type(), b.Type())
	}
	switch a.Kind() {
	case reflect.Bool:
		if a.Bool() != b.Bool() {
			return fmt.Sprintf("%s: %v vs %v", path, a.Bool(), b.Bool())
		}
	case reflect.Int, reflect.Int32, reflect.Int64, reflect.Int8, reflect.Int16:
		if a.Int() != b.Int() {
			return fmt.Sprintf("%s: %d vs %d", path, a.Int(), b.Int())
		}
	case reflect.Uint, reflect.Uint8, reflect.Uint16, reflect.Uint32, reflect.Uint64:
		if a.Uint() != b.Uint() {
			return fmt.Sprintf("%s: %#x vs %#x", path, a.Uint(), b.Uint())
		}
	case reflect.Float64:
		// by bit pattern (NaN payloads, infinities), except that -0 and +0 are alike: the generated
		// zero test of a conditional double is `== 0`, so -0 in a conditional position means "absent";
		// a sign lost on a required double still shows in the byte-identity oracle.
		if math.Float64bits(a.Float()) != math.Float64bits(b.Float()) && !(a.Float() == 0 && b.Float() == 0) {
			return fmt.Sprintf("%s: %#x vs %#x", path, math.Float64bits(a.Float()), math.Float64bits(b.Float()))
		}
	case reflect.String:
		if a.String() != b.String() {
			return fmt.Sprintf("%s: %q vs %q", path, trunc(a.String()), trunc(b.String()))
		}
	case reflect.Slice:
		if a.Len() != b.Len() {
			return fmt.Sprintf("%s: len %d vs %d", path, a.Len(), b.Len())
		}
		for i := 0; i < a.Len(); i++ {
			if d := structEq(a.Index(i), b.Index(i), fmt.Sprintf("%s[%d]", path, i)); d != "" {
				return d
			}
		}
	case reflect.Array:
		for i := 0; i < a.Len(); i++ {
			if d := structEq(a.Index(i), b.Index(i), fmt.Sprintf("%s[%d]", path, i)); d != "" {
				return d
			}
		}
	case reflect.Struct:
		for i := 0; i < a.NumField(); i++ {
			if d := structEq(a.Field(i), b.Field(i), path+"."+a.Type().Field(i).Name); d != "" {
				return d
			}
		}
	case reflect.Interface, reflect.Ptr:
		if a.IsNil() != b.IsNil() {
			return fmt.Sprintf("%s: nil %v vs %v", path, a.IsNil(), b.IsNil())
		}
		if a.IsNil() {
			return ""
		}
		return structEq(a.Elem(), b.Elem(), path)
	default:
		return fmt.Sprintf("%s: unsupported kind %v", path, a.Kind())
	}
	return ""
}

func trunc(s string) string {
	if len(s) > 40 {
		return s[:40] + "..."
	}
	return s
}

// normalizeFlags calls the generated SetFlags on every nested struct of v.
// Encode does this itself, but on a copy for struct elements of vectors
// (range variable), so the original keeps zero flag words there.
func normalizeFlags(v reflect.Value) {
	switch v.Kind() {
	case reflect.Ptr, reflect.Interface:
		if !v.IsNil() {
			normalizeFlags(v.Elem())
		}
	case reflect.Struct:
		if v.CanAddr() {
			if sf, ok := v.Addr().Interface().(interface{ SetFlags() }); ok {
				sf.SetFlags()
			}
		}
		for i := 0; i < v.NumField(); i++ {
			normalizeFlags(v.Field(i))
		}
	case reflect.Slice:
		if v.Type().Elem().Kind() == reflect.Uint8 {
			return
		}
		for i := 0; i < v.Len(); i++ {
			normalizeFlags(v.Index(i))
		}
	}
}
