package main

import (
	"fmt"
	"sort"
	"strings"
)

// cycle is a closed path in the constructor graph: edges[i].to == edges[i+1].from,
// edges[last].to == edges[0].from.
type cycle struct {
	edges []edge
}

func (cy cycle) key() string {
	var sb strings.Builder
	for _, e := range cy.edges {
		fmt.Fprintf(&sb, "%d.%d>", e.from.idx, e.field)
	}
	return sb.String()
}

// String: "tg.TextBold.Text>tg.TextBold"
func (cy cycle) String() string {
	var sb strings.Builder
	for _, e := range cy.edges {
		fmt.Fprintf(&sb, "%s.%s", e.from.name, e.from.typ.Field(e.field).Name)
		if e.vector {
			sb.WriteString("[]")
		}
		sb.WriteString(">")
	}
	sb.WriteString(cy.edges[0].from.name)
	return sb.String()
}

// holeType names the declared type of the field through which the cycle closes
// at its first edge, e.g. "tg.RichTextClass" -> "RichText".
func holeName(e edge) string {
	t := e.from.typ.Field(e.field).Type
	if e.vector {
		t = t.Elem()
	}
	return pkgNames[e.from.pkg] + "." + strings.TrimSuffix(t.Name(), "Class")
}

// sccs returns the component index of every constructor (Tarjan, iterative-free: depth is small).
func (r *registry) sccs() (comp []int, sizes []int, adj [][]edge) {
	n := len(r.ctors)
	adj = make([][]edge, n)
	for i, c := range r.ctors {
		adj[i] = r.edges(c)
	}
	index := make([]int, n)
	low := make([]int, n)
	on := make([]bool, n)
	comp = make([]int, n)
	for i := range index {
		index[i] = -1
		comp[i] = -1
	}
	var stack []int
	next := 0
	// explicit stack to stay independent of graph depth
	type frame struct{ v, ei int }
	for s := 0; s < n; s++ {
		if index[s] != -1 {
			continue
		}
		fr := []frame{{s, 0}}
		index[s], low[s] = next, next
		next++
		stack = append(stack, s)
		on[s] = true
		for len(fr) > 0 {
			f := &fr[len(fr)-1]
			if f.ei < len(adj[f.v]) {
				w := adj[f.v][f.ei].to.idx
				f.ei++
				if index[w] == -1 {
					index[w], low[w] = next, next
					next++
					stack = append(stack, w)
					on[w] = true
					fr = append(fr, frame{w, 0})
				} else if on[w] && index[w] < low[f.v] {
					low[f.v] = index[w]
				}
				continue
			}
			v := f.v
			fr = fr[:len(fr)-1]
			if len(fr) > 0 {
				p := fr[len(fr)-1].v
				if low[v] < low[p] {
					low[p] = low[v]
				}
			}
			if low[v] == index[v] {
				id := len(sizes)
				sz := 0
				for {
					w := stack[len(stack)-1]
					stack = stack[:len(stack)-1]
					on[w] = false
					comp[w] = id
					sz++
					if w == v {
						break
					}
				}
				sizes = append(sizes, sz)
			}
		}
	}
	return comp, sizes, adj
}

// recursiveCycles finds, for every constructor that lies on a cycle, one
// shortest cycle through it; cycles are deduplicated up to rotation.
func (r *registry) recursiveCycles() (cycles []cycle, recursiveCtors int) {
	comp, sizes, adj := r.sccs()
	seen := map[string]bool{}
	for _, c := range r.ctors {
		self := false
		for _, e := range adj[c.idx] {
			if e.to == c {
				self = true
			}
		}
		if sizes[comp[c.idx]] < 2 && !self {
			continue
		}
		recursiveCtors++
		// BFS from c back to c inside the component
		prev := map[int]edge{}
		queue := []int{c.idx}
		var closing *edge
	bfs:
		for len(queue) > 0 {
			v := queue[0]
			queue = queue[1:]
			for _, e := range adj[v] {
				e := e
				if e.to == c {
					closing = &e
					break bfs
				}
				if comp[e.to.idx] != comp[c.idx] {
					continue
				}
				if _, ok := prev[e.to.idx]; ok || e.to.idx == c.idx {
					continue
				}
				prev[e.to.idx] = e
				queue = append(queue, e.to.idx)
			}
		}
		if closing == nil {
			continue
		}
		path := []edge{*closing}
		for v := closing.from.idx; v != c.idx; {
			e := prev[v]
			path = append([]edge{e}, path...)
			v = e.from.idx
		}
		// canonical rotation: start at the smallest constructor index
		min := 0
		for i, e := range path {
			if e.from.idx < path[min].from.idx {
				min = i
			}
		}
		rot := append(append([]edge{}, path[min:]...), path[:min]...)
		cy := cycle{rot}
		if !seen[cy.key()] {
			seen[cy.key()] = true
			cycles = append(cycles, cy)
		}
	}
	sort.Slice(cycles, func(i, j int) bool {
		if len(cycles[i].edges) != len(cycles[j].edges) {
			return len(cycles[i].edges) < len(cycles[j].edges)
		}
		return cycles[i].String() < cycles[j].String()
	})
	return cycles, recursiveCtors
}
