package main

import (
	"context"
	"errors"
	"fmt"
	"math/rand/v2"
	"os"
	"sort"
	"strings"
	"sync"
	"sync/atomic"
	"time"

	"github.com/gotd/td/telegram/uploader"
	"github.com/gotd/td/tg"

	"verif/harness/mon"
)

// upCase is one upload execution.
type upCase struct {
	Idx      int              `json:"idx"`
	Size     int64            `json:"size"`      // real length of the source
	Known    bool             `json:"known"`     // declared total = Size, else -1 (stream)
	PartSize int              `json:"part_size"` // 0 = automatic
	Threads  int              `json:"threads"`
	Reader   string           `json:"reader"`
	EOFData  bool             `json:"eof_with_data"`
	Progress bool             `json:"progress"`
	Plan     map[int][]string `json:"plan,omitempty"`
	Class    string           `json:"class"` // size class
	Fault    string           `json:"fault"` // fault pattern class
	Phase    int64            `json:"phase"`
	cost     int64
}

func validPartSize(ps int) bool {
	return ps > 0 && ps%1024 == 0 && maxPart%ps == 0
}

// refAutoPartSize is used ONLY to place sizes and faults near interesting
// boundaries when generating cases; the oracle never relies on it.
func refAutoPartSize(total int64) int {
	ps := 128 * kib
	for ps < maxPart && (total+int64(ps)-1)/int64(ps) > partsLimit {
		ps *= 2
	}
	return ps
}

func (u *upCase) effPartSize() int {
	if u.PartSize != 0 {
		return u.PartSize
	}
	if u.Known && u.Size > 0 {
		return refAutoPartSize(u.Size)
	}
	return 128 * kib
}

func (u *upCase) expParts() int {
	ps := int64(u.effPartSize())
	if ps <= 0 {
		return 0
	}
	return int((u.Size + ps - 1) / ps)
}

func psName(ps int) string {
	if ps == 0 {
		return "auto"
	}
	if ps%kib == 0 {
		return fmt.Sprintf("%dK", ps/kib)
	}
	return fmt.Sprint(ps)
}

type progressCounter struct{ n atomic.Int64 }

func (p *progressCounter) Chunk(ctx context.Context, s uploader.ProgressState) error {
	p.n.Add(1)
	return nil
}

var readerModes = []string{"full", "short", "tiny", "full", "zeros", "short"}
var validSizes = []int{1 * kib, 2 * kib, 4 * kib, 8 * kib, 16 * kib, 32 * kib, 64 * kib, 128 * kib, 256 * kib, 512 * kib}
var invalidSizes = []int{0, 1, 512, 1000, 1023, 1025, 1536, 3 * kib, 5 * kib, 96 * kib, 384 * kib, 768 * kib, maxPart + kib, 1 * mib, 2 * mib}

func genCases(c *mon.Ctx) []*upCase {
	r := c.Rand("c32-cases")
	var cases []*upCase
	add := func(class string, size int64, known bool, ps, threads int, fault string, plan map[int][]string) *upCase {
		i := len(cases)
		u := &upCase{
			Idx: i, Size: size, Known: known, PartSize: ps, Threads: threads,
			Reader: readerModes[r.IntN(len(readerModes))], EOFData: r.IntN(3) == 0, Progress: r.IntN(2) == 0,
			Plan: plan, Class: class, Fault: fault, Phase: r.Int64N(tabPeriod),
		}
		if size > 64*mib {
			// large simulated sources: full reads only (short reads multiply the call count, not the coverage)
			u.Reader = "full"
		}
		cases = append(cases, u)
		return u
	}
	thr := func() int { return 1 + r.IntN(8) }

	// --- boundary grid: 0, 1, part±1, k·part for automatic and explicit part sizes, known and unknown totals
	for _, ps := range []int{0, 1 * kib, 4 * kib, 32 * kib, 128 * kib, 512 * kib} {
		eff := int64(ps)
		if ps == 0 {
			eff = 128 * kib
		}
		for _, known := range []bool{true, false} {
			for _, sz := range []struct {
				n string
				v int64
			}{
				{"0", 0}, {"1", 1}, {"part-1", eff - 1}, {"part", eff}, {"part+1", eff + 1},
				{"2part-1", 2*eff - 1}, {"k*part", 2 * eff}, {"2part+1", 2*eff + 1}, {"k*part", 3 * eff},
				{"k*part", 7 * eff}, {"k*part+r", 8*eff + 5},
			} {
				add(sz.n, sz.v, known, ps, thr(), "none", nil)
			}
		}
	}
	// --- the 10 MiB small/big threshold
	for _, ps := range []int{0, 4 * kib, 128 * kib, 512 * kib} {
		for d := int64(-1); d <= 1; d++ {
			add(fmt.Sprintf("10MiB%+d", d), bigLimit+d, true, ps, thr(), "none", nil)
		}
	}
	add("10MiB+0", bigLimit, false, 0, thr(), "none", nil)
	add("10MiB+1", bigLimit+1, false, 0, thr(), "none", nil)
	add("10MiB+0/small-too-many-parts", bigLimit, true, 1*kib, thr(), "none", nil) // 10240 small parts: refused
	add("10MiB+1", bigLimit+1, true, 1*kib, thr(), "none", nil)                     // big, explicit: 10241 parts
	// --- 3999 / 4000 parts with explicit part sizes
	for _, ps := range []int{1 * kib, 2 * kib, 4 * kib} {
		for _, known := range []bool{true, false} {
			for _, d := range []int64{-1, 0, 1} {
				add(fmt.Sprintf("3999parts%+d", d), int64(partsLimit)*int64(ps)+d, known, ps, thr(), "none", nil)
			}
			add("4000parts", 4000*int64(ps), known, ps, thr(), "none", nil)
		}
	}
	// --- automatic sizing around the doubling points and the 3999 x 512 KiB end of its range
	type big struct {
		name string
		base int64
		ds   []int64
	}
	var large []big
	if c.Quick() {
		large = []big{
			// (the 2 GiB cases 3999x512K-1/0/+1 run in the thorough tier: under -race one of them
			// alone is 1-2 minutes of a single reader goroutine on a loaded machine)
			{"3999x128K", 3999 * 128 * kib, []int64{0, 1}},
			{"3999x256K", 3999 * 256 * kib, []int64{1}},
		}
	} else {
		large = []big{
			{"3999x128K", 3999 * 128 * kib, []int64{-1, 0, 1}},
			{"3999x256K", 3999 * 256 * kib, []int64{-1, 0, 1}},
			{"3999x512K", 3999 * 512 * kib, []int64{-1, 0, 1}},
			{"4000x512K", 4000 * 512 * kib, []int64{0}},
			{"4000x128K", 4000 * 128 * kib, []int64{0}},
			{"4000x256K", 4000 * 256 * kib, []int64{0}},
			{"3000x512K", 3000 * 512 * kib, []int64{7}},
		}
	}
	for _, b := range large {
		for _, d := range b.ds {
			add(fmt.Sprintf("%s%+d", b.name, d), b.base+d, true, 0, 4+r.IntN(5), "none", nil)
		}
	}
	if !c.Quick() {
		// streams longer than 3999 default parts, explicit 512 KiB with 3999 / 4000 parts
		add("stream-4800parts", 4800*128*kib, false, 0, 8, "none", nil)
		add("stream-4800parts+r", 4800*128*kib+77, false, 0, 6, "none", nil)
		add("3999x512K+0", 3999*512*kib, true, 512*kib, 8, "none", nil)
		add("3999x512K+0", 3999*512*kib, false, 512*kib, 8, "none", nil)
	}
	// --- invalid explicit part sizes: must be refused before anything is sent
	for i, ps := range invalidSizes {
		add("invalid-part-size", []int64{0, 5000, 3 * mib}[i%3], i%2 == 0, ps, thr(), "none", nil)
		add("invalid-part-size", 11*mib, i%2 == 1, ps, thr(), "none", nil)
	}
	// negative sizes: only known small totals, where a panic stays on the calling goroutine
	// (streams and big files panic inside a library goroutine and would kill the engine)
	add("negative-part-size", 5000, true, -1024, 1, "none", nil)
	add("negative-part-size", 1*mib, true, -4096, 2, "none", nil)

	// --- random shape generator used by the fault and the random arms
	shape := func(maxBytes int64) (size int64, known bool, ps int) {
		known = r.IntN(3) != 0
		if r.IntN(3) != 0 {
			ps = validSizes[r.IntN(len(validSizes))]
		}
		eff := int64(ps)
		if ps == 0 {
			eff = 128 * kib
		}
		maxK := maxBytes / eff
		if maxK > 300 {
			maxK = 300
		}
		if maxK < 2 {
			maxK = 2
		}
		k := 1 + r.Int64N(maxK)
		switch r.IntN(5) {
		case 0:
			size = k * eff
		case 1:
			size = k*eff - 1
		case 2:
			size = k*eff + 1
		default:
			size = k*eff - r.Int64N(eff)
		}
		return
	}
	sizeClass := func(u *upCase) string {
		ps := int64(u.effPartSize())
		cls := "mid"
		switch {
		case u.Size%ps == 0:
			cls = "k*part"
		case u.Size%ps == 1:
			cls = "k*part+1"
		case u.Size%ps == ps-1:
			cls = "k*part-1"
		}
		n := u.expParts()
		switch {
		case n <= 1:
			cls += "/n1"
		case n <= 8:
			cls += "/n<=8"
		case n <= 64:
			cls += "/n<=64"
		default:
			cls += "/n>64"
		}
		if u.Size > bigLimit {
			cls += "/big"
		}
		return cls
	}
	randFalsePlan := func(n int) map[int][]string {
		plan := map[int][]string{}
		for j := 1 + r.IntN(3); j > 0; j-- {
			p := r.IntN(n)
			for k := 1 + r.IntN(3); k > 0; k-- {
				plan[p] = append(plan[p], ansFalse)
			}
		}
		return plan
	}

	// --- false answers (retry with identical content)
	for i := c.N(70, 3500); i > 0; i-- {
		size, known, ps := shape(4 * mib)
		u := add("", size, known, ps, thr(), "false", nil)
		u.Plan = randFalsePlan(u.expParts())
		if r.IntN(4) == 0 { // first / last part specifically
			u.Plan[[]int{0, u.expParts() - 1}[r.IntN(2)]] = []string{ansFalse}
		}
		u.Class = sizeClass(u)
	}
	// --- FLOOD_WAIT (real 1 s wait each: at most 2 per case)
	for i := c.N(24, 480); i > 0; i-- {
		size, known, ps := shape(2 * mib)
		if i%6 == 0 {
			size, known = 11*mib+int64(r.IntN(3))-1, i%12 == 0 // big known / stream, 128 KiB parts
			ps = 0
		}
		u := add("", size, known, ps, thr(), "flood", nil)
		n := u.expParts()
		u.Plan = map[int][]string{}
		fl := []string{ansFlood, ansPremium}[r.IntN(4)/3]
		switch r.IntN(4) {
		case 0:
			u.Plan[r.IntN(n)] = []string{fl}
		case 1:
			u.Plan[r.IntN(n)] = []string{ansFalse, fl}
			u.Fault = "false+flood"
		case 2:
			u.Plan[r.IntN(n)] = []string{fl}
			p2 := r.IntN(n)
			u.Plan[p2] = append(u.Plan[p2], ansFlood) // maybe the same part twice in a row
			u.Fault = "flood x2"
		case 3:
			u.Plan[n-1] = []string{fl}
			u.Fault = "flood-last"
		}
		u.Class = sizeClass(u)
	}
	// --- hard errors: the upload must fail and return no descriptor
	for i := c.N(40, 1500); i > 0; i-- {
		size, known, ps := shape(3 * mib)
		u := add("", size, known, ps, thr(), "hard", nil)
		n := u.expParts()
		p := r.IntN(n)
		u.Plan = map[int][]string{p: {ansHard}}
		switch r.IntN(3) {
		case 0:
			u.Plan[p] = []string{ansFalse, ansHard}
			u.Fault = "false+hard"
		case 1:
			q := r.IntN(n)
			if q != p {
				u.Plan[q] = []string{ansFalse, ansFalse}
				u.Fault = "hard+false-elsewhere"
			}
		}
		switch p {
		case 0:
			u.Fault += "@first"
		case n - 1:
			u.Fault += "@last"
		}
		u.Class = sizeClass(u)
	}
	// --- fault-free random shapes up to the tier total
	total := c.N(400, 20000)
	for len(cases) < total {
		max := int64(4 * mib)
		if r.IntN(16) == 0 {
			max = 40 * mib
		}
		size, known, ps := shape(max)
		u := add("", size, known, ps, thr(), "none", nil)
		u.Class = sizeClass(u)
	}
	for _, u := range cases {
		u.cost = u.Size
		for _, pl := range u.Plan {
			for _, a := range pl {
				if a == ansFlood || a == ansPremium {
					u.cost += 1 << 30
				}
			}
		}
	}
	return cases
}

// result of one executed upload.
type upResult struct {
	file     tg.InputFileClass
	err      error
	panicked any
	stack    string
	log      []attempt
	reads    int64
	progress int64
}

func execute(t *simTable, u *upCase, seed *rand.Rand) upResult {
	src := &simSource{t: t, phase: u.Phase, size: u.Size, mode: u.Reader, eofWithData: u.EOFData, rng: seed}
	m := &mockClient{t: t, plan: u.Plan, perPart: map[int]int{}}
	up := uploader.NewUploader(m).WithThreads(u.Threads)
	if u.PartSize != 0 || u.Class == "invalid-part-size" {
		up = up.WithPartSize(u.PartSize)
	}
	var pc progressCounter
	if u.Progress {
		up = up.WithProgress(&pc)
	}
	total := int64(-1)
	if u.Known {
		total = u.Size
	}
	ctx, cancel := context.WithTimeout(context.Background(), 15*time.Minute)
	defer cancel()
	var res upResult
	res.panicked, res.stack = mon.Try(func() {
		res.file, res.err = up.Upload(ctx, uploader.NewUpload("sim.bin", src, total))
	})
	res.log = m.log()
	res.reads = src.reads
	res.progress = pc.n.Load()
	return res
}

// judge applies the C32 oracle to one finished upload.
func judge(c *mon.Ctx, t *simTable, u *upCase, res upResult, st *stats) {
	var accepted, rejected []attempt
	hardGiven := false
	for _, a := range res.log {
		switch a.Answer {
		case ansTrue:
			accepted = append(accepted, a)
		case ansHard:
			hardGiven = true
			rejected = append(rejected, a)
		default:
			rejected = append(rejected, a)
		}
	}
	witness := func(detail string, extra ...any) map[string]any {
		w := map[string]any{"case": u, "detail": detail, "requests_seen": len(res.log), "accepted": len(accepted)}
		if res.err != nil {
			w["err"] = res.err.Error()
		}
		if res.file != nil {
			w["descriptor"] = fmt.Sprintf("%T %+v", res.file, res.file)
		}
		if len(extra) > 0 {
			w["extra"] = extra
		}
		lg := res.log
		if len(lg) > 12 {
			lg = append(append([]attempt(nil), lg[:6]...), lg[len(lg)-6:]...)
		}
		w["log_head_tail"] = lg
		return w
	}

	if res.panicked != nil {
		sig := "panic"
		if u.PartSize < 0 {
			sig = "invalid-part-size-not-refused|negative-panics"
		}
		c.Violate(sig, witness(fmt.Sprint(res.panicked), res.stack))
		return
	}
	if errors.Is(res.err, context.DeadlineExceeded) {
		c.Inconclusive(fmt.Sprintf("case %d hit the 15 min per-case watchdog", u.Idx))
		return
	}

	// retried requests must carry identical content (whatever the outcome)
	byPart := map[int][]attempt{}
	for _, a := range res.log {
		byPart[a.Part] = append(byPart[a.Part], a)
	}
	for _, as := range byPart {
		for _, a := range as[1:] {
			if as[0].Answer != ansTrue && (a.Len != as[0].Len || a.Hash != as[0].Hash || a.Big != as[0].Big || a.FileID != as[0].FileID) {
				c.Violate("retry-content-differs", witness("a part answered false/flood was re-sent with different content", as[0], a))
				break
			}
		}
	}

	// refusals
	if u.PartSize != 0 && !validPartSize(u.PartSize) || u.Class == "invalid-part-size" {
		st.add("refusals_expected", 1)
		switch {
		case res.err == nil || res.file != nil:
			sig := "invalid-part-size-not-refused"
			if u.PartSize < 0 {
				sig += "|negative"
			}
			c.Violate(sig, witness("upload with an invalid explicit part size was not refused"))
		case len(res.log) > 0:
			c.Violate("invalid-part-size-sent-parts", witness("parts were sent before the invalid part size was refused"))
		default:
			st.add("refusals_observed", 1)
		}
		return
	}
	if res.err != nil {
		if res.file != nil {
			c.Violate("descriptor-with-error", witness("a descriptor was returned together with an error"))
		}
		switch {
		case hardGiven:
			st.add("hard_failures_observed", 1)
		case u.Known && u.Size <= bigLimit && u.expParts() > partsLimit && len(res.log) == 0:
			// documented refusal: a small file cannot have more than 3999 parts
			st.add("small_too_many_parts_refused", 1)
		default:
			c.Violate("unexpected-error", witness("valid upload without a hard fault failed"))
		}
		return
	}
	if hardGiven {
		c.Violate("hard-error-swallowed", witness("a part got a non-retryable error but the upload returned a descriptor"))
		return
	}
	if res.file == nil {
		c.Violate("nil-descriptor", witness("Upload returned (nil, nil)"))
		return
	}

	// --- successful upload: the accepted requests and the descriptor
	n := len(accepted)
	var (
		descBig   bool
		descParts int
		descID    int64
		descMD5   string
	)
	switch f := res.file.(type) {
	case *tg.InputFile:
		descParts, descID, descMD5 = f.Parts, f.ID, f.MD5Checksum
	case *tg.InputFileBig:
		descBig, descParts, descID = true, f.Parts, f.ID
	default:
		c.Violate("descriptor-kind", witness("unexpected descriptor type"))
		return
	}
	for _, a := range accepted {
		if a.Big != descBig {
			c.Violate("kind-method-mismatch", witness("part saved with the other method than the descriptor kind", a))
			break
		}
	}
	for _, a := range accepted {
		if a.FileID != descID {
			c.Violate("file-id-mismatch", witness("part saved under another file id than the descriptor", a))
			break
		}
	}
	if u.Known && descBig != (u.Size > bigLimit) {
		c.Violate("kind-threshold", witness("small/big kind not decided by the 10 MiB threshold"))
	}
	if descParts != n {
		c.Violate("descriptor-parts", witness(fmt.Sprintf("descriptor states %d parts, %d distinct requests were accepted", descParts, n)))
	}

	// part numbers are exactly 0..n-1, each accepted once
	byID := make(map[int]attempt, n)
	numbering := true
	for _, a := range accepted {
		if _, dup := byID[a.Part]; dup {
			c.Violate("part-accepted-twice", witness("a part number was accepted twice", a))
			numbering = false
			continue
		}
		byID[a.Part] = a
	}
	for _, a := range accepted {
		if a.Part < 0 || a.Part >= n {
			c.Violate("part-numbers-not-0..n-1", witness("part number outside 0..n-1", a))
			numbering = false
			break
		}
	}
	if !numbering {
		return
	}

	// part size: explicit, or the one the uploader chose (inferred from part 0)
	ps := u.PartSize
	if ps == 0 && n >= 2 {
		ps = byID[0].Len
		if !validPartSize(ps) {
			c.Violate("auto-part-size-invalid", witness(fmt.Sprintf("automatic part size %d is not a valid part size", ps)))
		}
	}
	if u.PartSize == 0 && u.Known && u.Size <= int64(partsLimit)*maxPart && n > partsLimit {
		c.Violate("auto-parts-over-limit", witness(fmt.Sprintf("automatic sizing produced %d parts for %d bytes", n, u.Size)))
	}
	var sum int64
	contentOK := true
	for i := 0; i < n; i++ {
		a := byID[i]
		if i < n-1 && a.Len != ps {
			c.Violate("non-last-part-size", witness(fmt.Sprintf("part %d of %d has %d bytes, part size %d", i, n, a.Len, ps), a))
			contentOK = false
			break
		}
		if ps == 0 && n == 1 {
			// single part with automatic sizing: only an upper bound is observable
			if a.Len > maxPart {
				c.Violate("part-too-large", witness("single part larger than 512 KiB", a))
			}
		} else if a.Len > ps {
			c.Violate("last-part-larger-than-part-size", witness("last part longer than the part size", a))
		}
		if sum+int64(a.Len) > u.Size {
			c.Violate("bytes-beyond-source", witness("accepted parts are longer than the source", a))
			contentOK = false
			break
		}
		if a.Hash != t.hashAt(u.Phase, sum, a.Len) {
			c.Violate("content-mismatch", witness(fmt.Sprintf("part %d (len %d) differs from source bytes at offset %d", i, a.Len, sum), a))
			contentOK = false
			break
		}
		sum += int64(a.Len)
	}
	if contentOK && sum != u.Size {
		c.Violate("length-mismatch", witness(fmt.Sprintf("accepted parts total %d bytes, source has %d", sum, u.Size)))
	}

	if !descBig {
		if want := t.md5Of(u.Phase, u.Size); !strings.EqualFold(descMD5, want) {
			c.Violate("md5-mismatch", witness("small-file MD5 differs from MD5(source): want "+want))
		}
		st.add("small_md5_checked", 1)
	} else {
		// file_total_parts
		if u.Known {
			for _, a := range accepted {
				if a.Total != n {
					c.Violate("big-total-parts|known-total", witness(fmt.Sprintf("known total: part carries file_total_parts=%d, n=%d", a.Total, n), a))
					break
				}
			}
			st.add("big_known_parts_checked", int64(n))
		} else {
			announced := 0
			for _, a := range accepted {
				switch a.Total {
				case n:
					announced++
				case -1:
				default:
					c.Violate("big-total-parts|stream-bogus-count", witness(fmt.Sprintf("stream: part carries file_total_parts=%d, neither -1 nor n=%d", a.Total, n), a))
				}
			}
			st.add("stream_parts_carrying_n", int64(announced))
			st.add("stream_parts_carrying_minus1", int64(n-announced))
			if n > 0 {
				last := byID[n-1]
				if ps > 0 && last.Len < ps && n >= 1 && (n > 1 || u.PartSize != 0) {
					// the read that produced this part hit EOF short: the total is known when it is sent
					if last.Total != n {
						c.Violate("big-total-parts|stream-last-part", witness(fmt.Sprintf("stream: the short last part carries file_total_parts=%d, n=%d", last.Total, n), last))
					}
					st.add("stream_short_last_checked", 1)
				} else if announced == 0 {
					// exact multiple of the part size: EOF is seen after every part was queued.
					// Not demanded by the statement ("once it is known"); reported as an observation.
					st.add("stream_exact_multiple_total_never_announced", 1)
				}
			}
		}
	}
	st.add("parts_accepted", int64(n))
	st.add("bytes_verified", sum)
}

type stats struct {
	mu sync.Mutex
	m  map[string]int64
}

func (s *stats) add(k string, n int64) { s.mu.Lock(); s.m[k] += n; s.mu.Unlock() }

func runC32(c *mon.Ctx) {
	c.Rule("each case = one real Uploader.Upload of a simulated source (bytes = seeded table indexed by offset+phase, odd period) through a recording mock uploader.Client; " +
		"case list: boundary grid {0,1,part±1,k·part} x {auto,1K,4K,32K,128K,512K} x {known,stream}, 10 MiB−1/0/+1, 3999/4000 parts (explicit 1K/2K/4K, automatic 3999x128K/256K/512K ±1), " +
		"invalid explicit part sizes, then seeded random shapes with per-part answer plans (false xN, FLOOD_WAIT_0 / FLOOD_PREMIUM_WAIT_0 at most 2 per case, hard error), threads 1..8, " +
		"reader modes full/short/tiny/zero-length reads, EOF with or after the last data; cases run 16-wide. Oracle over accepted requests + descriptor: numbers 0..n-1 once, " +
		"per-part fingerprint = source at part·partSize, non-last length = part size, Σlen = size, auto sizing n ≤ 3999 and valid size, Parts = n, kind by 10 MiB (known totals) and = method used, " +
		"MD5, file_total_parts = n (known: every part; stream: short last part, others −1 or n), retries byte-identical, hard error => error and nil descriptor, invalid part size => refused with nothing sent. " +
		"distinct non-trivial = (size class, part size, known/stream, threads, fault pattern, reader mode) of executed uploads")
	c.Assume("the mock answers immediately; 64-bit keyed fingerprints (hash/maphash) stand for byte equality of parts (a collision can only hide a violation)")
	c.Assume("declared totals equal the real source length (a lying size is outside the statement); resumed Upload objects are not exercised")
	c.Assume("FLOOD_WAIT uses the real clock (the uploader offers no clock injection): flood cases are few and only their outcome is judged, never their duration")

	t := newSimTable(c.Rand("c32-table"))
	cases := genCases(c)
	order := make([]*upCase, len(cases))
	copy(order, cases)
	sort.SliceStable(order, func(i, j int) bool { return order[i].cost > order[j].cost })

	st := &stats{m: map[string]int64{}}
	var wg sync.WaitGroup
	ch := make(chan *upCase)
	const width = 16
	for w := 0; w < width; w++ {
		wg.Add(1)
		go func() {
			defer wg.Done()
			for u := range ch {
				t0 := time.Now()
				res := execute(t, u, c.RandN("c32-reader", u.Idx))
				t1 := time.Now()
				judge(c, t, u, res, st)
				if os.Getenv("UPMON_DEBUG") != "" { // development aid only: never influences a verdict
					fmt.Fprintf(os.Stderr, "case %d size=%d ps=%s thr=%d %s/%s exec=%v judge=%v\n", u.Idx, u.Size, psName(u.PartSize), u.Threads, u.Class, u.Fault, t1.Sub(t0), time.Since(t1))
				}
				c.Eval(1)
				kn := "known"
				if !u.Known {
					kn = "stream"
				}
				c.Distinct(fmt.Sprintf("%s|ps=%s|%s|t=%d|%s|%s", u.Class, psName(u.PartSize), kn, u.Threads, u.Fault, u.Reader))
				outcome := "ok"
				if res.err != nil {
					outcome = "error"
				}
				if res.panicked != nil {
					outcome = "panic"
				}
				c.Sample(u.Fault+"/"+outcome, map[string]any{
					"size": u.Size, "known": u.Known, "part_size": psName(u.PartSize), "threads": u.Threads, "class": u.Class,
					"reader": u.Reader, "requests": len(res.log), "descriptor": fmt.Sprintf("%T", res.file), "source_reads": res.reads,
				})
				st.add("requests_seen", int64(len(res.log)))
				st.add("progress_callbacks", res.progress)
				for _, a := range res.log {
					if a.Answer != ansTrue {
						st.add("answers_"+a.Answer, 1)
					}
				}
				st.add("uploads_"+outcome, 1)
			}
		}()
	}
	only := os.Getenv("UPMON_CASES") // development aid: run a subset (the run is then inconclusive)
	for _, u := range order {
		if only != "" && !strings.Contains(","+only+",", fmt.Sprintf(",%d,", u.Idx)) {
			continue
		}
		ch <- u
	}
	if only != "" {
		c.Inconclusive("UPMON_CASES subset run")
	}
	close(ch)
	wg.Wait()

	st.mu.Lock()
	for k, v := range st.m {
		c.Set(k, v)
	}
	okUploads := st.m["uploads_ok"]
	parts := st.m["parts_accepted"]
	st.mu.Unlock()
	if okUploads < int64(len(cases))/4 || parts == 0 {
		c.Inconclusive(fmt.Sprintf("only %d of %d uploads succeeded and %d parts were checked", okUploads, len(cases), parts))
	}
}
