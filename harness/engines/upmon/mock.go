package main

import (
	"context"
	"sync"

	"github.com/gotd/td/tg"
	"github.com/gotd/td/tgerr"
)

// Answers the mock can give to one request.
const (
	ansTrue    = "true"
	ansFalse   = "false"   // "not saved": the same part must be sent again
	ansFlood   = "flood"   // FLOOD_WAIT_0: the library really waits 0+1 s
	ansPremium = "premium" // FLOOD_PREMIUM_WAIT_0, same handling
	ansHard    = "hard"    // non-retryable RPC error: the upload must fail
)

// attempt is one request seen by the mock (event log entry).
type attempt struct {
	Seq    int    `json:"seq"`
	Big    bool   `json:"big"`
	FileID int64  `json:"file_id"`
	Part   int    `json:"part"`
	Total  int    `json:"total_parts"` // file_total_parts (big only)
	Len    int    `json:"len"`
	Hash   uint64 `json:"hash"`
	Answer string `json:"answer"`
}

// mockClient implements uploader.Client. One instance per upload.
type mockClient struct {
	t    *simTable
	plan map[int][]string // part -> answers given before the final "true"

	mu       sync.Mutex
	seq      int
	perPart  map[int]int
	attempts []attempt
	sink     byte
}

// touch reads a sample of the request bytes through race-instrumented loads
// (first and last 64 bytes, then every 4 KiB): if the library recycled or
// refilled the buffer while the request is in flight, the race detector sees
// the conflicting write here. A full instrumented copy of every part costs
// several times the upload itself for the multi-GiB cases.
func touch(data []byte) (x byte) {
	n := len(data)
	for i := 0; i < n && i < 64; i++ {
		x ^= data[i]
	}
	for i := n - 64; i < n; i++ {
		if i >= 0 {
			x ^= data[i]
		}
	}
	for i := 0; i < n; i += 4096 {
		x ^= data[i]
	}
	return x
}

func (m *mockClient) handle(big bool, fileID int64, part, total int, data []byte) (bool, error) {
	x := touch(data)
	h := m.t.hash(data) // runtime memhash: not instrumented

	m.mu.Lock()
	k := m.perPart[part]
	m.perPart[part] = k + 1
	ans := ansTrue
	if pl := m.plan[part]; k < len(pl) {
		ans = pl[k]
	}
	m.sink ^= x
	m.seq++
	seq := m.seq
	m.attempts = append(m.attempts, attempt{
		Seq: seq, Big: big, FileID: fileID, Part: part, Total: total, Len: len(data), Hash: h, Answer: ans,
	})
	m.mu.Unlock()

	// (no artificial yields: on a loaded machine a Gosched costs a scheduling
	// quantum; the completion order of the threads is shuffled by the load itself)
	_ = seq
	switch ans {
	case ansFalse:
		return false, nil
	case ansFlood:
		return false, tgerr.New(420, "FLOOD_WAIT_0")
	case ansPremium:
		return false, tgerr.New(420, "FLOOD_PREMIUM_WAIT_0")
	case ansHard:
		return false, tgerr.New(400, "FILE_PART_INVALID")
	}
	return true, nil
}

func (m *mockClient) UploadSaveFilePart(ctx context.Context, r *tg.UploadSaveFilePartRequest) (bool, error) {
	return m.handle(false, r.FileID, r.FilePart, 0, r.Bytes)
}

func (m *mockClient) UploadSaveBigFilePart(ctx context.Context, r *tg.UploadSaveBigFilePartRequest) (bool, error) {
	return m.handle(true, r.FileID, r.FilePart, r.FileTotalParts, r.Bytes)
}

func (m *mockClient) log() []attempt {
	m.mu.Lock()
	defer m.mu.Unlock()
	return append([]attempt(nil), m.attempts...)
}
