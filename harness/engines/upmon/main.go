// Engine upmon: runtime monitor for the uploader (C32). A harness-owned
// uploader.Client records every saveFilePart / saveBigFilePart request and
// answers true / false / FLOOD_WAIT / hard error by a per-part plan; sources
// are simulated (bytes are a function of the offset), so multi-GiB uploads
// cost no memory and every accepted part is re-derived from its offset.
package main

import (
	"verif/harness/mon"
)

func main() {
	mon.Main("upmon", map[string]mon.PropFunc{
		"C32": runC32,
	})
}
