// Engine upmon: runtime monitor for the uploader (C32). A harness-owned
// uploader.Client records every saveFilePart / saveBigFilePart request and
// answers true / false / FLOOD_WAIT / hard error by a per-part plan; sources
// are simulated (bytes are a function of the offset), so multi-GiB uploads
// cost no memory and every accepted part is re-derived from its offset.
package main

import (
	"os"
	"strings"
	"syscall"

	"verif/harness/mon"
)

// tsanFlag: the race runtime clears the shadow of every allocation of 64 KiB
// or more by re-mmapping it, so each 128..512 KiB part buffer the uploader
// allocates (under -race: one per part, see bin.Buffer.ResetN) costs hundreds
// of fresh page faults. With the threshold raised the shadow is cleared with a
// memset instead; detection is unchanged. Measured on a 500 MiB upload:
// 6m33s -> 4.9s. GORACE is read before main, hence the one-time re-exec.
const tsanFlag = "clear_shadow_mmap_threshold"

func main() {
	if raceEnabled {
		if g := os.Getenv("GORACE"); !strings.Contains(g, tsanFlag) {
			if self, err := os.Executable(); err == nil {
				os.Setenv("GORACE", strings.TrimSpace(g+" "+tsanFlag+"=4294967296"))
				_ = syscall.Exec(self, os.Args, os.Environ()) // returns only on failure: carry on without the flag
			}
		}
	}
	mon.Main("upmon", map[string]mon.PropFunc{
		"C32": runC32,
	})
}
