package main

import (
	"crypto/md5" // #nosec G501 -- the property is about the MD5 the API demands
	"encoding/hex"
	"hash/maphash"
	"io"
	"math/rand/v2"
)

const (
	kib = 1024
	mib = 1024 * kib

	maxPart    = 512 * kib      // largest valid part size
	bigLimit   = 10 * mib       // "more than 10 MB" => big
	partsLimit = 3999           // part-count limit of the statement
	tabPeriod  = 2*mib + 17     // odd: coprime with every (power of two) part size
	tabExt     = 2 * maxPart    // contiguous look-ahead appended to the table
	tabLen     = tabPeriod + tabExt
)

// simTable is the pseudo-random content function: the byte at offset o of a
// source with phase p is tab[(o+p) mod tabPeriod]. Because tabPeriod is odd,
// two chunks that start at different multiples of a power-of-two part size
// start at different table positions unless they are tabPeriod parts apart
// (more than two million), so swapped / duplicated / shifted parts are seen.
type simTable struct {
	tab  []byte
	seed maphash.Seed
}

func newSimTable(r *rand.Rand) *simTable {
	t := &simTable{tab: make([]byte, tabLen), seed: maphash.MakeSeed()}
	for i := 0; i < tabPeriod; i += 8 {
		v := r.Uint64()
		for j := 0; j < 8 && i+j < tabPeriod; j++ {
			t.tab[i+j] = byte(v >> (8 * j))
		}
	}
	copy(t.tab[tabPeriod:], t.tab[:tabExt])
	return t
}

// fill writes source bytes [off, off+len(p)) for the given phase into p.
//
// Not race-instrumented: the destination is the uploader's part buffer, and a
// range write of up to 512 KiB through the race runtime costs more than the
// whole rest of an upload (multi-GiB sources must stay cheap). The uploader's
// own accesses to its buffers remain instrumented.
//
//go:norace
func (t *simTable) fill(p []byte, phase, off int64) {
	for len(p) > 0 {
		pos := int((off + phase) % tabPeriod)
		n := copy(p, t.tab[pos:])
		p = p[n:]
		off += int64(n)
	}
}

// hashAt is the fingerprint of source bytes [off, off+n).
func (t *simTable) hashAt(phase, off int64, n int) uint64 {
	pos := int((off + phase) % tabPeriod)
	if pos+n <= tabLen {
		return maphash.Bytes(t.seed, t.tab[pos:pos+n])
	}
	b := make([]byte, n)
	t.fill(b, phase, off)
	return maphash.Bytes(t.seed, b)
}

func (t *simTable) hash(b []byte) uint64 { return maphash.Bytes(t.seed, b) }

// md5Of is the hex MD5 of source bytes [0, size).
func (t *simTable) md5Of(phase, size int64) string {
	h := md5.New() // #nosec G401
	buf := make([]byte, 256*kib)
	for off := int64(0); off < size; {
		n := int64(len(buf))
		if size-off < n {
			n = size - off
		}
		t.fill(buf[:n], phase, off)
		h.Write(buf[:n])
		off += n
	}
	return hex.EncodeToString(h.Sum(nil))
}

// simSource is the io.Reader handed to the uploader. It is read by one
// goroutine at a time (the uploader's reader goroutine / small loop).
type simSource struct {
	t     *simTable
	phase int64
	size  int64
	pos   int64
	mode  string // full | short | tiny | zeros
	// eofWithData: the final chunk is returned together with io.EOF
	eofWithData bool
	rng         *rand.Rand
	reads       int64
	afterEOF    int64
}

func (s *simSource) Read(p []byte) (int, error) {
	s.reads++
	if len(p) == 0 {
		return 0, nil
	}
	rem := s.size - s.pos
	if rem == 0 {
		s.afterEOF++
		return 0, io.EOF
	}
	n := len(p)
	if int64(n) > rem {
		n = int(rem)
	}
	switch s.mode {
	case "short":
		n = 1 + s.rng.IntN(n)
	case "tiny":
		if m := 1 + s.rng.IntN(1500); m < n {
			n = m
		}
	case "zeros":
		// (0, nil) is discouraged but legal for an io.Reader
		if s.rng.IntN(4) == 0 {
			return 0, nil
		}
		n = 1 + s.rng.IntN(n)
	}
	s.t.fill(p[:n], s.phase, s.pos)
	// instrumented writes at the positions the mock samples (see touch): a part
	// buffer handed back to the reader while a worker still sends it is reported
	for i := 0; i < n; i += 4096 {
		p[i] ^= 0 // instrumented read+write, value unchanged
	}
	p[n-1] ^= 0
	s.pos += int64(n)
	if s.pos == s.size && s.eofWithData {
		return n, io.EOF
	}
	return n, nil
}
