package main

import (
	"context"
	"errors"
	"fmt"
	"math/big"
	"math/rand/v2"
	"sort"
	"strings"
	"sync"
	"time"

	"github.com/gotd/td/exchange"

	"verif/harness/mon"
	"verif/harness/refmodel"
)

// C10 — key exchange never completes with an unauthenticated or tampered server.
//
// Two adversary families drive the REAL client flow:
//   S  the harness is the server (scripted reference server, refserver.go). With
//      the trusted private key it can send any DH parameters; with its own key it
//      is an unauthenticated peer.
//   M  the harness is a man in the middle between the real client flow and the
//      real in-tree server flow.
// Every strategy is "control" (the honest script, or a variation the
// specification allows: must SUCCEED with agreeing keys), "must-fail" (at least
// one effective manipulation: Run must return an error) or "observe" (outside
// the statement; outcome recorded only).

type c10Strat struct {
	Name    string
	Family  string // S | M
	Kind    string // control | must-fail | observe
	Probing bool   // the peer would complete the exchange if the client did not refuse
	Setup   func(r *rand.Rand, k *srvKnobs, x *c10Run)
	Mid     func(r *rand.Rand, x *c10Run) middle
}

// c10Run carries per-run settings a strategy may change and observations it makes.
type c10Run struct {
	temp         bool
	pqAbortAfter int // abort DecomposePQ through the random source after this many outer iterations (0: never)
	pqClass      string
	special      string     // strategies that need values of the running session
	prior        *srvResult // an earlier honest scripted session (replay material)
	priorM       *priorM    // an earlier honest client<->real server session
	tap          *tap
	applied      bool // M family: the manipulation was actually applied to a frame
	ineffective  bool // the manipulation turned out not to change what the client sees (semantically)
}

type priorM struct{ s2c [][]byte }

type c10Result struct {
	Strategy   string `json:"strategy"`
	Kind       string `json:"kind"`
	Run        int    `json:"run"`
	ClientErr  string `json:"client_error"`
	Reached    int    `json:"server_script_reached_step,omitempty"`
	KeysAgree  *bool  `json:"keys_agree,omitempty"`
	Applied    bool   `json:"manipulation_applied"`
	Effective  bool   `json:"manipulation_effective"`
	PQAborted  bool   `json:"pq_decomposition_aborted_by_harness,omitempty"`
	PQIters    int    `json:"pq_outer_iterations,omitempty"`
	Panic      string `json:"panic,omitempty"`
	Notes      string `json:"notes,omitempty"`
	clientOK   bool
	inconcl    string
	progressed bool
}

func flipBit(b []byte, r *rand.Rand) {
	if len(b) == 0 {
		return
	}
	b[r.IntN(len(b))] ^= 1 << r.IntN(8)
}

// alter16 returns the three standard alterations of a 128-bit field.
func alter16(variant string, v [16]byte, r *rand.Rand) [16]byte {
	switch variant {
	case "flip":
		flipBit(v[:], r)
	case "random":
		old := v
		for v == old {
			copy(v[:], randBytes(r, 16))
		}
	case "zero":
		if v == ([16]byte{}) {
			v[0] = 1
		} else {
			v = [16]byte{}
		}
	}
	return v
}

var errAbortPQ = errors.New("harness: pq decomposition aborted")

func bigHex(s string) *big.Int {
	v, ok := new(big.Int).SetString(s, 16)
	if !ok {
		panic("bad hex")
	}
	return v
}

// sStrategies builds the scripted-server adversary library.
func sStrategies(d *dataSet) []c10Strat {
	var out []c10Strat
	add := func(name, kind string, probing bool, f func(r *rand.Rand, k *srvKnobs, x *c10Run)) {
		out = append(out, c10Strat{Name: name, Family: "S", Kind: kind, Probing: probing, Setup: f})
	}
	tg := d.primes["safe2048_telegram"]
	trustedFP, attackerFP := refKey(d.trusted).Fingerprint(), refKey(d.attacker).Fingerprint()
	lo := new(big.Int).Lsh(big.NewInt(1), 2048-64)

	// ---- controls
	add("control/honest", "control", false, func(r *rand.Rand, k *srvKnobs, x *c10Run) {})
	add("control/temp-mode", "control", false, func(r *rand.Rand, k *srvKnobs, x *c10Run) { x.temp = true })
	add("control/pq-31-bit-primes", "control", false, func(r *rand.Rand, k *srvKnobs, x *c10Run) { k.pqBits = 31 })
	add("control/extra-untrusted-fingerprints", "control", false, func(r *rand.Rand, k *srvKnobs, x *c10Run) {
		k.fingerprints = []int64{attackerFP, int64(r.Uint64()), trustedFP}
	})
	for _, st := range []int32{1, -1, 1 << 30, -1 << 31} {
		add(fmt.Sprintf("control/server-time=%d", st), "control", false, func(r *rand.Rand, k *srvKnobs, x *c10Run) { k.serverTime = st })
	}
	add("control/g_a=4^993-just-inside-range", "control", false, func(r *rand.Rand, k *srvKnobs, x *c10Run) {
		k.g = 4
		k.ga = func(a *big.Int) (*big.Int, func(*big.Int) *big.Int) {
			e := big.NewInt(993)
			return new(big.Int).Exp(big.NewInt(4), e, tg), func(gb *big.Int) *big.Int { return new(big.Int).Exp(gb, e, tg) }
		}
	})
	// every (safe prime, g in 2..7): valid by the residue rule -> control, else must-fail
	for _, pn := range []string{"safe2048_telegram", "safe2048_b", "safe2048_c"} {
		p := d.primes[pn]
		for g := 2; g <= 7; g++ {
			if pn == "safe2048_telegram" && g == 3 {
				continue // = control/honest
			}
			name := fmt.Sprintf("g=%d/prime=%s", g, pn)
			set := func(r *rand.Rand, k *srvKnobs, x *c10Run) { k.prime, k.g = p, int32(g) }
			if refmodel.ExGOKForPrime(g, p) {
				add("control/"+name, "control", false, set)
			} else {
				add("g-not-quadratic-residue/"+name, "must-fail", true, set)
			}
		}
	}

	// ---- peers without the trusted private key
	atk := func(fps func(r *rand.Rand) []int64) func(r *rand.Rand, k *srvKnobs, x *c10Run) {
		return func(r *rand.Rand, k *srvKnobs, x *c10Run) { k.key = refKey(d.attacker); k.fingerprints = fps(r) }
	}
	add("unauthenticated/own-key-own-fingerprint", "must-fail", true, atk(func(*rand.Rand) []int64 { return []int64{attackerFP} }))
	add("unauthenticated/own-key-claims-trusted-fingerprint", "must-fail", true, atk(func(*rand.Rand) []int64 { return []int64{trustedFP} }))
	add("unauthenticated/own-key-both-fingerprints", "must-fail", true, atk(func(*rand.Rand) []int64 { return []int64{attackerFP, trustedFP} }))
	add("unauthenticated/own-key-claims-decoy-fingerprint", "must-fail", true, atk(func(*rand.Rand) []int64 { return []int64{refKey(d.decoy1).Fingerprint()} }))
	add("fingerprints/empty-vector", "must-fail", true, func(r *rand.Rand, k *srvKnobs, x *c10Run) { k.fingerprints = []int64{} })
	add("fingerprints/random-only", "must-fail", true, func(r *rand.Rand, k *srvKnobs, x *c10Run) {
		k.fingerprints = []int64{int64(r.Uint64()), int64(r.Uint64()), int64(r.Uint64())}
	})
	add("fingerprints/trusted-with-one-bit-flipped", "must-fail", true, func(r *rand.Rand, k *srvKnobs, x *c10Run) {
		k.fingerprints = []int64{trustedFP ^ (1 << r.IntN(64))}
	})

	// ---- nonce / server_nonce alterations in every message that carries them
	for _, v := range []string{"flip", "random", "zero"} {
		add("resPQ/nonce-"+v, "must-fail", true, func(r *rand.Rand, k *srvKnobs, x *c10Run) {
			k.mutResPQ = func(m *refmodel.ExResPQ) { m.Nonce = alter16(v, m.Nonce, r) }
		})
		add("server_DH_params_ok/nonce-"+v, "must-fail", true, func(r *rand.Rand, k *srvKnobs, x *c10Run) {
			k.mutDHParams = func(m *refmodel.ExServerDHParams) { m.Nonce = alter16(v, m.Nonce, r) }
		})
		add("server_DH_params_ok/server_nonce-"+v, "must-fail", true, func(r *rand.Rand, k *srvKnobs, x *c10Run) {
			k.mutDHParams = func(m *refmodel.ExServerDHParams) { m.ServerNonce = alter16(v, m.ServerNonce, r) }
		})
		add("server_DH_inner_data/nonce-"+v, "must-fail", true, func(r *rand.Rand, k *srvKnobs, x *c10Run) {
			k.mutInner = func(m *refmodel.ExServerDHInner) { m.Nonce = alter16(v, m.Nonce, r) }
		})
		add("server_DH_inner_data/server_nonce-"+v, "must-fail", true, func(r *rand.Rand, k *srvKnobs, x *c10Run) {
			k.mutInner = func(m *refmodel.ExServerDHInner) { m.ServerNonce = alter16(v, m.ServerNonce, r) }
		})
		add("dh_gen_ok/nonce-"+v, "must-fail", true, func(r *rand.Rand, k *srvKnobs, x *c10Run) {
			k.mutDHGen = func(m *refmodel.ExDHGen) { m.Nonce = alter16(v, m.Nonce, r) }
		})
		add("dh_gen_ok/server_nonce-"+v, "must-fail", true, func(r *rand.Rand, k *srvKnobs, x *c10Run) {
			k.mutDHGen = func(m *refmodel.ExDHGen) { m.ServerNonce = alter16(v, m.ServerNonce, r) }
		})
		add("dh_gen_ok/new_nonce_hash1-"+v, "must-fail", true, func(r *rand.Rand, k *srvKnobs, x *c10Run) {
			k.mutDHGen = func(m *refmodel.ExDHGen) { m.Hash = alter16(v, m.Hash, r) }
		})
	}
	add("server_nonce/switched-consistently-after-resPQ", "must-fail", true, func(r *rand.Rand, k *srvKnobs, x *c10Run) {
		var first [16]byte
		k.mutResPQ = func(m *refmodel.ExResPQ) { first = m.ServerNonce; m.ServerNonce = alter16("random", m.ServerNonce, r) }
		_ = first // the script keeps using its own server_nonce (for tmp_aes too) while the client saw another one
	})

	// ---- encrypted_answer manipulations
	ct := func(name string, f func(r *rand.Rand, c []byte, x *c10Run) []byte) {
		add("encrypted_answer/"+name, "must-fail", false, func(r *rand.Rand, k *srvKnobs, x *c10Run) {
			k.mutAnswerCT = func(c []byte) []byte { return f(r, append([]byte(nil), c...), x) }
		})
	}
	ct("bit-flip-anywhere", func(r *rand.Rand, c []byte, x *c10Run) []byte { flipBit(c, r); return c })
	ct("bit-flip-first-block", func(r *rand.Rand, c []byte, x *c10Run) []byte { flipBit(c[:16], r); return c })
	ct("bit-flip-last-block", func(r *rand.Rand, c []byte, x *c10Run) []byte { flipBit(c[len(c)-16:], r); return c })
	ct("eight-bit-flips", func(r *rand.Rand, c []byte, x *c10Run) []byte {
		for i := 0; i < 8; i++ {
			flipBit(c, r)
		}
		return c
	})
	ct("truncated-one-block", func(r *rand.Rand, c []byte, x *c10Run) []byte { return c[:len(c)-16] })
	ct("truncated-random-blocks", func(r *rand.Rand, c []byte, x *c10Run) []byte { return c[:16*(1+r.IntN(len(c)/16-1))] })
	ct("truncated-unaligned", func(r *rand.Rand, c []byte, x *c10Run) []byte { return c[:len(c)-1-r.IntN(15)] })
	ct("truncated-to-one-block", func(r *rand.Rand, c []byte, x *c10Run) []byte { return c[:16] })
	ct("empty", func(r *rand.Rand, c []byte, x *c10Run) []byte { return nil })
	ct("extended-one-block", func(r *rand.Rand, c []byte, x *c10Run) []byte { return append(c, randBytes(r, 16)...) })
	ct("extended-unaligned", func(r *rand.Rand, c []byte, x *c10Run) []byte { return append(c, randBytes(r, 1+r.IntN(15))...) })
	ct("two-blocks-swapped", func(r *rand.Rand, c []byte, x *c10Run) []byte {
		n := len(c) / 16
		i := r.IntN(n)
		j := (i + 1 + r.IntN(n-1)) % n
		var t [16]byte
		copy(t[:], c[16*i:])
		copy(c[16*i:16*i+16], c[16*j:16*j+16])
		copy(c[16*j:16*j+16], t[:])
		return c
	})
	ct("first-block-moved-last", func(r *rand.Rand, c []byte, x *c10Run) []byte { return append(c[16:], c[:16]...) })
	ct("random-same-length", func(r *rand.Rand, c []byte, x *c10Run) []byte { return randBytes(r, len(c)) })
	ct("doubled", func(r *rand.Rand, c []byte, x *c10Run) []byte { return append(c, c...) })
	ct("replayed-from-earlier-session", func(r *rand.Rand, c []byte, x *c10Run) []byte { return append([]byte(nil), x.prior.AnswerCT...) })
	add("encrypted_answer/sha1-prefix-bit-flip", "must-fail", false, func(r *rand.Rand, k *srvKnobs, x *c10Run) {
		k.mutAnswerPT = func(pt []byte) []byte { flipBit(pt[:20], r); return pt }
	})
	add("encrypted_answer/encrypted-under-other-new_nonce", "must-fail", false, func(r *rand.Rand, k *srvKnobs, x *c10Run) {
		// realised as: whole plaintext re-randomised, i.e. what decrypting under the wrong tmp key yields
		k.mutAnswerPT = func(pt []byte) []byte { return randBytes(r, len(pt)) }
	})
	add("server_DH_params/fail-constructor", "must-fail", false, func(r *rand.Rand, k *srvKnobs, x *c10Run) {
		k.mutDHParams = func(m *refmodel.ExServerDHParams) {
			m.ID = refmodel.ExIDServerDHFail
			copy(m.Hash[:], randBytes(r, 16))
		}
	})
	add("server_DH_params/unknown-constructor", "must-fail", false, func(r *rand.Rand, k *srvKnobs, x *c10Run) {
		k.rawBody = func(step int, body []byte) []byte {
			if step == 5 {
				body = append([]byte{0xde, 0xad, 0xbe, 0xef}, body[4:]...)
			}
			return body
		}
	})

	// ---- unsafe DH primes (g = 4 has no residue condition, so only the prime checks can refuse)
	prime := func(name string, p func() *big.Int, g int32) {
		add("dh_prime/"+name, "must-fail", true, func(r *rand.Rand, k *srvKnobs, x *c10Run) { k.prime, k.g = p(), g })
	}
	cst := func(v *big.Int) func() *big.Int { return func() *big.Int { return v } }
	prime("composite-semiprime-2048/g=4", cst(d.primes["composite2048_semiprime"]), 4)
	prime("prime-not-safe-2048/g=4", cst(d.primes["prime2048_notsafe"]), 4)
	prime("safe-2047-bits/g=4", cst(d.primes["safe2047"]), 4)
	prime("safe-2049-bits/g=4", cst(d.primes["safe2049"]), 4)
	prime("telegram-prime-plus-2/g=4", cst(new(big.Int).Add(tg, big.NewInt(2))), 4)
	prime("telegram-prime-minus-1-even/g=4", cst(new(big.Int).Sub(tg, big.NewInt(1))), 4)
	prime("2^2047/g=4", cst(new(big.Int).Lsh(big.NewInt(1), 2047)), 4)
	prime("2^2048-1/g=4", cst(new(big.Int).Sub(new(big.Int).Lsh(big.NewInt(1), 2048), big.NewInt(1))), 4)
	prime("1024-bit-prime/g=4", cst(d.primes["composite_factor_a"]), 4)
	prime("safe-prime-times-3-truncated/g=4", cst(new(big.Int).Rsh(new(big.Int).Mul(d.primes["safe2048_b"], big.NewInt(3)), 1)), 4)
	// dh_prime = 0 is deliberately absent: a client that skipped the checks would compute g^b without a
	// modulus (unbounded memory), which no in-process harness survives; "one" and the short primes cover the length check.
	prime("one", cst(big.NewInt(1)), 4)
	prime("composite-semiprime-2048/g=3", cst(d.primes["composite2048_semiprime"]), 3)
	prime("prime-not-safe-2048/g=3", cst(d.primes["prime2048_notsafe"]), 3)

	// ---- generator values outside 2..7
	for _, g := range []int32{0, 1, -1, 8, 9, 256, 1<<31 - 1, -1 << 31} {
		add(fmt.Sprintf("g=%d", g), "must-fail", true, func(r *rand.Rand, k *srvKnobs, x *c10Run) { k.g = g })
	}

	// ---- g_a outside the allowed range. keyOf != nil where the peer knows the resulting key.
	gaArm := func(name, kind string, probing bool, g int32, f func() (*big.Int, func(*big.Int) *big.Int)) {
		add("g_a/"+name, kind, probing, func(r *rand.Rand, k *srvKnobs, x *c10Run) {
			k.g = g
			k.ga = func(*big.Int) (*big.Int, func(*big.Int) *big.Int) { return f() }
		})
	}
	one := big.NewInt(1)
	constKey := func(v *big.Int) func(*big.Int) *big.Int { return func(*big.Int) *big.Int { return v } }
	powKey := func(e int64) func(*big.Int) *big.Int {
		return func(gb *big.Int) *big.Int { return new(big.Int).Exp(gb, big.NewInt(e), tg) }
	}
	gaArm("0", "must-fail", true, 3, func() (*big.Int, func(*big.Int) *big.Int) { return big.NewInt(0), constKey(big.NewInt(0)) })
	gaArm("1", "must-fail", true, 3, func() (*big.Int, func(*big.Int) *big.Int) { return big.NewInt(1), constKey(one) })
	gaArm("p-1", "must-fail", false, 3, func() (*big.Int, func(*big.Int) *big.Int) { return new(big.Int).Sub(tg, one), constKey(one) })
	gaArm("p", "must-fail", true, 3, func() (*big.Int, func(*big.Int) *big.Int) { return tg, constKey(big.NewInt(0)) })
	gaArm("p+1", "must-fail", true, 3, func() (*big.Int, func(*big.Int) *big.Int) { return new(big.Int).Add(tg, one), constKey(one) })
	gaArm("g^5-small", "must-fail", true, 3, func() (*big.Int, func(*big.Int) *big.Int) { return big.NewInt(243), powKey(5) })
	gaArm("4^991=2^1982-below-range", "must-fail", true, 4, func() (*big.Int, func(*big.Int) *big.Int) {
		return new(big.Int).Lsh(one, 1982), powKey(991)
	})
	gaArm("p-2^1982-above-range", "must-fail", false, 4, func() (*big.Int, func(*big.Int) *big.Int) {
		return new(big.Int).Sub(tg, new(big.Int).Lsh(one, 1982)), powKey(991) // key right when the client's b is even
	})
	gaArm("2^1984-1", "must-fail", false, 3, func() (*big.Int, func(*big.Int) *big.Int) { return new(big.Int).Sub(lo, one), nil })
	gaArm("p-2^1984+1", "must-fail", false, 3, func() (*big.Int, func(*big.Int) *big.Int) {
		return new(big.Int).Add(new(big.Int).Sub(tg, lo), one), nil
	})
	gaArm("2^2048-1-above-p", "must-fail", false, 3, func() (*big.Int, func(*big.Int) *big.Int) {
		return new(big.Int).Sub(new(big.Int).Lsh(one, 2048), one), nil
	})
	add("g_a/256-zero-bytes", "must-fail", true, func(r *rand.Rand, k *srvKnobs, x *c10Run) {
		k.ga = func(*big.Int) (*big.Int, func(*big.Int) *big.Int) { return big.NewInt(0), constKey(big.NewInt(0)) }
		k.mutInner = func(m *refmodel.ExServerDHInner) { m.GA = make([]byte, 256) }
	})
	gaArm("4^992=2^1984-on-lower-bound", "observe", true, 4, func() (*big.Int, func(*big.Int) *big.Int) { return new(big.Int).Set(lo), powKey(992) })

	// ---- final answer
	add("dh_gen_ok/hash-computed-as-new_nonce_hash2", "must-fail", true, func(r *rand.Rand, k *srvKnobs, x *c10Run) {
		x.special = "hash2"
	})
	add("dh_gen_ok/hash-of-a-different-key", "must-fail", true, func(r *rand.Rand, k *srvKnobs, x *c10Run) { x.special = "otherkey" })
	add("dh_gen_ok/hash-replayed-from-earlier-session", "must-fail", true, func(r *rand.Rand, k *srvKnobs, x *c10Run) {
		k.mutDHGen = func(m *refmodel.ExDHGen) { m.Hash = x.prior.DHGenSent.Hash }
	})
	add("dh_gen/retry-constructor", "must-fail", false, func(r *rand.Rand, k *srvKnobs, x *c10Run) {
		k.mutDHGen = func(m *refmodel.ExDHGen) { m.ID = refmodel.ExIDDHGenRetry }
	})
	add("dh_gen/fail-constructor", "must-fail", false, func(r *rand.Rand, k *srvKnobs, x *c10Run) {
		k.mutDHGen = func(m *refmodel.ExDHGen) { m.ID = refmodel.ExIDDHGenFail }
	})
	add("dh_gen/unknown-constructor", "must-fail", false, func(r *rand.Rand, k *srvKnobs, x *c10Run) {
		k.rawBody = func(step int, body []byte) []byte {
			if step == 8 {
				body = append([]byte{0xde, 0xad, 0xbe, 0xef}, body[4:]...)
			}
			return body
		}
	})
	add("replay/resPQ-of-earlier-session", "must-fail", true, func(r *rand.Rand, k *srvKnobs, x *c10Run) {
		k.mutResPQ = func(m *refmodel.ExResPQ) { *m = x.prior.ResPQSent }
	})

	// ---- pq: outside the statement (observe), except that the client must terminate and must not crash
	pqArm := func(class string, v *big.Int, abortAfter int) {
		add("pq/"+class, "observe", false, func(r *rand.Rand, k *srvKnobs, x *c10Run) {
			k.pq = append([]byte{}, v.Bytes()...)
			x.pqClass, x.pqAbortAfter = class, abortAfter
		})
	}
	p31a, p31b := big.NewInt(1229739323), big.NewInt(1402015859)
	pqArm("prime-61-bit", new(big.Int).Sub(new(big.Int).Lsh(one, 61), one), 1)
	pqArm("prime-31-bit", p31a, 2)
	pqArm("prime-17", big.NewInt(17), 3)
	pqArm("prime-2", big.NewInt(2), 3)
	pqArm("prime-3", big.NewInt(3), 3)
	pqArm("zero-empty-string", big.NewInt(0), 3)
	pqArm("one", big.NewInt(1), 3)
	pqArm("four", big.NewInt(4), 4)
	pqArm("nine", big.NewInt(9), 4)
	pqArm("square-of-31-bit-prime", new(big.Int).Mul(p31a, p31a), 4)
	pqArm("three-prime-factors", new(big.Int).Mul(big.NewInt(1009*1013), big.NewInt(1000003)), 4)
	pqArm("even-semiprime", new(big.Int).Mul(big.NewInt(2), p31b), 4)
	pqArm("2^63-exactly", new(big.Int).Lsh(one, 63), 4)
	pqArm("2^63+1", new(big.Int).Add(new(big.Int).Lsh(one, 63), one), 4)
	pqArm("2^64", new(big.Int).Lsh(one, 64), 4)
	pqArm("2^2048", new(big.Int).Lsh(one, 2048), 4)
	pqArm("telegram-test-pq", new(big.Int).Mul(p31a, p31b), 6)
	return out
}

// runS runs one scripted-server case against the real client flow.
func runS(c *mon.Ctx, d *dataSet, st c10Strat, prior *srvResult, run int) (res c10Result, sres srvResult) {
	res = c10Result{Strategy: st.Name, Kind: st.Kind, Run: run, Applied: true, Effective: true}
	r := c.RandN("c10/"+st.Name, run)
	k := &srvKnobs{key: refKey(d.trusted), fingerprints: []int64{refKey(d.trusted).Fingerprint()}, prime: d.primes["safe2048_telegram"], g: 3}
	x := &c10Run{prior: prior}
	st.Setup(r, k, x)
	// strategies that need the values of the running session
	switch x.special {
	case "hash2":
		k.mutDHGen = func(m *refmodel.ExDHGen) { m.Hash = refmodel.ExNewNonceHash(sres.NewNonce, 2, sres.Key) }
	case "otherkey":
		k.mutDHGen = func(m *refmodel.ExDHGen) {
			kk := sres.Key
			kk[255] ^= 1
			m.Hash = refmodel.ExNewNonceHash(sres.NewNonce, 1, kk)
		}
	}
	conn := newFakeConn("client")
	cRand := newRandSrc(c.RandN("c10/client/"+st.Name, run))
	pqIters := 0
	aborted := false
	if x.pqAbortAfter > 0 {
		cRand.hook = func(size, nth int, p []byte) error {
			if size != 8 || cRand.bySize[32] > 0 {
				return nil // only the draws of step 3 (before new_nonce is generated)
			}
			// DecomposePQ draws two 64-bit values per outer iteration
			if nth%2 == 0 {
				if nth/2 >= x.pqAbortAfter {
					aborted = true
					return errAbortPQ
				}
				pqIters = nth/2 + 1
			}
			return nil
		}
	}
	stop := make(chan struct{})
	srvDone := make(chan struct{})
	sr := c.RandN("c10/server/"+st.Name, run)
	go func() {
		defer close(srvDone)
		// sres is only read by the mutators running on this goroutine
		runScriptedInto(conn, k, sr, stop, &sres)
		if sres.Reached != 8 {
			conn.Close() // the peer gives up: hang up
		}
	}()
	var cres exchange.ClientExchangeResult
	var cerr error
	cDone := make(chan struct{})
	go func() {
		defer close(cDone)
		pv, stack := mon.Try(func() {
			ex := exchange.NewExchanger(conn, 2).WithRand(cRand).WithTimeout(time.Hour)
			if x.temp {
				ex = ex.WithTempMode(3600)
			}
			cres, cerr = ex.Client([]exchange.PublicKey{pub(d.trusted), pub(d.decoy1)}).Run(context.Background())
		})
		if pv != nil {
			res.Panic = fmt.Sprintf("%v\n%s", pv, stack)
			cerr = fmt.Errorf("panic: %v", pv)
		}
	}()
	select {
	case <-cDone:
	case <-time.After(10 * time.Minute):
		res.inconcl = fmt.Sprintf("strategy %s run %d: watchdog (10 min)\n%s", st.Name, run, goroutineDump())
		conn.Close()
		close(stop)
		return res, srvResult{}
	}
	close(stop)
	conn.Close()
	<-srvDone
	res.clientOK = cerr == nil
	res.ClientErr = errClass(cerr)
	res.Reached = sres.Reached
	res.progressed = sres.Reached >= 6
	res.PQAborted, res.PQIters = aborted, pqIters
	res.Notes = strings.Join(sres.Notes, "; ")
	if strings.HasPrefix(st.Name, "encrypted_answer/") && sres.Reached >= 5 && sres.AnswerIntact {
		res.Effective = false // e.g. only padding bytes changed
	}
	if cerr == nil {
		agree := sres.Reached == 8 && sres.KeyKnown && sres.Key == cres.AuthKey.Value && sres.Salt == cres.ServerSalt &&
			cres.AuthKey.Value.ID() == cres.AuthKey.ID
		res.KeysAgree = &agree
	}
	return res, sres
}

// mStrategies: man in the middle between the real client and the real server flow.
type mitm struct {
	c2s func(h *hub, f []byte, n int) bool // return true if handled
	s2c func(h *hub, f []byte, n int) bool
	nc  int
	ns  int
}

func (m *mitm) fromClient(h *hub, f []byte) {
	m.nc++
	if m.c2s != nil && m.c2s(h, f, m.nc) {
		return
	}
	h.toServer(f)
}

func (m *mitm) fromServer(h *hub, f []byte) {
	m.ns++
	if m.s2c != nil && m.s2c(h, f, m.ns) {
		return
	}
	h.toClient(f)
}

// reBody re-wraps a mutated TL body in the original envelope.
func reBody(f []byte, mut func(body []byte) []byte) []byte {
	env, err := refmodel.ExParseEnvelope(f)
	if err != nil {
		return f
	}
	env.Body = mut(env.Body)
	return env.Encode()
}

func mStrategies() []c10Strat {
	var out []c10Strat
	add := func(name, kind string, probing bool, f func(r *rand.Rand, x *c10Run) *mitm) {
		out = append(out, c10Strat{Name: "mitm/" + name, Family: "M", Kind: kind, Probing: probing,
			Mid: func(r *rand.Rand, x *c10Run) middle { return f(r, x) }})
	}
	add("control/pass-through", "control", false, func(r *rand.Rand, x *c10Run) *mitm { return &mitm{} })
	// server -> client, frame n of the server: 1 resPQ, 2 server_DH_params_ok, 3 dh_gen_ok
	s2cField := func(name string, n int, probing bool, mut func(r *rand.Rand, body []byte) []byte) {
		add(name, "must-fail", probing, func(r *rand.Rand, x *c10Run) *mitm {
			return &mitm{s2c: func(h *hub, f []byte, k int) bool {
				if k != n {
					return false
				}
				x.applied = true
				h.toClient(reBody(f, func(b []byte) []byte { return mut(r, b) }))
				return true
			}}
		})
	}
	s2cField("resPQ/nonce-flip", 1, true, func(r *rand.Rand, b []byte) []byte {
		m, _ := refmodel.ExParseResPQ(b)
		m.Nonce = alter16("flip", m.Nonce, r)
		return m.Encode()
	})
	s2cField("resPQ/server_nonce-flip", 1, true, func(r *rand.Rand, b []byte) []byte {
		m, _ := refmodel.ExParseResPQ(b)
		m.ServerNonce = alter16("flip", m.ServerNonce, r)
		return m.Encode()
	})
	s2cField("resPQ/fingerprints-replaced", 1, true, func(r *rand.Rand, b []byte) []byte {
		m, _ := refmodel.ExParseResPQ(b)
		m.Fingerprints = []int64{int64(r.Uint64())}
		return m.Encode()
	})
	s2cField("server_DH_params_ok/nonce-flip", 2, true, func(r *rand.Rand, b []byte) []byte {
		m, _ := refmodel.ExParseServerDHParams(b)
		m.Nonce = alter16("flip", m.Nonce, r)
		return m.Encode()
	})
	s2cField("server_DH_params_ok/server_nonce-flip", 2, true, func(r *rand.Rand, b []byte) []byte {
		m, _ := refmodel.ExParseServerDHParams(b)
		m.ServerNonce = alter16("flip", m.ServerNonce, r)
		return m.Encode()
	})
	s2cField("dh_gen_ok/nonce-flip", 3, true, func(r *rand.Rand, b []byte) []byte {
		m, _ := refmodel.ExParseDHGen(b)
		m.Nonce = alter16("flip", m.Nonce, r)
		return m.Encode()
	})
	s2cField("dh_gen_ok/new_nonce_hash1-flip", 3, true, func(r *rand.Rand, b []byte) []byte {
		m, _ := refmodel.ExParseDHGen(b)
		m.Hash = alter16("flip", m.Hash, r)
		return m.Encode()
	})
	add("encrypted_answer/bit-flip", "must-fail", false, func(r *rand.Rand, x *c10Run) *mitm {
		return &mitm{s2c: func(h *hub, f []byte, k int) bool {
			if k != 2 {
				return false
			}
			x.applied = true
			var before, after []byte
			nf := reBody(f, func(b []byte) []byte {
				m, _ := refmodel.ExParseServerDHParams(b)
				before = append([]byte(nil), m.EncryptedAnswer...)
				flipBit(m.EncryptedAnswer, r)
				after = m.EncryptedAnswer
				return m.Encode()
			})
			// effective unless the embedded data is unchanged (only padding hit)
			t := x.tap
			t.mu.Lock()
			if t.inner != nil && t.resPQ != nil {
				ky, iv := refmodel.ExTmpAES(t.inner.NewNonce, t.resPQ.ServerNonce)
				a, b := refmodel.ExAnswerDecrypt(before, ky, iv), refmodel.ExAnswerDecrypt(after, ky, iv)
				if a != nil && b != nil && string(a) == string(b) {
					x.ineffective = true
				}
			}
			t.mu.Unlock()
			h.toClient(nf)
			return true
		}}
	})
	// client -> server alterations: the honest server answers something else or gives up
	c2sFlip := func(name string, n int) {
		add(name, "must-fail", false, func(r *rand.Rand, x *c10Run) *mitm {
			return &mitm{c2s: func(h *hub, f []byte, k int) bool {
				if k != n {
					return false
				}
				x.applied = true
				h.toServer(reBody(f, func(b []byte) []byte {
					if n == 1 {
						m, _ := refmodel.ExParseReqPQ(b)
						m.Nonce = alter16("flip", m.Nonce, r)
						return m.Encode()
					}
					c := append([]byte(nil), b...)
					// inside the encrypted_data string (last 256 bytes of both messages carry it)
					off := len(c) - 200 + r.IntN(190)
					if n == 3 {
						off = len(c) - 100 + r.IntN(90)
					}
					c[off] ^= 1 << r.IntN(8)
					return c
				}))
				return true
			}}
		})
	}
	c2sFlip("client-req_pq/nonce-flip", 1)
	c2sFlip("client-req_DH_params/encrypted_data-flip", 2)
	c2sFlip("client-set_client_DH_params/encrypted_data-flip", 3)
	// replays of an earlier session between the same parties
	for n, nm := range map[int]string{1: "resPQ", 2: "server_DH_params_ok", 3: "dh_gen_ok"} {
		add("replay/"+nm+"-of-earlier-session", "must-fail", true, func(r *rand.Rand, x *c10Run) *mitm {
			return &mitm{s2c: func(h *hub, f []byte, k int) bool {
				if k != n || x.priorM == nil || len(x.priorM.s2c) < n {
					return false
				}
				x.applied = true
				h.toClient(x.priorM.s2c[n-1])
				return true
			}}
		})
	}
	add("resPQ/pq-altered", "observe", false, func(r *rand.Rand, x *c10Run) *mitm {
		return &mitm{s2c: func(h *hub, f []byte, k int) bool {
			if k != 1 {
				return false
			}
			x.applied = true
			h.toClient(reBody(f, func(b []byte) []byte {
				m, _ := refmodel.ExParseResPQ(b)
				m.PQ = new(big.Int).SetUint64(1009 * 1013).Bytes()
				return m.Encode()
			}))
			return true
		}}
	})
	sort.SliceStable(out, func(i, j int) bool { return out[i].Name < out[j].Name })
	return out
}

func runM(c *mon.Ctx, d *dataSet, st c10Strat, pm *priorM, run int) (res c10Result, s2c [][]byte) {
	res = c10Result{Strategy: st.Name, Kind: st.Kind, Run: run, Effective: true}
	r := c.RandN("c10/"+st.Name, run)
	x := &c10Run{priorM: pm}
	rec := &recordS2C{}
	cfg := honestCfg{dc: 2, clientKeys: []exchange.PublicKey{pub(d.trusted)}, serverKey: d.trusted,
		cRand: newRandSrc(c.RandN("c10/mc/"+st.Name, run)), sRand: newRandSrc(c.RandN("c10/ms/"+st.Name, run)),
		sched: c.RandN("c10/sched/"+st.Name, run)}
	cfg.onTap = func(t *tap) { x.tap = t }
	rec.inner = st.Mid(r, x)
	cfg.mid = rec
	out := runHonest(cfg)
	if out.inconclusive != "" {
		res.inconcl = out.inconclusive
		return res, nil
	}
	res.Applied = x.applied || st.Kind == "control"
	res.Effective = !x.ineffective
	res.clientOK = out.cErr == nil
	res.ClientErr = errClass(out.cErr)
	res.Panic = out.cPanic
	res.Notes = "server: " + errClass(out.sErr)
	if out.cErr == nil {
		agree := out.sErr == nil && out.cRes.AuthKey == out.sRes.Key && out.cRes.ServerSalt == out.sRes.ServerSalt
		res.KeysAgree = &agree
	}
	return res, rec.frames
}

type recordS2C struct {
	inner  middle
	frames [][]byte
}

func (m *recordS2C) fromClient(h *hub, f []byte) { m.inner.fromClient(h, f) }
func (m *recordS2C) fromServer(h *hub, f []byte) {
	m.frames = append(m.frames, append([]byte(nil), f...))
	m.inner.fromServer(h, f)
}

func runC10(c *mon.Ctx) {
	memGuard(12)
	c.Rule("strategy x run table, enumerated completely: family S = scripted reference server (holding the trusted key, or only its own key) that alters one thing per strategy " +
		"(fingerprints; nonce/server_nonce/new_nonce_hash1 in every message by bit flip, random value, zero; encrypted_answer flipped, truncated, extended, block-swapped, replayed; " +
		"dh_prime composite / not safe / 2047 / 2049 bits / degenerate; g outside 2..7 or failing the residue rule for the prime; g_a out of range; dh_gen retry/fail/unknown; pq degenerate), " +
		"family M = man in the middle between the real client and the real in-tree server (field flips both directions, replays of an earlier session); random bit positions and values per run; " +
		"control strategies (honest script and allowed variations) must succeed with agreeing keys; distinct non-trivial = (strategy, normalised client error)")
	c.Assume("the scripted server follows core.telegram.org/mtproto/auth_key via refmodel; its honest form is validated on every run by the control strategies (client succeeds, keys and salt agree)")
	c.Assume("a strategy marked probing leaves everything else valid, so a client that skipped the targeted check would complete; non-probing strategies can only observe that the exchange fails")
	d, err := loadData()
	if err != nil {
		c.Inconclusive("data: " + err.Error())
		return
	}
	runs := c.N(2, 20)
	runsM := c.N(1, 6)

	// replay material: one honest session of each family first
	var prior srvResult
	{
		st := c10Strat{Name: "prior/honest", Kind: "control", Setup: func(*rand.Rand, *srvKnobs, *c10Run) {}}
		pres, sres := runS(c, d, st, nil, 0)
		if !pres.clientOK || pres.KeysAgree == nil || !*pres.KeysAgree {
			c.Inconclusive(fmt.Sprintf("honest scripted session failed: %+v", pres))
			return
		}
		prior = sres
	}
	pmRes, pmFrames := runM(c, d, c10Strat{Name: "mitm/prior", Kind: "control", Mid: func(*rand.Rand, *c10Run) middle { return &mitm{} }}, nil, 0)
	if !pmRes.clientOK || len(pmFrames) != 3 {
		c.Inconclusive(fmt.Sprintf("honest client<->server session failed: %+v", pmRes))
		return
	}
	pm := &priorM{s2c: pmFrames}

	type job struct {
		st  c10Strat
		run int
	}
	var jobs []job
	ss, ms := sStrategies(d), mStrategies()
	for _, st := range ss {
		for i := 0; i < runs; i++ {
			jobs = append(jobs, job{st, i})
		}
	}
	for _, st := range ms {
		for i := 0; i < runsM; i++ {
			jobs = append(jobs, job{st, i})
		}
	}
	if c.Only != "" {
		// replay: the strategy named by the signature (plus the controls)
		var f []job
		for _, j := range jobs {
			if j.st.Kind == "control" || strings.HasSuffix(c.Only, "|"+j.st.Name) ||
				(strings.Contains(c.Only, "|pq-") && strings.HasPrefix(j.st.Name, "pq/")) {
				f = append(f, j)
			}
		}
		jobs = f
	}
	c.Set("strategies_scripted_server", len(ss))
	c.Set("strategies_mitm", len(ms))
	c.Set("runs_per_strategy", map[string]int{"S": runs, "M": runsM})
	var mu sync.Mutex
	cnt := map[string]int64{}
	errClasses := map[string]map[string]int{}
	parallel(len(jobs), 16, func(i int) {
		j := jobs[i]
		var res c10Result
		if j.st.Family == "S" {
			res, _ = runS(c, d, j.st, &prior, j.run)
		} else {
			res, _ = runM(c, d, j.st, pm, j.run)
		}
		if res.inconcl != "" {
			c.Inconclusive(res.inconcl)
			return
		}
		c.Eval(1)
		mu.Lock()
		defer mu.Unlock()
		cnt["runs/"+j.st.Kind]++
		if errClasses[j.st.Name] == nil {
			errClasses[j.st.Name] = map[string]int{}
		}
		errClasses[j.st.Name][res.ClientErr]++
		if res.Panic != "" {
			cls := j.st.Name
			if cls == "pq/one" || cls == "pq/zero-empty-string" {
				cls = "pq-below-2" // one defect: DecomposePQ divides by pq or pq-1
			}
			c.Violate("client-panic|"+cls, res)
			return
		}
		switch j.st.Kind {
		case "control":
			switch {
			case !res.clientOK:
				// the arms built on this script are not known to be otherwise valid
				c.Inconclusive(fmt.Sprintf("control %s run %d rejected by the client: %s (%s)", j.st.Name, j.run, res.ClientErr, res.Notes))
			case res.KeysAgree == nil || !*res.KeysAgree:
				c.Violate("control-completed-with-disagreeing-keys|"+j.st.Name, res)
			default:
				cnt["controls_succeeded"]++
				c.Distinct(j.st.Name + "|ok")
			}
		case "must-fail":
			switch {
			case !res.Applied:
				cnt["manipulation_not_applied"]++
			case !res.Effective:
				cnt["manipulation_ineffective_(padding_only)"]++
			case res.clientOK:
				c.Violate("accepted|"+j.st.Name, res)
			default:
				cnt["effective_manipulations_rejected"]++
				if j.st.Probing {
					cnt["probing_manipulations_rejected"]++
				}
				c.Distinct(j.st.Name + "|" + res.ClientErr)
				if j.st.Family == "S" && res.progressed && (strings.HasPrefix(j.st.Name, "dh_prime/") || strings.HasPrefix(j.st.Name, "g=") ||
					strings.HasPrefix(j.st.Name, "g-not-") || strings.HasPrefix(j.st.Name, "g_a/")) {
					// the client answered with g_b although the DH parameters were unsafe
					c.Violate("unsafe-dh-params-answered-with-g_b|"+j.st.Name, res)
				}
			}
		case "observe":
			cnt["observe_only_runs"]++
			out := "rejected"
			if res.clientOK {
				out = "accepted"
			}
			c.Distinct(j.st.Name + "|" + out + "|" + res.ClientErr)
			if strings.HasPrefix(j.st.Name, "pq/") {
				isPrime := strings.HasPrefix(j.st.Name, "pq/prime-")
				switch {
				case res.PQAborted && isPrime:
					// for a prime the loop condition (1 < gcd < pq) can never become true: only the
					// harness's failing random source ended the decomposition
					c.Violate("pq-nontermination|prime-pq", res)
				case res.PQAborted:
					cnt["pq_spin_aborted_non_prime/"+j.st.Name]++
				}
			}
		}
		if j.run == 0 {
			c.Sample(j.st.Kind+"/"+j.st.Family, res)
		}
	})
	for k, v := range cnt {
		c.Set(k, v)
	}
	c.Set("client_error_classes_by_strategy", errClasses)
	c.Exhaustive(true)
	if cnt["controls_succeeded"] == 0 || cnt["effective_manipulations_rejected"] == 0 {
		if c.Violations() == 0 {
			c.Inconclusive("no control succeeded or no effective manipulation was observed")
		}
	}
}
