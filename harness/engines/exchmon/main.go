// Engine exchmon: monitors for the auth-key exchange properties
// (C09 honest agreement, C10 adversarial peer, C12 per-step timeout).
package main

import (
	"verif/harness/mon"
)

func main() {
	mon.Main("exchmon", map[string]mon.PropFunc{
		"C09": runC09,
		"C10": runC10,
		"C12": runC12,
	})
}
