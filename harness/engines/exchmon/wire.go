package main

import (
	"context"
	"encoding/hex"
	"errors"
	"io"
	"math/rand/v2"
	"net"
	"os"
	"sync"
	"time"

	"github.com/gotd/td/bin"
)

// fakeConn is a harness-owned transport.Conn whose unit is the frame. Frames
// sent by the code under test appear on out; the harness delivers frames (or
// transport errors) through deliver. Like the real transport.connection it
// honours only the DEADLINE of the context (SetRead/WriteDeadline), not
// cancellation; Close unblocks everything.
type fakeConn struct {
	name   string
	out    chan []byte
	in     chan inFrame
	closed chan struct{}
	once   sync.Once
	// obs, if set, is called at the boundary: before the operation blocks
	// (ret=false) and after it returned (ret=true).
	obs func(ev ioEvent)
}

type inFrame struct {
	data []byte
	err  error
}

// ioEvent is one boundary observation.
type ioEvent struct {
	Op          string // send | recv
	Ret         bool
	At          time.Time
	HasDeadline bool
	Deadline    time.Time
	Frame       []byte // send: frame at call; recv: frame at return
	Err         error
}

func newFakeConn(name string) *fakeConn {
	return &fakeConn{name: name, out: make(chan []byte, 64), in: make(chan inFrame, 64), closed: make(chan struct{})}
}

var errFakeClosed = errors.New("fake transport closed")

func timeoutErr(op string) error {
	return &net.OpError{Op: op, Net: "fake", Err: os.ErrDeadlineExceeded}
}

func (f *fakeConn) deadlineTimer(ctx context.Context) (<-chan time.Time, func()) {
	dl, ok := ctx.Deadline()
	if !ok {
		return nil, func() {}
	}
	t := time.NewTimer(time.Until(dl))
	return t.C, func() { t.Stop() }
}

func (f *fakeConn) Send(ctx context.Context, b *bin.Buffer) error {
	frame := append([]byte(nil), b.Buf...)
	dl, ok := ctx.Deadline()
	if f.obs != nil {
		f.obs(ioEvent{Op: "send", At: time.Now(), HasDeadline: ok, Deadline: dl, Frame: frame})
	}
	tc, stop := f.deadlineTimer(ctx)
	defer stop()
	var err error
	select {
	case <-f.closed:
		err = errFakeClosed
	default:
		select {
		case f.out <- frame:
		case <-f.closed:
			err = errFakeClosed
		case <-tc:
			err = timeoutErr("write")
		}
	}
	if f.obs != nil {
		f.obs(ioEvent{Op: "send", Ret: true, At: time.Now(), HasDeadline: ok, Deadline: dl, Err: err})
	}
	return err
}

func (f *fakeConn) Recv(ctx context.Context, b *bin.Buffer) error {
	dl, ok := ctx.Deadline()
	if f.obs != nil {
		f.obs(ioEvent{Op: "recv", At: time.Now(), HasDeadline: ok, Deadline: dl})
	}
	tc, stop := f.deadlineTimer(ctx)
	defer stop()
	var fr inFrame
	select {
	case fr = <-f.in: // a frame that already arrived wins over close
	default:
		select {
		case fr = <-f.in:
		case <-f.closed:
			fr.err = io.EOF
		case <-tc:
			fr.err = timeoutErr("read")
		}
	}
	if fr.err == nil {
		b.ResetTo(append([]byte(nil), fr.data...))
	}
	if f.obs != nil {
		f.obs(ioEvent{Op: "recv", Ret: true, At: time.Now(), HasDeadline: ok, Deadline: dl, Frame: fr.data, Err: fr.err})
	}
	return fr.err
}

func (f *fakeConn) Close() error {
	f.once.Do(func() { close(f.closed) })
	return nil
}

// deliver hands a frame to the code under test.
func (f *fakeConn) deliver(data []byte) {
	select {
	case f.in <- inFrame{data: data}:
	case <-f.closed:
	}
}

// deliverErr makes the next Recv fail with err.
func (f *fakeConn) deliverErr(err error) {
	select {
	case f.in <- inFrame{err: err}:
	case <-f.closed:
	}
}

// next waits for the next frame sent by the code under test.
func (f *fakeConn) next(stop <-chan struct{}) ([]byte, bool) {
	select {
	case fr := <-f.out:
		return fr, true
	default:
	}
	select {
	case fr := <-f.out:
		return fr, true
	case <-f.closed:
		return nil, false
	case <-stop:
		return nil, false
	}
}

// randSrc is a seeded io.Reader (math/rand/v2 PCG) that logs the size of every
// read and lets a hook rewrite or fail individual reads. All randomness of the
// code under test comes from such readers.
type randSrc struct {
	mu    sync.Mutex
	r     *rand.Rand
	sizes []int
	// hook is called with the read index among reads of the same size
	// (0-based) after p was filled; it may overwrite p or return an error.
	hook   func(size, nth int, p []byte) error
	bySize map[int]int
	keep   map[int][][]byte // copies of reads of the sizes listed in keepSizes
}

func newRandSrc(r *rand.Rand, keepSizes ...int) *randSrc {
	s := &randSrc{r: r, bySize: map[int]int{}, keep: map[int][][]byte{}}
	for _, k := range keepSizes {
		s.keep[k] = nil
	}
	return s
}

func (s *randSrc) Read(p []byte) (int, error) {
	s.mu.Lock()
	defer s.mu.Unlock()
	fillRand(s.r, p)
	n := len(p)
	nth := s.bySize[n]
	s.bySize[n]++
	s.sizes = append(s.sizes, n)
	if s.hook != nil {
		if err := s.hook(n, nth, p); err != nil {
			return 0, err
		}
	}
	if _, ok := s.keep[n]; ok {
		s.keep[n] = append(s.keep[n], append([]byte(nil), p...))
	}
	return n, nil
}

func (s *randSrc) count(size int) int {
	s.mu.Lock()
	defer s.mu.Unlock()
	return s.bySize[size]
}

func (s *randSrc) kept(size int) [][]byte {
	s.mu.Lock()
	defer s.mu.Unlock()
	return append([][]byte(nil), s.keep[size]...)
}

func fillRand(r *rand.Rand, p []byte) {
	for i := 0; i < len(p); {
		v := r.Uint64()
		for j := 0; j < 8 && i < len(p); j++ {
			p[i] = byte(v)
			v >>= 8
			i++
		}
	}
}

func randBytes(r *rand.Rand, n int) []byte {
	b := make([]byte, n)
	fillRand(r, b)
	return b
}

func hx(b []byte) string {
	if len(b) > 64 {
		return hex.EncodeToString(b[:64]) + "..."
	}
	return hex.EncodeToString(b)
}

// parallel runs f(i) for i in [0,n) on w workers.
func parallel(n, w int, f func(i int)) {
	var wg sync.WaitGroup
	ch := make(chan int)
	for k := 0; k < w; k++ {
		wg.Add(1)
		go func() {
			defer wg.Done()
			for i := range ch {
				f(i)
			}
		}()
	}
	for i := 0; i < n; i++ {
		ch <- i
	}
	close(ch)
	wg.Wait()
}
