package main

import (
	"bytes"
	"context"
	"crypto/sha1"
	"fmt"
	"math/big"
	"time"

	"github.com/gotd/td/exchange"

	"verif/harness/mon"
	"verif/harness/refmodel"
)

// C09, second arm: the honest server is the scripted reference server
// (refserver.go, trusted key) so that the DH prime choice varies: every
// committed valid 2048-bit safe prime x every generator admissible for it x
// permanent / temporary mode. TestServerRNG of the in-tree server flow is
// hard-wired by Exchanger.Server() (unexported field), so the in-tree server
// cannot be given other primes through public API.

type c09RefCase struct {
	Index int    `json:"index"`
	Prime string `json:"dh_prime"`
	G     int    `json:"g"`
	Temp  bool   `json:"temp"`
	DC    int    `json:"dc"`
	Exp   int    `json:"expires_in"`
	Rep   int    `json:"repetition"`
}

func c09RefCases(c *mon.Ctx, d *dataSet) []c09RefCase {
	var out []c09RefCase
	r := c.Rand("c09/refcases")
	reps := c.N(1, 12)
	for rep := 0; rep < reps; rep++ {
		for _, pn := range []string{"safe2048_telegram", "safe2048_b", "safe2048_c"} {
			for g := 2; g <= 7; g++ {
				if !refmodel.ExGOKForPrime(g, d.primes[pn]) {
					continue
				}
				for _, temp := range []bool{false, true} {
					cs := c09RefCase{Index: len(out), Prime: pn, G: g, Temp: temp, DC: c09DCs[r.IntN(len(c09DCs))], Rep: rep}
					if temp {
						cs.Exp = c09Expires[r.IntN(len(c09Expires))]
					}
					out = append(out, cs)
				}
			}
		}
	}
	return out
}

func runC09RefCase(c *mon.Ctx, d *dataSet, cs c09RefCase, bump func(string)) {
	prime := d.primes[cs.Prime]
	if !refmodel.ExSafePrime2048(prime) {
		c.Inconclusive("data prime " + cs.Prime + " is not a safe 2048-bit prime")
		return
	}
	conn := newFakeConn("client")
	cRand := newRandSrc(c.RandN("c09/ref/client", cs.Index), 256)
	sr := c.RandN("c09/ref/server", cs.Index)
	k := &srvKnobs{key: refKey(d.trusted), fingerprints: []int64{refKey(d.trusted).Fingerprint()}, prime: prime, g: int32(cs.G)}
	stop := make(chan struct{})
	srvDone := make(chan struct{})
	var sres srvResult
	go func() {
		defer close(srvDone)
		runScriptedInto(conn, k, sr, stop, &sres)
		if sres.Reached != 8 {
			conn.Close()
		}
	}()
	var cres exchange.ClientExchangeResult
	var cerr error
	var panicked string
	cDone := make(chan struct{})
	go func() {
		defer close(cDone)
		pv, stack := mon.Try(func() {
			ex := exchange.NewExchanger(conn, cs.DC).WithRand(cRand).WithTimeout(time.Hour)
			if cs.Temp {
				ex = ex.WithTempMode(cs.Exp)
			}
			cres, cerr = ex.Client([]exchange.PublicKey{pub(d.decoy2), pub(d.trusted)}).Run(context.Background())
		})
		if pv != nil {
			panicked = fmt.Sprintf("%v\n%s", pv, stack)
			cerr = fmt.Errorf("panic: %v", pv)
		}
	}()
	select {
	case <-cDone:
	case <-time.After(10 * time.Minute):
		c.Inconclusive(fmt.Sprintf("refserver case %d: watchdog (10 min)\n%s", cs.Index, goroutineDump()))
		conn.Close()
		close(stop)
		return
	}
	close(stop)
	conn.Close()
	<-srvDone
	c.Eval(1)
	w := map[string]any{"case": cs, "client_err": fmt.Sprint(cerr), "server_script_reached": sres.Reached, "server_notes": sres.Notes}
	if panicked != "" {
		w["panic"] = panicked
		c.Violate("honest-refserver|client-panic", w)
		return
	}
	if cerr != nil {
		c.Violate("honest-refserver|client-failed|"+errClass(cerr), w)
		return
	}
	if sres.Reached != 8 || !sres.KeyKnown || !sres.NewNonceOK || sres.GB == nil {
		c.Inconclusive(fmt.Sprintf("refserver case %d: client succeeded but the script is incomplete (%d)", cs.Index, sres.Reached))
		return
	}
	ck := cres.AuthKey.Value
	// the reference's own recomputation: b from the client's random log, checked by g^b = g_b
	g, ga := big.NewInt(int64(cs.G)), new(big.Int).SetBytes(sres.InnerSent.GA)
	var refK *big.Int
	for _, cand := range cRand.kept(256) {
		b := new(big.Int).SetBytes(cand)
		if new(big.Int).Exp(g, b, prime).Cmp(sres.GB) == 0 {
			refK = new(big.Int).Exp(ga, b, prime)
			break
		}
	}
	if refK == nil {
		// g_b on the wire is not g^b mod p for any b the client drew
		w["g_b"] = hx(sres.GB.Bytes())
		c.Violate("honest-refserver|g_b-is-not-g^b-mod-p", w)
		return
	}
	rk := refmodel.ExAuthKeyBytes(refK)
	w["reference_key"], w["client_key"], w["server_key"] = hx(rk[:]), hx(ck[:]), hx(sres.Key[:])
	if rk != sres.Key {
		c.Inconclusive(fmt.Sprintf("refserver case %d: reference g_a^b != script's g_b^a", cs.Index))
		return
	}
	bump("refserver_recomputations")
	if ck != rk {
		c.Violate("honest-refserver|client-key-is-not-the-DH-key", w)
	}
	if ck == ([256]byte{}) {
		c.Violate("honest-refserver|client-zero-key", w)
	}
	if h := sha1.Sum(rk[:]); !bytes.Equal(h[12:20], cres.AuthKey.ID[:]) {
		c.Violate("honest-refserver|key-id", w)
	}
	if cres.ServerSalt != sres.Salt {
		w["client_salt"], w["reference_salt"] = cres.ServerSalt, sres.Salt
		c.Violate("honest-refserver|salt", w)
	}
	in := sres.Inner
	wantID := uint32(refmodel.ExIDPQInnerDC)
	if cs.Temp {
		wantID = refmodel.ExIDPQInnerTempDC
	}
	if in.ID != wantID || in.DC != int32(cs.DC) || (cs.Temp && in.ExpiresIn != int32(cs.Exp)) || !sres.PQFactorsOK {
		w["inner"] = fmt.Sprintf("ctor=%08x dc=%d expires=%d factors_ok=%v", in.ID, in.DC, in.ExpiresIn, sres.PQFactorsOK)
		c.Violate("honest-refserver|inner-data", w)
	}
	bump("refserver_prime_" + cs.Prime)
	c.Distinct(fmt.Sprintf("refserver|%s|g=%d|temp=%v|dc=%s|lead0=%v", cs.Prime, cs.G, cs.Temp, dcClass(cs.DC), rk[0] == 0))
	c.Sample("refserver/"+cs.Prime, map[string]any{"case": cs, "salt": cres.ServerSalt, "reference_key_prefix": hx(rk[:8])})
}
