package main

import "syscall"

// memGuard caps the address space of the engine process (non-race builds only;
// the race runtime reserves terabytes of shadow memory). A mutant of the code
// under test that computes without a modulus must kill this process, not the machine.
func memGuard(gib uint64) {
	if raceBuild {
		return
	}
	lim := syscall.Rlimit{Cur: gib << 30, Max: gib << 30}
	_ = syscall.Setrlimit(syscall.RLIMIT_AS, &lim)
}
