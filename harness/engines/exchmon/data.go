package main

import (
	"crypto/rsa"
	"crypto/x509"
	"encoding/json"
	"encoding/pem"
	"fmt"
	"math/big"
	"os"
	"path/filepath"
	"sync"

	"github.com/gotd/td/exchange"

	"verif/harness/refmodel"
)

// dataSet is the committed input data of the engine (/verif/data/exchmon).
type dataSet struct {
	trusted, attacker, decoy1, decoy2 *rsa.PrivateKey
	primes                            map[string]*big.Int
}

func dataDir() string {
	d := os.Getenv("VERIF_DIR")
	if d == "" {
		d = "/verif"
	}
	return filepath.Join(d, "data", "exchmon")
}

func loadKey(name string) (*rsa.PrivateKey, error) {
	raw, err := os.ReadFile(filepath.Join(dataDir(), name))
	if err != nil {
		return nil, err
	}
	blk, _ := pem.Decode(raw)
	if blk == nil {
		return nil, fmt.Errorf("%s: no PEM block", name)
	}
	k, err := x509.ParsePKCS1PrivateKey(blk.Bytes)
	if err != nil {
		return nil, fmt.Errorf("%s: %w", name, err)
	}
	if k.N.BitLen() != 2048 {
		return nil, fmt.Errorf("%s: modulus has %d bits", name, k.N.BitLen())
	}
	return k, nil
}

// loadData reads the data directory and re-verifies every claim the file
// names make (bit lengths, primality, safeness, factorisation).
func loadData() (*dataSet, error) {
	d := &dataSet{primes: map[string]*big.Int{}}
	var err error
	for _, kv := range []struct {
		n string
		p **rsa.PrivateKey
	}{{"rsa_trusted.pem", &d.trusted}, {"rsa_attacker.pem", &d.attacker}, {"rsa_decoy1.pem", &d.decoy1}, {"rsa_decoy2.pem", &d.decoy2}} {
		if *kv.p, err = loadKey(kv.n); err != nil {
			return nil, err
		}
	}
	raw, err := os.ReadFile(filepath.Join(dataDir(), "primes.json"))
	if err != nil {
		return nil, err
	}
	var hexes map[string]string
	if err := json.Unmarshal(raw, &hexes); err != nil {
		return nil, err
	}
	for k, v := range hexes {
		x, ok := new(big.Int).SetString(v, 16)
		if !ok {
			return nil, fmt.Errorf("primes.json: %s not hex", k)
		}
		d.primes[k] = x
	}
	type claim struct {
		name          string
		bits          int
		prime, safeHf bool
	}
	claims := []claim{
		{"safe2048_telegram", 2048, true, true}, {"safe2048_b", 2048, true, true}, {"safe2048_c", 2048, true, true},
		{"safe2047", 2047, true, true}, {"safe2049", 2049, true, true},
		{"prime2048_notsafe", 2048, true, false}, {"composite2048_semiprime", 2048, false, false},
	}
	var wg sync.WaitGroup
	errs := make([]error, len(claims))
	for i, cl := range claims {
		wg.Add(1)
		go func() {
			defer wg.Done()
			p := d.primes[cl.name]
			if p == nil {
				errs[i] = fmt.Errorf("primes.json: %s missing", cl.name)
				return
			}
			if p.BitLen() != cl.bits {
				errs[i] = fmt.Errorf("%s: %d bits", cl.name, p.BitLen())
				return
			}
			if p.ProbablyPrime(16) != cl.prime {
				errs[i] = fmt.Errorf("%s: primality claim wrong", cl.name)
				return
			}
			if new(big.Int).Rsh(p, 1).ProbablyPrime(16) != cl.safeHf {
				errs[i] = fmt.Errorf("%s: (p-1)/2 primality claim wrong", cl.name)
			}
		}()
	}
	wg.Wait()
	for _, e := range errs {
		if e != nil {
			return nil, e
		}
	}
	fa, fb := d.primes["composite_factor_a"], d.primes["composite_factor_b"]
	if fa == nil || fb == nil || new(big.Int).Mul(fa, fb).Cmp(d.primes["composite2048_semiprime"]) != 0 {
		return nil, fmt.Errorf("composite2048_semiprime != factor_a*factor_b")
	}
	return d, nil
}

func refKey(k *rsa.PrivateKey) refmodel.ExRSAKey {
	return refmodel.ExRSAKey{N: k.N, E: big.NewInt(int64(k.E)), D: k.D}
}

func pub(k *rsa.PrivateKey) exchange.PublicKey { return exchange.PublicKey{RSA: &k.PublicKey} }
