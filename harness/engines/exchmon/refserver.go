package main

import (
	"bytes"
	"fmt"
	"math/big"
	"math/rand/v2"
	"time"

	"verif/harness/refmodel"
)

// srvKnobs configures the scripted reference server (written from the
// specification, on top of refmodel; it never calls into gotd/td). With all
// optional fields nil it is an honest, specification-following server.
type srvKnobs struct {
	key          refmodel.ExRSAKey // private key the server holds
	fingerprints []int64           // advertised in resPQ
	pq           []byte            // nil: product of two random primes of pqBits bits each
	pqBits       int               // 0: 14 (keeps the client's proof of work cheap); Telegram uses 31
	prime        *big.Int
	g            int32
	// ga, if set, chooses g_a; keyOf (may be nil = key unknown to the server)
	// computes auth_key from g_b. Default: a random, g_a = g^a mod p, key = g_b^a mod p.
	ga func(a *big.Int) (ga *big.Int, keyOf func(gb *big.Int) *big.Int)
	// gaRaw, if set, replaces the g_a bytes put on the wire (e.g. padded forms).
	serverTime int32

	mutResPQ    func(m *refmodel.ExResPQ)
	mutInner    func(m *refmodel.ExServerDHInner)
	mutAnswerPT func(pt []byte) []byte // answer_with_hash before AES-IGE (result length must be a multiple of 16)
	mutAnswerCT func(ct []byte) []byte
	mutDHParams func(m *refmodel.ExServerDHParams)
	mutDHGen    func(m *refmodel.ExDHGen)
	rawBody     func(step int, body []byte) []byte // last word on the TL body of step 2/5/8
	msgIDLow    int                                // low two bits of server msg ids (default 1 = response)
	stopBefore  int                                // 2, 5 or 8: fall silent instead of sending that step (C12)
	onStall     func()                             // called at the stall point before falling silent (e.g. deliver transport errors first)
}

// srvResult is what the scripted server saw and computed.
type srvResult struct {
	Reached     int // last step completed: 1 req_pq read, 2 resPQ sent, 4 req_DH read, 5 params sent, 6 set_client read, 8 dh_gen sent
	ClientNonce [16]byte
	ServerNonce [16]byte
	NewNonce    [32]byte
	NewNonceOK  bool // RSA_PAD decoded with the server's key
	Inner       refmodel.ExPQInner
	ReqDH       refmodel.ExReqDHParams
	PQ          []byte
	PQFactorsOK bool
	GB          *big.Int
	// AnswerIntact: the encrypted_answer put on the wire still decrypts (per the
	// specification) to exactly the server_DH_inner_data the script built.
	AnswerIntact bool
	InnerSent    refmodel.ExServerDHInner
	AnswerCT     []byte // encrypted_answer as sent
	ResPQSent    refmodel.ExResPQ
	DHGenSent    refmodel.ExDHGen
	KeyKnown     bool
	Key          [256]byte
	Salt         int64
	Notes        []string
}

func (r *srvResult) note(f string, a ...any) { r.Notes = append(r.Notes, fmt.Sprintf(f, a...)) }

// randPrimeBits returns a random prime in [2^(bits-1), 2^bits), bits <= 31.
func randPrimeBits(r *rand.Rand, bits int) uint64 {
	for {
		v := uint64(1)<<(bits-1) | uint64(r.Uint32())&(uint64(1)<<(bits-1)-1) | 1
		if new(big.Int).SetUint64(v).ProbablyPrime(8) {
			return v
		}
	}
}

func honestPQ(r *rand.Rand, bits int) []byte {
	if bits == 0 {
		bits = 14
	}
	p, q := randPrimeBits(r, bits), randPrimeBits(r, bits)
	for p == q {
		q = randPrimeBits(r, bits)
	}
	return new(big.Int).SetUint64(p * q).Bytes()
}

type srvMsgID struct{ n int64 }

func (m *srvMsgID) next(low int) int64 {
	m.n++
	return (time.Now().Unix() << 32) | (m.n << 2) | int64(low&3)
}

// runScripted plays the server side of one exchange on conn. It returns when
// the script ends, the client's transport closes, or stop closes.
func runScripted(conn *fakeConn, k *srvKnobs, r *rand.Rand, stop <-chan struct{}) srvResult {
	var res srvResult
	runScriptedInto(conn, k, r, stop, &res)
	return res
}

// runScriptedInto is runScripted writing its progress into res, so that
// mutators running on the same goroutine can use the session's values.
func runScriptedInto(conn *fakeConn, k *srvKnobs, r *rand.Rand, stop <-chan struct{}, res *srvResult) {
	ids := &srvMsgID{}
	low := 1
	if k.msgIDLow != 0 {
		low = k.msgIDLow
	}
	send := func(step int, body []byte) {
		if k.rawBody != nil {
			body = k.rawBody(step, body)
		}
		conn.deliver(refmodel.ExEnvelope{MsgID: ids.next(low), Body: body}.Encode())
	}
	recv := func() ([]byte, bool) {
		for {
			fr, ok := conn.next(stop)
			if !ok {
				return nil, false
			}
			env, err := refmodel.ExParseEnvelope(fr)
			if err != nil {
				res.note("bad envelope from client: %v", err)
				return nil, false
			}
			if env.AuthKeyID != 0 {
				res.note("skipped an encrypted frame")
				continue
			}
			return env.Body, true
		}
	}

	// 1. req_pq_multi
	body, ok := recv()
	if !ok {
		return
	}
	req, err := refmodel.ExParseReqPQ(body)
	if err != nil {
		res.note("step1: %v", err)
		return
	}
	res.Reached = 1
	res.ClientNonce = req.Nonce
	copy(res.ServerNonce[:], randBytes(r, 16))
	pq := k.pq
	if pq == nil {
		pq = honestPQ(r, k.pqBits)
	}
	res.PQ = pq
	if k.stopBefore == 2 {
		if k.onStall != nil {
			k.onStall()
		}
		return
	}
	// 2. resPQ
	resPQ := refmodel.ExResPQ{Nonce: req.Nonce, ServerNonce: res.ServerNonce, PQ: pq, Fingerprints: k.fingerprints}
	if k.mutResPQ != nil {
		k.mutResPQ(&resPQ)
	}
	res.ResPQSent = resPQ
	send(2, resPQ.Encode())
	res.Reached = 2

	// 4. req_DH_params
	body, ok = recv()
	if !ok {
		return
	}
	reqDH, err := refmodel.ExParseReqDHParams(body)
	if err != nil {
		res.note("step4: %v", err)
		return
	}
	res.Reached = 4
	res.ReqDH = reqDH
	{
		p, q := new(big.Int).SetBytes(reqDH.P), new(big.Int).SetBytes(reqDH.Q)
		res.PQFactorsOK = p.Cmp(q) < 0 && new(big.Int).Mul(p, q).Cmp(new(big.Int).SetBytes(pq)) == 0 &&
			p.ProbablyPrime(8) && q.ProbablyPrime(8)
	}
	if data, err := refmodel.ExRSAPadDecode(reqDH.EncryptedData, k.key); err == nil {
		if inner, err := refmodel.ExParsePQInner(data); err == nil {
			res.Inner = inner
			res.NewNonce = inner.NewNonce
			res.NewNonceOK = true
		} else {
			res.note("p_q_inner_data: %v", err)
		}
	} else {
		res.note("rsa_pad: %v", err)
	}
	if !res.NewNonceOK {
		// A server without the right private key can only guess new_nonce.
		copy(res.NewNonce[:], randBytes(r, 32))
	}
	if k.stopBefore == 5 {
		if k.onStall != nil {
			k.onStall()
		}
		return
	}

	// 5. server_DH_params_ok
	prime := k.prime
	g := big.NewInt(int64(k.g))
	a := new(big.Int).SetBytes(randBytes(r, 256))
	var ga *big.Int
	var keyOf func(gb *big.Int) *big.Int
	if k.ga != nil {
		ga, keyOf = k.ga(a)
	} else if prime.Cmp(big.NewInt(1)) <= 0 {
		ga = big.NewInt(1) // no group to compute in
	} else {
		ga = new(big.Int).Exp(g, a, prime)
		keyOf = func(gb *big.Int) *big.Int { return new(big.Int).Exp(gb, a, prime) }
	}
	st := k.serverTime
	if st == 0 {
		st = int32(time.Now().Unix())
	}
	inner := refmodel.ExServerDHInner{Nonce: req.Nonce, ServerNonce: res.ServerNonce, G: k.g, DHPrime: prime.Bytes(), GA: ga.Bytes(), ServerTime: st}
	if k.mutInner != nil {
		k.mutInner(&inner)
	}
	tk, tiv := refmodel.ExTmpAES(res.NewNonce, res.ServerNonce)
	res.InnerSent = inner
	ct := refmodel.ExAnswerEncrypt(inner.Encode(), tk, tiv, randBytes(r, 16))
	if k.mutAnswerPT != nil {
		pt := k.mutAnswerPT(refmodel.IGEDecrypt(tk, tiv, ct))
		ct = refmodel.IGEEncrypt(tk, tiv, pt)
	}
	if k.mutAnswerCT != nil {
		ct = k.mutAnswerCT(ct)
	}
	res.AnswerIntact = bytes.Equal(refmodel.ExAnswerDecrypt(ct, tk, tiv), inner.Encode())
	res.AnswerCT = ct
	params := refmodel.ExServerDHParams{ID: refmodel.ExIDServerDHOk, Nonce: req.Nonce, ServerNonce: res.ServerNonce, EncryptedAnswer: ct}
	if k.mutDHParams != nil {
		k.mutDHParams(&params)
	}
	send(5, params.Encode())
	res.Reached = 5

	// 6. set_client_DH_params
	body, ok = recv()
	if !ok {
		return
	}
	set, err := refmodel.ExParseSetClientDH(body)
	if err != nil {
		res.note("step6: %v", err)
		return
	}
	res.Reached = 6
	pt := refmodel.ExAnswerDecrypt(set.EncryptedData, tk, tiv)
	if pt == nil {
		res.note("client_DH_inner_data does not decrypt")
		return
	}
	cin, err := refmodel.ExParseClientDHInner(pt)
	if err != nil {
		res.note("client_DH_inner_data: %v", err)
		return
	}
	if cin.Nonce != req.Nonce || cin.ServerNonce != res.ServerNonce || set.Nonce != req.Nonce || set.ServerNonce != res.ServerNonce {
		res.note("client echoed different nonces in step 6")
	}
	res.GB = new(big.Int).SetBytes(cin.GB)
	if k.stopBefore == 8 {
		if k.onStall != nil {
			k.onStall()
		}
		return
	}

	// 8. dh_gen_ok
	var key [256]byte
	if keyOf != nil {
		kv := keyOf(res.GB)
		if kv.Sign() >= 0 && kv.BitLen() <= 2048 {
			key = refmodel.ExAuthKeyBytes(kv)
			res.KeyKnown = true
		}
	}
	if !res.KeyKnown {
		copy(key[:], randBytes(r, 256))
	}
	res.Key = key
	res.Salt = refmodel.ExExchangeSalt(res.NewNonce, res.ServerNonce)
	gen := refmodel.ExDHGen{ID: refmodel.ExIDDHGenOk, Nonce: req.Nonce, ServerNonce: res.ServerNonce, Hash: refmodel.ExNewNonceHash(res.NewNonce, 1, key)}
	if k.mutDHGen != nil {
		k.mutDHGen(&gen)
	}
	res.DHGenSent = gen
	send(8, gen.Encode())
	res.Reached = 8
	return
}
