package main

import (
	"bytes"
	"crypto/sha1"
	"encoding/binary"
	"fmt"
	"math/big"
	"math/rand/v2"
	"sync"

	"github.com/gotd/td/exchange"

	"verif/harness/mon"
	"verif/harness/refmodel"
)

// C09 — key exchange with an honest server yields the same key on both sides.

type c09Case struct {
	Index     int    `json:"index"`
	Temp      bool   `json:"temp"`
	Expires   int    `json:"expires_in"`
	DC        int    `json:"dc"`
	KeyOrder  []int  `json:"client_key_order"` // indices into {0 trusted(server), 1 decoy1, 2 decoy2}
	Prelude   string `json:"prelude"`
	ZeroNew   int    `json:"new_nonce_zero_prefix"`
	ZeroSrv   int    `json:"server_nonce_zero_prefix"`
	ZeroCli   int    `json:"client_nonce_zero_prefix"`
	ForceZKey bool   `json:"force_auth_key_leading_zero"`
	Jitter    bool   `json:"jitter"`
}

var (
	c09DCs     = []int{1, 2, 3, 4, 5, -1, -2, -3, -4, -5, 10001, 10002, 10003, -10004, 10005, 0x7fff, 0, 1<<31 - 1, -1 << 31, 121}
	c09Expires = []int{1, 60, 3600, 86400, 1<<31 - 1}
	c09Prelude = []string{"none", "none", "none", "fake-legacy-first", "fake-multi-first", "dup-req-pq"}
)

func dcClass(dc int) string {
	switch {
	case dc >= 1 && dc <= 5:
		return "prod"
	case dc <= -1 && dc >= -5:
		return "media"
	case dc > 10000 && dc < 10010:
		return "test"
	case dc < -10000:
		return "test-media"
	}
	return fmt.Sprint(dc)
}

func c09Gen(r *rand.Rand, i int) c09Case {
	cs := c09Case{Index: i, Temp: i%2 == 1, DC: c09DCs[r.IntN(len(c09DCs))], Prelude: c09Prelude[r.IntN(len(c09Prelude))], Jitter: r.IntN(2) == 0}
	if cs.Temp {
		cs.Expires = c09Expires[r.IntN(len(c09Expires))]
	}
	switch r.IntN(4) {
	case 0:
		cs.KeyOrder = []int{0}
	case 1:
		cs.KeyOrder = []int{1, 0}
	case 2:
		cs.KeyOrder = []int{2, 1, 0}
	default:
		cs.KeyOrder = []int{1, 0, 2}
	}
	zs := []int{1, 1, 2, 3, 8}
	switch i % 8 {
	case 2:
		cs.ZeroNew = zs[r.IntN(len(zs))]
	case 3:
		cs.ZeroSrv = zs[r.IntN(len(zs))]
	case 4:
		cs.ZeroNew, cs.ZeroSrv = zs[r.IntN(len(zs))], zs[r.IntN(len(zs))]
	case 5:
		cs.ZeroCli = zs[r.IntN(len(zs))]
	case 6:
		if r.IntN(3) == 0 {
			cs.ZeroNew = 32
		} else if r.IntN(2) == 0 {
			cs.ZeroSrv = 16
		}
	}
	return cs
}

// preludeMiddle injects req_pq traffic the server flow must tolerate before the real exchange.
type preludeMiddle struct {
	kind    string
	r       *rand.Rand
	held    []byte
	state   int
	dropped int
}

func (m *preludeMiddle) fromClient(h *hub, f []byte) {
	if m.state == 0 && m.kind != "none" {
		m.state = 1
		switch m.kind {
		case "fake-legacy-first", "fake-multi-first":
			id := uint32(refmodel.ExIDReqPQ)
			if m.kind == "fake-multi-first" {
				id = refmodel.ExIDReqPQMulti
			}
			var n [16]byte
			copy(n[:], randBytes(m.r, 16))
			m.held = f
			h.toServer(refmodel.ExEnvelope{MsgID: clientMsgID(1), Body: refmodel.ExReqPQ{ID: id, Nonce: n}.Encode()}.Encode())
			return
		case "dup-req-pq":
			h.toServer(f)
			h.toServer(append([]byte(nil), f...))
			return
		}
	}
	h.toServer(f)
}

func (m *preludeMiddle) fromServer(h *hub, f []byte) {
	if m.state == 1 {
		switch m.kind {
		case "fake-legacy-first", "fake-multi-first":
			// answer to the fake request: drop it, now let the client's own request through
			m.state = 2
			m.dropped++
			h.toServer(m.held)
			return
		case "dup-req-pq":
			m.state = 3 // first resPQ goes to the client, the second one is dropped
			h.toClient(f)
			return
		}
	}
	if m.state == 3 {
		m.state = 2
		m.dropped++
		return
	}
	h.toClient(f)
}

func runC09(c *mon.Ctx) {
	memGuard(12)
	c.Rule("real ClientExchange.Run against the in-tree ServerExchange.Run (trusted test key) over the harness frame transport with independent seeded random streams; " +
		"cases vary mode (permanent/temporary, expires_in), dc id, position of the server's key in the client's key list, req_pq preludes the server must tolerate " +
		"(fake legacy/multi request first, duplicated request), zero prefixes forced into nonce/new_nonce/server_nonce, auth keys forced to have a leading zero byte, delivery jitter; " +
		"a reference model re-derives new_nonce, g, p, g_a, g_b from the client's wire with the server's private key, finds the secret exponents in the logged random reads " +
		"(verified by g^x == g_x) and recomputes auth_key, key id, salt and new_nonce_hash1; second arm (DH prime choice): the honest server is the scripted reference server " +
		"with every committed 2048-bit safe prime x every g in 2..7 admissible for it x perm/temp, random dc; distinct non-trivial = (mode, dc class, prelude, key position, zero-prefix variant, RSA_PAD retries, key leading zero)")
	c.Assume("refmodel (TL, RSA_PAD decode, tmp_aes, SHA1 hashes) transcribes core.telegram.org/mtproto/auth_key; shared primitives: math/big, crypto/aes, crypto/sha1, crypto/sha256")
	c.Assume("TestServerRNG fixes pq and dh_prime on the server side: the DH prime choice dimension is covered in C10 where the harness plays the server")
	d, err := loadData()
	if err != nil {
		c.Inconclusive("data: " + err.Error())
		return
	}
	if got, want := refKey(d.trusted).Fingerprint(), pub(d.trusted).Fingerprint(); got != want {
		c.Inconclusive(fmt.Sprintf("reference fingerprint %d differs from the code's %d: reference unusable", got, want))
		return
	}
	n := c.N(60, 1200)
	nForce := c.N(4, 24)
	keys := []exchange.PublicKey{pub(d.trusted), pub(d.decoy1), pub(d.decoy2)}
	var mu sync.Mutex
	stats := map[string]int64{}
	bump := func(k string) { mu.Lock(); stats[k]++; mu.Unlock() }

	refCases := c09RefCases(c, d)
	c.Set("refserver_cases", len(refCases))
	parallel(n+nForce+len(refCases), 16, func(i int) {
		if i >= n+nForce {
			runC09RefCase(c, d, refCases[i-n-nForce], bump)
			return
		}
		r := c.RandN("c09", i)
		cs := c09Gen(r, i)
		if i >= n {
			cs.ForceZKey = true
			cs.ZeroNew, cs.ZeroSrv, cs.ZeroCli = 0, 0, 0
		}
		cRand := newRandSrc(c.RandN("c09/client", i), 256)
		sRand := newRandSrc(c.RandN("c09/server", i), 256)
		var tp *tap
		forcedTries := 0
		cRand.hook = func(size, nth int, p []byte) error {
			switch {
			case size == 16 && nth == 0 && cs.ZeroCli > 0:
				clear(p[:cs.ZeroCli])
			case size == 32 && nth == 0 && cs.ZeroNew > 0:
				clear(p[:cs.ZeroNew])
			case size == 256 && nth == 0 && cs.ForceZKey && tp != nil:
				// choose the client's secret b so that g_a^b has a leading zero byte
				_, prime, ga := tp.dhView()
				if ga == nil {
					return nil
				}
				fr := c.RandN("c09/force", i)
				for try := 0; try < 4000; try++ {
					forcedTries++
					cand := randBytes(fr, 256)
					k := new(big.Int).Exp(ga, new(big.Int).SetBytes(cand), prime)
					if k.BitLen() <= 2040 {
						copy(p, cand)
						return nil
					}
				}
			}
			return nil
		}
		sRand.hook = func(size, nth int, p []byte) error {
			if size == 16 && nth == 0 && cs.ZeroSrv > 0 {
				clear(p[:cs.ZeroSrv])
			}
			return nil
		}
		var ck []exchange.PublicKey
		for _, k := range cs.KeyOrder {
			ck = append(ck, keys[k])
		}
		mid := &preludeMiddle{kind: cs.Prelude, r: c.RandN("c09/prelude", i)}
		cfg := honestCfg{dc: cs.DC, temp: cs.Temp, expires: cs.Expires, clientKeys: ck, serverKey: d.trusted,
			cRand: cRand, sRand: sRand, mid: mid, sched: c.RandN("c09/sched", i), jitter: cs.Jitter}
		cfg.onTap = func(t *tap) { tp = t } // the hook above reaches the tap through tp
		out := runHonest(cfg)
		c.Eval(1)
		if out.inconclusive != "" {
			c.Inconclusive(out.inconclusive)
			return
		}
		w := map[string]any{"case": cs, "client_err": fmt.Sprint(out.cErr), "server_err": fmt.Sprint(out.sErr)}
		if out.cPanic != "" || out.sPanic != "" {
			w["client_panic"], w["server_panic"] = out.cPanic, out.sPanic
			c.Violate("panic-in-honest-exchange", w)
			return
		}
		if out.cErr != nil || out.sErr != nil {
			c.Violate(fmt.Sprintf("honest-exchange-failed|client=%s|server=%s", errClass(out.cErr), errClass(out.sErr)), w)
			return
		}
		// --- the statement: same key, same key id, same salt, non-zero key
		ck256, sk256 := out.cRes.AuthKey.Value, out.sRes.Key.Value
		if ck256 != sk256 {
			w["client_key"], w["server_key"] = hx(ck256[:]), hx(sk256[:])
			c.Violate("keys-differ", w)
		}
		if out.cRes.AuthKey.ID != out.sRes.Key.ID {
			c.Violate("key-ids-differ", w)
		}
		if out.cRes.ServerSalt != out.sRes.ServerSalt {
			w["client_salt"], w["server_salt"] = out.cRes.ServerSalt, out.sRes.ServerSalt
			c.Violate("salts-differ", w)
		}
		if ck256 == ([256]byte{}) {
			c.Violate("client-zero-key", w)
		}
		if h := sha1.Sum(ck256[:]); !bytes.Equal(h[12:20], out.cRes.AuthKey.ID[:]) {
			c.Violate("client-key-id-not-sha1-of-key", w)
		}
		if h := sha1.Sum(sk256[:]); !bytes.Equal(h[12:20], out.sRes.Key.ID[:]) {
			c.Violate("server-key-id-not-sha1-of-key", w)
		}
		// --- the reference model's reading of the wire
		t := out.tap
		if len(t.problems) > 0 {
			w["wire_problems"] = t.problems
			c.Violate("client-wire-not-per-specification", w)
			return
		}
		if t.inner == nil || t.sdh == nil || t.gb == nil || t.dhgen == nil || t.resPQ == nil || t.reqPQ == nil || t.reqDH == nil {
			c.Inconclusive(fmt.Sprintf("case %d: transcript incomplete although both sides succeeded", i))
			return
		}
		in := t.inner
		wantID := uint32(refmodel.ExIDPQInnerDC)
		if cs.Temp {
			wantID = refmodel.ExIDPQInnerTempDC
		}
		switch {
		case in.ID != wantID:
			w["constructor"] = fmt.Sprintf("%08x", in.ID)
			c.Violate("inner-data|constructor-does-not-match-mode", w)
		case in.DC != int32(cs.DC):
			w["wire_dc"] = in.DC
			c.Violate("inner-data|dc", w)
		case cs.Temp && in.ExpiresIn != int32(cs.Expires):
			w["wire_expires_in"] = in.ExpiresIn
			c.Violate("inner-data|expires_in", w)
		case in.Nonce != t.reqPQ.Nonce || in.ServerNonce != t.resPQ.ServerNonce || !bytes.Equal(in.PQ, t.resPQ.PQ):
			c.Violate("inner-data|nonces-or-pq", w)
		}
		pp, qq := new(big.Int).SetBytes(in.P), new(big.Int).SetBytes(in.Q)
		if pp.Cmp(qq) >= 0 || new(big.Int).Mul(pp, qq).Cmp(new(big.Int).SetBytes(in.PQ)) != 0 ||
			!bytes.Equal(in.P, t.reqDH.P) || !bytes.Equal(in.Q, t.reqDH.Q) {
			c.Violate("inner-data|p-q", w)
		}
		if t.reqDH.Fingerprint != refKey(d.trusted).Fingerprint() {
			c.Violate("req-dh|fingerprint", w)
		}
		g, prime, ga := t.dhView()
		var refKeyInt *big.Int
		for _, cand := range cRand.kept(256) {
			b := new(big.Int).SetBytes(cand)
			if new(big.Int).Exp(g, b, prime).Cmp(t.gb) == 0 {
				refKeyInt = new(big.Int).Exp(ga, b, prime)
				break
			}
		}
		var refKeyFromA *big.Int
		for _, cand := range sRand.kept(256) {
			a := new(big.Int).SetBytes(cand)
			if new(big.Int).Exp(g, a, prime).Cmp(ga) == 0 {
				refKeyFromA = new(big.Int).Exp(t.gb, a, prime)
				break
			}
		}
		if refKeyInt == nil || refKeyFromA == nil {
			bump("reference_exponent_not_identified")
			c.Inconclusive(fmt.Sprintf("case %d: secret exponent not identified in the random log", i))
			return
		}
		bump("reference_recomputations")
		rk := refmodel.ExAuthKeyBytes(refKeyInt)
		if refKeyInt.Cmp(refKeyFromA) != 0 {
			c.Inconclusive(fmt.Sprintf("case %d: reference g_a^b != g_b^a", i))
			return
		}
		w["reference_key"] = hx(rk[:])
		if rk != ck256 {
			w["client_key"] = hx(ck256[:])
			c.Violate("client-key-is-not-the-DH-key", w)
		}
		if rk != sk256 {
			w["server_key"] = hx(sk256[:])
			c.Violate("server-key-is-not-the-DH-key", w)
		}
		wantSalt := refmodel.ExExchangeSalt(in.NewNonce, t.resPQ.ServerNonce)
		if out.cRes.ServerSalt != wantSalt {
			w["reference_salt"], w["client_salt"] = wantSalt, out.cRes.ServerSalt
			c.Violate("client-salt-not-per-specification", w)
		}
		if t.dhgen.ID != refmodel.ExIDDHGenOk || t.dhgen.Hash != refmodel.ExNewNonceHash(in.NewNonce, 1, rk) {
			c.Violate("wire-new-nonce-hash1-not-per-specification", w)
		}
		if cs.Temp != (out.cRes.ExpiresAt != 0) {
			bump("expires_at_presence_mismatch_(not_in_statement)")
		}
		retries := cRand.count(32) - 2
		rc := "0"
		if retries == 1 {
			rc = "1"
		} else if retries > 1 {
			rc = "2+"
			bump("rsa_pad_retries_2plus")
		}
		if retries > 0 {
			bump("rsa_pad_retried")
		}
		lead := rk[0] == 0
		if lead {
			bump("auth_key_leading_zero_byte")
		}
		if cs.ForceZKey {
			bump("forced_leading_zero_cases")
			mu.Lock()
			stats["forced_search_tries"] += int64(forcedTries)
			mu.Unlock()
		}
		if mid.dropped > 0 {
			bump("prelude_resPQ_dropped")
		}
		bump("dh_prime_bits_" + fmt.Sprint(prime.BitLen()))
		zv := fmt.Sprintf("n%d.s%d.c%d", cs.ZeroNew, cs.ZeroSrv, cs.ZeroCli)
		c.Distinct(fmt.Sprintf("temp=%v|dc=%s|%s|keypos=%d/%d|%s|retry=%s|lead0=%v", cs.Temp, dcClass(cs.DC), cs.Prelude, indexOf(cs.KeyOrder, 0), len(cs.KeyOrder), zv, rc, lead))
		c.Sample(fmt.Sprintf("temp=%v", cs.Temp), map[string]any{"case": cs, "key_id": int64(binary.LittleEndian.Uint64(out.cRes.AuthKey.ID[:])),
			"salt": out.cRes.ServerSalt, "rsa_pad_retries": retries, "reference_key_prefix": hx(rk[:8])})
	})
	for k, v := range stats {
		c.Set(k, v)
	}
	if stats["reference_recomputations"] == 0 || stats["refserver_recomputations"] == 0 {
		c.Inconclusive("no exchange was recomputed by the reference model")
	}
}

func indexOf(a []int, v int) int {
	for i, x := range a {
		if x == v {
			return i
		}
	}
	return -1
}
