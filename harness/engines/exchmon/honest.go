package main

import (
	"context"
	"crypto/rsa"
	"fmt"
	"math/big"
	"math/rand/v2"
	"regexp"
	"runtime"
	"sync"
	"time"

	"github.com/gotd/td/exchange"

	"verif/harness/mon"
	"verif/harness/refmodel"
)

// hub connects the real client flow and the real in-tree server flow through
// the harness. Every frame passes through a middle (identity by default) and
// the tap, which reconstructs the exchange from the bytes the CLIENT sent and
// received, using the server's private key.
type hub struct {
	client, server *fakeConn
	tap            *tap
	sched          *rand.Rand // delivery delays (schedule)
	jitter         bool
}

func (h *hub) delay() {
	if !h.jitter {
		return
	}
	switch h.sched.IntN(4) {
	case 0:
		runtime.Gosched()
	case 1:
		time.Sleep(time.Duration(h.sched.IntN(300)) * time.Microsecond)
	}
}

func (h *hub) toClient(f []byte) {
	h.delay()
	h.tap.clientGot(f)
	h.client.deliver(f)
}

func (h *hub) toServer(f []byte) {
	h.delay()
	h.server.deliver(f)
}

// middle is a man in the middle.
type middle interface {
	fromClient(h *hub, f []byte)
	fromServer(h *hub, f []byte)
}

type passThrough struct{}

func (passThrough) fromClient(h *hub, f []byte) { h.toServer(f) }
func (passThrough) fromServer(h *hub, f []byte) { h.toClient(f) }

// tap is the reference model's view of one exchange, built from the client's wire.
type tap struct {
	mu        sync.Mutex
	key       refmodel.ExRSAKey
	sent, got [][]byte
	reqPQ     *refmodel.ExReqPQ
	resPQ     *refmodel.ExResPQ
	reqDH     *refmodel.ExReqDHParams
	inner     *refmodel.ExPQInner
	sdh       *refmodel.ExServerDHInner
	sdhRaw    *refmodel.ExServerDHParams
	gb        *big.Int
	dhgen     *refmodel.ExDHGen
	problems  []string
}

func (t *tap) problem(f string, a ...any) { t.problems = append(t.problems, fmt.Sprintf(f, a...)) }

func (t *tap) clientSent(f []byte) {
	t.mu.Lock()
	defer t.mu.Unlock()
	t.sent = append(t.sent, f)
	env, err := refmodel.ExParseEnvelope(f)
	if err != nil || env.AuthKeyID != 0 || env.Trailing != 0 {
		t.problem("client frame %d: bad envelope (%v)", len(t.sent), err)
		return
	}
	if env.MsgID%4 != 0 {
		t.problem("client msg_id %d not divisible by 4", env.MsgID)
	}
	switch refmodel.ExBodyID(env.Body) {
	case refmodel.ExIDReqPQMulti, refmodel.ExIDReqPQ:
		if m, err := refmodel.ExParseReqPQ(env.Body); err == nil {
			t.reqPQ = &m
		} else {
			t.problem("req_pq: %v", err)
		}
	case refmodel.ExIDReqDHParams:
		m, err := refmodel.ExParseReqDHParams(env.Body)
		if err != nil {
			t.problem("req_DH_params: %v", err)
			return
		}
		t.reqDH = &m
		data, err := refmodel.ExRSAPadDecode(m.EncryptedData, t.key)
		if err != nil {
			t.problem("RSA_PAD: %v", err)
			return
		}
		in, err := refmodel.ExParsePQInner(data)
		if err != nil {
			t.problem("p_q_inner_data: %v", err)
			return
		}
		t.inner = &in
	case refmodel.ExIDSetClientDH:
		m, err := refmodel.ExParseSetClientDH(env.Body)
		if err != nil {
			t.problem("set_client_DH_params: %v", err)
			return
		}
		if t.inner == nil || t.resPQ == nil {
			return
		}
		k, iv := refmodel.ExTmpAES(t.inner.NewNonce, t.resPQ.ServerNonce)
		pt := refmodel.ExAnswerDecrypt(m.EncryptedData, k, iv)
		if pt == nil {
			t.problem("client_DH_inner_data does not decrypt under the specification's tmp_aes key")
			return
		}
		cin, err := refmodel.ExParseClientDHInner(pt)
		if err != nil {
			t.problem("client_DH_inner_data: %v", err)
			return
		}
		t.gb = new(big.Int).SetBytes(cin.GB)
	}
}

func (t *tap) clientGot(f []byte) {
	t.mu.Lock()
	defer t.mu.Unlock()
	t.got = append(t.got, f)
	env, err := refmodel.ExParseEnvelope(f)
	if err != nil || env.AuthKeyID != 0 {
		return
	}
	switch refmodel.ExBodyID(env.Body) {
	case refmodel.ExIDResPQ:
		if m, err := refmodel.ExParseResPQ(env.Body); err == nil {
			t.resPQ = &m
		}
	case refmodel.ExIDServerDHOk:
		m, err := refmodel.ExParseServerDHParams(env.Body)
		if err != nil {
			return
		}
		t.sdhRaw = &m
		if t.inner == nil || t.resPQ == nil {
			return
		}
		k, iv := refmodel.ExTmpAES(t.inner.NewNonce, t.resPQ.ServerNonce)
		pt := refmodel.ExAnswerDecrypt(m.EncryptedAnswer, k, iv)
		if pt == nil {
			return
		}
		if in, err := refmodel.ExParseServerDHInner(pt); err == nil {
			t.sdh = &in
		}
	case refmodel.ExIDDHGenOk, refmodel.ExIDDHGenRetry, refmodel.ExIDDHGenFail:
		if m, err := refmodel.ExParseDHGen(env.Body); err == nil {
			t.dhgen = &m
		}
	}
}

// dhView returns g, p, g_a as decrypted from the wire (nil until step 5 passed the tap).
func (t *tap) dhView() (g, p, ga *big.Int) {
	t.mu.Lock()
	defer t.mu.Unlock()
	if t.sdh == nil {
		return nil, nil, nil
	}
	return big.NewInt(int64(t.sdh.G)), new(big.Int).SetBytes(t.sdh.DHPrime), new(big.Int).SetBytes(t.sdh.GA)
}

// honestCfg describes one run of real client against real server.
type honestCfg struct {
	dc         int
	temp       bool
	expires    int
	clientKeys []exchange.PublicKey
	serverKey  *rsa.PrivateKey
	cRand      *randSrc
	sRand      *randSrc
	mid        middle
	sched      *rand.Rand
	jitter     bool
	onTap      func(t *tap) // called with the run's tap before the flows start
}

type honestOut struct {
	cRes         exchange.ClientExchangeResult
	cErr         error
	sRes         exchange.ServerExchangeResult
	sErr         error
	cPanic       string
	sPanic       string
	tap          *tap
	inconclusive string
}

// runHonest runs both real flows to completion. Exchange timeouts are set far
// beyond the watchdog: a run ends by success, by an error of one side (the
// harness then closes both transports, like a peer hanging up), or by the watchdog.
func runHonest(cfg honestCfg) (out honestOut) {
	cc, sc := newFakeConn("client"), newFakeConn("server")
	t := &tap{key: refKey(cfg.serverKey)}
	out.tap = t
	if cfg.onTap != nil {
		cfg.onTap(t)
	}
	h := &hub{client: cc, server: sc, tap: t, sched: cfg.sched, jitter: cfg.jitter}
	mid := cfg.mid
	if mid == nil {
		mid = passThrough{}
	}
	stop := make(chan struct{})
	pumpDone := make(chan struct{})
	go func() {
		defer close(pumpDone)
		for {
			select {
			case f := <-cc.out:
				t.clientSent(f)
				mid.fromClient(h, f)
			case f := <-sc.out:
				mid.fromServer(h, f)
			case <-stop:
				return
			}
		}
	}()
	ctx, cancel := context.WithCancel(context.Background())
	defer cancel()
	hangup := func() { cc.Close(); sc.Close() }
	cDone, sDone := make(chan struct{}), make(chan struct{})
	go func() {
		defer close(cDone)
		pv, stack := mon.Try(func() {
			ex := exchange.NewExchanger(cc, cfg.dc).WithRand(cfg.cRand).WithTimeout(time.Hour)
			if cfg.temp {
				ex = ex.WithTempMode(cfg.expires)
			}
			out.cRes, out.cErr = ex.Client(cfg.clientKeys).Run(ctx)
		})
		if pv != nil {
			out.cPanic = fmt.Sprintf("%v\n%s", pv, stack)
			out.cErr = fmt.Errorf("panic: %v", pv)
		}
		if out.cErr != nil {
			hangup()
		}
	}()
	go func() {
		defer close(sDone)
		pv, stack := mon.Try(func() {
			out.sRes, out.sErr = exchange.NewExchanger(sc, cfg.dc).WithRand(cfg.sRand).WithTimeout(time.Hour).
				Server(exchange.PrivateKey{RSA: cfg.serverKey}).Run(ctx)
		})
		if pv != nil {
			out.sPanic = fmt.Sprintf("%v\n%s", pv, stack)
			out.sErr = fmt.Errorf("panic: %v", pv)
		}
		if out.sErr != nil {
			hangup()
		}
	}()
	wd := time.NewTimer(10 * time.Minute)
	defer wd.Stop()
	for _, ch := range []chan struct{}{cDone, sDone} {
		select {
		case <-ch:
		case <-wd.C:
			out.inconclusive = "watchdog (10 min) in an exchange run\n" + goroutineDump()
			hangup()
			<-cDone
			<-sDone
		}
	}
	close(stop)
	<-pumpDone
	hangup()
	return out
}

var (
	reHex = regexp.MustCompile(`[0-9a-fA-F]{6,}`)
	reNum = regexp.MustCompile(`-?[0-9]+`)
)

// errClass normalises an error message into a class (numbers and hex removed).
func errClass(err error) string {
	if err == nil {
		return "nil"
	}
	s := err.Error()
	s = reHex.ReplaceAllString(s, "#")
	s = reNum.ReplaceAllString(s, "#")
	if len(s) > 90 {
		s = s[:90]
	}
	return s
}

func clientMsgID(n int64) int64 { return (time.Now().Unix() << 32) | (n << 2) }
