package main

import (
	"context"
	"errors"
	"fmt"
	"math/rand/v2"
	"runtime"
	"strings"
	"sync"
	"time"

	"github.com/gotd/td/clock"
	"github.com/gotd/td/crypto"
	"github.com/gotd/td/exchange"
	"github.com/gotd/td/mtproto"
	"github.com/gotd/td/proto/codec"
	"github.com/gotd/td/transport"

	"verif/harness/mon"
	"verif/harness/refmodel"
)

// C12 — each key-exchange step is bounded by the exchange timeout.
//
// Logical oracle: the harness-owned transport records, for every Send / Recv
// the client exchange flow issues, the deadline carried by the context at the
// call. A call whose context has no deadline, or a deadline later than
// (time of the call + configured exchange timeout), is not bounded by the
// exchange timeout: a silent peer keeps the step pending beyond it. The stall
// arms then make the scripted peer silent at the step and look at the outcome.

type c12Cell struct {
	Entry     string // exchange | conn-nopfs | conn-pfs | conn-regen
	Temp      bool   // entry "exchange": temporary-key mode
	Caller    string // none | long | short : deadline of the caller's context
	StallExch int    // which exchange of the run is stalled (1-based; PFS runs two)
	StallStep int    // 0: no stall (control); 2 resPQ, 5 server_DH_params, 8 dh_gen answer withheld
	PreCode   int    // transport error code delivered PreK times at the stall point before the silence (0: none)
	PreK      int
	Skew      time.Duration // the exchanger's / connection's clock.Clock shows host time + Skew
}

// skewClock is a clock.Clock that runs ahead of (or behind) host time by d; timers are real.
type skewClock struct{ d time.Duration }

func (s skewClock) Now() time.Time                      { return time.Now().Add(s.d) }
func (s skewClock) Timer(d time.Duration) clock.Timer   { return clock.System.Timer(d) }
func (s skewClock) Ticker(d time.Duration) clock.Ticker { return clock.System.Ticker(d) }

func (c c12Cell) id() string {
	m := ""
	if c.Entry == "exchange" {
		m = "/perm"
		if c.Temp {
			m = "/temp"
		}
	}
	pre := ""
	if c.PreK > 0 {
		pre = fmt.Sprintf("/pre=%dx-%d", c.PreK, c.PreCode)
	}
	if c.Skew != 0 {
		pre += fmt.Sprintf("/clock=%+v", c.Skew)
	}
	return fmt.Sprintf("%s%s/caller=%s/stall=%d.%d%s", c.Entry, m, c.Caller, c.StallExch, c.StallStep, pre)
}

type c12Event struct {
	Seq        int     `json:"seq"`
	Op         string  `json:"op"`
	Step       string  `json:"step"`
	Exch       int     `json:"exchange"`
	HasDL      bool    `json:"has_deadline"`
	BudgetMs   float64 `json:"deadline_minus_call_ms"`
	TimeoutMs  float64 `json:"exchange_timeout_ms"`
	Bounded    bool    `json:"bounded"`
	Class      string  `json:"class"`
	stallPoint bool
}

// c12Rec classifies boundary events of one run into exchange steps.
type c12Rec struct {
	mu      sync.Mutex
	T       time.Duration
	phase   int // 0: not inside an exchange read; 2/5/8: the answer the flow waits for
	exch    int
	seq     int
	events  []c12Event
	stallAt [2]int        // exchange ordinal, step
	stalled chan c12Event // receives the Recv call event issued at the stall point
	idleRx  chan struct{} // signalled when a Recv outside any exchange is issued (read loop)
}

func stepName(phase int) string {
	switch phase {
	case 2:
		return "resPQ"
	case 5:
		return "server_DH_params"
	case 8:
		return "dh_gen"
	}
	return "?"
}

func (r *c12Rec) judge(op, step string, ev ioEvent) c12Event {
	r.seq++
	e := c12Event{Seq: r.seq, Op: op, Step: step, Exch: r.exch, HasDL: ev.HasDeadline, TimeoutMs: float64(r.T) / 1e6}
	switch {
	case !ev.HasDeadline:
		e.Class = "no-deadline"
	default:
		budget := ev.Deadline.Sub(ev.At)
		e.BudgetMs = float64(budget) / 1e6
		if budget <= r.T {
			e.Bounded = true
			e.Class = "within-exchange-timeout"
		} else {
			e.Class = "deadline-later-than-exchange-timeout"
		}
	}
	r.events = append(r.events, e)
	return e
}

func (r *c12Rec) observe(ev ioEvent) {
	r.mu.Lock()
	defer r.mu.Unlock()
	switch {
	case ev.Op == "send" && !ev.Ret:
		env, err := refmodel.ExParseEnvelope(ev.Frame)
		if err != nil || env.AuthKeyID != 0 {
			return // encrypted traffic of the connection, not an exchange step
		}
		id := refmodel.ExBodyID(env.Body)
		switch id {
		case refmodel.ExIDReqPQMulti, refmodel.ExIDReqPQ:
			r.exch++
			r.phase = 2
		case refmodel.ExIDReqDHParams:
			r.phase = 5
		case refmodel.ExIDSetClientDH:
			r.phase = 8
		default:
			return
		}
		r.judge("send", refmodel.ExConstructorName(id), ev)
	case ev.Op == "recv" && !ev.Ret:
		if r.phase == 0 {
			select {
			case r.idleRx <- struct{}{}:
			default:
			}
			return
		}
		e := r.judge("recv", stepName(r.phase), ev)
		if r.stallAt == [2]int{r.exch, r.phase} {
			e.stallPoint = true
			select {
			case r.stalled <- e:
			default:
			}
		}
	case ev.Op == "recv" && ev.Ret:
		if r.phase == 0 {
			return
		}
		var pe *codec.ProtocolErr
		if ev.Err != nil && errors.As(ev.Err, &pe) && pe.Code == codec.CodeAuthKeyNotFound && r.phase == 2 {
			return // the flow re-reads after -404 in step 2
		}
		r.phase = 0
	}
}

func (r *c12Rec) snapshot() []c12Event {
	r.mu.Lock()
	defer r.mu.Unlock()
	return append([]c12Event(nil), r.events...)
}

type c12Outcome struct {
	Cell          string     `json:"cell"`
	Events        []c12Event `json:"events"`
	RunErr        string     `json:"run_error"`
	Returned      bool       `json:"returned"`
	StallReached  bool       `json:"stall_reached"`
	BlockedSettle bool       `json:"still_blocked_after_settle"`
	Exchanges     int        `json:"exchanges_completed"`
	TempSeen      []bool     `json:"temp_payload_per_exchange"`
	Note          string     `json:"note,omitempty"`
	inconclusive  string
}

const (
	c12Short = 5 * time.Minute // caller deadline in "short" cells (exchange timeout there: 1 h)
	c12Long  = 3 * time.Hour
)

func runC12Cell(d *dataSet, cell c12Cell, seed *rand.Rand, T time.Duration) (out c12Outcome) {
	out.Cell = cell.id()
	conn := newFakeConn("client")
	rec := &c12Rec{T: T, stallAt: [2]int{cell.StallExch, cell.StallStep}, stalled: make(chan c12Event, 32), idleRx: make(chan struct{}, 1)}
	if cell.StallStep == 0 {
		rec.stallAt = [2]int{-1, -1}
	}
	conn.obs = rec.observe
	cRand := newRandSrc(rand.New(rand.NewPCG(seed.Uint64(), seed.Uint64())))
	sRand := rand.New(rand.NewPCG(seed.Uint64(), seed.Uint64()))

	ctx, cancel := context.WithCancel(context.Background())
	defer cancel()
	switch cell.Caller {
	case "long":
		var c2 context.CancelFunc
		ctx, c2 = context.WithTimeout(ctx, c12Long)
		defer c2()
	case "short":
		var c2 context.CancelFunc
		ctx, c2 = context.WithTimeout(ctx, c12Short)
		defer c2()
	}

	nExch := 1
	if cell.Entry == "conn-pfs" {
		nExch = 2
	}
	stopSrv := make(chan struct{})
	srvDone := make(chan []srvResult, 1)
	go func() {
		var rs []srvResult
		if cell.Entry == "conn-regen" {
			// The server has forgotten the key: transport-level -404.
			conn.deliverErr(fmt.Errorf("read: %w", &codec.ProtocolErr{Code: codec.CodeAuthKeyNotFound}))
		}
		for i := 1; i <= nExch; i++ {
			k := &srvKnobs{key: refKey(d.trusted), fingerprints: []int64{refKey(d.trusted).Fingerprint()},
				prime: d.primes["safe2048_telegram"], g: 3}
			if cell.StallExch == i {
				k.stopBefore = cell.StallStep
				if cell.PreK > 0 {
					// transport-level error frames (4-byte codes) first, then silence
					k.onStall = func() {
						for n := 0; n < cell.PreK; n++ {
							conn.deliverErr(fmt.Errorf("read: %w", &codec.ProtocolErr{Code: int32(cell.PreCode)}))
						}
					}
				}
			}
			r := runScripted(conn, k, sRand, stopSrv)
			rs = append(rs, r)
			if r.Reached != 8 {
				break
			}
		}
		srvDone <- rs
	}()

	runDone := make(chan error, 1)
	go func() {
		var err error
		pv, stack := mon.Try(func() {
			switch cell.Entry {
			case "exchange":
				ex := exchange.NewExchanger(conn, 2).WithRand(cRand).WithTimeout(T)
				if cell.Skew != 0 {
					ex = ex.WithClock(skewClock{cell.Skew})
				}
				if cell.Temp {
					ex = ex.WithTempMode(3600)
				}
				_, err = ex.Client([]exchange.PublicKey{pub(d.trusted)}).Run(ctx)
			default:
				opt := mtproto.Options{
					DC: 2, PublicKeys: []exchange.PublicKey{pub(d.trusted)}, Random: cRand,
					// dial timeout far above the exchange timeout so that the two cannot be confused
					DialTimeout: 6 * time.Hour, ExchangeTimeout: T,
					PingInterval: time.Hour, PingTimeout: time.Hour, SaltFetchInterval: time.Hour,
					AckInterval: time.Hour, RetryInterval: time.Hour,
					EnablePFS: cell.Entry == "conn-pfs",
				}
				if cell.Skew != 0 {
					opt.Clock = skewClock{cell.Skew}
				}
				if cell.Entry == "conn-regen" {
					var k crypto.Key
					copy(k[:], randBytes(sRand, 256))
					opt.Key = k.WithID()
					opt.Salt = 1
				}
				c := mtproto.New(func(context.Context) (transport.Conn, error) { return conn, nil }, opt)
				err = c.Run(ctx, func(ctx context.Context) error { <-ctx.Done(); return ctx.Err() })
			}
		})
		if pv != nil {
			err = fmt.Errorf("PANIC: %v\n%s", pv, stack)
		}
		runDone <- err
	}()

	release := func() { cancel(); conn.Close() }
	finish := func(err error) {
		out.Returned = true
		if err != nil {
			out.RunErr = err.Error()
			if len(out.RunErr) > 300 {
				out.RunErr = out.RunErr[:300]
			}
		}
	}
	watchdog := time.NewTimer(240 * time.Second)
	defer watchdog.Stop()
	waitRun := func(what string) bool {
		select {
		case err := <-runDone:
			finish(err)
			return true
		case <-watchdog.C:
			out.inconclusive = fmt.Sprintf("cell %s: watchdog while %s\n%s", out.Cell, what, goroutineDump())
			release()
			return false
		}
	}

	if cell.StallStep == 0 {
		// control: everything is answered
		if cell.Entry == "exchange" {
			if !waitRun("waiting for the unstalled exchange") {
				return
			}
		} else {
			// wait for the read loop to start reading after the last exchange, then stop the connection
			select {
			case err := <-runDone:
				finish(err)
			case <-watchdog.C:
				out.inconclusive = fmt.Sprintf("cell %s: watchdog in control run\n%s", out.Cell, goroutineDump())
				release()
				return
			case rs := <-srvDone:
				srvDone <- rs
				select {
				case <-rec.idleRx:
				case <-time.After(2 * time.Second): // settle only
				case err := <-runDone:
					finish(err)
				}
				release()
				if !out.Returned && !waitRun("stopping the control connection") {
					return
				}
			}
		}
	} else {
		// every Recv the flow issues at the stall point is looked at (the flow may re-read after
		// skipped transport errors); the first one that is not bounded decides how the run is released
	stallLoop:
		for !out.Returned {
			select {
			case e := <-rec.stalled:
				out.StallReached = true
				switch {
				case cell.Caller == "short":
					// bounded only by the caller's own (5 min) deadline, which is within the 1 h
					// exchange timeout: not waited for.
					out.Note = "stalled recv observed; not waited for (caller deadline 5 min)"
					release()
					if !waitRun("waiting for the released run to end") {
						return
					}
				case e.Bounded:
					// the step carries a deadline within the exchange timeout: the run must end by itself
					// (or re-read, which shows up as the next event)
				default:
					// logically unbounded; confirm by outcome that it is still pending after a settle
					// period of several exchange timeouts, then release it
					select {
					case err := <-runDone:
						finish(err)
					case <-time.After(6 * T):
						out.BlockedSettle = true
						release()
						if !waitRun("waiting for the released run to end") {
							return
						}
					}
				}
			case err := <-runDone:
				finish(err) // ended by itself (or before the stall point: spurious timeout under load)
				break stallLoop
			case <-watchdog.C:
				out.inconclusive = fmt.Sprintf("cell %s: watchdog in a stalled run (stall reached: %v)\n%s", out.Cell, out.StallReached, goroutineDump())
				release()
				return
			}
		}
	}
	close(stopSrv)
	conn.Close()
	select {
	case rs := <-srvDone:
		for _, r := range rs {
			if r.Reached == 8 {
				out.Exchanges++
			}
			if r.NewNonceOK {
				out.TempSeen = append(out.TempSeen, r.Inner.IsTemp())
			}
		}
	case <-time.After(30 * time.Second):
		out.inconclusive = "scripted server did not stop"
	}
	out.Events = rec.snapshot()
	return out
}

func goroutineDump() string {
	buf := make([]byte, 1<<20)
	n := runtime.Stack(buf, true)
	if n > 12000 {
		n = 12000
	}
	return string(buf[:n])
}

func c12Cells() []c12Cell {
	var cells []c12Cell
	for _, caller := range []string{"none", "long", "short"} {
		for _, step := range []int{0, 2, 5, 8} {
			se := 1
			if step == 0 {
				se = 0
			}
			cells = append(cells,
				c12Cell{Entry: "exchange", Temp: false, Caller: caller, StallExch: se, StallStep: step},
				c12Cell{Entry: "exchange", Temp: true, Caller: caller, StallExch: se, StallStep: step},
				c12Cell{Entry: "conn-nopfs", Caller: caller, StallExch: se, StallStep: step},
				c12Cell{Entry: "conn-regen", Caller: caller, StallExch: se, StallStep: step},
				c12Cell{Entry: "conn-pfs", Caller: caller, StallExch: se, StallStep: step},
			)
			if step != 0 {
				cells = append(cells, c12Cell{Entry: "conn-pfs", Caller: caller, StallExch: 2, StallStep: step})
			}
		}
	}
	// the exchanger's / connection's clock is skewed against host time: the bound is on real (host) time,
	// "now" of the oracle is the host time of the call whatever the configured clock shows
	for _, skew := range []time.Duration{30 * time.Second, 10 * time.Minute, 24 * time.Hour, -10 * time.Minute} {
		for _, step := range []int{0, 2, 5, 8} {
			for _, e := range []c12Cell{{Entry: "exchange"}, {Entry: "exchange", Temp: true}, {Entry: "conn-nopfs"}, {Entry: "conn-regen"},
				{Entry: "conn-pfs"}, {Entry: "conn-pfs", StallExch: 2}} {
				if step == 0 && e.StallExch == 2 {
					continue
				}
				e.Caller, e.StallStep, e.Skew = "none", step, skew
				if step != 0 && e.StallExch == 0 {
					e.StallExch = 1
				}
				cells = append(cells, e)
			}
		}
	}
	// the peer first delivers transport error frames at the read step, then falls silent:
	// -404 is skipped by the ResPQ read (re-read), any other code must fail the step at once
	for _, caller := range []string{"none", "long"} {
		for _, step := range []int{2, 5, 8} {
			for _, pre := range [][2]int{{404, 1}, {404, 2}, {404, 5}, {429, 1}} {
				for _, e := range []c12Cell{{Entry: "exchange"}, {Entry: "exchange", Temp: true}, {Entry: "conn-nopfs"}, {Entry: "conn-regen"},
					{Entry: "conn-pfs"}, {Entry: "conn-pfs", StallExch: 2}} {
					e.Caller, e.StallStep, e.PreCode, e.PreK = caller, step, pre[0], pre[1]
					if e.StallExch == 0 {
						e.StallExch = 1
					}
					cells = append(cells, e)
				}
			}
		}
	}
	return cells
}

func runC12(c *mon.Ctx) {
	c.Rule("cells = entry point {exchange.ClientExchange.Run perm/temp, mtproto.Conn.Run without PFS (fresh key), with PFS (permanent then temporary exchange), " +
		"regeneration after a transport -404 with a preset key} x caller context {no deadline, 3 h deadline, 5 min deadline with 1 h exchange timeout} x " +
		"silent peer at {none, resPQ, server_DH_params, dh_gen} of each exchange, plus (caller none / far deadline) the peer delivering k in {1,2,5} transport -404 frames or one -429 frame " +
		"at that read step before falling silent, plus (caller none) the exchanger / connection clock.Clock skewed by +30 s, +10 min, +24 h, -10 min against host time for every entry point and stall step, " +
		"enumerated completely per repetition; the oracle's now is the host time of the call; the transport records ctx.Deadline() of every " +
		"Send/Recv of the client flow; a case is one judged Send/Recv; distinct non-trivial = (cell, op, step, deadline class)")
	c.Assume("the harness transport honours exactly the context deadline (as transport.connection does via SetRead/WriteDeadline) and not cancellation")
	c.Assume("a step is bounded iff deadline - time_of_call <= configured exchange timeout; time_of_call is read after the flow built its context, so scheduling delay can only shrink the difference")
	d, err := loadData()
	if err != nil {
		c.Inconclusive("data: " + err.Error())
		return
	}
	cells := c12Cells()
	reps := c.N(1, 8)
	c.Set("cells", len(cells))
	c.Set("repetitions", reps)
	type job struct {
		cell c12Cell
		rep  int
	}
	var jobs []job
	for rep := 0; rep < reps; rep++ {
		for _, cell := range cells {
			jobs = append(jobs, job{cell, rep})
		}
	}
	var mu sync.Mutex
	classCount := map[string]int64{}
	blocked, stallReached, stallCells, controlsOK := 0, 0, 0, 0
	preOutcomes := map[string]map[string]int{}
	parallel(len(jobs), 16, func(i int) {
		j := jobs[i]
		var out c12Outcome
		T := time.Hour
		for attempt := 0; attempt < 3; attempt++ {
			if j.cell.StallStep != 0 && j.cell.Caller != "short" {
				T = 500 * time.Millisecond << (2 * attempt) // real wait only in bounded stall cells
			}
			out = runC12Cell(d, j.cell, c.RandN("c12/"+j.cell.id(), j.rep*8+attempt), T)
			if out.inconclusive != "" || j.cell.StallStep == 0 || out.StallReached {
				break
			}
		}
		if out.inconclusive != "" {
			c.Inconclusive(out.inconclusive)
			return
		}
		mu.Lock()
		defer mu.Unlock()
		if j.cell.StallStep != 0 {
			stallCells++
			if !out.StallReached {
				c.Inconclusive(fmt.Sprintf("cell %s: stall point never reached (run ended with %q)", out.Cell, out.RunErr))
				return
			}
			stallReached++
			if j.cell.PreK > 0 {
				k := fmt.Sprintf("%dx%d@%s", j.cell.PreK, j.cell.PreCode, stepName(j.cell.StallStep))
				if preOutcomes[k] == nil {
					preOutcomes[k] = map[string]int{}
				}
				e := out.RunErr
				if i := strings.LastIndex(e, "read "); i > 0 {
					e = e[i:]
				}
				preOutcomes[k][e]++
			}
			if out.BlockedSettle {
				blocked++
			}
		} else {
			want := 1
			if j.cell.Entry == "conn-pfs" {
				want = 2
			}
			if out.Exchanges != want || (j.cell.Entry == "exchange" && out.RunErr != "") {
				c.Inconclusive(fmt.Sprintf("control cell %s did not complete: exchanges=%d err=%q", out.Cell, out.Exchanges, out.RunErr))
				return
			}
			controlsOK++
			if j.cell.Entry == "conn-pfs" && !(len(out.TempSeen) == 2 && !out.TempSeen[0] && out.TempSeen[1]) {
				c.Inconclusive(fmt.Sprintf("control cell %s: expected permanent then temporary payload, saw %v", out.Cell, out.TempSeen))
			}
		}
		for _, e := range out.Events {
			c.Eval(1)
			c.Distinct(fmt.Sprintf("%s|%s@%s|%s", out.Cell, e.Op, e.Step, e.Class))
			classCount[fmt.Sprintf("%s@%s|%s", e.Op, e.Step, e.Class)]++
			if !e.Bounded && j.cell.Caller != "short" {
				c.Violate(fmt.Sprintf("step-unbounded|%s@%s|%s", e.Op, e.Step, e.Class), out)
			}
			if !e.Bounded && j.cell.Caller == "short" {
				// cannot happen: every derived deadline is within the caller's 5 min < 1 h
				c.Violate(fmt.Sprintf("step-unbounded-despite-caller-deadline|%s@%s|%s", e.Op, e.Step, e.Class), out)
			}
		}
		if j.cell.StallStep != 0 && j.cell.Caller != "short" {
			// outcome arm: a stalled run that was judged bounded must have ended by itself with an error
			last := out.Events[len(out.Events)-1]
			if last.Bounded && (out.RunErr == "" || out.BlockedSettle) {
				c.Violate(fmt.Sprintf("stalled-run-did-not-fail|%s@%s", last.Op, last.Step), out)
			}
		}
		c.Sample(j.cell.Entry, map[string]any{"cell": out.Cell, "events": out.Events, "run_error": out.RunErr, "still_blocked_after_settle": out.BlockedSettle})
	})
	c.Set("judged_by_step_and_class", classCount)
	c.Set("outcome_after_transport_error_frames", preOutcomes)
	c.Set("stall_cells", stallCells)
	c.Set("stall_points_reached", stallReached)
	c.Set("stalled_runs_still_blocked_after_settle", blocked)
	c.Set("control_cells_completed", controlsOK)
	c.Exhaustive(true) // the cell grid is enumerated completely in every repetition
	if stallReached == 0 || controlsOK == 0 {
		c.Inconclusive("no stall point or no control observed")
	}
}
