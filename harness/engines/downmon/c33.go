package main

import (
	"context"
	"errors"
	"fmt"
	"io"
	"os"
	"path/filepath"
	"reflect"
	"runtime"
	"strings"
	"sync"
	"time"

	"github.com/gotd/td/telegram/downloader"
	"github.com/gotd/td/tg"
	"github.com/gotd/td/tgerr"

	"verif/harness/mon"
)

type faultKind uint8

const (
	fFlood faultKind = iota
	fPremiumFlood
	fRPCTimeout
	fDeadline
	fNetTimeout
)

func (k faultKind) String() string {
	return [...]string{"FLOOD_WAIT_0", "FLOOD_PREMIUM_WAIT_0", "rpc-Timeout", "deadline-exceeded", "net-timeout"}[k]
}

type netTimeoutErr struct{}

func (netTimeoutErr) Error() string   { return "i/o timeout" }
func (netTimeoutErr) Timeout() bool   { return true }
func (netTimeoutErr) Temporary() bool { return true }

func (k faultKind) err() error {
	switch k {
	case fFlood:
		return tgerr.New(420, "FLOOD_WAIT_0")
	case fPremiumFlood:
		return tgerr.New(420, "FLOOD_PREMIUM_WAIT_0")
	case fRPCTimeout:
		return tgerr.New(-503, tg.ErrTimeout)
	case fDeadline:
		return fmt.Errorf("rpc invoke: %w", context.DeadlineExceeded)
	default:
		return fmt.Errorf("dial dc 2: %w", netTimeoutErr{})
	}
}

// plainServer is the harness-owned downloader.Client for C33: an honest master
// DC serving one simulated file, with scripted retryable faults.
type plainServer struct {
	f         *simFile
	part      int
	wantCDN   bool // cdn_supported expected in requests
	delaySeed uint64

	mu          sync.Mutex
	faults      map[int64][]faultKind // per request offset, consumed in order
	injected    int
	requests    int
	served      []int64 // offsets in completion order
	inflight    int
	maxInflight int
	oddShape    string
	reject      map[string]int // requests a real DC would answer with LIMIT_INVALID (served anyway)
	rejectFirst []string
	cdnCalls    int
	otherCalls  int
}

func (s *plainServer) UploadGetFile(ctx context.Context, req *tg.UploadGetFileRequest) (tg.UploadFileClass, error) {
	s.mu.Lock()
	s.requests++
	s.inflight++
	if s.inflight > s.maxInflight {
		s.maxInflight = s.inflight
	}
	if s.oddShape == "" && (req.Limit != s.part || req.Offset%int64(s.part) != 0 || !req.Precise || req.CDNSupported != s.wantCDN) {
		s.oddShape = fmt.Sprintf("offset=%d limit=%d precise=%v cdn_supported=%v (part %d)", req.Offset, req.Limit, req.Precise, req.CDNSupported, s.part)
	}
	if why := wouldReject(req.Offset, req.Limit); why != "" {
		if s.reject == nil {
			s.reject = map[string]int{}
		}
		if s.reject[why] == 0 {
			s.rejectFirst = append(s.rejectFirst, fmt.Sprintf("%s: offset=%d limit=%d", why, req.Offset, req.Limit))
		}
		s.reject[why]++
	}
	var fault *faultKind
	if q := s.faults[req.Offset]; len(q) > 0 {
		k := q[0]
		s.faults[req.Offset] = q[1:]
		s.injected++
		fault = &k
	}
	seq := s.requests
	s.mu.Unlock()

	// Scheduling noise only: shuffles the order in which worker threads complete.
	switch h := mix64(s.delaySeed ^ uint64(req.Offset)*0x9e37 ^ uint64(seq)<<40); h % 20 {
	case 0, 1, 2, 3:
		runtime.Gosched()
	case 4, 5, 6, 7, 8:
		time.Sleep(time.Duration(20+h>>8%480) * time.Microsecond)
	case 9:
		time.Sleep(time.Duration(1000+h>>8%2000) * time.Microsecond)
	}

	s.mu.Lock()
	s.inflight--
	if fault == nil {
		s.served = append(s.served, req.Offset)
	}
	s.mu.Unlock()
	if fault != nil {
		return nil, fault.err()
	}
	return &tg.UploadFile{Type: s.f.typ, Mtime: 1700000000, Bytes: s.f.part(req.Offset, req.Limit)}, nil
}

func (s *plainServer) other(name string) error {
	s.mu.Lock()
	s.otherCalls++
	s.mu.Unlock()
	return fmt.Errorf("downmon: unexpected call %s", name)
}

func (s *plainServer) UploadGetFileHashes(ctx context.Context, r *tg.UploadGetFileHashesRequest) ([]tg.FileHash, error) {
	return nil, s.other("upload.getFileHashes")
}
func (s *plainServer) UploadReuploadCDNFile(ctx context.Context, r *tg.UploadReuploadCDNFileRequest) ([]tg.FileHash, error) {
	return nil, s.other("upload.reuploadCdnFile")
}
func (s *plainServer) UploadGetCDNFileHashes(ctx context.Context, r *tg.UploadGetCDNFileHashesRequest) ([]tg.FileHash, error) {
	return nil, s.other("upload.getCdnFileHashes")
}
func (s *plainServer) UploadGetWebFile(ctx context.Context, r *tg.UploadGetWebFileRequest) (*tg.UploadWebFile, error) {
	return nil, s.other("upload.getWebFile")
}

// plainServerWithCDN additionally offers a CDN provider that must stay unused:
// the master never redirects.
type plainServerWithCDN struct{ *plainServer }

func (s plainServerWithCDN) CDN(ctx context.Context, dc int, max int64) (downloader.CDN, io.Closer, error) {
	s.mu.Lock()
	s.cdnCalls++
	s.mu.Unlock()
	return nil, nil, errors.New("downmon: no CDN in this arm")
}

type c33Case struct {
	Index     int      `json:"index"`
	Mode      string   `json:"mode"`
	Arm       string   `json:"arm"`
	Part      int      `json:"part_size"`
	PartClass string   `json:"part_class"`
	Threads   int      `json:"threads"`
	Size      int      `json:"file_size"`
	SizeClass string   `json:"size_class"`
	Type      string   `json:"server_type"`
	Faults    []string `json:"faults,omitempty"`
	faultPlan map[int64][]faultKind
	nFlood    int
	nTimeout  int
}

// part sizes: small ones dominate (the volume of bytes is what costs under the
// race detector, the number of parts is what exercises the scheduler).
//
// WithPartSize validates nothing ("must be divisible by 4KB" is only a comment),
// so every class of value the API accepts is exercised:
var (
	c33PartsDiv    = []int{4096, 4096, 4096, 8192, 8192, 16384, 16384, 32768, 65536, 131072, 262144, 524288} // divide 1 MiB
	c33PartsNonDiv = []int{12288, 20480, 36864, 102400, 163840, 393216, 786432, 1044480}                     // 4 KiB multiples that do not
	c33PartsOdd    = []int{1000, 5120, 7777, 333333}                                                         // not a 4 KiB multiple
	c33PartsOver   = []int{1572864, 2097152}                                                                 // above the 1 MiB maximum
)

func partClass(p int) string {
	switch {
	case p > 1<<20:
		return "over-1MiB"
	case p == 1<<20:
		return "max-1MiB"
	case p%4096 != 0:
		return "not-4K-multiple"
	case (1<<20)%p != 0:
		return "4K-multiple-not-dividing-1MiB"
	}
	return "divides-1MiB"
}

// wouldReject names the upload.getFile rule a request breaks (precise flag set:
// offset and limit divisible by 1 KiB, limit <= 1 MiB; the rule that a request
// must stay inside one 1 MiB chunk is listed for non-precise requests and is
// reported separately because it is not certain that precise lifts it).
func wouldReject(offset int64, limit int) string {
	switch {
	case limit > 1<<20:
		return "limit-above-1MiB"
	case limit%1024 != 0:
		return "limit-not-1KiB-multiple"
	case offset%1024 != 0:
		return "offset-not-1KiB-multiple"
	case limit > 0 && offset/(1<<20) != (offset+int64(limit)-1)/(1<<20):
		return "crosses-1MiB-chunk"
	}
	return ""
}

func genC33Case(c *mon.Ctx, i int) c33Case {
	r := c.RandN("c33", i)
	cs := c33Case{Index: i}
	switch pc := r.IntN(20); {
	case pc < 10:
		cs.Part = c33PartsDiv[r.IntN(len(c33PartsDiv))]
	case pc < 16:
		cs.Part = c33PartsNonDiv[r.IntN(len(c33PartsNonDiv))]
	case pc < 17:
		cs.Part = 1 << 20
	case pc < 19:
		cs.Part = c33PartsOdd[r.IntN(len(c33PartsOdd))]
	default:
		cs.Part = c33PartsOver[r.IntN(len(c33PartsOver))]
	}
	cs.PartClass = partClass(cs.Part)
	cs.Threads = 1 + r.IntN(8)
	if r.IntN(3) == 0 {
		cs.Mode = "stream"
	} else {
		cs.Mode = "parallel"
	}
	cs.Arm = []string{"default", "default", "allowcdn-false", "allowcdn-true-no-provider", "allowcdn-true-no-redirect"}[r.IntN(5)]
	maxSize := 1 << 20
	if cs.Part >= 262144 {
		maxSize = 3 * cs.Part
	}
	if !c.Quick() && r.IntN(4) == 0 {
		maxSize = 8 << 20
	}
	maxK := maxSize / cs.Part
	if maxK > 12 {
		maxK = 12
	}
	k := 2
	if maxK > 2 {
		k = 2 + r.IntN(maxK-1)
	}
	P := cs.Part
	cls := r.IntN(17)
	if cls < 14 && cs.PartClass != "divides-1MiB" && r.IntN(3) == 0 {
		cls = 14 // parts that do not divide 1 MiB straddle MiB boundaries: go there more often
	}
	switch cls {
	case 14, 15, 16:
		// beyond 1, 2, 3 MiB: some part straddles a multiple of 1 MiB with data behind it
		m := 1 + r.IntN(3)
		if P < 4096 {
			m = 1 // keep the number of requests moderate
		}
		switch r.IntN(4) {
		case 0:
			cs.Size = m<<20 + 1
		case 1:
			cs.Size = m<<20 + P + r.IntN(P)
		default:
			cs.Size = m<<20 + 1 + r.IntN(2*P)
		}
		cs.SizeClass = fmt.Sprintf(">%dMiB", m)
	case 0:
		cs.Size, cs.SizeClass = 0, "0"
	case 1:
		cs.Size, cs.SizeClass = 1, "1"
	case 2:
		cs.Size, cs.SizeClass = P-1, "P-1"
	case 3:
		cs.Size, cs.SizeClass = P, "P"
	case 4:
		cs.Size, cs.SizeClass = P+1, "P+1"
	case 5, 6:
		cs.Size, cs.SizeClass = k*P, "kP"
	case 7:
		cs.Size, cs.SizeClass = k*P-1, "kP-1"
	case 8:
		cs.Size, cs.SizeClass = k*P+1, "kP+1"
	case 9:
		t := cs.Threads
		if t*P > maxSize {
			t = maxSize / P
		}
		if t < 1 {
			t = 1
		}
		cs.Size, cs.SizeClass = t*P, "threads*P"
	case 10:
		cs.Size, cs.SizeClass = r.IntN(4*P+1), "rand<4P"
	case 11, 12:
		n := 32 * P
		if n > maxSize {
			n = maxSize
		}
		cs.Size, cs.SizeClass = r.IntN(n+1), "rand<32P"
	default:
		if r.IntN(4) == 0 {
			cs.Size, cs.SizeClass = r.IntN(maxSize+1), "rand<max"
		} else {
			cs.Size, cs.SizeClass = (1+r.IntN(24))*P+r.IntN(P), "rand-parts"
			if cs.Size > maxSize {
				cs.Size = maxSize - r.IntN(P)
			}
		}
	}
	// fault script: keyed by request offset (part index), consumed in order.
	cs.faultPlan = map[int64][]faultKind{}
	nParts := cs.Size/P + 2 // includes the requests at and past EOF
	add := func(k faultKind) {
		off := int64(r.IntN(nParts)) * int64(P)
		cs.faultPlan[off] = append(cs.faultPlan[off], k)
		cs.Faults = append(cs.Faults, fmt.Sprintf("%s@%d", k, off))
		if k == fFlood || k == fPremiumFlood {
			cs.nFlood++
		} else {
			cs.nTimeout++
		}
	}
	switch f := r.IntN(100); {
	case f < 35:
	case f < 80:
		for n := 1 + r.IntN(5); n > 0; n-- {
			add(faultKind(2 + r.IntN(3)))
		}
	case f < 88: // a burst on one offset
		off := int64(r.IntN(nParts)) * int64(P)
		for n := 2 + r.IntN(6); n > 0; n-- {
			k := faultKind(2 + r.IntN(3))
			cs.faultPlan[off] = append(cs.faultPlan[off], k)
			cs.Faults = append(cs.Faults, fmt.Sprintf("%s@%d", k, off))
			cs.nTimeout++
		}
	case f < 97: // one real flood wait (1 s of wall clock each: kept few)
		add(faultKind(r.IntN(2)))
		for n := r.IntN(3); n > 0; n-- {
			add(faultKind(2 + r.IntN(3)))
		}
	default:
		add(fFlood)
		add(faultKind(r.IntN(2)))
	}
	return cs
}

func (cs *c33Case) faultClass() string {
	switch {
	case cs.nFlood > 0 && cs.nTimeout > 0:
		return "flood+timeout"
	case cs.nFlood > 0:
		return "flood"
	case cs.nTimeout > 3:
		return "timeouts>3"
	case cs.nTimeout > 0:
		return "timeouts"
	}
	return "none"
}

func threadBucket(t int) string {
	switch {
	case t == 1:
		return "t1"
	case t <= 3:
		return "t2-3"
	}
	return "t4-8"
}

func runC33(c *mon.Ctx) {
	c.Rule("each case = one download of a simulated file (bytes are a function of seed and offset) through the public Builder API against a harness master DC; " +
		"part size from every class WithPartSize accepts (it validates nothing): divisors of 1 MiB 4K..512K, 4 KiB multiples not dividing 1 MiB (12K,20K,36K,100K,160K,384K,768K,1020K), the maximum 1 MiB, non-4K values (1000,5120,7777,333333), above the maximum (1.5M,2M); threads 1..8, Stream or Parallel, arms default / WithAllowCDN(false) / AllowCDN without provider / AllowCDN with provider but no redirect; " +
		"file size classes 0,1,P-1,P,P+1,kP,kP±1,threads*P,random, and just beyond 1/2/3 MiB so that parts straddle MiB multiples with data behind them (quick: up to 1 MiB resp. 3 parts for parts >= 256K; thorough: a quarter up to 8 MiB); scripted retryable faults per request offset (rpc Timeout, context.DeadlineExceeded, net timeout, bursts of up to 7, " +
		"FLOOD_WAIT_0 / FLOOD_PREMIUM_WAIT_0 in ~12% of cases) incl. on the requests at/after EOF; random per-request delays only shuffle thread completion order. " +
		"Oracle: download returns nil; WriterAt writes tile [0,size) exactly (no gap, no duplicate, nothing past EOF) with the file's bytes / Writer stream equals the file; returned type equals the served type; no write after return. " +
		"ToPath arm: Builder.ToPath onto real files under the output directory with the destination absent / empty / shorter / equal / longer (stale non-zero content) / uncreatable, plain, AllowCDN, inline-CDN, WithVerify+CDN and WithVerify+master builders, sizes 0 / below one part / multi-part, 1..8 threads: after a nil error the file must hold exactly the remote bytes (length included); an uncreatable destination must give an error. " +
		"Requests a real DC would answer with LIMIT_INVALID (limit > 1 MiB, not a 1 KiB multiple, crossing a 1 MiB chunk) are served anyway and counted as observation|... keys, never as a verdict. " +
		"distinct non-trivial = (mode, arm, part class, size class, thread bucket, fault class) of a completed download")
	c.Assume("the harness master DC honours offset/limit exactly and returns short/empty data at EOF (upload.getFile with precise flag); flood waits use the real clock (downloader gives tgerr.FloodWait no clock), so only FLOOD_WAIT_0 is injected")
	n := devN(c.N(600, 40000))
	workers := 12
	cases := make(chan int)
	var wg sync.WaitGroup
	var agg struct {
		sync.Mutex
		outOfOrder, maxInflight, requests, injected, floods int64
		byMode                                              map[string]int64
	}
	agg.byMode = map[string]int64{}
	// ToPath arm: real files under c.Out; a few small pool files for the CDN / verified builders
	nPath := devN(c.N(160, 6000))
	var pathPool []*cdnFile
	for i, sz := range []int{0, 5, 4096, 12288, 20000, 40000} {
		pathPool = append(pathPool, newCDNFile(c.Seed*104723+uint64(i)*31+7, sz))
	}
	for w := 0; w < workers; w++ {
		wg.Add(1)
		go func() {
			defer wg.Done()
			sc := &scratch{}
			for i := range cases {
				if i >= pathBase {
					pc := genPathCase(c, i-pathBase)
					runPathCase(c, &pc, sc, w, pathPool)
					continue
				}
				cs := genC33Case(c, i)
				srv := runC33Case(c, &cs, sc)
				if srv == nil {
					continue
				}
				srv.mu.Lock()
				inv := 0
				for j := 1; j < len(srv.served); j++ {
					if srv.served[j] < srv.served[j-1] {
						inv++
					}
				}
				agg.Lock()
				agg.outOfOrder += int64(inv)
				if int64(srv.maxInflight) > agg.maxInflight {
					agg.maxInflight = int64(srv.maxInflight)
				}
				agg.requests += int64(srv.requests)
				agg.injected += int64(srv.injected)
				agg.floods += int64(cs.nFlood)
				agg.byMode[cs.Mode+"/"+cs.Arm]++
				agg.Unlock()
				srv.mu.Unlock()
			}
		}()
	}
	for i := 0; i < n; i++ {
		cases <- i
		if i%4 == 0 && i/4 < nPath {
			cases <- pathBase + i/4 // interleaved with the writer arms
		}
	}
	for i := (n + 3) / 4; i < nPath; i++ {
		cases <- pathBase + i
	}
	close(cases)
	wg.Wait()
	_ = os.RemoveAll(filepath.Join(c.Out, "topath"))
	// settle: a write after return can only be missed by a short wait, never invented
	time.Sleep(50 * time.Millisecond)
	if lw := lateWrites.Load(); lw > 0 {
		c.Violate("write-after-return", map[string]any{"count": lw, "first": lateWriteFirst.Load()})
	}
	c.Set("getfile_requests", agg.requests)
	c.Set("faults_injected", agg.injected)
	c.Set("flood_waits_injected", agg.floods)
	c.Set("out_of_order_completions", agg.outOfOrder)
	c.Set("max_requests_in_flight", agg.maxInflight)
	c.Set("downloads_by_mode_arm", agg.byMode)
	if agg.outOfOrder == 0 {
		c.Inconclusive("no out-of-order request completion was observed: the schedule was never shuffled")
	}
	if agg.injected == 0 {
		c.Inconclusive("no fault was injected")
	}
}

const pathBase = 1 << 40

func runC33Case(c *mon.Ctx, cs *c33Case, sc *scratch) *plainServer {
	f := newSimFileIn(sc, c.Seed*1_000_003+uint64(cs.Index), cs.Size)
	f.typ = fileTypes[int(mix64(f.seed)%uint64(len(fileTypes)))]
	cs.Type = typeName(f.typ)
	srv := &plainServer{f: f, part: cs.Part, faults: cs.faultPlan, delaySeed: mix64(f.seed + 17)}
	d := downloader.NewDownloader().WithPartSize(cs.Part)
	var client downloader.Client = srv
	switch cs.Arm {
	case "allowcdn-false":
		d = d.WithAllowCDN(false)
	case "allowcdn-true-no-provider":
		d = d.WithAllowCDN(true)
	case "allowcdn-true-no-redirect":
		d = d.WithAllowCDN(true)
		srv.wantCDN = true
		client = plainServerWithCDN{srv}
	}
	loc := &tg.InputDocumentFileLocation{ID: int64(cs.Index) + 1, AccessHash: 42}
	b := d.Download(client, loc).WithThreads(cs.Threads)

	// generous watchdog: its firing is inconclusive, never a verdict
	ctx, cancel := context.WithTimeout(context.Background(), 5*time.Minute)
	defer cancel()

	var (
		typ      tg.StorageFileTypeClass
		err      error
		cls, det string
		nWrites  int
	)
	name := fmt.Sprintf("c33#%d", cs.Index)
	if cs.Mode == "stream" {
		sink := newSeqSink(name, f.data)
		typ, err = b.Stream(ctx, sink)
		sink.close()
		cls, det = sink.verdict(int64(cs.Size))
		nWrites = sink.n
	} else {
		sink := newAtSink(name, f.data)
		typ, err = b.Parallel(ctx, sink)
		sink.close()
		cls, det = sink.tiling(int64(cs.Size))
		nWrites = sink.writeCount()
	}
	c.Eval(1)
	if ctx.Err() != nil {
		c.Inconclusive(fmt.Sprintf("watchdog: download %d did not finish in 5 min", cs.Index))
		return nil
	}
	if !f.intact() {
		// answers are views of the simulated file: the downloader must not write into them
		c.Violate("served-bytes-modified|"+cs.Mode, map[string]any{"case": cs})
		return nil
	}
	wit := func(extra map[string]any) map[string]any {
		srv.mu.Lock()
		defer srv.mu.Unlock()
		m := map[string]any{"case": cs, "requests": srv.requests, "faults_injected": srv.injected, "writes": nWrites}
		for k, v := range extra {
			m[k] = v
		}
		return m
	}
	if err != nil {
		c.Violate("failed|"+cs.Mode+"|only-retryable-faults", wit(map[string]any{"error": err.Error()}))
		return srv
	}
	if cls != "" {
		c.Violate(cls+"|"+cs.Mode, wit(map[string]any{"detail": det}))
		return srv
	}
	if !reflect.DeepEqual(typ, f.typ) {
		c.Violate("type|"+cs.Mode, wit(map[string]any{"returned": typeName(typ), "served": typeName(f.typ)}))
		return srv
	}
	srv.mu.Lock()
	for why, n := range srv.reject {
		// observation, not a verdict: the API accepted this part size, the harness
		// DC served the request, the content was right; a real DC would refuse it
		c.Add("observation|server-would-answer-LIMIT_INVALID|"+why+"|requests", int64(n))
		c.Add("observation|server-would-answer-LIMIT_INVALID|"+why+"|downloads", 1)
		c.Add("observation|server-would-answer-LIMIT_INVALID|part-class:"+cs.PartClass+"|downloads", 1)
	}
	if len(srv.rejectFirst) > 0 {
		c.Sample("observation-LIMIT_INVALID/"+cs.PartClass, map[string]any{"case": cs, "first_offending_requests": srv.rejectFirst})
	}
	if srv.oddShape != "" {
		c.Add("unexpected_request_shape", 1)
		c.Sample("odd-request", map[string]any{"case": cs, "request": srv.oddShape})
	}
	if srv.cdnCalls+srv.otherCalls > 0 {
		c.Add("unexpected_rpc_calls", int64(srv.cdnCalls+srv.otherCalls))
	}
	left := 0
	for _, q := range srv.faults {
		left += len(q)
	}
	srv.mu.Unlock()
	if left > 0 {
		// faults scripted on offsets that were never requested (threads stopped earlier)
		c.Add("faults_not_reached", int64(left))
	}
	c.Distinct(strings.Join([]string{cs.Mode, cs.Arm, cs.PartClass, cs.SizeClass, threadBucket(cs.Threads), cs.faultClass()}, "/"))
	c.Sample(cs.Mode+"/"+cs.faultClass(), cs)
	return srv
}
