package main

import (
	"bytes"
	"context"
	"fmt"
	"os"
	"path/filepath"
	"reflect"
	"strings"
	"time"

	"github.com/gotd/td/telegram/downloader"
	"github.com/gotd/td/tg"

	"verif/harness/mon"
)

// ToPath arm of C33: Builder.ToPath onto real files under c.Out, with the
// destination in every state a caller can meet.

type pathCase struct {
	Index   int      `json:"index"`
	Builder string   `json:"builder"` // plain | plain-allowcdn | inline-cdn | verify-cdn | verify-master
	Dest    string   `json:"destination_state"`
	Part    int      `json:"part_size"`
	Threads int      `json:"threads"`
	Size    int      `json:"file_size"`
	Old     int      `json:"existing_file_size"`
	Faults  []string `json:"faults,omitempty"`
	plan    map[int64][]faultKind
}

var (
	pathDestStates = []string{"absent", "empty", "shorter", "equal", "longer", "longer", "longer-by-one", "unwritable"}
	pathBuilders   = []string{"plain", "plain", "plain", "plain-allowcdn", "inline-cdn", "verify-cdn", "verify-master"}
	pathParts      = []int{4096, 4096, 8192, 12288, 16384, 65536, 1000}
)

func genPathCase(c *mon.Ctx, i int) pathCase {
	r := c.RandN("c33path", i)
	cs := pathCase{Index: i, plan: map[int64][]faultKind{}}
	cs.Dest = pathDestStates[i%len(pathDestStates)] // every state, evenly
	cs.Builder = pathBuilders[r.IntN(len(pathBuilders))]
	cs.Part = pathParts[r.IntN(len(pathParts))]
	if cs.Builder != "plain" && cs.Builder != "plain-allowcdn" && cs.Part%4096 != 0 {
		cs.Part = 4096 // CDN requests need 4 KiB multiples
	}
	cs.Threads = 1 + r.IntN(8)
	P := cs.Part
	switch r.IntN(8) {
	case 0:
		cs.Size = 0
	case 1:
		cs.Size = 1 + r.IntN(64)
	case 2:
		cs.Size = P - 1
	case 3:
		cs.Size = P
	case 4:
		cs.Size = 3*P + 7
	case 5:
		cs.Size = (2 + r.IntN(6)) * P
	default:
		cs.Size = r.IntN(8*P + 1)
	}
	switch cs.Dest {
	case "empty":
		cs.Old = 0
	case "shorter":
		if cs.Size == 0 {
			cs.Dest = "empty"
		} else {
			cs.Old = r.IntN(cs.Size)
			if cs.Old == 0 {
				cs.Old = (cs.Size + 1) / 2
			}
		}
	case "equal":
		cs.Old = cs.Size
	case "longer":
		cs.Old = cs.Size + 1 + r.IntN(2*P+1)
	case "longer-by-one":
		cs.Old = cs.Size + 1
	}
	if strings.HasPrefix(cs.Builder, "plain") && r.IntN(3) == 0 {
		for n := 1 + r.IntN(3); n > 0; n-- {
			k := faultKind(2 + r.IntN(3))
			off := int64(r.IntN(cs.Size/P+2)) * int64(P)
			cs.plan[off] = append(cs.plan[off], k)
			cs.Faults = append(cs.Faults, fmt.Sprintf("%s@%d", k, off))
		}
	}
	return cs
}

// runPathCase returns false when nothing was observed.
func runPathCase(c *mon.Ctx, cs *pathCase, sc *scratch, worker int, pool []*cdnFile) {
	dir := filepath.Join(c.Out, "topath", fmt.Sprintf("w%d", worker))
	if err := os.MkdirAll(dir, 0o755); err != nil {
		c.Inconclusive("cannot create scratch directory under the output directory: " + err.Error())
		return
	}
	path := filepath.Join(dir, fmt.Sprintf("f%d.bin", cs.Index))
	blocker := ""
	defer func() {
		_ = os.Remove(path)
		if blocker != "" {
			_ = os.Remove(blocker)
		}
	}()
	_ = os.Remove(path)
	switch cs.Dest {
	case "absent":
	case "unwritable":
		// the parent of the destination is a regular file: no process, not even
		// root (which ignores directory permissions), can create the file
		blocker = filepath.Join(dir, fmt.Sprintf("notadir%d", cs.Index))
		if err := os.WriteFile(blocker, []byte("x"), 0o644); err != nil {
			c.Inconclusive("cannot prepare destination: " + err.Error())
			return
		}
		path = filepath.Join(blocker, "f.bin")
	default:
		old := bytes.Repeat([]byte{0xA5, 0x5A, 0xC3, 0x3C, 0x7E}, cs.Old/5+1)[:cs.Old] // non-zero stale content
		if err := os.WriteFile(path, old, 0o644); err != nil {
			c.Inconclusive("cannot prepare destination: " + err.Error())
			return
		}
	}

	var (
		want     []byte
		wantType tg.StorageFileTypeClass
		b        *downloader.Builder
		intact   func() bool
	)
	d := downloader.NewDownloader().WithPartSize(cs.Part)
	loc := &tg.InputDocumentFileLocation{ID: int64(cs.Index) + 1}
	switch cs.Builder {
	case "plain", "plain-allowcdn":
		f := newSimFileIn(sc, c.Seed*7_000_003+uint64(cs.Index), cs.Size)
		f.typ = fileTypes[int(mix64(f.seed)%uint64(len(fileTypes)))]
		srv := &plainServer{f: f, part: cs.Part, faults: cs.plan, delaySeed: mix64(f.seed + 5)}
		var client downloader.Client = srv
		if cs.Builder == "plain-allowcdn" {
			d = d.WithAllowCDN(true)
			srv.wantCDN = true
			client = plainServerWithCDN{srv}
		}
		b = d.Download(client, loc)
		want, wantType, intact = f.data, f.typ, f.intact
	default:
		// honest CDN / verified builders on a pool file cut to the wanted size class
		cf := pool[cs.Index%len(pool)]
		cs.Size = len(cf.f.data)
		mode := map[string]string{"inline-cdn": "inline", "verify-cdn": "verify-cdn", "verify-master": "verify-master"}[cs.Builder]
		wc := &c34Case{Index: cs.Index, Mode: mode, Way: "topath", Threads: cs.Threads, Part: cs.Part, WinStyle: "uniform-small",
			Batch: 8, RedirectHashes: 2, Strategy: "honest", Size: cs.Size}
		w := newWorld(cf, wc, c.RandN("c33pathw", cs.Index))
		var client downloader.Client = w
		if mode == "verify-master" {
			client = masterOnly{w}
		} else {
			d = d.WithAllowCDN(true)
		}
		b = d.Download(client, loc)
		if mode != "inline" {
			b = b.WithVerify(true)
		}
		want, intact = cf.f.data, cf.f.intact
		// re-derive the existing length for the real size
		switch cs.Dest {
		case "shorter":
			cs.Old = cs.Size / 2
		case "equal":
			cs.Old = cs.Size
		case "longer":
			cs.Old = cs.Size + 1 + cs.Part/2
		case "longer-by-one":
			cs.Old = cs.Size + 1
		}
		if cs.Dest != "absent" && cs.Dest != "unwritable" {
			old := bytes.Repeat([]byte{0xA5, 0x5A, 0xC3, 0x3C, 0x7E}, cs.Old/5+1)[:cs.Old]
			if err := os.WriteFile(path, old, 0o644); err != nil {
				c.Inconclusive("cannot prepare destination: " + err.Error())
				return
			}
		}
	}
	ctx, cancel := context.WithTimeout(context.Background(), 5*time.Minute)
	defer cancel()
	typ, err := b.WithThreads(cs.Threads).ToPath(ctx, path)
	c.Eval(1)
	if ctx.Err() != nil {
		c.Inconclusive(fmt.Sprintf("watchdog: ToPath download %d did not finish in 5 min", cs.Index))
		return
	}
	if !intact() {
		c.Violate("served-bytes-modified|topath", map[string]any{"case": cs})
		return
	}
	wit := func(extra map[string]any) map[string]any {
		m := map[string]any{"case": cs}
		for k, v := range extra {
			m[k] = v
		}
		return m
	}
	if cs.Dest == "unwritable" {
		if err == nil {
			// nil error promises the file's bytes at path: there is no file
			c.Violate("topath|nil-error|"+cs.Dest, wit(nil))
			return
		}
		c.Distinct(strings.Join([]string{"topath", cs.Builder, cs.Dest, "error-reported"}, "/"))
		c.Add("topath_unwritable_errors_reported", 1)
		return
	}
	if err != nil {
		c.Violate("topath|failed|"+cs.Builder, wit(map[string]any{"error": err.Error()}))
		return
	}
	got, rerr := os.ReadFile(path)
	if rerr != nil {
		c.Violate("topath|nil-error-but-unreadable|"+cs.Dest, wit(map[string]any{"read_error": rerr.Error()}))
		return
	}
	switch {
	case len(got) != len(want):
		stale := len(got) > len(want) && bytes.Equal(got[:len(want)], want)
		c.Violate("topath|length|"+cs.Dest, wit(map[string]any{"file_len": len(got), "remote_len": len(want), "prefix_is_the_remote_file": stale}))
		return
	case !bytes.Equal(got, want):
		c.Violate("topath|content|"+cs.Dest, wit(map[string]any{"file_sha": sha8(got), "remote_sha": sha8(want)}))
		return
	}
	if wantType != nil && !reflect.DeepEqual(typ, wantType) {
		c.Violate("type|topath", wit(map[string]any{"returned": typeName(typ), "served": typeName(wantType)}))
		return
	}
	sizeCls := "multi-part"
	switch {
	case cs.Size == 0:
		sizeCls = "0"
	case cs.Size <= cs.Part:
		sizeCls = "<=1part"
	}
	c.Add("topath_downloads_ok", 1)
	c.Distinct(strings.Join([]string{"topath", cs.Builder, cs.Dest, sizeCls, threadBucket(cs.Threads)}, "/"))
	c.Sample("topath/"+cs.Dest, cs)
}
