package main

import (
	"bytes"
	"context"
	"crypto/sha256"
	"crypto/subtle"
	"errors"
	"fmt"
	"io"
	"math/rand/v2"
	"runtime"
	"sync"

	"github.com/gotd/td/exchange"
	"github.com/gotd/td/telegram/downloader"
	"github.com/gotd/td/tg"
	"github.com/gotd/td/tgerr"

	"verif/harness/refmodel"
)

// cdnFile is a genuine file of the pool together with its CDN ciphertexts
// (reference-model AES-CTR, one per key generation).
type cdnFile struct {
	f    *simFile
	alt  *simFile // a different, self-consistent file of the same size
	seed uint64

	mu  sync.Mutex
	gen map[int]*cdnKey
}

type cdnKey struct {
	key, iv []byte
	ct      []byte // ciphertext of the genuine file
	sum     [32]byte
}

// intact reports whether the shared pool data (served as views) is unmodified.
func (cf *cdnFile) intact() bool {
	cf.mu.Lock()
	defer cf.mu.Unlock()
	for _, k := range cf.gen {
		if sha256.Sum256(k.ct) != k.sum {
			return false
		}
	}
	return cf.f.intact() && cf.alt.intact()
}

func newCDNFile(seed uint64, size int) *cdnFile {
	cf := &cdnFile{f: newSimFile(seed, size), alt: newSimFile(seed^0xa17, size), seed: seed, gen: map[int]*cdnKey{}}
	cf.f.typ = fileTypes[int(mix64(seed)%uint64(len(fileTypes)))]
	cf.key(0)
	return cf
}

func (cf *cdnFile) key(gen int) *cdnKey {
	cf.mu.Lock()
	defer cf.mu.Unlock()
	if k, ok := cf.gen[gen]; ok {
		return k
	}
	k := &cdnKey{key: make([]byte, 32), iv: make([]byte, 16)}
	r := rand.New(rand.NewPCG(cf.seed, uint64(gen)+99))
	for i := range k.key {
		k.key[i] = byte(r.Uint32())
	}
	for i := range k.iv {
		k.iv[i] = byte(r.Uint32())
	}
	if gen%2 == 1 {
		// the last four IV bytes are replaced by the offset counter: make sure
		// garbage there does not matter
		copy(k.iv[12:], []byte{0xff, 0xff, 0xff, 0xff})
	}
	k.ct = offHeap(len(cf.f.data))
	copy(k.ct, refmodel.CDNKeystreamXOR(k.key, k.iv, 0, cf.f.data))
	k.sum = sha256.Sum256(k.ct)
	cf.gen[gen] = k
	return k
}

type window struct {
	Off     int64
	Limit   int // as announced by the server (nominal for the tail unless tailActual)
	DataLen int
	Hash    []byte
}

// makeWindows partitions the file into hash windows.
func makeWindows(r *rand.Rand, data []byte, style string, part int, tailActual bool) []window {
	var ws []window
	size := len(data)
	uni := 0
	switch style {
	case "uniform128k":
		uni = 128 << 10
	case "uniform-small":
		uni = 4096 << r.IntN(5)
	case "uniform-4k8k":
		uni = 4096 << r.IntN(2)
	}
	off := 0
	for off < size {
		var l int
		switch style {
		case "uniform128k", "uniform-small", "uniform-4k8k":
			l = uni
		case "chunk-aligned":
			// windows never cross a part boundary
			left := part - off%part
			l = 4096 * (1 + r.IntN(32))
			if l > left {
				l = left
			}
		default: // random
			l = 4096 * (1 + r.IntN(32))
		}
		n := l
		if off+n > size {
			n = size - off
		}
		h := sha256.Sum256(data[off : off+n])
		w := window{Off: int64(off), Limit: l, DataLen: n, Hash: h[:]}
		if n < l && tailActual {
			w.Limit = n
		}
		ws = append(ws, w)
		off += n
	}
	return ws
}

type cdnReq struct {
	Ord     int    `json:"ord"`
	Off     int64  `json:"offset"`
	Limit   int    `json:"limit"`
	RespLen int    `json:"resp_len"`
	Note    string `json:"note,omitempty"`
}

// cdnWorld is the harness-owned server side of one C34 download: master DC,
// CDN provider and CDN DC, sharing one mutex and one logical event counter.
type cdnWorld struct {
	cf      *cdnFile
	cs      *c34Case
	windows []window
	rnd     *rand.Rand // guarded by mu

	mu          sync.Mutex
	gen         int
	tokens      map[string]int // token -> key generation; removed when invalidated
	redirecting bool
	curToken    []byte
	tokenSeq    int

	cdnOrd       int
	dataReqs     []cdnReq // successful data responses, in order
	allReqs      int
	planViol     []string
	servedHashes map[int64]bool
	corrupt      int   // corrupted responses delivered
	firstCut     int64 // absolute end of the first shortened response, -1
	shape        string
	fired        bool
	applicable   bool
	eventsFired  map[string]int
	eventDone    map[int]bool
	providerN    int
	closes       int
	masterFile   int // upload.getFile served with data
	redirects    int
	hashCalls    int
	reuploads    int
	pendingReup  map[string]bool
	oddities     []string
	hashTokenErr bool
}

func newWorld(cf *cdnFile, cs *c34Case, r *rand.Rand) *cdnWorld {
	w := &cdnWorld{
		cf: cf, cs: cs, rnd: r, tokens: map[string]int{}, redirecting: cs.Mode != "verify-master",
		servedHashes: map[int64]bool{}, firstCut: -1, eventsFired: map[string]int{}, eventDone: map[int]bool{},
		pendingReup: map[string]bool{},
	}
	if cs.Mode != "verify-master" {
		// invariant of the server model, whatever the generator drew: hash windows
		// of CDN files keep their nominal (4 KiB-multiple) limit, the client uses
		// window limits as CDN request limits
		cs.TailActual = false
	}
	w.windows = makeWindows(r, cf.f.data, cs.WinStyle, cs.Part, cs.TailActual)
	return w
}

func (w *cdnWorld) issueToken() []byte {
	w.tokenSeq++
	t := []byte(fmt.Sprintf("tok-%d-%d-%d", w.cs.Index, w.gen, w.tokenSeq))
	w.tokens[string(t)] = w.gen
	w.curToken = t
	return t
}

func cpHashes(ws []window) []tg.FileHash {
	out := make([]tg.FileHash, len(ws))
	for i, x := range ws {
		out[i] = tg.FileHash{Offset: x.Off, Limit: x.Limit, Hash: append([]byte(nil), x.Hash...)}
	}
	return out
}

// hashesFrom implements upload.getFileHashes / upload.getCdnFileHashes: the
// windows starting with the one that contains offset, at most Batch of them.
func (w *cdnWorld) hashesFrom(offset int64, n int) []tg.FileHash {
	ws := w.windows
	first := -1
	for i, x := range ws {
		if x.Off+int64(x.Limit) > offset && x.Off+int64(x.DataLen) > offset {
			first = i
			break
		}
	}
	if first < 0 {
		if w.cs.EOFRepeat && len(ws) > 0 {
			from := len(ws) - n
			if from < 0 {
				from = 0
			}
			return cpHashes(ws[from:])
		}
		return []tg.FileHash{}
	}
	end := first + n
	if end > len(ws) {
		end = len(ws)
	}
	for _, x := range ws[first:end] {
		w.servedHashes[x.Off] = true
	}
	return cpHashes(ws[first:end])
}

func (w *cdnWorld) event(kind string) bool {
	// fires the scripted event `kind` whose ordinal matches the current CDN request ordinal
	for i, e := range w.cs.Events {
		if e.Kind == kind && !w.eventDone[i] && w.cdnOrd >= e.At {
			w.eventDone[i] = true
			w.eventsFired[kind]++
			return true
		}
	}
	return false
}

func (w *cdnWorld) hasEvent(kind string) bool {
	for _, e := range w.cs.Events {
		if e.Kind == kind {
			return true
		}
	}
	return false
}

// ---- master DC ----

func (w *cdnWorld) UploadGetFile(ctx context.Context, req *tg.UploadGetFileRequest) (tg.UploadFileClass, error) {
	w.mu.Lock()
	defer w.mu.Unlock()
	if w.cs.Mode != "verify-master" && req.CDNSupported && w.redirecting && req.Offset >= w.cs.RedirectAt {
		if w.curToken == nil || w.tokens[string(w.curToken)] != w.gen || !w.tokenValid(w.curToken) {
			w.issueToken()
		}
		k := w.cf.key(w.gen)
		w.redirects++
		red := &tg.UploadFileCDNRedirect{
			DCID: 203, FileToken: append([]byte(nil), w.curToken...),
			EncryptionKey: append([]byte(nil), k.key...), EncryptionIv: append([]byte(nil), k.iv...),
		}
		if w.cs.RedirectHashes > 0 {
			red.FileHashes = w.hashesFrom(req.Offset, w.cs.RedirectHashes)
		}
		return red, nil
	}
	if w.cs.Mode != "verify-master" && !req.CDNSupported && w.redirecting {
		w.oddities = append(w.oddities, "upload.getFile without cdn_supported for a CDN file")
	}
	w.masterFile++
	plain := w.cf.f.part(req.Offset, req.Limit)
	if w.cs.Mode == "verify-master" {
		ord := w.cdnOrd
		w.cdnOrd++
		w.allReqs++
		resp, note := w.adversary(ord, req.Offset, req.Limit, plain, nil)
		w.dataReqs = append(w.dataReqs, cdnReq{Ord: ord, Off: req.Offset, Limit: req.Limit, RespLen: len(resp), Note: note})
		return &tg.UploadFile{Type: w.cf.f.typ, Bytes: resp}, nil
	}
	return &tg.UploadFile{Type: w.cf.f.typ, Bytes: plain}, nil
}

func (w *cdnWorld) tokenValid(t []byte) bool { _, ok := w.tokens[string(t)]; return ok }

func (w *cdnWorld) UploadGetFileHashes(ctx context.Context, req *tg.UploadGetFileHashesRequest) ([]tg.FileHash, error) {
	w.mu.Lock()
	defer w.mu.Unlock()
	w.hashCalls++
	return w.hashesFrom(req.Offset, w.cs.Batch), nil
}

func (w *cdnWorld) UploadGetCDNFileHashes(ctx context.Context, req *tg.UploadGetCDNFileHashesRequest) ([]tg.FileHash, error) {
	w.mu.Lock()
	defer w.mu.Unlock()
	w.hashCalls++
	if !w.tokenValid(req.FileToken) {
		return nil, tgerr.New(400, "FILE_TOKEN_INVALID")
	}
	if w.event("hash-token-invalid") {
		delete(w.tokens, string(req.FileToken))
		w.bumpGen()
		return nil, tgerr.New(400, "FILE_TOKEN_INVALID")
	}
	if w.event("hash-timeout") {
		return nil, tgerr.New(-503, tg.ErrTimeout)
	}
	return w.hashesFrom(req.Offset, w.cs.Batch), nil
}

func (w *cdnWorld) UploadReuploadCDNFile(ctx context.Context, req *tg.UploadReuploadCDNFileRequest) ([]tg.FileHash, error) {
	w.mu.Lock()
	defer w.mu.Unlock()
	w.reuploads++
	if !w.tokenValid(req.FileToken) {
		return nil, tgerr.New(400, "FILE_TOKEN_INVALID")
	}
	if !w.pendingReup[string(req.RequestToken)] {
		w.oddities = append(w.oddities, "upload.reuploadCdnFile with an unknown request_token")
		return nil, tgerr.New(400, "REQUEST_TOKEN_INVALID")
	}
	delete(w.pendingReup, string(req.RequestToken))
	if w.cs.ReuploadHashes {
		return w.hashesFrom(0, w.cs.Batch), nil
	}
	return nil, nil
}

func (w *cdnWorld) UploadGetWebFile(ctx context.Context, r *tg.UploadGetWebFileRequest) (*tg.UploadWebFile, error) {
	return nil, errors.New("downmon: unexpected upload.getWebFile")
}

// bumpGen decides what the master does after a token was invalidated.
func (w *cdnWorld) bumpGen() {
	switch w.cs.Refresh {
	case "new-key":
		w.gen++
	case "fallback-master":
		w.redirecting = false
	}
	w.curToken = nil
}

// ---- CDN provider / CDN DC ----

type worldCloser struct{ w *cdnWorld }

func (c worldCloser) Close() error {
	c.w.mu.Lock()
	c.w.closes++
	c.w.mu.Unlock()
	return nil
}

type worldCDN struct{ w *cdnWorld }

func (w *cdnWorld) CDN(ctx context.Context, dc int, max int64) (downloader.CDN, io.Closer, error) {
	w.mu.Lock()
	defer w.mu.Unlock()
	w.providerN++
	if dc != 203 {
		w.oddities = append(w.oddities, fmt.Sprintf("CDN provider asked for dc %d", dc))
	}
	if w.event("fingerprint-provider") {
		return nil, nil, fmt.Errorf("cdn pool: %w", exchange.ErrKeyFingerprintNotFound)
	}
	return worldCDN{w}, worldCloser{w}, nil
}

func (c worldCDN) UploadGetCDNFile(ctx context.Context, req *tg.UploadGetCDNFileRequest) (tg.UploadCDNFileClass, error) {
	w := c.w
	// scheduling noise only
	if req.Offset/4096%3 == 0 {
		runtime.Gosched()
	}
	w.mu.Lock()
	defer w.mu.Unlock()
	ord := w.cdnOrd
	w.cdnOrd++
	w.allReqs++
	if ok, why := refmodel.CDNPlanRangeValid(req.Offset, req.Limit); !ok {
		w.planViol = append(w.planViol, fmt.Sprintf("%s: offset=%d limit=%d", why, req.Offset, req.Limit))
	}
	gen, ok := w.tokens[string(req.FileToken)]
	if !ok {
		return nil, tgerr.New(400, "FILE_TOKEN_INVALID")
	}
	switch {
	case w.event("token-invalid"):
		delete(w.tokens, string(req.FileToken))
		w.bumpGen()
		return nil, tgerr.New(400, "FILE_TOKEN_INVALID")
	case w.event("request-token-invalid"):
		delete(w.tokens, string(req.FileToken))
		w.bumpGen()
		return nil, tgerr.New(400, "REQUEST_TOKEN_INVALID")
	case w.event("reupload"):
		rt := []byte(fmt.Sprintf("rt-%d", ord))
		w.pendingReup[string(rt)] = true
		return &tg.UploadCDNFileReuploadNeeded{RequestToken: rt}, nil
	case w.event("fingerprint-cdn"):
		return nil, fmt.Errorf("cdn invoke: %w", exchange.ErrKeyFingerprintNotFound)
	case w.event("cdn-timeout"):
		return nil, tgerr.New(-503, tg.ErrTimeout)
	}
	k := w.cf.key(gen)
	plain := w.cf.f.part(req.Offset, req.Limit)
	resp, note := w.adversary(ord, req.Offset, req.Limit, plain, k)
	w.dataReqs = append(w.dataReqs, cdnReq{Ord: ord, Off: req.Offset, Limit: req.Limit, RespLen: len(resp), Note: note})
	return &tg.UploadCDNFile{Bytes: resp}, nil
}

// enc encrypts plaintext that is served for file offset off (nil key: master
// DC, no encryption). Inside the file the reference keystream is recovered from
// the precomputed reference ciphertext (ks = ct XOR genuine), beyond it the
// reference model is run directly.
func (w *cdnWorld) enc(k *cdnKey, off int64, plain []byte) []byte {
	if k == nil {
		return plain
	}
	gen := w.cf.f.data
	out := make([]byte, len(plain))
	in := 0
	if off < int64(len(gen)) {
		in = len(plain)
		if int64(in) > int64(len(gen))-off {
			in = int(int64(len(gen)) - off)
		}
		subtle.XORBytes(out[:in], k.ct[off:off+int64(in)], gen[off:off+int64(in)])
		subtle.XORBytes(out[:in], out[:in], plain[:in])
	}
	if in < len(plain) {
		copy(out[in:], refmodel.CDNKeystreamXOR(k.key, k.iv, off+int64(in), plain[in:]))
	}
	return out
}

// adversary returns the bytes actually served for (off, limit). plain is the
// honest plaintext. The honest answer is enc(plain).
func (w *cdnWorld) adversary(ord int, off int64, limit int, plain []byte, k *cdnKey) ([]byte, string) {
	cs := w.cs
	var honest []byte
	if k != nil && off < int64(len(k.ct)) {
		honest = k.ct[off : off+int64(len(plain)) : off+int64(len(plain))] // view of the reference ciphertext
	} else {
		honest = w.enc(k, off, plain)
	}
	if cs.Strategy == "honest" {
		return honest, ""
	}
	n := int64(len(plain))
	X := cs.X
	size := int64(len(w.cf.f.data))
	var out []byte
	switch cs.Strategy {
	case "other-file":
		out = w.enc(k, off, w.cf.alt.part(off, limit))
	case "eof-lie":
		// the CDN consistently pretends that the file ends at X
		switch {
		case off >= X:
			out = []byte{}
		case off+n > X:
			out = honest[: X-off : X-off]
		default:
			out = honest
		}
	case "flip-persistent":
		out = honest
		if X >= off && X < off+n {
			out = append([]byte(nil), honest...)
			out[X-off] ^= 0x40
		}
	default:
		// one-shot strategies: fire on the first data request whose range holds X
		if w.fired || !(X >= off && X < off+int64(limit)) {
			return honest, ""
		}
		w.fired = true
		out = w.oneShot(off, limit, plain, honest, k, X, size)
	}
	if bytes.Equal(out, honest) {
		return honest, ""
	}
	w.applicable = true
	w.corrupt++
	if w.shape == "" {
		// how the first corrupted answer differs from the honest one: this, not the
		// (schedule-dependent) shape of the output, classifies an acceptance
		switch {
		case len(out) < len(honest):
			w.shape = "shortened-answer"
		case len(out) > len(honest):
			w.shape = "lengthened-answer"
		default:
			w.shape = "same-length-" + strategyFamily(cs.Strategy)
		}
	}
	if len(out) < len(honest) && w.firstCut < 0 {
		w.firstCut = off + int64(len(out))
	}
	return out, cs.Strategy
}

func (w *cdnWorld) boundariesInside(lo, hi int64) []int64 {
	var b []int64
	for _, x := range w.windows {
		if x.Off > lo && x.Off < hi {
			b = append(b, x.Off)
		}
	}
	return b
}

func (w *cdnWorld) oneShot(off int64, limit int, plain, honest []byte, k *cdnKey, X, size int64) []byte {
	n := len(plain)
	r := w.rnd
	cp := func() []byte { return append([]byte(nil), honest...) }
	switch w.cs.Strategy {
	case "flip":
		if n == 0 {
			return honest
		}
		out := cp()
		p := int(X - off)
		if p >= n {
			p = r.IntN(n)
		}
		out[p] ^= 1 << r.IntN(8)
		return out
	case "flip-last-byte":
		if n == 0 {
			return honest
		}
		out := cp()
		out[n-1] ^= 0x01
		return out
	case "swap-windows":
		// swap two equal 4 KiB-aligned segments of the response
		seg := 4096 << r.IntN(3)
		if n < 2*seg {
			seg = 4096
		}
		if n < 2*seg {
			return honest
		}
		a := r.IntN(n/seg - 1)
		b := a + 1 + r.IntN(n/seg-a-1)
		out := cp()
		copy(out[a*seg:(a+1)*seg], honest[b*seg:(b+1)*seg])
		copy(out[b*seg:(b+1)*seg], honest[a*seg:(a+1)*seg])
		return out
	case "swap-windows-plain":
		seg := 4096 << r.IntN(3)
		if n < 2*seg {
			seg = 4096
		}
		if n < 2*seg {
			return honest
		}
		a := r.IntN(n/seg - 1)
		b := a + 1 + r.IntN(n/seg-a-1)
		p := append([]byte(nil), plain...)
		copy(p[a*seg:(a+1)*seg], plain[b*seg:(b+1)*seg])
		copy(p[b*seg:(b+1)*seg], plain[a*seg:(a+1)*seg])
		return w.enc(k, off, p)
	case "other-offset-cipher", "other-offset-plain":
		// the answer to another (aligned) offset of the same file
		if size < 8192 {
			return honest
		}
		other := int64(r.IntN(int(size/4096))) * 4096
		if other == off {
			other = (off + 4096) % (size / 4096 * 4096)
		}
		op := w.cf.f.part(other, limit)
		if w.cs.Strategy == "other-offset-cipher" {
			return w.enc(k, other, op) // ciphertext as stored for the other offset
		}
		return w.enc(k, off, op)
	case "truncate-mid":
		if n < 2 {
			return honest
		}
		cut := int(X - off)
		if cut <= 0 || cut >= n {
			cut = 1 + r.IntN(n-1)
		}
		for _, b := range w.boundariesInside(off, off+int64(n)) {
			if int64(cut)+off == b {
				cut++
			}
		}
		if cut >= n {
			return honest
		}
		return honest[:cut:cut]
	case "truncate-4k":
		if n <= 4096 {
			return honest
		}
		cut := 4096 * (1 + r.IntN((n-1)/4096))
		return honest[:cut:cut]
	case "truncate-boundary":
		b := w.boundariesInside(off, off+int64(n))
		if len(b) == 0 {
			return honest
		}
		// the boundary nearest above X, else the last one
		cut := b[len(b)-1]
		for _, x := range b {
			if x > X {
				cut = x
				break
			}
		}
		return honest[: cut-off : cut-off]
	case "empty":
		return []byte{}
	case "extend-genuine":
		more := w.cf.f.part(off+int64(n), 4096*(1+r.IntN(16)))
		if len(more) == 0 || n < limit {
			return honest
		}
		return w.enc(k, off, append(append([]byte(nil), plain...), more...))
	case "extend-garbage":
		if n < limit && n%16 != 0 {
			return honest
		}
		g := make([]byte, 16*(1+r.IntN(512)))
		for i := range g {
			g[i] = byte(r.Uint32())
		}
		return append(cp(), g...)
	case "extend-at-eof":
		// only meaningful on the response that holds the file tail
		if n == 0 || n >= limit {
			w.fired = false
			return honest
		}
		g := make([]byte, 1+r.IntN(4096))
		for i := range g {
			g[i] = byte(r.Uint32())
		}
		return append(cp(), g...)
	}
	return honest
}
