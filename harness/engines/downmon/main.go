// Engine downmon: runtime monitors for the downloader (C33 exact reproduction
// of the remote file, C34 verified / CDN downloads).
package main

import (
	"os"
	"strconv"

	"verif/harness/mon"
)

// devN lets a developer shrink a case count (DOWNMON_N); unset in ./check runs.
func devN(n int) int {
	if v, err := strconv.Atoi(os.Getenv("DOWNMON_N")); err == nil && v > 0 && v < n {
		return v
	}
	return n
}

func main() {
	mon.Main("downmon", map[string]mon.PropFunc{
		"C33": runC33,
		"C34": runC34,
	})
}
