package main

import (
	"bytes"
	"context"
	"errors"
	"fmt"
	"strings"
	"sync"
	"time"

	"github.com/gotd/td/telegram/downloader"
	"github.com/gotd/td/tg"

	"verif/harness/mon"
	"verif/harness/refmodel"
)

type c34Event struct {
	Kind string `json:"kind"`
	At   int    `json:"at"`
}

type c34Case struct {
	Index          int        `json:"index"`
	File           int        `json:"pool_file"`
	Size           int        `json:"file_size"`
	Mode           string     `json:"mode"` // inline | verify-cdn | verify-master
	Way            string     `json:"way"`  // stream | parallel
	Threads        int        `json:"threads"`
	Part           int        `json:"part_size"`
	WinStyle       string     `json:"window_style"`
	TailActual     bool       `json:"tail_hash_limit_actual"`
	Batch          int        `json:"hashes_per_response"`
	EOFRepeat      bool       `json:"hashes_past_eof_repeat_last"`
	RedirectHashes int        `json:"redirect_file_hashes"`
	RedirectAt     int64      `json:"redirect_from_offset"`
	Strategy       string     `json:"strategy"`
	X              int64      `json:"target_pos"`
	Chunk          int        `json:"target_chunk"`
	Persistent     bool       `json:"persistent"`
	Events         []c34Event `json:"events,omitempty"`
	Refresh        string     `json:"refresh,omitempty"`
	ReuploadHashes bool       `json:"reupload_returns_hashes,omitempty"`
	TilingArm      bool       `json:"tiling_arm,omitempty"`
	PlanFallback   bool       `json:"plan_fallback_arm,omitempty"`
}

var c34Strategies = []string{
	"flip", "flip-last-byte", "flip-persistent", "swap-windows", "swap-windows-plain",
	"other-offset-cipher", "other-offset-plain", "truncate-mid", "truncate-4k", "truncate-boundary",
	"empty", "eof-lie", "extend-genuine", "extend-garbage", "extend-at-eof", "other-file",
}

func strategyFamily(s string) string {
	switch {
	case strings.HasPrefix(s, "truncate"), s == "empty", s == "eof-lie":
		return "truncated"
	case strings.HasPrefix(s, "extend"):
		return "extended"
	case strings.HasPrefix(s, "flip"):
		return "flipped"
	case strings.HasPrefix(s, "swap"):
		return "swapped"
	case strings.HasPrefix(s, "other-offset"):
		return "other-offset"
	}
	return s
}

var c34Parts = []int{4096, 8192, 16384, 32768, 36864, 65536, 102400, 131072, 196608, 262144, 524288, 786432, 1048576}

var c34EventKinds = []string{
	"token-invalid", "token-invalid", "reupload", "fingerprint-provider", "fingerprint-cdn", "cdn-timeout",
	"hash-token-invalid", "hash-timeout", "late-redirect", "request-token-invalid",
}

func c34PoolSizes(quick bool) []int {
	// the last entries are "big" (beyond 512 KiB): drawn rarely, they exist for 1 MiB crossings
	s := []int{0, 5, 4096, 8192, 12288, 20480, 32768, 40000, 65536, 100000, 131072 + 10093, 200000, 300000, 1<<20 + 200000}
	if !quick {
		s = append(s, 1, 4095, 8192, 36864, 81920, 180224, 524288, 786433, 917504, 1<<20-1, 1<<20+1, 1572864, 2<<20, 2400000, 3<<20+4097, 4<<20)
	}
	return s
}

func genC34Case(c *mon.Ctx, i int, pool []*cdnFile, adversarial bool) c34Case {
	r := c.RandN("c34", i)
	cs := c34Case{Index: i}
	// small files dominate (bytes are what costs under the race detector); the
	// files above 512 KiB (1 MiB crossing) are drawn less often
	for {
		cs.File = r.IntN(len(pool))
		n := len(pool[cs.File].f.data)
		if (n > 512<<10 && r.IntN(24) != 0) || (n > 150000 && r.IntN(4) != 0) {
			continue
		}
		if adversarial && n < 4096 && r.IntN(8) != 0 {
			continue // adversaries need something to corrupt
		}
		break
	}
	size := len(pool[cs.File].f.data)
	cs.Size = size
	cs.Mode = []string{"inline", "inline", "verify-cdn", "verify-master"}[r.IntN(4)]
	if r.IntN(3) == 0 {
		cs.Way, cs.Threads = "stream", 1
	} else {
		cs.Way, cs.Threads = "parallel", 1+r.IntN(4)
	}
	// part size: keep the number of chunks moderate
	for tries := 0; ; tries++ {
		cs.Part = c34Parts[r.IntN(len(c34Parts))]
		if n := size / cs.Part; (n <= 24 && (n >= 1 || tries > 6)) || tries > 20 {
			break
		}
	}
	cs.WinStyle = []string{"uniform128k", "uniform128k", "uniform-small", "random", "random", "chunk-aligned"}[r.IntN(6)]
	// the tail window keeps its nominal limit on CDN files (cdn_verify.go relies on
	// it: window limits are used as CDN request limits); the actual length is only
	// announced in the master-only mode, where any limit is a valid request
	cs.TailActual = cs.Mode == "verify-master" && r.IntN(3) == 0
	cs.Batch = []int{1, 1, 2, 4, 8, 10, 64}[r.IntN(7)]
	cs.EOFRepeat = r.IntN(2) == 0
	cs.RedirectHashes = []int{0, 0, 1, 2, 8}[r.IntN(5)]
	nChunks := size/cs.Part + 1
	if !adversarial {
		cs.Strategy = "honest"
		if r.IntN(4) == 0 {
			// plan-fallback sub-arm: a part whose CDN request plan has several
			// requests, the token dies on a LATER request of such a plan and the
			// master then serves the file itself instead of redirecting again
			cs.Mode = "inline"
			cs.TailActual = false // drawn for the previous mode; CDN files announce the nominal tail limit (see above)
			cs.Part = []int{36864, 102400, 102400, 196608, 196608, 393216, 786432}[r.IntN(7)]
			planLen := map[int]int{36864: 2, 102400: 3, 196608: 2, 393216: 2, 786432: 2}[cs.Part]
			for tries := 0; tries < 200; tries++ { // a file with at least one complete part, as small as possible
				cs.File = r.IntN(len(pool))
				n := len(pool[cs.File].f.data)
				if n > cs.Part && (n < 3*cs.Part+200000 || tries > 100) {
					break
				}
			}
			size = len(pool[cs.File].f.data)
			cs.Size = size
			if r.IntN(2) == 0 {
				cs.Way, cs.Threads = "stream", 1
			} else {
				cs.Way, cs.Threads = "parallel", 1+r.IntN(2)
			}
			full := size / cs.Part
			if full < 1 {
				full = 1
			}
			// fires on the request with ordinal At-1: request k>=1 of the plan of part j
			at := r.IntN(full)*planLen + 1 + r.IntN(planLen-1) + 1
			kind := []string{"token-invalid", "request-token-invalid"}[r.IntN(2)]
			cs.Events = []c34Event{{Kind: kind, At: at}}
			cs.Refresh = []string{"fallback-master", "fallback-master", "new-token"}[r.IntN(3)]
			cs.PlanFallback = true
			return cs
		}
		if r.IntN(3) == 0 && cs.Mode != "verify-master" {
			// deterministic request sequence: single thread, no nested window loads
			cs.TilingArm = true
			cs.Threads = 1
			if cs.Mode == "inline" {
				cs.WinStyle = "chunk-aligned"
			}
			return cs
		}
		if cs.Mode != "verify-master" && r.IntN(4) != 0 {
			for n := 1 + r.IntN(3); n > 0; n-- {
				k := c34EventKinds[r.IntN(len(c34EventKinds))]
				if k == "late-redirect" {
					cs.RedirectAt = int64(1+r.IntN(nChunks)) * int64(cs.Part)
					if cs.Mode == "verify-cdn" {
						cs.RedirectAt = int64(r.IntN(size + 1))
					}
				}
				cs.Events = append(cs.Events, c34Event{Kind: k, At: r.IntN(2 * nChunks)})
			}
			cs.Refresh = []string{"new-token", "new-key", "fallback-master"}[r.IntN(3)]
			cs.ReuploadHashes = r.IntN(2) == 0
		}
		return cs
	}
	cs.Strategy = c34Strategies[i%len(c34Strategies)]
	cs.Chunk = (i / len(c34Strategies)) % nChunks
	lo := int64(cs.Chunk) * int64(cs.Part)
	hi := lo + int64(cs.Part)
	if hi > int64(size) {
		hi = int64(size)
	}
	cs.X = lo
	if hi > lo && r.IntN(3) != 0 {
		cs.X = lo + r.Int64N(hi-lo)
	}
	switch cs.Strategy {
	case "eof-lie":
		cs.Persistent = true
		// pretend EOF at a window boundary, a part boundary or anywhere (4 KiB grid / arbitrary)
		switch r.IntN(4) {
		case 0:
			cs.X = lo
		case 1:
			cs.X = cs.X &^ 4095
		case 2: // resolved to the nearest window boundary by the runner
			cs.X = -cs.X - 1
		}
	case "flip-persistent", "other-file":
		cs.Persistent = true
	case "extend-at-eof":
		cs.X = int64(size) - 1
		if cs.X < 0 {
			cs.X = 0
		}
	case "truncate-boundary":
		// needs hash-window boundaries strictly inside one answer: small windows, larger parts
		cs.WinStyle = "uniform-4k8k"
		for tries := 0; (cs.Part < 16384 || cs.Part > size) && tries < 40; tries++ {
			cs.Part = c34Parts[r.IntN(len(c34Parts))]
		}
		full := size / cs.Part // aim at a part that is completely inside the file
		if full < 1 {
			full = 1
		}
		cs.Chunk %= full
		cs.X = int64(cs.Chunk) * int64(cs.Part)
	}
	return cs
}

type c34Stats struct {
	sync.Mutex
	honestOK, honestFail, rejected, healed, ineffective   int64
	cdnReqs, planChecked, tilingChecked, corruptDelivered int64
	events                                                map[string]int64
	byMode                                                map[string]int64
	rejectedBy, acceptedBy                                map[string]int64
	errClasses                                            map[string]int64
}

func runC34(c *mon.Ctx) {
	c.Rule("plan arm: VerifBuildCDNRequestPlan over the complete grid offset∈4KiB·[0,600) × limit∈4KiB·[1,300] (180000 pairs, exhaustive) checked for 4 KiB alignment, limit | 1 MiB, no 1 MiB crossing and exact in-order tiling; " +
		"the same per-request rules on every request the harness CDN receives, and exact tiling on single-thread runs whose request sequence is determined. " +
		"download arm: genuine pool files (14 sizes 0..1.2 MB, thorough 30 sizes ..4 MiB; files above 150 KB drawn at 1/4, above 512 KiB at 1/24 of the rate: bytes are what costs under the race detector) with hash windows (uniform 128K / uniform small / random 4K..128K / chunk-aligned; nominal or actual tail limit; 1..64 hashes per answer; empty or repeated answer past EOF), " +
		"modes inline (AllowCDN default), verify-cdn (WithVerify(true) on a redirected file) and verify-master (WithVerify(true), no CDN), Stream/Parallel 1..4 threads, part sizes 4K..1M incl. non-divisors of 1 MiB; " +
		"CDN ciphertext from the reference AES-CTR model; honest arm with FILE_TOKEN_INVALID / REQUEST_TOKEN_INVALID (new token / new key / fallback to master; a sub-arm kills the token on a later request of a multi-request CDN plan for parts 36K,100K,192K,384K,768K), reupload-needed, fingerprint errors, timeouts, late redirect; " +
		"adversarial arm: 16 strategies (bit flips, window swaps, data of another offset, truncation mid-window / on 4 KiB / exactly on a hash-window boundary, empty, consistent EOF lie, extension, other self-consistent file), each aimed at each chunk index. " +
		"Oracle: a download that returns nil delivered exactly the genuine file. distinct non-trivial = (mode, way, strategy, outcome, target-chunk class) of a case in which the harness actually delivered a corrupted answer, plus (mode, way, event set) of honest cases")
	c.Assume("CDN encryption per https://core.telegram.org/cdn#decrypting-files (as cited by cdn_verify.go): AES-256-CTR, IV = encryption_iv with the last 4 bytes replaced by offset/16 big-endian; transcribed positionally in refmodel.CDNKeystreamXOR (network access to re-read the page is not available)")
	c.Assume("hashes served by the master DC (getFileHashes, getCdnFileHashes, redirect file_hashes, reuploadCdnFile) are trusted and well-formed; only file data is adversarial")

	runPlanGrid(c)

	quick := c.Quick()
	var pool []*cdnFile
	for i, s := range c34PoolSizes(quick) {
		pool = append(pool, newCDNFile(c.Seed*7919+uint64(i)*104729+1, s))
	}
	nHonest, nAdv := devN(c.N(160, 4000)), devN(c.N(480, 16000))
	st := &c34Stats{events: map[string]int64{}, byMode: map[string]int64{}, rejectedBy: map[string]int64{}, acceptedBy: map[string]int64{}, errClasses: map[string]int64{}}
	type job struct {
		i   int
		adv bool
	}
	jobs := make(chan job)
	var wg sync.WaitGroup
	for w := 0; w < 12; w++ {
		wg.Add(1)
		go func() {
			defer wg.Done()
			sc := &scratch{}
			for j := range jobs {
				cs := genC34Case(c, j.i, pool, j.adv)
				runC34Case(c, &cs, pool[cs.File], st, sc)
			}
		}()
	}
	for i := 0; i < nHonest; i++ {
		jobs <- job{i, false}
	}
	for i := 0; i < nAdv; i++ {
		jobs <- job{1_000_000 + i, true}
	}
	close(jobs)
	wg.Wait()
	time.Sleep(50 * time.Millisecond)
	if lw := lateWrites.Load(); lw > 0 {
		c.Add("writes_after_return", lw)
	}
	for i, cf := range pool {
		if !cf.intact() {
			// answers are views of the pool: every verdict of this run is void
			c.Inconclusive(fmt.Sprintf("pool file %d was modified in place by the code under observation (answers are served as views)", i))
		}
	}
	c.Set("honest_downloads_ok", st.honestOK)
	c.Set("honest_downloads_failed", st.honestFail)
	c.Set("corrupted_answers_delivered", st.corruptDelivered)
	c.Set("adversarial_rejected", st.rejected)
	c.Set("adversarial_healed_identical_content", st.healed)
	c.Set("adversarial_not_effective", st.ineffective)
	c.Set("cdn_requests_rule_checked", st.planChecked)
	c.Set("downloads_with_exact_tiling_check", st.tilingChecked)
	c.Set("server_events_fired", st.events)
	c.Set("downloads_by_mode", st.byMode)
	c.Set("rejected_by_strategy", st.rejectedBy)
	c.Set("wrong_content_accepted_by_mode_strategy", st.acceptedBy)
	c.Set("error_classes", st.errClasses)
	if st.honestOK == 0 {
		c.Inconclusive("no honest download succeeded: the harness servers are not a usable model")
	}
	if st.honestFail > 0 {
		c.Inconclusive(fmt.Sprintf("%d honest downloads failed (see samples honest-failed): harness server model and client disagree; corruption verdicts would not be trustworthy", st.honestFail))
	}
	if st.rejected == 0 {
		c.Inconclusive("no corrupted answer was ever rejected")
	}
	if st.tilingChecked == 0 || st.planChecked == 0 {
		c.Inconclusive("no CDN request was observed by the plan monitor")
	}
}

// runPlanGrid enumerates the (offset, limit) grid through hook H8.
func runPlanGrid(c *mon.Ctx) {
	const kb4 = 4096
	pairs, reqs, maxLen := 0, 0, 0
	lens := map[int]int{}
	for o := 0; o < 600; o++ {
		for l := 1; l <= 300; l++ {
			off, lim := int64(o)*kb4, l*kb4
			plan, err := downloader.VerifBuildCDNRequestPlan(off, lim)
			pairs++
			if err != nil {
				c.Violate("plan|error-on-valid-range", map[string]any{"offset": off, "limit": lim, "error": err.Error()})
				continue
			}
			pos := off
			bad := ""
			for _, q := range plan {
				if ok, why := refmodel.CDNPlanRangeValid(q.Offset, q.Limit); !ok {
					bad = why
					break
				}
				if q.Offset != pos {
					bad = "not-contiguous-in-order"
					break
				}
				pos += int64(q.Limit)
			}
			if bad == "" && pos != off+int64(lim) {
				bad = "does-not-cover-range"
			}
			if bad != "" {
				c.Violate("plan|"+bad, map[string]any{"offset": off, "limit": lim, "plan": plan})
				continue
			}
			reqs += len(plan)
			lens[len(plan)]++
			if len(plan) > maxLen {
				maxLen = len(plan)
			}
			if len(plan) > 1 {
				c.Distinct(fmt.Sprintf("plan/len%d/cross%v", len(plan), off/(1<<20) != (off+int64(lim)-1)/(1<<20)))
			}
		}
	}
	c.Eval(pairs)
	c.Exhaustive(true)
	c.Set("plan_grid_pairs", pairs)
	c.Set("plan_grid_requests", reqs)
	c.Set("plan_grid_max_requests_per_plan", maxLen)
	// invalid inputs must be refused, not planned
	for _, bad := range [][2]int64{{1, 4096}, {4096, 1}, {0, 0}, {-4096, 4096}, {0, -4096}, {2048, 2048}, {4096, 6144}} {
		if plan, err := downloader.VerifBuildCDNRequestPlan(bad[0], int(bad[1])); err == nil {
			ok := true
			pos := bad[0]
			for _, q := range plan {
				if v, _ := refmodel.CDNPlanRangeValid(q.Offset, q.Limit); !v || q.Offset != pos {
					ok = false
				}
				pos += int64(q.Limit)
			}
			if !ok || pos != bad[0]+bad[1] {
				c.Violate("plan|invalid-plan-for-unaligned-range", map[string]any{"offset": bad[0], "limit": bad[1], "plan": plan})
			}
		}
	}
	c.Sample("plan", map[string]any{"offset": 1044480, "limit": 1228800, "plan": func() any {
		p, _ := downloader.VerifBuildCDNRequestPlan(1044480, 1228800)
		return p
	}()})
}

func errClass(err error) string {
	s := err.Error()
	for _, k := range []string{"file hash mismatch", "hash for offset", "invalid CDN window length", "invalid overlap", "retry limit", "more than requested", "data after end of file", "truncated", "invalid CDN hash", "must be divisible"} {
		if strings.Contains(s, k) {
			return k
		}
	}
	if len(s) > 60 {
		s = s[:60]
	}
	return s
}

func runC34Case(c *mon.Ctx, cs *c34Case, cf *cdnFile, st *c34Stats, sc *scratch) {
	r := c.RandN("c34w", cs.Index)
	w := newWorld(cf, cs, r)
	size := int64(len(cf.f.data))
	if cs.X < 0 {
		// eof-lie on the hash-window boundary nearest to the drawn position
		want := -cs.X - 1
		cs.X = 0
		for _, x := range w.windows {
			if x.Off <= want {
				cs.X = x.Off
			}
		}
	}
	d := downloader.NewDownloader().WithPartSize(cs.Part)
	verify := false
	switch cs.Mode {
	case "inline":
		d = d.WithAllowCDN(true)
	case "verify-cdn":
		d = d.WithAllowCDN(true)
		verify = true
	case "verify-master":
		verify = true
	}
	var client downloader.Client = w
	if cs.Mode == "verify-master" {
		client = masterOnly{w}
	}
	b := d.Download(client, &tg.InputDocumentFileLocation{ID: int64(cs.Index) + 1}).WithThreads(cs.Threads)
	if verify {
		b = b.WithVerify(true)
	}
	ctx, cancel := context.WithTimeout(context.Background(), 5*time.Minute)
	defer cancel()
	var (
		got []byte
		err error
		typ tg.StorageFileTypeClass
	)
	name := fmt.Sprintf("c34#%d", cs.Index)
	if cs.Way == "stream" {
		sink := newSeqSinkAssembling(name, sc.outBuf())
		typ, err = b.Stream(ctx, sink)
		sink.close()
		got = sink.content()
	} else {
		sink := newAtSinkAssembling(name, sc.outBuf())
		typ, err = b.Parallel(ctx, sink)
		sink.close()
		got = sink.content()
	}
	if cap(got) > cap(sc.out) {
		sc.out = got[:0] // keep the grown buffer
	}
	c.Eval(1)
	if ctx.Err() != nil {
		c.Inconclusive(fmt.Sprintf("watchdog: download %d did not finish in 5 min", cs.Index))
		return
	}
	if err == nil && cs.Mode == "verify-master" {
		// observation only (the type of verified downloads is outside C34; C33 is
		// anchored in the plain reader): what type does a verified download report?
		c.Add("verify_master_ok_type_"+typeName(typ), 1)
	}
	w.mu.Lock()
	defer w.mu.Unlock()
	identical := bytes.Equal(got, cf.f.data)
	wit := func(extra map[string]any) map[string]any {
		m := map[string]any{
			"case": cs, "cdn_or_master_data_requests": len(w.dataReqs), "corrupted_answers_delivered": w.corrupt,
			"got_len": len(got), "got_sha": sha8(got), "want_len": size, "want_sha": sha8(cf.f.data),
			"hash_windows": len(w.windows), "events_fired": w.eventsFired,
		}
		tail := w.dataReqs
		if len(tail) > 12 {
			tail = tail[len(tail)-12:]
		}
		m["last_data_requests"] = tail
		if err != nil {
			m["error"] = err.Error()
		}
		for k, v := range extra {
			m[k] = v
		}
		return m
	}
	st.Lock()
	st.byMode[cs.Mode+"/"+cs.Way]++
	st.cdnReqs += int64(w.allReqs)
	st.corruptDelivered += int64(w.corrupt)
	for k, v := range w.eventsFired {
		st.events[k] += int64(v)
	}
	if cs.Mode != "verify-master" {
		st.planChecked += int64(w.allReqs)
	}
	st.Unlock()

	// plan rules on every request the CDN DC received
	if len(w.planViol) > 0 {
		c.Violate("cdn-request|"+strings.SplitN(w.planViol[0], ":", 2)[0], wit(map[string]any{"bad_requests": w.planViol}))
	}
	if len(w.oddities) > 0 {
		c.Add("protocol_oddities", int64(len(w.oddities)))
		c.Sample("oddity", map[string]any{"case": cs, "what": w.oddities})
	}
	if cs.TilingArm && err == nil {
		if why := checkTiling(cs, w); why != "" {
			c.Violate("cdn-request|tiling", wit(map[string]any{"why": why, "requests": w.dataReqs}))
		}
		st.Lock()
		st.tilingChecked++
		st.Unlock()
	}

	chunkClass := "middle"
	switch {
	case cs.Chunk == 0:
		chunkClass = "first"
	case int64(cs.Chunk+1)*int64(cs.Part) >= size:
		chunkClass = "last"
	}
	switch {
	case err == nil && !identical:
		// the refuting observation. Signature: mode + how the corrupted answer
		// differed from the honest one; the shape of the output (prefix, hole,
		// duplicate) and what the client had been told are witness details, since
		// with several threads they depend on the schedule.
		sig := "accepted|" + cs.Mode + "|" + w.shape
		extra := map[string]any{"first_shortened_answer_ends_at": w.firstCut}
		L := int64(len(got))
		switch {
		case L < size && bytes.Equal(got, cf.f.data[:L]):
			onBoundary, held := false, false
			for _, x := range w.windows {
				if x.Off == L {
					onBoundary = true
				}
			}
			for off := range w.servedHashes {
				if off >= L {
					held = true
				}
			}
			extra["output"] = "strict prefix of the genuine file"
			extra["cut_at"] = L
			extra["cut_on_hash_window_boundary"] = onBoundary
			extra["hash_window_at_or_after_cut_was_served_during_the_run"] = held
		case L > size && bytes.Equal(got[:size], cf.f.data):
			extra["output"] = "genuine file followed by extra bytes"
		default:
			extra["output"] = "differs inside the file (hole, duplicate or foreign bytes)"
		}
		if w.corrupt == 0 {
			sig = "wrong-content|" + cs.Mode + "|no-corruption-injected"
		}
		for i := 0; i < len(got) && i < len(cf.f.data); i++ {
			if got[i] != cf.f.data[i] {
				extra["first_difference_at"] = i
				break
			}
		}
		st.Lock()
		st.acceptedBy[cs.Mode+"/"+cs.Strategy]++
		st.Unlock()
		c.Violate(sig, wit(extra))
	case err == nil && w.corrupt == 0:
		if cs.Strategy == "honest" {
			st.Lock()
			st.honestOK++
			st.Unlock()
			ev := []string{}
			for k := range w.eventsFired {
				ev = append(ev, k)
			}
			sortStrings(ev)
			if cs.PlanFallback {
				ev = append(ev, fmt.Sprintf("plan-fallback/part%d/%s", cs.Part, cs.Refresh))
				c.Add("plan_fallback_downloads_ok", 1)
			}
			c.Distinct(strings.Join([]string{"honest", cs.Mode, cs.Way, cs.WinStyle, strings.Join(ev, "+")}, "/"))
			c.Sample("honest/"+cs.Mode, cs)
		} else {
			st.Lock()
			st.ineffective++
			st.Unlock()
		}
	case err == nil:
		// corrupted bytes were delivered but the output is the genuine file
		// (verified-window patching or a retry): allowed
		st.Lock()
		st.healed++
		st.Unlock()
		c.Distinct(strings.Join([]string{"healed", cs.Mode, cs.Way, cs.Strategy, chunkClass}, "/"))
	case w.corrupt > 0:
		st.Lock()
		st.rejected++
		st.rejectedBy[cs.Strategy]++
		st.errClasses[errClass(err)]++
		st.Unlock()
		c.Distinct(strings.Join([]string{"rejected", cs.Mode, cs.Way, cs.Strategy, chunkClass}, "/"))
		c.Sample("rejected/"+strategyFamily(cs.Strategy), map[string]any{"case": cs, "error": err.Error()})
	case errors.Is(err, downloader.ErrHashMismatch) && cs.Mode != "verify-master":
		// No corruption was injected: the CDN served the reference encryption of
		// the genuine file and the master its true hashes, so a hash mismatch means
		// the client decrypted (or cut windows) differently from the reference.
		c.Violate("honest-rejected|"+cs.Mode+"|hash-mismatch", wit(nil))
	default:
		// failure without any corruption
		st.Lock()
		st.honestFail++
		st.errClasses["honest:"+errClass(err)]++
		st.Unlock()
		c.Sample("honest-failed", wit(nil))
	}
}

// masterOnly hides the CDN provider: plain master DC.
type masterOnly struct{ w *cdnWorld }

func (m masterOnly) UploadGetFile(ctx context.Context, r *tg.UploadGetFileRequest) (tg.UploadFileClass, error) {
	return m.w.UploadGetFile(ctx, r)
}
func (m masterOnly) UploadGetFileHashes(ctx context.Context, r *tg.UploadGetFileHashesRequest) ([]tg.FileHash, error) {
	return m.w.UploadGetFileHashes(ctx, r)
}
func (m masterOnly) UploadReuploadCDNFile(ctx context.Context, r *tg.UploadReuploadCDNFileRequest) ([]tg.FileHash, error) {
	return m.w.UploadReuploadCDNFile(ctx, r)
}
func (m masterOnly) UploadGetCDNFileHashes(ctx context.Context, r *tg.UploadGetCDNFileHashesRequest) ([]tg.FileHash, error) {
	return m.w.UploadGetCDNFileHashes(ctx, r)
}
func (m masterOnly) UploadGetWebFile(ctx context.Context, r *tg.UploadGetWebFileRequest) (*tg.UploadWebFile, error) {
	return m.w.UploadGetWebFile(ctx, r)
}

// checkTiling verifies, for a single-thread download whose sequence of
// schema-level ranges is determined, that the CDN requests tile every range
// exactly and in order (a plan legitimately stops after a short answer).
func checkTiling(cs *c34Case, w *cdnWorld) string {
	type rng struct {
		off int64
		l   int
	}
	var want []rng
	size := int64(len(w.cf.f.data))
	if cs.Mode == "inline" {
		for o := int64(0); o <= size; o += int64(cs.Part) {
			want = append(want, rng{o, cs.Part})
		}
	} else {
		for _, x := range w.windows {
			want = append(want, rng{x.Off, x.Limit})
		}
	}
	reqs := w.dataReqs
	i := 0
	ended := false
	for _, R := range want {
		if ended {
			break
		}
		pos, end := R.off, R.off+int64(R.l)
		for pos < end {
			if i >= len(reqs) {
				return fmt.Sprintf("range [%d,%d): requests stop at %d", R.off, end, pos)
			}
			q := reqs[i]
			i++
			if q.Off != pos {
				return fmt.Sprintf("range [%d,%d): expected a request at %d, got offset=%d limit=%d", R.off, end, pos, q.Off, q.Limit)
			}
			if q.Off+int64(q.Limit) > end {
				return fmt.Sprintf("range [%d,%d): request offset=%d limit=%d reaches beyond it", R.off, end, q.Off, q.Limit)
			}
			pos += int64(q.Limit)
			if q.RespLen < q.Limit {
				if cs.Mode == "inline" {
					ended = true
				}
				break
			}
		}
	}
	if i != len(reqs) {
		return fmt.Sprintf("%d requests beyond the expected ranges, first offset=%d limit=%d", len(reqs)-i, reqs[i].Off, reqs[i].Limit)
	}
	return ""
}

func sortStrings(s []string) {
	for i := 1; i < len(s); i++ {
		for j := i; j > 0 && s[j] < s[j-1]; j-- {
			s[j], s[j-1] = s[j-1], s[j]
		}
	}
}
