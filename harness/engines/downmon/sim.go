package main

import (
	"bytes"
	"crypto/aes"
	"crypto/cipher"
	"crypto/sha256"
	"encoding/binary"
	"fmt"
	"sort"
	"sync"
	"sync/atomic"
	"syscall"

	"github.com/gotd/td/tg"
)

// simFile is the simulated remote file: every byte is a deterministic function
// of (seed, offset), so any written range can be checked without trusting the
// code under observation.
type simFile struct {
	seed uint64
	data []byte
	sum  [32]byte
	typ  tg.StorageFileTypeClass
}

func mix64(x uint64) uint64 {
	x += 0x9e3779b97f4a7c15
	x = (x ^ (x >> 30)) * 0xbf58476d1ce4e5b9
	x = (x ^ (x >> 27)) * 0x94d049bb133111eb
	return x ^ (x >> 31)
}

// scratch is per-worker reusable memory: under the race detector fresh large
// allocations are by far the dominant cost of a case.
type scratch struct {
	file []byte
	out  []byte
}

func (sc *scratch) fileBuf(n int) []byte {
	if cap(sc.file) < n {
		sc.file = offHeap(n + n/4 + 4096)
	}
	return sc.file[:n]
}

// offHeap returns anonymous mapped memory outside the Go heap. The race
// runtime ignores accesses to addresses outside the Go arenas, so bulk passes
// over harness-owned, read-only source data (simulated files, reference
// ciphertexts) do not pay for shadow memory: on the loaded machine a range
// access costs ~70 ns/byte and a fresh heap allocation ~0.5 s/MiB under -race.
// Everything the code under observation allocates itself stays instrumented.
// The mappings live until the process exits.
func offHeap(n int) []byte {
	if n == 0 {
		return []byte{}
	}
	b, err := syscall.Mmap(-1, 0, n, syscall.PROT_READ|syscall.PROT_WRITE, syscall.MAP_ANON|syscall.MAP_PRIVATE)
	if err != nil {
		return make([]byte, n)
	}
	return b
}

func (sc *scratch) outBuf() []byte {
	if sc.out == nil {
		sc.out = offHeap(5 << 20)
	}
	return sc.out[:0]
}

func newSimFile(seed uint64, size int) *simFile { return newSimFileIn(nil, seed, size) }

func newSimFileIn(sc *scratch, seed uint64, size int) *simFile {
	n := (size + 7) &^ 7
	var buf []byte
	if sc != nil {
		buf = sc.fileBuf(n)
	} else {
		buf = offHeap(n)
	}
	// byte i = AES-128-CTR keystream (key derived from the seed) at position i.
	// Bulk data must never be produced or compared by Go-level byte loops here:
	// under the race detector every instrumented access costs about a microsecond
	// on the loaded machine, assembly kernels are not instrumented.
	var key [16]byte
	binary.LittleEndian.PutUint64(key[:8], seed)
	binary.LittleEndian.PutUint64(key[8:], mix64(seed))
	blk, err := aes.NewCipher(key[:])
	if err != nil {
		panic(err)
	}
	clear(buf)
	cipher.NewCTR(blk, make([]byte, 16)).XORKeyStream(buf, buf)
	return &simFile{seed: seed, data: buf[:size], sum: sha256.Sum256(buf[:size])}
}

// part returns [offset, offset+limit) clipped to the file WITHOUT copying (a
// fresh allocation per answer is what dominates the cost under the race
// detector). The capacity is clipped so that an append cannot reach the file,
// and intact() detects any in-place modification by the code under observation.
func (f *simFile) part(offset int64, limit int) []byte {
	if offset < 0 || offset >= int64(len(f.data)) || limit <= 0 {
		return []byte{}
	}
	end := offset + int64(limit)
	if end > int64(len(f.data)) {
		end = int64(len(f.data))
	}
	return f.data[offset:end:end]
}

func (f *simFile) intact() bool { return sha256.Sum256(f.data) == f.sum }

var fileTypes = []tg.StorageFileTypeClass{
	&tg.StorageFileUnknown{}, &tg.StorageFilePartial{}, &tg.StorageFileJpeg{}, &tg.StorageFileGif{},
	&tg.StorageFilePng{}, &tg.StorageFilePdf{}, &tg.StorageFileMp3{}, &tg.StorageFileMov{},
	&tg.StorageFileMp4{}, &tg.StorageFileWebp{},
}

func typeName(t tg.StorageFileTypeClass) string {
	if t == nil {
		return "<nil>"
	}
	return t.TypeName()
}

// lateWrites counts writes that reach a sink after the download call returned.
var (
	lateWrites     atomic.Int64
	lateWriteFirst atomic.Value // string
)

type wrec struct {
	Off int64 `json:"off"`
	Len int   `json:"len"`
}

// atSink is the io.WriterAt handed to Parallel. It records every write,
// compares the content with the simulated file on the spot and also assembles
// the output (last writer wins) for whole-content comparison.
type atSink struct {
	name string
	ref  []byte // expected content, may be nil when only assembling

	mu        sync.Mutex
	closed    bool
	writes    []wrec
	zero      int
	buf       []byte
	extent    int64
	badOff    int64 // first content mismatch (absolute offset), -1 if none
	beyondEOF int
	assemble  bool
}

func newAtSink(name string, ref []byte) *atSink { return &atSink{name: name, ref: ref, badOff: -1} }

// newAtSinkAssembling assembles the output into buf[:0] (reused memory).
func newAtSinkAssembling(name string, buf []byte) *atSink {
	return &atSink{name: name, badOff: -1, assemble: true, buf: buf[:0]}
}

func (s *atSink) WriteAt(p []byte, off int64) (int, error) {
	s.mu.Lock()
	defer s.mu.Unlock()
	if s.closed {
		lateWrites.Add(1)
		lateWriteFirst.CompareAndSwap(nil, fmt.Sprintf("%s: WriteAt(len=%d, off=%d) after return", s.name, len(p), off))
		return len(p), nil // the buffers may already belong to another case
	}
	if len(p) == 0 {
		s.zero++
		return 0, nil
	}
	if off < 0 {
		return 0, fmt.Errorf("negative offset %d", off)
	}
	s.writes = append(s.writes, wrec{off, len(p)})
	end := off + int64(len(p))
	if s.assemble {
		if end > int64(len(s.buf)) {
			old := len(s.buf)
			if end <= int64(cap(s.buf)) {
				s.buf = s.buf[:end]
				clear(s.buf[old:]) // reused memory: holes must read as zero
			} else {
				s.buf = append(s.buf, make([]byte, end-int64(old))...)
			}
		}
		copy(s.buf[off:end], p)
	}
	if end > s.extent {
		s.extent = end
	}
	if s.ref != nil {
		if end > int64(len(s.ref)) {
			s.beyondEOF++
		}
		if s.badOff < 0 {
			lo, hi := off, end
			if hi > int64(len(s.ref)) {
				hi = int64(len(s.ref))
			}
			if lo < hi && !bytes.Equal(p[:hi-lo], s.ref[lo:hi]) {
				for i := lo; i < hi; i++ {
					if p[i-lo] != s.ref[i] {
						s.badOff = i
						break
					}
				}
			}
		}
	}
	return len(p), nil
}

func (s *atSink) close() { s.mu.Lock(); s.closed = true; s.mu.Unlock() }

// tiling checks that the recorded writes tile [0,size) exactly. It returns a
// class ("" when fine) and a detail string.
func (s *atSink) tiling(size int64) (string, string) {
	s.mu.Lock()
	ws := append([]wrec(nil), s.writes...)
	bad, beyond := s.badOff, s.beyondEOF
	s.mu.Unlock()
	sort.Slice(ws, func(i, j int) bool {
		if ws[i].Off != ws[j].Off {
			return ws[i].Off < ws[j].Off
		}
		return ws[i].Len < ws[j].Len
	})
	if bad >= 0 {
		return "content", fmt.Sprintf("first wrong byte at offset %d", bad)
	}
	if beyond > 0 {
		return "beyond-eof", fmt.Sprintf("%d writes past the end of the file (size %d)", beyond, size)
	}
	var pos int64
	for _, w := range ws {
		switch {
		case w.Off > pos:
			return "gap", fmt.Sprintf("bytes [%d,%d) never written (size %d)", pos, w.Off, size)
		case w.Off < pos:
			return "duplicate", fmt.Sprintf("range [%d,%d) written again (already covered up to %d)", w.Off, w.Off+int64(w.Len), pos)
		}
		pos = w.Off + int64(w.Len)
	}
	if pos != size {
		return "length", fmt.Sprintf("written [0,%d) but the file has %d bytes", pos, size)
	}
	return "", ""
}

// content returns the assembled output (valid until the scratch buffer is reused).
func (s *atSink) content() []byte {
	s.mu.Lock()
	defer s.mu.Unlock()
	return s.buf[:s.extent]
}

func (s *atSink) writeCount() int { s.mu.Lock(); defer s.mu.Unlock(); return len(s.writes) }

// seqSink is the io.Writer handed to Stream.
type seqSink struct {
	name string
	ref  []byte

	mu     sync.Mutex
	closed bool
	pos    int64
	n      int
	badOff int64
	over   bool
	buf    []byte

	assemble bool
}

func newSeqSink(name string, ref []byte) *seqSink { return &seqSink{name: name, ref: ref, badOff: -1} }

func newSeqSinkAssembling(name string, buf []byte) *seqSink {
	return &seqSink{name: name, badOff: -1, assemble: true, buf: buf[:0]}
}

func (s *seqSink) Write(p []byte) (int, error) {
	s.mu.Lock()
	defer s.mu.Unlock()
	if s.closed {
		lateWrites.Add(1)
		lateWriteFirst.CompareAndSwap(nil, fmt.Sprintf("%s: Write(len=%d) after return", s.name, len(p)))
		return len(p), nil
	}
	if len(p) == 0 {
		return 0, nil
	}
	s.n++
	if s.assemble {
		s.buf = append(s.buf, p...)
	}
	if s.ref != nil && s.badOff < 0 {
		lo, hi := s.pos, s.pos+int64(len(p))
		if hi > int64(len(s.ref)) {
			s.over = true
			hi = int64(len(s.ref))
		}
		if lo < hi && !bytes.Equal(p[:hi-lo], s.ref[lo:hi]) {
			for i := lo; i < hi; i++ {
				if p[i-lo] != s.ref[i] {
					s.badOff = i
					break
				}
			}
		}
	}
	s.pos += int64(len(p))
	return len(p), nil
}

func (s *seqSink) close() { s.mu.Lock(); s.closed = true; s.mu.Unlock() }

func (s *seqSink) verdict(size int64) (string, string) {
	s.mu.Lock()
	defer s.mu.Unlock()
	switch {
	case s.badOff >= 0:
		return "content", fmt.Sprintf("stream byte %d differs from the file", s.badOff)
	case s.over || s.pos > size:
		return "length", fmt.Sprintf("stream has %d bytes, the file has %d", s.pos, size)
	case s.pos < size:
		return "length", fmt.Sprintf("stream has %d bytes, the file has %d", s.pos, size)
	}
	return "", ""
}

func (s *seqSink) content() []byte {
	s.mu.Lock()
	defer s.mu.Unlock()
	return s.buf
}

func sha8(b []byte) string {
	h := sha256.Sum256(b)
	return fmt.Sprintf("%x", h[:8])
}

func sizeBucket(n int) int {
	b := 0
	for ; n > 0; n >>= 2 {
		b++
	}
	return b
}
