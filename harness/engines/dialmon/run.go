package main

import (
	"bytes"
	"context"
	"errors"
	"fmt"
	"runtime"
	"strings"
	"sync"
	"time"

	"github.com/gotd/td/telegram/dcs"
	"github.com/gotd/td/transport"

	"verif/harness/mon"
)

// watchdog bounds every wait of the harness; its firing makes the run inconclusive, never a verdict.
const watchdog = 30 * time.Second

type env struct {
	c      *mon.Ctx
	m      *monitor
	rnd    *lockedRand
	nextID int
	dead   bool // a watchdog fired: stop
	bad    int  // violating calls so far

	settleOK, settleMiss    int64
	orderOK, orderMiss      int64
	parkedSeen              int64
	lateClosed, earlyClosed int64
	outcomes                map[string]int64
}

// waitFor polls cond (spinning first, then sleeping) until it holds or the watchdog fires.
func waitFor(cond func() bool) bool {
	var start time.Time
	for i := 0; ; i++ {
		if cond() {
			return true
		}
		switch {
		case i < 2000:
			runtime.Gosched()
		default:
			if start.IsZero() {
				start = time.Now()
			} else if time.Since(start) > watchdog {
				return false
			}
			time.Sleep(50 * time.Microsecond)
		}
	}
}

func isClosed(ch chan struct{}) bool {
	select {
	case <-ch:
		return true
	default:
		return false
	}
}

type scanResult struct {
	dcs    int      // goroutines with a frame in the dcs package
	stable bool     // every goroutine except the scanning one is parked on a channel operation
	states []string // states of the dcs goroutines
}

// scan takes a full goroutine dump (stop-the-world snapshot). "stable" is a
// logical statement: no goroutine is running, runnable, sleeping or in a
// syscall, so nothing in the process can change until the harness itself acts.
func scan() scanResult {
	buf := make([]byte, 1<<20)
	for {
		n := runtime.Stack(buf, true)
		if n < len(buf) {
			buf = buf[:n]
			break
		}
		buf = make([]byte, 2*len(buf))
	}
	res := scanResult{stable: true}
	for k, g := range bytes.Split(buf, []byte("\n\n")) {
		if k == 0 || len(bytes.TrimSpace(g)) == 0 {
			continue // the first block is the scanning goroutine itself
		}
		state := "?"
		if i := bytes.IndexByte(g, '['); i >= 0 {
			if j := bytes.IndexAny(g[i:], ",]"); j > 0 {
				state = string(g[i+1 : i+j])
			}
		}
		parked := strings.HasPrefix(state, "chan receive") || strings.HasPrefix(state, "chan send") || strings.HasPrefix(state, "select")
		if !parked {
			res.stable = false
		}
		if bytes.Contains(g, []byte("github.com/gotd/td/telegram/dcs.")) {
			res.dcs++
			res.states = append(res.states, state)
		}
	}
	return res
}

// settle waits for quiescence of the given calls: every fake dial returned and
// the goroutine count is back at the baseline taken before the calls (every
// goroutine spawned by connect exited) -- or the whole process is stable with
// goroutines parked for good (a permanently blocked dial goroutine).
func (e *env) settle(base int, calls []*callState) (ok bool, parked scanResult) {
	allFin := func() bool {
		e.m.mu.Lock()
		defer e.m.mu.Unlock()
		for _, call := range calls {
			if call.started < call.s.N || call.finished != call.started {
				return false
			}
		}
		return true
	}
	var start time.Time
	for i := 0; ; i++ {
		if allFin() && runtime.NumGoroutine() <= base {
			return true, scanResult{}
		}
		if i < 3000 {
			runtime.Gosched()
			continue
		}
		if start.IsZero() {
			start = time.Now()
		}
		if i%20 == 0 {
			if sc := scan(); sc.stable || (sc.dcs == 0 && allFin()) {
				return true, sc
			}
		}
		if time.Since(start) > watchdog {
			return false, scanResult{}
		}
		time.Sleep(50 * time.Microsecond)
	}
}

// confirm is run before any leak verdict: the verdict must rest on a goroutine
// snapshot that shows no live dial goroutine (or a stable process), not on the
// goroutine count alone.
func (e *env) confirm() (ok bool, sc scanResult) {
	start := time.Now()
	for {
		sc = scan()
		if sc.dcs == 0 || sc.stable {
			return true, sc
		}
		if time.Since(start) > watchdog {
			return false, sc
		}
		time.Sleep(50 * time.Microsecond)
	}
}

// awaitReturn waits until the call returned. It reports hung=true when instead the
// whole process became stable (stop-the-world dump: every goroutine parked on a
// channel operation) with the call still blocked: nothing but the harness can
// ever wake it.
func (e *env) awaitReturn(call *callState) (returned, hung bool) {
	var start time.Time
	for i := 0; ; i++ {
		if isClosed(call.ret) {
			return true, false
		}
		if i < 3000 {
			runtime.Gosched()
			continue
		}
		if start.IsZero() {
			start = time.Now()
		}
		if i%20 == 0 {
			if sc := scan(); sc.stable && !isClosed(call.ret) {
				return false, true
			}
		}
		if time.Since(start) > watchdog {
			return false, false
		}
		time.Sleep(50 * time.Microsecond)
	}
}

// hang records a call that is still blocked in a stable process, then ends it by
// cancelling the caller's context. ok=false: the run must stop.
func (e *env) hang(call *callState, cancel context.CancelFunc) (ok bool) {
	e.m.mu.Lock()
	allFin := call.started >= call.s.N && call.finished == call.started
	events := make([]string, len(call.events))
	for i, ev := range call.events {
		events[i] = ev.String()
	}
	e.m.mu.Unlock()
	if !allFin {
		e.timeout("process stable, call blocked, but a harness dial has not finished (harness deadlock)", call)
		return false
	}
	e.bad++
	call.hung = true
	e.c.Violate("hang|all-dials-finished", map[string]any{
		"schedule": call.s, "method": methodNames[call.s.Method], "events": events,
		"note": "every dial returned, every goroutine of the process is parked, the caller's context is alive and the resolver call has not returned",
	})
	e.cancelCall(call, cancel)
	if !waitFor(func() bool { return isClosed(call.ret) }) {
		e.timeout("hung call did not return after cancellation", call)
		return false
	}
	return true
}

// invoke runs the resolver method in its own goroutine.
func (e *env) invoke(call *callState, ctx context.Context, res dcs.Resolver, list dcs.List) {
	go func() {
		var conn transport.Conn
		var err error
		switch call.s.Method {
		case 0:
			conn, err = res.Primary(ctx, call.s.DC, list)
		case 1:
			conn, err = res.MediaOnly(ctx, call.s.DC, list)
		default:
			conn, err = res.CDN(ctx, call.s.DC, list)
		}
		call.retConn, call.retErr = conn, err
		e.m.mu.Lock()
		call.retSeq = e.m.log(call, "return", -1)
		e.m.mu.Unlock()
		close(call.ret)
	}()
}

func (e *env) cancelCall(call *callState, cancel context.CancelFunc) {
	e.m.mu.Lock()
	if seq := e.m.log(call, "cancel", -1); call.cancelSeq == 0 {
		call.cancelSeq = seq
	}
	e.m.mu.Unlock()
	cancel()
}

func (e *env) timeout(what string, call *callState) {
	e.dead = true
	e.c.Inconclusive(fmt.Sprintf("watchdog: %s (schedule %+v)", what, *call.s))
}

// runScripted executes one scripted schedule: every dial is parked in the fake
// dialer and released in the scheduled order; after each release the scheduler
// waits for the logical effect (the call returned, or the dial's goroutine
// exited, which happens only after connect received its result).
func (e *env) runScripted(s *sched) {
	e.nextID++
	call, list, res := e.build(s, e.nextID, e.c.RandN("build", e.nextID))
	e.m.register(call)
	defer e.m.unregister(call)
	ctx, cancel := context.WithCancel(context.Background())
	defer cancel()
	if s.CancelAt == cancelPre {
		e.cancelCall(call, cancel)
	}
	base := runtime.NumGoroutine()
	e.invoke(call, ctx, res, list)

	started := func() bool {
		e.m.mu.Lock()
		defer e.m.mu.Unlock()
		return call.started >= s.N
	}
	if s.N > 0 && !waitFor(func() bool { return started() || isClosed(call.ret) }) {
		e.timeout("dials did not start", call)
		return
	}
	released := make([]bool, s.N)
	for p := 0; p <= len(s.Order) && !isClosed(call.ret); p++ {
		if s.CancelAt == p {
			e.cancelCall(call, cancel)
			if s.N > 1 {
				if !waitFor(func() bool { return isClosed(call.ret) }) {
					e.timeout("call did not return after cancellation", call)
					return
				}
				break
			}
			// a single candidate is dialed inline: the call returns when its dial does
		}
		if p == len(s.Order) {
			break
		}
		d := call.dials[s.Order[p]]
		g0 := runtime.NumGoroutine()
		released[d.idx] = true
		close(d.rel)
		if d.plan == planSuccess && s.N > 1 {
			// the first success at its turn ends the call
			if !waitFor(func() bool { return isClosed(call.ret) }) {
				e.timeout("call did not return after a successful dial", call)
				return
			}
			break
		}
		// failure: settle until the dial goroutine exited (its result was received) or the call returned
		settled := false
		for i := 0; i < 20400; i++ {
			if runtime.NumGoroutine() < g0 || isClosed(call.ret) {
				settled = true
				break
			}
			if i < 20000 {
				runtime.Gosched()
			} else {
				time.Sleep(100 * time.Microsecond) // loaded machine: give the dial goroutine's thread a chance
			}
		}
		if settled {
			e.settleOK++
		} else {
			e.settleMiss++
		}
	}
	if !isClosed(call.ret) && len(s.Order) == s.N && s.N > 0 {
		// every dial was released and none blocks: the call must return by itself
		returned, hung := e.awaitReturn(call)
		switch {
		case hung:
			if !e.hang(call, cancel) {
				return
			}
		case !returned:
			e.timeout("call did not return after all dials completed", call)
			return
		}
	}
	if !isClosed(call.ret) {
		// nothing succeeded and some dial blocks: only the caller's cancellation ends the call
		if s.N == 0 {
			if !waitFor(func() bool { return isClosed(call.ret) }) {
				e.timeout("call with no candidates did not return", call)
				return
			}
		} else {
			e.cancelCall(call, cancel)
			if !waitFor(func() bool { return isClosed(call.ret) }) {
				e.timeout("call did not return after cancellation", call)
				return
			}
		}
	}
	// the call has returned: everything released now completes late
	for _, d := range call.dials {
		if d.rel != nil && !released[d.idx] {
			released[d.idx] = true
			close(d.rel)
		}
	}
	e.finish(base, []*callState{call})
}

// finish waits for quiescence of the given calls and judges them.
func (e *env) finish(base int, calls []*callState) {
	ok, sc := e.settle(base, calls)
	if !ok {
		e.timeout("no quiescence: dials or resolver goroutines still active", calls[0])
		return
	}
	suspicious := false
	e.m.mu.Lock()
	for _, call := range calls {
		open := 0
		for _, fc := range call.conns {
			if fc.closes == 0 {
				open++
			}
		}
		if open > 1 || (open == 1 && call.retErr != nil) {
			suspicious = true
		}
	}
	e.m.mu.Unlock()
	if suspicious {
		if ok, sc = e.confirm(); !ok {
			e.timeout("a connection is open while resolver goroutines are still active", calls[0])
			return
		}
	}
	e.parkedSeen += int64(sc.dcs)
	for _, call := range calls {
		e.judge(call, sc)
	}
}

func contains(err error, d *dialState) bool {
	return errors.Is(err, d.fail) || strings.Contains(err.Error(), d.token)
}

// judge applies the C42 oracle to one quiescent call.
func (e *env) judge(call *callState, sc scanResult) {
	c, s, m := e.c, call.s, e.m
	c.Eval(1)
	m.mu.Lock()
	var open, late []*fakeConn
	est := len(call.conns)
	for _, fc := range call.conns {
		if fc.closes == 0 {
			open = append(open, fc)
		} else if fc.estSeq > call.retSeq {
			e.lateClosed++
		} else {
			e.earlyClosed++
		}
		if fc.estSeq > call.retSeq {
			late = append(late, fc)
		}
	}
	cancelled := call.cancelSeq != 0 && call.cancelSeq < call.retSeq
	allFailedBeforeReturn := true
	decoyDialed := 0
	for _, d := range call.dials {
		if d.failSeq == 0 || d.failSeq > call.retSeq {
			allFailedBeforeReturn = false
		}
	}
	for _, d := range call.decoys {
		decoyDialed += d.starts
	}
	events := make([]string, len(call.events))
	for i, ev := range call.events {
		events[i] = ev.String()
	}
	m.mu.Unlock()

	witness := func(extra map[string]any) map[string]any {
		w := map[string]any{
			"schedule": s, "method": methodNames[s.Method], "events": events,
			"established": est, "parked_resolver_goroutines": sc.states,
		}
		if call.retErr != nil {
			w["returned"] = "error: " + call.retErr.Error()
		} else {
			w["returned"] = "connection"
		}
		var o []string
		for _, fc := range open {
			when := "before-return"
			if fc.estSeq > call.retSeq {
				when = "after-return"
			}
			o = append(o, fmt.Sprintf("dial#%d %s established@%d %s", fc.d.idx, fc.d.addr, fc.estSeq, when))
		}
		w["open_at_quiescence"] = o
		for k, v := range extra {
			w[k] = v
		}
		return w
	}
	violate := func(sig string, extra map[string]any) {
		e.bad++
		c.Violate(sig, witness(extra))
	}
	when := func(fcs []*fakeConn, except *fakeConn) string {
		// class of the leaked connections: established before or after the call returned
		early, lateN := 0, 0
		for _, fc := range fcs {
			if fc == except {
				continue
			}
			if fc.estSeq > call.retSeq {
				lateN++
			} else {
				early++
			}
		}
		switch {
		case early > 0 && lateN > 0:
			return "established-before-and-after-return"
		case lateN > 0:
			return "established-after-return"
		}
		return "established-before-return"
	}
	cls := "no-cancel"
	if cancelled {
		cls = "cancelled"
	}

	outcome := ""
	switch {
	case call.retErr == nil && call.retConn == nil:
		outcome = "nil-nil"
		violate("nil-connection-with-nil-error", nil)
	case call.retErr == nil:
		outcome = "conn"
		// identify the returned connection: closing it must close exactly one of the open fake connections
		var returned *fakeConn
		before := map[*fakeConn]bool{}
		for _, fc := range open {
			before[fc] = true
		}
		_ = call.retConn.Close()
		m.mu.Lock()
		for _, fc := range call.conns {
			if before[fc] && fc.closes > 0 {
				returned = fc
			}
		}
		m.mu.Unlock()
		switch {
		case returned == nil:
			violate("success|returned-connection-already-closed", nil)
		case len(open) > 1:
			violate("success|other-connection-left-open|"+when(open, returned), nil)
		default:
			if returned.d.decoy {
				c.Add("decoy_returned", 1)
			}
		}
	default:
		outcome = "err"
		if errors.Is(call.retErr, context.Canceled) {
			outcome = "ctxerr"
		}
		if len(open) > 0 {
			violate("error|connection-left-open|"+cls+"|"+when(open, nil), nil)
		}
		if !cancelled && s.N > 0 {
			if !allFailedBeforeReturn {
				violate("error|returned-before-every-dial-failed", nil)
			} else {
				var missing []int
				for _, d := range call.dials {
					if !contains(call.retErr, d) {
						missing = append(missing, d.idx)
					}
				}
				if len(missing) > 0 {
					violate("error|dial-failure-missing-from-error", map[string]any{"missing_dials": missing})
				}
				outcome = "all-failed"
				// coverage: was the scripted completion order really the order connect received the results in?
				if u, ok := call.retErr.(interface{ Unwrap() []error }); ok && s.Mode == "scripted" && len(s.Order) == s.N {
					var got []int
					for _, sub := range u.Unwrap() {
						for _, d := range call.dials {
							if contains(sub, d) && (len(got) == 0 || got[len(got)-1] != d.idx) {
								got = append(got, d.idx) // a combined failure contributes several flattened entries
							}
						}
					}
					if fmt.Sprint(got) == fmt.Sprint(s.Order) {
						e.orderOK++
					} else {
						e.orderMiss++
					}
				}
			}
		}
	}
	if decoyDialed > 0 {
		c.Add("decoy_dialed", int64(decoyDialed))
	}
	lateN := len(late)
	e.outcomes[s.Mode+"/"+outcome+"/"+cls]++
	// distinct non-trivial classes
	if s.N >= 2 {
		if s.Mode == "scripted" {
			c.Distinct(fmt.Sprintf("%s|%s|%s", methodNames[s.Method], s.canon(), outcome))
		} else {
			c.Distinct(fmt.Sprintf("stress|%s|n%d|%s|%s|est%d|late%d", methodNames[s.Method], s.N, outcome, cls, est, lateN))
		}
	}
	if s.N >= 2 && est >= 2 {
		c.Sample(s.Mode+"/"+outcome, map[string]any{"schedule": s, "events": events, "established": est, "late_established": lateN, "open_at_quiescence": len(open)})
	}
}

// runStressBatch runs w free-running calls concurrently.
func (e *env) runStressBatch(scheds []*sched) {
	type running struct {
		call   *callState
		cancel context.CancelFunc
	}
	var rs []running
	var wg sync.WaitGroup
	base := runtime.NumGoroutine()
	for _, s := range scheds {
		e.nextID++
		call, list, res := e.build(s, e.nextID, e.c.RandN("build", e.nextID))
		e.m.register(call)
		ctx, cancel := context.WithCancel(context.Background())
		rs = append(rs, running{call, cancel})
		if s.CancelDelay == -2 {
			e.cancelCall(call, cancel)
		}
		e.invoke(call, ctx, res, list)
		if s.CancelDelay >= 0 {
			wg.Add(1)
			go func(d int) {
				defer wg.Done()
				delay(d)
				e.cancelCall(call, cancel)
			}(s.CancelDelay)
		}
	}
	wg.Wait()
	var calls []*callState
	for _, r := range rs {
		r := r
		returned, hung := e.awaitReturn(r.call)
		switch {
		case hung:
			if !e.hang(r.call, r.cancel) {
				return
			}
		case !returned:
			e.timeout("stress call did not return", r.call)
			return
		}
		calls = append(calls, r.call)
	}
	e.finish(base, calls)
	for _, r := range rs {
		r.cancel()
		e.m.unregister(r.call)
	}
}

func runC42(c *mon.Ctx) {
	c.Rule("dcs.Plain Primary/MediaOnly/CDN with a harness DialFunc; every dial's outcome (S success, F dial error, J/M dial error that is itself an errors.Join x2 / multierr x3 combination, " +
		"H connection whose handshake write fails, K like H and Close() of that connection also fails, " +
		"X connection to an option with an unparsable secret, B blocks until its context is done, late success after the call returned) and the completion order are scheduled, " +
		"the caller's context is cancelled at every position (incl. before the call). Scripted part: dials are parked in the fake dialer and released one by one; " +
		"EXHAUSTIVE for 2..4 dials (2..5 in the thorough tier) over {S,F,H,B}^n x all completion orders x all cancellation positions, deduplicated by the canonical signature (release prefix up to the first " +
		"success or the cancellation; later dials complete late), each with all 3 methods in the thorough tier, methods rotating over the schedules in the quick tier; random schedules for 5 dials with random protocol/obfuscation/ipv6/test/decoy options; " +
		"every canonical schedule is run with single-error failures and with combined-error failure shapes (F->J/M, H->K; all shape variants in the thorough tier for <= 4 dials, one rotating variant otherwise); " +
		"a call still blocked when every dial has returned and a stop-the-world dump shows every goroutine parked is hang|all-dials-finished; " +
		"free-running stress batches of 8 concurrent calls under -race with random delays. Quiescence = all fake dials returned and the goroutine count is back at the pre-call baseline. " +
		"distinct non-trivial = (method, canonical schedule, outcome) for scripted, (method, n, outcome, cancelled, #established, #late) for stress; only calls with >= 2 dials count.")
	c.Assume("quiescence: runtime.NumGoroutine back at the baseline taken before the call means every goroutine spawned by connect has exited; " +
		"alternatively a stop-the-world goroutine dump in which every goroutine is parked on a channel operation (nothing runnable, sleeping or in a syscall) is a stable state: " +
		"resolver goroutines parked in it are blocked for good; every leak verdict is confirmed on such a dump")
	c.Assume("a connection counts as established when the harness DialFunc returned it; closed when its Close was called at least once")

	e := &env{c: c, m: newMonitor(), rnd: &lockedRand{r: c.Rand("obfs")}, outcomes: map[string]int64{}}
	stop := func() bool { return e.dead || e.bad >= 200 }

	// Scripted phases run on a single P: the scheduler hands the processor straight to the released dial
	// goroutine (no OS-thread wake-ups, which dominate on a loaded machine) and the scripted order is what
	// executes. The stress phase runs on up to 4 Ps.
	procs := runtime.GOMAXPROCS(1)
	phase := time.Now()
	lap := func(name string) {
		c.Set("phase_seconds_"+name, time.Since(phase).Seconds())
		phase = time.Now()
	}
	// 0. degenerate sizes (not counted as distinct classes): no candidates, a single candidate
	for method := 0; method < 3 && !stop(); method++ {
		e.runScripted(&sched{Mode: "scripted", Method: method, N: 0, DC: 2, CancelAt: cancelNone, Decoys: 2})
		for _, plan := range []string{"S", "F", "H", "B"} {
			for _, ca := range []int{cancelNone, cancelPre, 0} {
				s := &sched{Mode: "scripted", Method: method, N: 1, Plan: plan, DC: 2, CancelAt: ca, Decoys: 1}
				if plan != "B" {
					s.Order = []int{0}
				}
				e.runScripted(s)
				c.Add("single_or_no_candidate_calls", 1)
			}
		}
	}

	// 1. exhaustive scripted core
	total, combined := 0, 0
	for n := 2; n <= c.N(4, 5) && !stop(); n++ { // the thorough tier also enumerates 5 dials
		list := enumerate(n)
		c.Set(fmt.Sprintf("canonical_schedules_n%d", n), len(list))
		fr := c.RandN("flavour", n)
		for i, base := range list {
			// thorough: every canonical schedule with each of the 3 methods; quick: methods rotate over the schedules.
			// Failure shapes: variant 0 = single errors; 1..3 = combined errors (errors.Join x2 / multierr x3 dial errors,
			// handshake write failure + failing Close). n <= 4: thorough runs all variants, quick variant 0 plus one
			// rotating combined variant; n = 5 (thorough): variant 0 with all methods plus one rotating combined variant.
			for v := 0; v < 4; v++ {
				sv, ok := base, true
				if v > 0 {
					sv, ok = flavour(base, v, fr)
				}
				if !ok {
					continue
				}
				rotating := v > 0 && (c.Quick() || n == 5)
				if rotating && v != 1+i%3 {
					continue
				}
				for method := 0; method < 3 && !stop(); method++ {
					if (c.Quick() || rotating) && method != (i+v)%3 {
						continue
					}
					s := *sv
					s.Method = method
					e.runScripted(&s)
					total++
					if v > 0 {
						combined++
					}
				}
			}
		}
	}
	c.Set("scripted_exhaustive_calls", total)
	c.Set("scripted_exhaustive_calls_with_combined_errors", combined)
	lap("exhaustive")
	if !stop() {
		c.Exhaustive(true)
	}

	// 2. random scripted schedules, 5 dials (and a share of 2..4 with random options)
	nRandom := c.N(5000, 200000)
	rr := c.Rand("random-scripted")
	for i := 0; i < nRandom && !stop(); i++ {
		n := 5
		if i%5 == 4 {
			n = 2 + rr.IntN(3)
		}
		e.runScripted(randomScripted(rr, n))
	}
	c.Set("scripted_random_calls", nRandom)
	lap("random")

	// 3. free-running stress
	runtime.GOMAXPROCS(min(procs, 4))
	nStress := c.N(500, 20000)
	rs := c.Rand("stress")
	for i := 0; i < nStress && !stop(); i++ {
		batch := make([]*sched, 8)
		for k := range batch {
			batch[k] = randomStress(rs, 2+rs.IntN(4))
		}
		e.runStressBatch(batch)
	}
	c.Set("stress_calls", nStress*8)
	lap("stress")

	c.Set("settle_ok", e.settleOK)
	c.Set("settle_missed", e.settleMiss)
	c.Set("all_failed_order_as_scheduled", e.orderOK)
	c.Set("all_failed_order_differs", e.orderMiss)
	c.Set("closed_connections_established_after_return", e.lateClosed)
	c.Set("closed_connections_established_before_return", e.earlyClosed)
	c.Set("parked_resolver_goroutines_seen", e.parkedSeen)
	c.Set("dials_to_unlisted_addresses", e.m.unknown)
	c.Set("outcomes", e.outcomes)
	if e.bad >= 200 {
		c.Set("stopped_early", "200 violating calls")
	}
	if e.lateClosed == 0 && !e.dead && e.bad == 0 {
		c.Inconclusive("no connection was ever established after its call returned: the late-success arm observed nothing")
	}
}
