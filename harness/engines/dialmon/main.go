// Engine dialmon: runtime monitor for the racing dials of the plain DC
// resolver (C42). A harness-owned DialFunc hands out net.Conns that record
// Close; schedules decide every dial's outcome and the completion order.
package main

import (
	"verif/harness/mon"
)

func main() {
	mon.Main("dialmon", map[string]mon.PropFunc{
		"C42": runC42,
	})
}
