package main

import (
	"errors"
	"fmt"
	"math/rand/v2"
	"net"
	"strconv"
	"strings"

	"go.uber.org/multierr"

	"github.com/gotd/td/telegram/dcs"
	"github.com/gotd/td/tg"
	"github.com/gotd/td/transport"
)

const (
	cancelPre  = -2 // the caller's context is already cancelled when the method is called
	cancelNone = -1
)

var methodNames = []string{"Primary", "MediaOnly", "CDN"}
var protoNames = []string{"intermediate", "abridged", "padded", "full"}

// sched is one case: outcome vector, completion order, cancellation position and
// the resolver configuration.
type sched struct {
	Mode     string `json:"mode"` // scripted | stress
	Method   int    `json:"method"`
	N        int    `json:"n"`
	Plan     string `json:"plan"`      // one outcome letter per dial
	Order    []int  `json:"order"`     // scripted: release order of the non-blocking dials
	CancelAt int    `json:"cancel_at"` // scripted: -2 pre-cancelled, -1 none, p = cancel before the p-th release (len(order) = after all)
	Proto    int    `json:"proto"`
	Obf      bool   `json:"obfuscated"`
	NoObf    bool   `json:"no_obfuscated"`
	V6       bool   `json:"prefer_ipv6"`
	Test     bool   `json:"test"`
	DC       int    `json:"dc"`
	OptObf   []int  `json:"opt_secret,omitempty"` // per dial: 0 plain option, 1 TCPObfuscatedOnly simple secret, 2 dd-style secret
	Decoys   int    `json:"decoys"`
	Flags    []int  `json:"flags,omitempty"` // per dial: bit0 ipv6, bit1 static
	// stress only
	Pre         []int  `json:"pre,omitempty"`
	Post        []int  `json:"post,omitempty"`
	Honor       []bool `json:"honor,omitempty"`
	CancelDelay int    `json:"cancel_delay"` // -1 none, -2 pre-cancelled, otherwise delay units before cancel
}

// canon walks a scripted schedule the way the scheduler will execute it and
// returns its canonical signature: the release prefix up to the point where the
// call must return (first success or cancellation); everything after that point is
// released at once (those dials are "late").
func (s *sched) canon() string {
	var b strings.Builder
	fmt.Fprintf(&b, "%d|%s|", s.N, s.Plan)
	if s.CancelAt == cancelPre {
		b.WriteString("pre")
		return b.String()
	}
	returned := false
	for p, i := range s.Order {
		if s.CancelAt == p {
			b.WriteString("C")
			returned = true
			break
		}
		b.WriteString(strconv.Itoa(i))
		if s.Plan[i] == planSuccess {
			returned = true
			break
		}
	}
	if !returned && len(s.Order) < s.N {
		// some dial blocks and nothing succeeded: only cancellation ends the call
		b.WriteString("C")
	}
	return b.String()
}

// permutations calls f with every permutation of xs (f must not retain the slice).
func permutations(xs []int, f func([]int)) {
	var rec func(k int)
	rec = func(k int) {
		if k == len(xs) {
			f(xs)
			return
		}
		for i := k; i < len(xs); i++ {
			xs[k], xs[i] = xs[i], xs[k]
			rec(k + 1)
			xs[k], xs[i] = xs[i], xs[k]
		}
	}
	rec(0)
}

// enumerate lists every canonical scripted schedule for n dials over the outcome
// alphabet {S,F,H,B}: all outcome vectors x all completion orders x all
// cancellation positions, deduplicated by canon().
func enumerate(n int) []*sched {
	alphabet := []byte{planSuccess, planFail, planHandshake, planBlock}
	var out []*sched
	seen := map[string]bool{}
	vec := make([]byte, n)
	var rec func(k int)
	rec = func(k int) {
		if k < n {
			for _, a := range alphabet {
				vec[k] = a
				rec(k + 1)
			}
			return
		}
		var nonB []int
		for i, a := range vec {
			if a != planBlock {
				nonB = append(nonB, i)
			}
		}
		permutations(nonB, func(order []int) {
			for ca := cancelPre; ca <= len(order); ca++ {
				s := &sched{Mode: "scripted", N: n, Plan: string(vec), Order: append([]int(nil), order...), CancelAt: ca, DC: 2}
				key := s.canon()
				if seen[key] {
					continue
				}
				seen[key] = true
				out = append(out, s)
			}
		})
	}
	rec(0)
	return out
}

// flavour returns a copy of a schedule over {S,F,H,B} in which the failures get
// combined-error shapes: v=1 F->J (errors.Join x2), H->K (write failure + failing
// Close); v=2 F->M (multierr x3), H->K; v=3 a per-dial mix with at least one
// combined failure. ok=false when the schedule has no failure to re-shape.
func flavour(base *sched, v int, r *rand.Rand) (*sched, bool) {
	s := *base
	plan := []byte(s.Plan)
	changed := false
	for i, a := range plan {
		switch a {
		case planFail:
			switch {
			case v == 1:
				plan[i] = planJoin2
			case v == 2:
				plan[i] = planMulti3
			default:
				plan[i] = []byte{planFail, planJoin2, planMulti3}[r.IntN(3)]
			}
		case planHandshake:
			if v != 3 || r.IntN(2) == 0 {
				plan[i] = planHsClose
			}
		}
		changed = changed || plan[i] != a
	}
	if v == 3 && !changed {
		for i, a := range plan {
			if a == planFail {
				plan[i], changed = planJoin2, true
				break
			}
			if a == planHandshake {
				plan[i], changed = planHsClose, true
				break
			}
		}
	}
	s.Plan = string(plan)
	return &s, changed
}

// randomScripted draws one scripted schedule with n dials and a random resolver configuration.
func randomScripted(r *rand.Rand, n int) *sched {
	s := &sched{Mode: "scripted", N: n, DC: 1 + r.IntN(5)}
	alphabet := []byte{planSuccess, planSuccess, planSuccess, planFail, planFail, planJoin2, planMulti3, planHandshake, planHsClose, planBlock, planBadSecret}
	plan := make([]byte, n)
	for i := range plan {
		plan[i] = alphabet[r.IntN(len(alphabet))]
	}
	s.Method = r.IntN(3)
	randomConfig(r, s, plan)
	s.Plan = string(plan)
	for i, a := range plan {
		if a != planBlock {
			s.Order = append(s.Order, i)
		}
	}
	r.Shuffle(len(s.Order), func(i, j int) { s.Order[i], s.Order[j] = s.Order[j], s.Order[i] })
	switch x := r.IntN(10); {
	case x < 4:
		s.CancelAt = cancelNone
	case x < 5:
		s.CancelAt = cancelPre
	default:
		s.CancelAt = r.IntN(len(s.Order) + 1)
	}
	return s
}

// randomConfig draws the resolver options and per-option flavours, and repairs
// outcome letters that the configuration cannot produce.
func randomConfig(r *rand.Rand, s *sched, plan []byte) {
	n := len(plan)
	s.Proto = r.IntN(4)
	s.Obf = r.IntN(3) == 0
	s.V6 = r.IntN(2) == 0
	s.Test = r.IntN(2) == 0
	s.NoObf = s.Method == 0 && r.IntN(3) == 0
	s.Decoys = r.IntN(4)
	s.OptObf = make([]int, n)
	s.Flags = make([]int, n)
	for i := range plan {
		s.Flags[i] = r.IntN(4)
		if !s.NoObf && r.IntN(4) == 0 {
			s.OptObf[i] = 1 + r.IntN(2)
		}
		switch plan[i] {
		case planBadSecret:
			if s.NoObf {
				plan[i] = planFail // obfuscated-only options are filtered out: no secret is ever parsed
			} else {
				s.OptObf[i] = 1
			}
		case planHandshake, planHsClose:
			// the full codec writes no header: without obfuscation nothing is written during connect
			if s.Proto == 3 && !s.Obf && s.OptObf[i] == 0 {
				plan[i] = planJoin2
			}
		}
	}
}

// randomStress draws one free-running schedule.
func randomStress(r *rand.Rand, n int) *sched {
	s := &sched{Mode: "stress", N: n, DC: 1 + r.IntN(5), CancelAt: cancelNone}
	alphabet := []byte{planSuccess, planSuccess, planSuccess, planSuccess, planFail, planFail, planJoin2, planMulti3, planHandshake, planHsClose, planBlock, planLate, planBadSecret}
	plan := make([]byte, n)
	for i := range plan {
		plan[i] = alphabet[r.IntN(len(alphabet))]
	}
	s.Method = r.IntN(3)
	randomConfig(r, s, plan)
	s.Plan = string(plan)
	s.Pre, s.Post, s.Honor = make([]int, n), make([]int, n), make([]bool, n)
	rd := func() int {
		switch r.IntN(4) {
		case 0:
			return 0
		case 1:
			return r.IntN(8)
		case 2:
			return r.IntN(64)
		}
		return 64 + r.IntN(120) // sleeps up to ~120us
	}
	canEnd := true // the call ends without cancellation: a success that ignores the context, or every dial fails
	hasS := false
	for i, a := range plan {
		s.Pre[i], s.Post[i] = rd(), rd()
		s.Honor[i] = r.IntN(2) == 0
		if a == planSuccess {
			hasS = true
		}
		if a == planBlock || a == planLate {
			canEnd = false
		}
	}
	canEnd = canEnd || hasS
	switch x := r.IntN(10); {
	case x < 4 && canEnd:
		s.CancelDelay = -1
	case x < 5:
		s.CancelDelay = -2
	default:
		s.CancelDelay = rd()
	}
	return s
}

func (s *sched) protocol() dcs.Protocol {
	switch s.Proto {
	case 1:
		return transport.Abridged
	case 2:
		return transport.PaddedIntermediate
	case 3:
		return transport.Full
	}
	return transport.Intermediate
}

// build creates the call state, the DC list (candidates + decoys, shuffled) and the resolver.
func (e *env) build(s *sched, id int, r *rand.Rand) (*callState, dcs.List, dcs.Resolver) {
	c := &callState{id: id, s: s, ret: make(chan struct{})}
	ip := func(v6 bool) string {
		if v6 {
			return fmt.Sprintf("fd00::%x:%x", id>>16&0xffff, id&0xffff)
		}
		return fmt.Sprintf("10.%d.%d.%d", id>>16&0xff, id>>8&0xff, id&0xff)
	}
	var opts []tg.DCOption
	for i := 0; i < s.N; i++ {
		flags := 0
		if s.Flags != nil {
			flags = s.Flags[i]
		}
		o := tg.DCOption{ID: s.DC, IPAddress: ip(flags&1 != 0), Port: 1000 + i, Ipv6: flags&1 != 0, Static: flags&2 != 0}
		switch s.Method {
		case 1:
			o.MediaOnly = true
			o.CDN = r.IntN(4) == 0
		case 2:
			o.CDN = true
			o.MediaOnly = r.IntN(4) == 0
		}
		d := &dialState{call: c, idx: i, plan: s.Plan[i]}
		d.token = fmt.Sprintf("dialmon-failure-c%d-d%d", id, i)
		d.fail = errors.New(d.token)
		switch d.plan {
		case planJoin2:
			d.fail = errors.Join(errors.New(d.token+"-a"), errors.New(d.token+"-b"))
		case planMulti3:
			d.fail = multierr.Combine(errors.New(d.token+"-a"), errors.New(d.token+"-b"), errors.New(d.token+"-c"))
		case planHsClose:
			d.cerr = errors.New(d.token + "-close")
		}
		if s.OptObf != nil && s.OptObf[i] != 0 {
			o.TCPObfuscatedOnly = true
			o.Secret = make([]byte, 16)
			for k := range o.Secret {
				o.Secret[k] = byte(r.Uint32())
			}
			if s.OptObf[i] == 2 {
				o.Secret = append([]byte{[]byte{0xef, 0xee, 0xdd}[r.IntN(3)]}, o.Secret...)
			}
		}
		if d.plan == planBadSecret {
			d.token = fmt.Sprintf("badsec-%d-%d", id&0xffff, i) // shorter than 16 bytes: ParseSecret rejects it, the error quotes it
			o.TCPObfuscatedOnly = true
			o.Secret = []byte(d.token)
		}
		if s.Mode == "scripted" {
			d.rel = make(chan struct{})
			d.honor = false
		} else {
			d.pre, d.post, d.honor = s.Pre[i], s.Post[i], s.Honor[i]
		}
		d.addr = net.JoinHostPort(o.IPAddress, strconv.Itoa(o.Port))
		c.dials = append(c.dials, d)
		opts = append(opts, o)
	}
	for k := 0; k < s.Decoys; k++ {
		o := tg.DCOption{ID: s.DC, IPAddress: fmt.Sprintf("172.%d.%d.%d", 16+id>>16&0xf, id>>8&0xff, id&0xff), Port: 2000 + k}
		switch r.IntN(3) {
		case 0: // other DC, any flags
			o.ID = s.DC + 1 + r.IntN(3)
			o.MediaOnly, o.CDN = r.IntN(2) == 0, r.IntN(2) == 0
		case 1: // same DC, flags excluded by the method
			switch s.Method {
			case 0:
				if r.IntN(2) == 0 {
					o.MediaOnly = true
				} else {
					o.CDN = true
				}
			case 1:
				o.CDN = r.IntN(2) == 0
			case 2:
				o.MediaOnly = r.IntN(2) == 0
			}
		case 2: // obfuscated-only option while NoObfuscated is set (else: other DC)
			if s.NoObf {
				o.TCPObfuscatedOnly = true
				o.Secret = make([]byte, 16)
			} else {
				o.ID = s.DC + 7
			}
		}
		d := &dialState{call: c, idx: 100 + k, plan: planSuccess, decoy: true}
		d.addr = net.JoinHostPort(o.IPAddress, strconv.Itoa(o.Port))
		c.decoys = append(c.decoys, d)
		opts = append(opts, o)
	}
	r.Shuffle(len(opts), func(i, j int) { opts[i], opts[j] = opts[j], opts[i] })
	res := dcs.Plain(dcs.PlainOptions{
		Protocol:     s.protocol(),
		Dial:         e.m.dial,
		Rand:         e.rnd,
		NoObfuscated: s.NoObf,
		Obfuscated:   s.Obf,
		PreferIPv6:   s.V6,
	})
	return c, dcs.List{Options: opts, Test: s.Test}, res
}
