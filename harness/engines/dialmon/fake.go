package main

import (
	"context"
	"fmt"
	"math/rand/v2"
	"net"
	"runtime"
	"sync"
	"time"

	"github.com/gotd/td/transport"
)

// Planned dial outcomes.
const (
	planSuccess   = 'S' // dial returns a connection at its turn
	planFail      = 'F' // dial returns its own unique error at its turn
	planHandshake = 'H' // dial returns a connection whose first Write fails (handshake failure after establishment)
	planJoin2     = 'J' // like F, but the dial error is errors.Join of two errors
	planMulti3    = 'M' // like F, but the dial error is multierr.Combine of three errors
	planHsClose   = 'K' // like H, and Close() of that connection also returns an error (dialTransport combines both)
	planBadSecret = 'X' // dial returns a connection, the DC option carries an unparsable secret (failure after establishment, nothing written)
	planBlock     = 'B' // dial blocks until its context is done and returns ctx.Err()
	planLate      = 'L' // stress only: dial ignores its context and returns a connection only after the resolver call returned
)

type evt struct {
	Seq  int64
	Kind string
	Dial int
}

func isDialFail(p byte) bool  { return p == planFail || p == planJoin2 || p == planMulti3 }
func isWriteFail(p byte) bool { return p == planHandshake || p == planHsClose }

func (e evt) String() string { return fmt.Sprintf("%d:%s#%d", e.Seq, e.Kind, e.Dial) }

// monitor owns the event log: one mutex, one logical counter.
type monitor struct {
	mu      sync.Mutex
	seq     int64
	byAddr  map[string]*dialState
	unknown int64 // dials to addresses that are in no list (never expected)
}

func newMonitor() *monitor { return &monitor{byAddr: map[string]*dialState{}} }

// log appends an event to the call's log. Caller holds m.mu.
func (m *monitor) log(c *callState, kind string, dial int) int64 {
	m.seq++
	c.events = append(c.events, evt{Seq: m.seq, Kind: kind, Dial: dial})
	return m.seq
}

type dialState struct {
	call  *callState
	idx   int
	addr  string
	plan  byte
	honor bool          // S/H/X: return ctx.Err() instead of connecting when the context is already done at the dial's turn
	decoy bool          // address that is in the list but must be filtered out by the resolver method
	rel   chan struct{} // scripted mode: closed by the scheduler to let the dial complete; nil = free running
	pre   int           // stress: delay before the outcome
	post  int           // stress: planLate delay after the call returned
	token string        // unique text of this dial's failure
	fail  error         // dial error (F, J, M) or write error (H, K)
	cerr  error         // K: error returned by Close

	// monitored, guarded by monitor.mu
	starts  int
	failSeq int64 // F: dial returned the error; H: Write returned the error; X: established
}

type callState struct {
	id      int
	s       *sched
	dials   []*dialState // candidates, index = dial index
	decoys  []*dialState
	ret     chan struct{}
	retConn transport.Conn
	retErr  error
	hung    bool // hang|all-dials-finished was recorded; the call was then ended by cancellation

	// guarded by monitor.mu
	started   int
	finished  int
	conns     []*fakeConn
	events    []evt
	cancelSeq int64
	retSeq    int64
}

type fakeConn struct {
	m *monitor
	d *dialState

	closedCh chan struct{}
	once     sync.Once

	// guarded by monitor.mu
	estSeq   int64
	closes   int
	closeSeq int64
	writes   int
	wfailed  bool
}

type fakeAddr string

func (a fakeAddr) Network() string { return "tcp" }
func (a fakeAddr) String() string  { return string(a) }

func (c *fakeConn) Read(b []byte) (int, error) {
	<-c.closedCh
	return 0, net.ErrClosed
}

func (c *fakeConn) Write(b []byte) (int, error) {
	c.m.mu.Lock()
	defer c.m.mu.Unlock()
	if c.closes > 0 {
		return 0, net.ErrClosed
	}
	c.writes++
	if isWriteFail(c.d.plan) && !c.wfailed {
		c.wfailed = true
		c.d.failSeq = c.m.log(c.d.call, "wfail", c.d.idx)
		return 0, c.d.fail
	}
	return len(b), nil
}

func (c *fakeConn) Close() error {
	c.m.mu.Lock()
	c.closes++
	if c.closes == 1 {
		c.closeSeq = c.m.log(c.d.call, "close", c.d.idx)
	}
	c.m.mu.Unlock()
	c.once.Do(func() { close(c.closedCh) })
	return c.d.cerr // nil except for K
}

func (c *fakeConn) LocalAddr() net.Addr                { return fakeAddr("harness") }
func (c *fakeConn) RemoteAddr() net.Addr               { return fakeAddr(c.d.addr) }
func (c *fakeConn) SetDeadline(t time.Time) error      { return nil }
func (c *fakeConn) SetReadDeadline(t time.Time) error  { return nil }
func (c *fakeConn) SetWriteDeadline(t time.Time) error { return nil }

func delay(k int) {
	if k > 64 {
		time.Sleep(time.Duration(k-64) * time.Microsecond)
		return
	}
	for ; k > 0; k-- {
		runtime.Gosched()
	}
}

// dial is the DialFunc given to dcs.Plain.
func (m *monitor) dial(ctx context.Context, network, addr string) (net.Conn, error) {
	m.mu.Lock()
	d := m.byAddr[addr]
	if d == nil {
		m.unknown++
		m.mu.Unlock()
		return nil, fmt.Errorf("dialmon: address %s is in no list", addr)
	}
	d.starts++
	d.call.started++
	m.log(d.call, "start", d.idx)
	m.mu.Unlock()

	delay(d.pre)
	if d.rel != nil && d.plan != planBlock {
		<-d.rel // the scheduler decides the completion order; the context is deliberately ignored here
	}
	switch d.plan {
	case planBlock:
		<-ctx.Done()
		return m.failed(d, ctx.Err(), "ctxerr")
	case planFail, planJoin2, planMulti3:
		return m.failed(d, d.fail, "fail")
	case planLate:
		<-d.call.ret
		delay(d.post)
	default:
		if d.honor && ctx.Err() != nil {
			return m.failed(d, ctx.Err(), "ctxerr")
		}
	}
	conn := &fakeConn{m: m, d: d, closedCh: make(chan struct{})}
	m.mu.Lock()
	conn.estSeq = m.log(d.call, "est", d.idx)
	if d.plan == planBadSecret {
		d.failSeq = conn.estSeq
	}
	d.call.conns = append(d.call.conns, conn)
	d.call.finished++
	m.mu.Unlock()
	return conn, nil
}

func (m *monitor) failed(d *dialState, err error, kind string) (net.Conn, error) {
	m.mu.Lock()
	seq := m.log(d.call, kind, d.idx)
	if kind == "fail" {
		d.failSeq = seq
	}
	d.call.finished++
	m.mu.Unlock()
	return nil, err
}

func (m *monitor) register(c *callState) {
	m.mu.Lock()
	for _, d := range c.dials {
		m.byAddr[d.addr] = d
	}
	for _, d := range c.decoys {
		m.byAddr[d.addr] = d
	}
	m.mu.Unlock()
}

func (m *monitor) unregister(c *callState) {
	m.mu.Lock()
	for _, d := range c.dials {
		delete(m.byAddr, d.addr)
	}
	for _, d := range c.decoys {
		delete(m.byAddr, d.addr)
	}
	m.mu.Unlock()
}

// lockedRand is the io.Reader given to the obfuscator (shared by concurrent calls).
type lockedRand struct {
	mu sync.Mutex
	r  *rand.Rand
}

func (l *lockedRand) Read(p []byte) (int, error) {
	l.mu.Lock()
	for i := range p {
		p[i] = byte(l.r.Uint32())
	}
	l.mu.Unlock()
	return len(p), nil
}
