package main

import (
	"encoding/json"
	"fmt"
	"math/rand/v2"
	"os"
	"path/filepath"
	"strings"
	"sync"
	"time"

	"verif/harness/mon"
)

// runC24: connection-level arm of C24. Every pending Conn.Invoke gets exactly one
// answer; it must return exactly once with exactly that answer: nil + the named
// result bytes, or the RPC error (tgerr.Error: code and message) / bad-message
// error (code) of the answer that named it. Never a decoder error, never the
// bytes of the error handed to Output.Decode, never another request's outcome.

var c24Forms = []string{"result", "result-gz", "error", "error-gz", "bad"}
var c24Wraps = []string{"bare", "container", "gzip(container)", "container[gzip]", "gzip", "container[container]"}

func genC24(r *rand.Rand) *tcase {
	g := &gen{r: r, label: map[string]bool{}}
	g.ids = g.pendingIDs()
	k := len(g.ids)
	forms := make([]string, k)
	leaves := make([]*node, k)
	for i := range g.ids {
		f := c24Forms[r.IntN(len(c24Forms))]
		nd := g.leaf(f)
		for nd.kind == "bad" && nd.code == 48 { // 48 makes Invoke retry; the retry path belongs to C26/C41
			nd.code = badCodes[r.IntN(len(badCodes))]
		}
		if nd.kind == "result" && !nd.isErr && len(nd.body) < 4 {
			nd.body = g.token()
		}
		nd.id, nd.idClass = g.ids[i], "match"
		forms[i], leaves[i] = f, nd
	}
	// distribute the answers over steps / containers in a shuffled order
	var trees []*node
	wrapNames := map[string]bool{}
	perm := r.Perm(k)
	for p := 0; p < k; {
		n := 1 + r.IntN(k-p)
		group := make([]*node, 0, n)
		for _, pi := range perm[p : p+n] {
			group = append(group, leaves[pi])
		}
		p += n
		w := c24Wraps[r.IntN(len(c24Wraps))]
		if len(group) > 1 && (w == "bare" || w == "gzip") {
			w = "container"
		}
		wrapNames[w] = true
		switch w {
		case "bare":
			trees = append(trees, group[0])
		case "gzip":
			trees = append(trees, &node{kind: "gzip", kids: []*node{group[0]}})
		case "container":
			trees = append(trees, &node{kind: "container", kids: group})
		case "gzip(container)":
			trees = append(trees, &node{kind: "gzip", kids: []*node{{kind: "container", kids: group}}})
		case "container[gzip]":
			c := &node{kind: "container"}
			for _, n := range group {
				c.kids = append(c.kids, &node{kind: "gzip", kids: []*node{n}})
			}
			trees = append(trees, c)
		case "container[container]":
			trees = append(trees, &node{kind: "container", kids: []*node{{kind: "container", kids: group}, {kind: "ack", ids: g.ids}}})
		}
	}
	tc := g.modeledCase("c24/answers", false, trees)
	tc.Forms = forms
	for w := range wrapNames {
		tc.Src += w + " "
	}
	return tc
}

func runC24(c *mon.Ctx) {
	initTypes()
	c.Rule("connection-level arm (engine mthandle): fresh mtproto.Conn in a child process, K=1..6 goroutines blocked in Conn.Invoke with known msg ids; every request gets exactly one answer with " +
		"unique content from {rpc_result(result), rpc_result(gzip_packed(result)), rpc_result(rpc_error), rpc_result(gzip_packed(rpc_error)), bad_msg_notification}, answers shuffled and spread " +
		"over 1..K messages: bare, in a container, gzip(container), container[gzip(..)], outer gzip, nested container; fast path = verif hook VerifHandleMessage, slow path = payload encrypted by the " +
		"reference model and handled by the real read loop. Oracle per invocation: returns nil with exactly one Output.Decode carrying exactly the named result bytes, or an error for which errors.As " +
		"finds *tgerr.Error with exactly the named code and message (bad_msg: the connection's bad-message error with the named code); anything else (decoder run on error bytes, another request's " +
		"outcome, no return) is a violation. distinct = (answer form, wrapping set, K, path, outcome)")
	c.Assume("harness/refmodel encryption; harness MessageIDSource + fake transport (ids verified on the frames sent); a settle watchdog firing is inconclusive")
	if c.Replay != "" {
		replayC24(c)
		return
	}
	r := c.Rand("c24-conn")
	n := c.N(1500, 30000)
	cases := make([]*tcase, n)
	for i := range cases {
		cases[i] = genC24(r)
	}
	var slow []*tcase
	for i, tc := range cases {
		ok := true
		for _, st := range tc.Steps {
			ok = ok && len(st.P) > 0 && len(st.P)%4 == 0
		}
		if ok && (!c.Quick() || i%3 == 0) {
			slow = append(slow, tc)
		}
	}
	var wg sync.WaitGroup
	run := func(mode string, list []*tcase, chunk int) {
		for lo := 0; lo < len(list); lo += chunk {
			hi := min(lo+chunk, len(list))
			wg.Add(1)
			go func() {
				defer wg.Done()
				inputs := make([][]byte, 0, hi-lo)
				for _, tc := range list[lo:hi] {
					b, _ := json.Marshal(tc)
					inputs = append(inputs, b)
				}
				name := fmt.Sprintf("c24-%s-%06d", mode, lo)
				outs := mon.RunBatch(c, "c23-"+mode, name, inputs, mon.BatchOpts{MemLimitMB: 2048, Timeout: 15 * time.Minute, MaxProcs: 2})
				for k, o := range outs {
					judgeC24(c, list[lo+k], o, mode, name)
				}
				os.RemoveAll(filepath.Join(c.Out, "batch-"+name))
			}()
		}
	}
	run("fast", cases, max(1, (len(cases)+3)/4))
	run("slow", slow, max(1, (len(slow)+1)/2))
	wg.Wait()
	c.Set("conn_cases_fast", len(cases))
	c.Set("conn_cases_slow", len(slow))
}

var c24mu sync.Mutex
var c24timeouts int

func judgeC24(c *mon.Ctx, tc *tcase, o mon.Outcome, mode, batch string) {
	wit := func(extra map[string]any) map[string]any {
		w := map[string]any{"mode": mode, "case": tc}
		for k, v := range extra {
			w[k] = v
		}
		return w
	}
	switch {
	case o.Class == "ok":
	case o.Class == "timeout" || o.Class == "missing":
		c.Inconclusive(fmt.Sprintf("conn arm %s: child %s", mode, o.Class))
		return
	default:
		c.Eval(1)
		c.Violate("conn|"+crashSig(o.Class, fullStderr(c, batch, o.Stderr)), wit(map[string]any{"class": o.Class, "stderr": o.Stderr}))
		return
	}
	var res tresult
	if err := json.Unmarshal(o.Result, &res); err != nil {
		c.Inconclusive("conn arm child result: " + err.Error())
		return
	}
	switch {
	case res.Skipped != "":
		return
	case res.Panic != "":
		c.Eval(1)
		c.Violate("conn|crash|panic|"+crashFrame(res.Stack), wit(map[string]any{"panic": res.Panic, "stack": tailHead(res.Stack, 3000)}))
		return
	case res.Harness != "":
		c.Inconclusive("conn arm harness: " + res.Harness)
		return
	case len(res.Timeout) > 0:
		c24mu.Lock()
		c24timeouts++
		first := c24timeouts <= 3
		c24mu.Unlock()
		if first {
			c.Inconclusive(fmt.Sprintf("conn arm settle watchdog (%s): %s", mode, strings.Join(res.Timeout, "; ")))
			c.Sample("conn-watchdog", wit(map[string]any{"result": res}))
		}
		return
	case len(res.Inv) != len(tc.IDs) || len(tc.Must) != len(tc.IDs):
		c.Inconclusive("conn arm: child result shape")
		return
	}
	c.Eval(1)
	for i, iv := range res.Inv {
		if iv.SentID != tc.IDs[i] {
			c.Inconclusive(fmt.Sprintf("conn arm: invocation %d sent under id %d, wanted %d", i, iv.SentID, tc.IDs[i]))
			return
		}
		must, form := tc.Must[i], tc.Forms[i]
		wantDecs := 0
		if strings.HasPrefix(must, "res:") {
			wantDecs = 1
		}
		ok := iv.Out == must && len(iv.Decs) == wantDecs && (wantDecs == 0 || iv.Decs[0] == must)
		c.Distinct(fmt.Sprintf("conn/%s/%s/K=%d/%s/%s", form, strings.TrimSpace(tc.Src), len(tc.IDs), mode, outClass(iv.Out)))
		if ok {
			continue
		}
		// whose outcome is it?
		other := ""
		for j2, m := range tc.Must {
			if j2 != i && (m == iv.Out || (len(iv.Decs) > 0 && m == iv.Decs[0])) {
				other = "|outcome-of-another-request"
			}
		}
		got := outClass(iv.Out)
		if got == "res" && wantDecs == 0 {
			got = "output-decoded-non-result-bytes"
		}
		c.Violate(fmt.Sprintf("conn|answer=%s|want=%s|got=%s%s", form, outClass(must), got, other),
			wit(map[string]any{"invocation": i, "its_id": tc.IDs[i], "answer_form": form, "must_return": must, "returned": iv.Out, "output_decodes": iv.Decs, "result": res}))
	}
	c.Sample("conn/"+mode, map[string]any{"ids": tc.IDs, "forms": tc.Forms, "wraps": tc.Src, "steps": len(tc.Steps), "must": tc.Must, "result": res})
}

func replayC24(c *mon.Ctx) {
	data, err := os.ReadFile(c.Replay)
	if err != nil {
		c.Inconclusive("replay: " + err.Error())
		return
	}
	var rf struct {
		Witness struct {
			Mode string `json:"mode"`
			Case *tcase `json:"case"`
		} `json:"witness"`
	}
	if err := json.Unmarshal(data, &rf); err != nil || rf.Witness.Case == nil || len(rf.Witness.Case.Forms) == 0 {
		// a replay file of another C24 engine: nothing to replay here, and nothing observed
		c.Distinct("replay/not-a-conn-arm-witness")
		c.Distinct("replay")
		return
	}
	mode := rf.Witness.Mode
	if mode != "slow" {
		mode = "fast"
	}
	in, _ := json.Marshal(rf.Witness.Case)
	for _, o := range mon.RunBatch(c, "c23-"+mode, "c24-replay", [][]byte{in}, mon.BatchOpts{MemLimitMB: 2048, MaxProcs: 2}) {
		c.Distinct("replay/" + o.Class)
		c.Distinct("replay")
		judgeC24(c, rf.Witness.Case, o, mode, "c24-replay")
	}
}
