// Engine mthandle: runtime monitor for C23 (handling any decrypted server
// payload never crashes the connection; results are only routed to the request
// whose message id they name).
//
// Every case (pending invocations + one or more server payloads) is executed in
// a child process on a fresh mtproto.Conn, so that a panic or a fatal error is
// attributed to exactly one case. The parent generates the cases and judges the
// outcomes the child reports.
package main

import (
	"verif/harness/mon"
)

func main() {
	mon.RegisterBatch("c23-fast", func(in []byte) any { return childRun(in, false) })
	mon.RegisterBatch("c23-slow", func(in []byte) any { return childRun(in, true) })
	mon.RegisterBatch("c23-deep", childDeep)
	mon.RegisterBatch("c23-conc", childConc)
	mon.Main("mthandle", map[string]mon.PropFunc{
		"C23": runC23,
		"C24": runC24,
	})
}
