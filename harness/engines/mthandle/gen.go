package main

import (
	"fmt"
	"math/rand/v2"
	"strings"

	"github.com/gotd/td/bin"
	"github.com/gotd/td/proto"
)

// ---- payload tree ------------------------------------------------------------

type node struct {
	kind string // result | bad | badsalt | ack | pong | session | salts | detailed | update | unknown | trunc | raw | container | gzip

	id      int64  // request id named (result, bad, badsalt), msg id (pong, detailed)
	idClass string // how id relates to the pending ids
	body    []byte // result body
	gz      bool   // result body is gzip_packed
	isErr   bool   // result body is rpc_error
	code    int
	msg     string
	salt    int64
	pongIn  bool // result body is a pong
	pingID  int64
	ids     []int64 // ack
	n       int     // salts count
	inner   *node   // trunc: cut encoding of inner
	cut     int
	raw     []byte
	kids    []*node
}

func enc(n *node) []byte {
	var b bin.Buffer
	switch n.kind {
	case "result":
		var body bin.Buffer
		switch {
		case n.isErr:
			body.PutID(idRPCError)
			body.PutInt(n.code)
			body.PutString(n.msg)
		case n.pongIn:
			body.PutID(idPong)
			body.PutLong(n.id)
			body.PutLong(n.pingID)
		default:
			body.Put(n.body)
		}
		b.PutID(idResult)
		b.PutLong(n.id)
		if n.gz {
			if err := (proto.GZIP{Data: body.Buf}).Encode(&b); err != nil {
				panic(err)
			}
		} else {
			b.Put(body.Buf)
		}
	case "bad":
		b.PutID(idBadMsg)
		b.PutLong(n.id)
		b.PutInt(3)
		b.PutInt(n.code)
	case "badsalt":
		b.PutID(idBadSalt)
		b.PutLong(n.id)
		b.PutInt(3)
		b.PutInt(n.code)
		b.PutLong(n.salt)
	case "ack":
		b.PutID(idAck)
		b.PutVectorHeader(len(n.ids))
		for _, id := range n.ids {
			b.PutLong(id)
		}
	case "pong":
		b.PutID(idPong)
		b.PutLong(n.id)
		b.PutLong(n.pingID)
	case "session":
		b.PutID(idNewSession)
		b.PutLong(n.id)
		b.PutLong(n.salt ^ 0x55)
		b.PutLong(n.salt)
	case "salts":
		b.PutID(idFutSalts)
		b.PutLong(n.id)
		b.PutInt(int(t0.Unix()))
		b.PutInt(n.n) // bare vector of future_salt
		for i := 0; i < n.n; i++ {
			b.PutInt(int(t0.Unix()) + 1800*i)
			b.PutInt(int(t0.Unix()) + 1800*(i+1))
			b.PutLong(n.salt + int64(i))
		}
	case "detailed":
		if n.code%2 == 0 {
			b.PutID(idDetailed)
			b.PutLong(n.id)
		} else {
			b.PutID(idNewDetail)
		}
		b.PutLong(n.id + 1)
		b.PutInt(16)
		b.PutInt(0)
	case "update":
		if n.code%2 == 0 {
			b.PutID(0xe317af7e) // updatesTooLong: decoded by the update handler
		} else {
			b.PutID(idRPCError) // a bare rpc_error outside rpc_result goes to the update handler too
			b.PutInt(n.code)
			b.PutString(n.msg)
		}
	case "unknown":
		b.PutID(uint32(0xdead0000) | uint32(n.code&0xffff))
		b.PutLong(n.id)
	case "trunc":
		full := enc(n.inner)
		c := n.cut
		if c > len(full) {
			c = len(full)
		}
		b.Put(full[:c])
	case "raw":
		b.Put(n.raw)
	case "container":
		b.PutID(idContainer)
		b.PutInt(len(n.kids))
		for i, k := range n.kids {
			body := enc(k)
			b.PutLong(t0.Unix()<<32 | int64(i*4+1))
			b.PutInt(2*i + 1)
			b.PutInt(len(body))
			b.Put(body)
		}
	case "gzip":
		if err := (proto.GZIP{Data: enc(n.kids[0])}).Encode(&b); err != nil {
			panic(err)
		}
	default:
		panic("node kind " + n.kind)
	}
	return b.Buf
}

// ---- model -------------------------------------------------------------------

const (
	stPending = iota
	stRetryingNow
	stResolvedNow
	stResolved
)

type model struct {
	ids     []int64
	state   []int
	retried []bool
	tok     []string
	det     []bool
	ping    bool // ping pending
	pingDet bool
	pingRes bool

	// per step
	fuzzy   bool
	notes   []note
	classes map[string]bool
}

func newModel(ids []int64, ping bool) *model {
	m := &model{ids: ids, state: make([]int, len(ids)), retried: make([]bool, len(ids)), tok: make([]string, len(ids)),
		det: make([]bool, len(ids)), ping: ping, pingDet: true}
	for i := range m.det {
		m.det[i] = true
	}
	return m
}

func (m *model) idx(id int64) int {
	for i, v := range m.ids {
		if v == id {
			return i
		}
	}
	return -1
}

// notify models rpc.Engine.NotifyResult / NotifyError for id; isResult tells
// whether a second delivery can make the handler return an error.
func (m *model) notify(id int64, tok string, retry, isResult bool) {
	m.notes = append(m.notes, note{ID: id, Tok: tok})
	i := m.idx(id)
	if i < 0 {
		return
	}
	if m.fuzzy {
		m.det[i] = false
	}
	switch m.state[i] {
	case stPending:
		if retry && !m.retried[i] {
			m.retried[i] = true
			m.state[i] = stRetryingNow
			return
		}
		m.state[i], m.tok[i] = stResolvedNow, tok
	case stRetryingNow:
		// The invocation goroutine re-registers concurrently: either outcome is possible.
		m.det[i] = false
		if isResult {
			m.fuzzy = true
		}
	case stResolvedNow:
		// Second delivery before the invocation returned: "handler already called"
		// or "callback not set", depending on scheduling. The outcome of i is settled,
		// but a result makes the rest of the enclosing containers nondeterministic.
		if isResult {
			m.fuzzy = true
		}
	case stResolved:
		// callback removed: dropped silently
	}
}

// sim models handleMessage on n; it returns true when the handler returns an error.
func (m *model) sim(n *node) (aborted bool) {
	switch n.kind {
	case "container":
		for _, k := range n.kids {
			if m.sim(k) {
				return true
			}
		}
		return false
	case "gzip":
		return m.sim(n.kids[0])
	case "result":
		switch {
		case n.pongIn:
			m.pong(n.pingID)
		case n.isErr:
			m.notify(n.id, rpcTok(n.code, n.msg), false, false)
		default:
			if len(n.body) < 4 {
				return true // PeekID on the result body fails
			}
			m.notify(n.id, resTok(n.body), false, true)
		}
		return false
	case "bad":
		m.notify(n.id, badTok(n.code, 0), n.code == 48, false)
		return false
	case "badsalt":
		m.notify(n.id, badTok(n.code, n.salt), n.code == 48, false)
		return false
	case "pong":
		m.pong(n.pingID)
		return false
	case "ack", "session", "salts", "detailed":
		return false
	case "update":
		return false
	case "unknown", "trunc":
		return true
	}
	panic("sim: " + n.kind)
}

func (m *model) pong(id int64) {
	if id == pingConst && m.ping {
		if m.fuzzy {
			m.pingDet = false
		}
		m.pingRes = true
	}
}

// step runs the model over one payload tree and fills the step's expectations.
func (m *model) step(n *node, st *tstep) {
	m.fuzzy, m.notes = false, nil
	pingBefore := m.pingRes
	aborted := m.sim(n)
	st.Notes = m.notes
	switch {
	case m.fuzzy:
		st.Err = 0
	case aborted:
		st.Err = 2
	default:
		st.Err = 1
	}
	for i := range m.state {
		switch m.state[i] {
		case stRetryingNow:
			m.state[i] = stPending
			if m.det[i] {
				st.Await = append(st.Await, i)
			}
		case stResolvedNow:
			m.state[i] = stResolved
			if m.det[i] && !strings.HasPrefix(m.tok[i], "res:") {
				st.Await = append(st.Await, i) // errors are handed over asynchronously; a result shows up as Output.Decode at once
			}
		}
	}
	if m.pingRes && !pingBefore && m.pingDet {
		st.AwaitPing = true
	}
}

func (m *model) mustPing() string {
	switch {
	case !m.ping || !m.pingDet:
		return ""
	case m.pingRes:
		return "pong"
	}
	return "canceled"
}

func (m *model) must() []string {
	out := make([]string, len(m.ids))
	for i := range out {
		switch {
		case !m.det[i]:
			out[i] = ""
		case m.state[i] == stResolved:
			out[i] = m.tok[i]
		default:
			out[i] = "pending"
		}
	}
	return out
}

// ---- generators --------------------------------------------------------------

type gen struct {
	r     *rand.Rand
	ids   []int64
	seq   int
	label map[string]bool // classes used by the current case
}

func (g *gen) pendingIDs() []int64 {
	k := 1 + g.r.IntN(6)
	stride := int64(4)
	if g.r.IntN(4) == 0 {
		stride = 8 // id±4 of a pending request is then never pending itself
	}
	base := (t0.Unix()-int64(g.r.IntN(200)))<<32 | int64(g.r.Uint32()&0x3ffffffc)
	ids := make([]int64, k)
	for i := range ids {
		ids[i] = base + stride*int64(i)
	}
	return ids
}

var targetClasses = []string{"match", "match", "match", "off+4", "off-4", "unrelated", "zero", "minus1", "srvbit", "hibit", "lo32", "hi32"}

func (g *gen) target() (int64, string) {
	cls := targetClasses[g.r.IntN(len(targetClasses))]
	p := g.ids[g.r.IntN(len(g.ids))]
	var id int64
	switch cls {
	case "match":
		id = p
	case "off+4":
		id = p + 4
	case "off-4":
		id = p - 4
	case "unrelated":
		id = int64(g.r.Uint64())
	case "zero":
		id = 0
	case "minus1":
		id = -1
	case "srvbit":
		id = p | 1
	case "hibit":
		id = p ^ (-1 << 63)
	case "lo32":
		id = int64(g.r.Uint32())<<32 | (p & 0xffffffff)
	case "hi32":
		id = (p &^ 0xffffffff) | int64(g.r.Uint32())
	}
	// report what it is relative to the pending set
	for _, v := range g.ids {
		if v == id && cls != "match" {
			cls += "=pending"
		}
	}
	g.label["t:"+cls] = true
	return id, cls
}

// token returns unique result bytes: an id the type map does not know + counters.
func (g *gen) token() []byte {
	g.seq++
	var b bin.Buffer
	b.PutID(0x7e570000 | uint32(g.seq&0xffff))
	b.PutLong(int64(g.r.Uint64()))
	n := g.r.IntN(6)
	for i := 0; i < n; i++ {
		b.PutInt(g.seq*100 + i)
	}
	if g.r.IntN(10) == 0 {
		b.PutBytes(make([]byte, 200+g.r.IntN(3000)))
	}
	return b.Buf
}

var badCodes = []int{16, 17, 18, 19, 20, 32, 33, 34, 35, 48, 64, 0, -1, 1 << 30}

func (g *gen) leaf(kind string) *node {
	g.label["k:"+kind] = true
	g.seq++
	switch kind {
	case "result", "result-gz":
		id, cls := g.target()
		body := g.token()
		if g.r.IntN(25) == 0 {
			body = body[:g.r.IntN(4)] // result without a constructor id: the handler must fail cleanly
			g.label["k:result-short"] = true
		}
		return &node{kind: "result", id: id, idClass: cls, body: body, gz: kind == "result-gz"}
	case "error", "error-gz":
		id, cls := g.target()
		msgs := []string{"FLOOD_WAIT_%d", "TOKEN_%d", "PHONE_MIGRATE_%d", "X%d", "", "_%d_", "ERR_%d_%d"}
		f := msgs[g.r.IntN(len(msgs))]
		msg := f
		switch f {
		case "":
		case "ERR_%d_%d":
			msg = fmt.Sprintf(f, g.seq, g.r.IntN(1000))
		default:
			msg = fmt.Sprintf(f, g.seq)
		}
		return &node{kind: "result", id: id, idClass: cls, isErr: true, code: []int{400, 420, 303, 500, -503, 0}[g.r.IntN(6)]*1000 + g.seq%1000, msg: msg, gz: kind == "error-gz"}
	case "result-pong":
		id, cls := g.target()
		pid := int64(g.r.Uint64())
		if g.r.IntN(2) == 0 {
			pid = pingConst
		}
		return &node{kind: "result", id: id, idClass: cls, pongIn: true, pingID: pid, gz: g.r.IntN(3) == 0}
	case "bad":
		id, cls := g.target()
		return &node{kind: "bad", id: id, idClass: cls, code: badCodes[g.r.IntN(len(badCodes))]}
	case "badsalt":
		id, cls := g.target()
		code := 48
		if g.r.IntN(4) == 0 {
			code = badCodes[g.r.IntN(len(badCodes))]
		}
		return &node{kind: "badsalt", id: id, idClass: cls, code: code, salt: int64(g.r.Uint64())}
	case "ack":
		n := g.r.IntN(5)
		ids := make([]int64, n)
		for i := range ids {
			ids[i], _ = g.target()
		}
		return &node{kind: "ack", ids: ids}
	case "pong":
		id, _ := g.target()
		pid := int64(g.r.Uint64())
		if g.r.IntN(2) == 0 {
			pid = pingConst
		}
		return &node{kind: "pong", id: id, pingID: pid}
	case "session":
		first := []int64{t0.Unix() << 32, 0, -1, 1<<63 - 1, (t0.Unix() + 100000) << 32, int64(g.r.Uint64())}[g.r.IntN(6)]
		return &node{kind: "session", id: first, salt: int64(g.r.Uint64())}
	case "salts":
		id, _ := g.target()
		return &node{kind: "salts", id: id, n: g.r.IntN(6), salt: int64(g.r.Uint64())}
	case "detailed":
		id, _ := g.target()
		return &node{kind: "detailed", id: id, code: g.r.IntN(2)}
	case "update":
		return &node{kind: "update", code: g.r.IntN(200), msg: "BARE"}
	case "unknown":
		code := g.r.IntN(1 << 16)
		for typeCons.New(uint32(0xdead0000)|uint32(code)) != nil {
			code = (code + 1) & 0xffff
		}
		return &node{kind: "unknown", code: code, id: int64(g.r.Uint64())}
	case "trunc":
		kinds := []string{"result", "error", "bad", "badsalt", "ack", "pong", "session", "salts", "result-gz"}
		in := g.leaf(kinds[g.r.IntN(len(kinds))])
		full := enc(in)
		cut := g.r.IntN(len(full))
		if in.kind == "result" && cut >= 12 {
			cut = g.r.IntN(12) // a result cut after the request id is still a (shorter) result
		}
		if in.kind == "ack" && cut >= 12 {
			cut = g.r.IntN(12)
		}
		return &node{kind: "trunc", inner: in, cut: cut}
	}
	panic("leaf " + kind)
}

var leafKinds = []string{"result", "result", "result-gz", "error", "error-gz", "result-pong", "bad", "badsalt", "ack", "pong", "session", "salts", "detailed", "update", "unknown", "trunc"}
var okLeafKinds = []string{"result", "result", "result-gz", "error", "error-gz", "result-pong", "bad", "badsalt", "ack", "pong", "session", "salts", "detailed", "update"}

func (g *gen) tree(depth int, kinds []string) *node {
	x := g.r.IntN(10)
	switch {
	case depth > 0 && x < 3:
		n := g.r.IntN(7)
		c := &node{kind: "container"}
		for i := 0; i < n; i++ {
			c.kids = append(c.kids, g.tree(depth-1, kinds))
		}
		g.label[fmt.Sprintf("k:container/d%d", depth)] = true
		return c
	case depth > 0 && x == 3:
		g.label[fmt.Sprintf("k:gzip/d%d", depth)] = true
		return &node{kind: "gzip", kids: []*node{g.tree(depth-1, kinds)}}
	}
	return g.leaf(kinds[g.r.IntN(len(kinds))])
}

func (g *gen) outerID() int64 {
	switch g.r.IntN(5) {
	case 0:
		g.label["outer:pending"] = true
		return g.ids[g.r.IntN(len(g.ids))]
	case 1:
		return 0
	case 2:
		return int64(g.r.Uint64())
	}
	return t0.Unix()<<32 | int64(g.r.Uint32()&^3) | 1
}

// modeledCase builds a case from trees (one per step) and runs the model over it.
func (g *gen) modeledCase(kind string, ping bool, trees []*node) *tcase {
	tc := &tcase{Kind: kind, IDs: g.ids, Ping: ping, Modeled: true}
	m := newModel(g.ids, ping)
	for _, t := range trees {
		st := tstep{MsgID: g.outerID(), P: enc(t)}
		m.step(t, &st)
		tc.Steps = append(tc.Steps, st)
	}
	tc.Must = m.must()
	tc.MustPing = m.mustPing()
	return tc
}

// family generates n modeled cases of one family.
func genFamily(r *rand.Rand, fam string, n int, out func(*tcase, map[string]bool)) {
	for i := 0; i < n; i++ {
		g := &gen{r: r, label: map[string]bool{}}
		g.ids = g.pendingIDs()
		ping := r.IntN(3) == 0
		var trees []*node
		switch fam {
		case "single":
			trees = []*node{g.leaf(leafKinds[i%len(leafKinds)])}
		case "container":
			c := &node{kind: "container"}
			for j, k := 0, 1+r.IntN(8); j < k; j++ {
				c.kids = append(c.kids, g.leaf(okLeafKinds[r.IntN(len(okLeafKinds))]))
			}
			trees = []*node{c}
		case "container-err":
			c := &node{kind: "container"}
			for j, k := 0, 2+r.IntN(6); j < k; j++ {
				c.kids = append(c.kids, g.leaf(leafKinds[r.IntN(len(leafKinds))]))
			}
			trees = []*node{c}
		case "nested":
			trees = []*node{g.tree(3, leafKinds)}
		case "gzip":
			trees = []*node{{kind: "gzip", kids: []*node{g.tree(2, okLeafKinds)}}}
		case "sequence":
			for j, k := 0, 2+r.IntN(6); j < k; j++ {
				trees = append(trees, g.tree(1, leafKinds))
			}
		case "resolve-all":
			// every pending request gets exactly one answer, in a shuffled order, spread over steps
			perm := r.Perm(len(g.ids))
			var cur *node
			for _, pi := range perm {
				kinds := []string{"result", "result-gz", "error", "error-gz", "bad", "badsalt"}
				nd := g.leaf(kinds[r.IntN(len(kinds))])
				nd.id, nd.idClass = g.ids[pi], "match"
				if cur == nil || r.IntN(2) == 0 {
					cur = &node{kind: "container"}
					trees = append(trees, cur)
				}
				cur.kids = append(cur.kids, nd)
			}
		case "salt-retry":
			// bad_server_salt for a pending request, then its result, then a duplicate
			j := r.IntN(len(g.ids))
			bs := g.leaf("badsalt")
			bs.id, bs.code = g.ids[j], 48
			rs := g.leaf([]string{"result", "error", "result-gz", "badsalt", "bad"}[r.IntN(5)])
			rs.id = g.ids[j]
			dup := g.leaf("result")
			dup.id = g.ids[j]
			trees = []*node{bs, rs, dup}
			if r.IntN(3) == 0 {
				trees = []*node{bs, g.tree(1, okLeafKinds), rs, dup}
			}
		case "dup":
			// the same request answered twice in one container / in two steps
			j := r.IntN(len(g.ids))
			a, b := g.leaf([]string{"result", "error"}[r.IntN(2)]), g.leaf([]string{"result", "error", "bad"}[r.IntN(3)])
			a.id, b.id = g.ids[j], g.ids[j]
			if r.IntN(2) == 0 {
				trees = []*node{{kind: "container", kids: []*node{a, b, g.leaf("result")}}}
			} else {
				trees = []*node{a, b}
			}
		case "pongs":
			// pongs for the pending ping: twice in one container, inside results, with other ids
			ping = true
			c := &node{kind: "container"}
			for j, k := 0, 1+r.IntN(5); j < k; j++ {
				nd := g.leaf([]string{"pong", "result-pong"}[r.IntN(2)])
				if r.IntN(2) == 0 {
					nd.pingID = pingConst
				}
				c.kids = append(c.kids, nd)
			}
			trees = []*node{c}
		default:
			panic("family " + fam)
		}
		tc := g.modeledCase("gen/"+fam, ping, trees)
		out(tc, g.label)
	}
}

// ---- unmodeled cases ---------------------------------------------------------

// resultIDs finds the request ids that follow an rpc_result constructor anywhere in p.
func resultIDs(p []byte, max int) []int64 {
	var out []int64
	marker := le32(idResult)
	for off := 0; off+12 <= len(p) && len(out) < max; off++ {
		if p[off] != marker[0] || rd32(p[off:]) != idResult {
			continue
		}
		id := rd64(p[off+4:])
		dup := false
		for _, v := range out {
			dup = dup || v == id
		}
		if !dup {
			out = append(out, id)
		}
	}
	return out
}

// rawCase: a payload nobody modeled. Pending ids: those the payload itself names
// after an rpc_result constructor (typed Output) plus two fresh neighbours.
func rawCase(r *rand.Rand, kind, src string, p []byte, extra []int64) *tcase {
	tc := &tcase{Kind: kind, Src: src}
	for _, id := range resultIDs(p, 3) {
		tc.IDs = append(tc.IDs, id)
		tc.Dec = append(tc.Dec, 1)
	}
	base := (t0.Unix()-50)<<32 | int64(r.Uint32()&0x3ffffffc)
	for _, id := range append([]int64{base, base + 4}, extra...) {
		dup := false
		for _, v := range tc.IDs {
			dup = dup || v == id
		}
		if !dup {
			tc.IDs = append(tc.IDs, id)
			tc.Dec = append(tc.Dec, 0)
		}
	}
	tc.Ping = r.IntN(8) == 0
	tc.Steps = []tstep{{MsgID: t0.Unix()<<32 | int64(r.Uint32()&^3) | 1, P: p}}
	return tc
}

// wrapCase embeds corpus bytes into service messages naming pending ids.
func wrapCase(r *rand.Rand, src string, p []byte, variant int) *tcase {
	g := &gen{r: r, label: map[string]bool{}}
	g.ids = g.pendingIDs()
	j := r.IntN(len(g.ids))
	tc := &tcase{IDs: g.ids, Src: src, Dec: make([]int, len(g.ids))}
	tc.Dec[j] = 1
	var t *node
	names := []string{"result(corpus)", "result(gzip(corpus))", "gzip(corpus)", "container[corpus,result]", "container[result,corpus]", "result±4(corpus)", "container[gzip(corpus),error]"}
	v := variant % len(names)
	tok := g.token()
	switch v {
	case 0:
		t = &node{kind: "result", id: g.ids[j], body: p}
	case 1:
		t = &node{kind: "result", id: g.ids[j], body: p, gz: true}
	case 2:
		t = &node{kind: "gzip", kids: []*node{{kind: "raw", raw: p}}}
	case 3:
		t = &node{kind: "container", kids: []*node{{kind: "raw", raw: p}, {kind: "result", id: g.ids[j], body: tok}}}
	case 4:
		t = &node{kind: "container", kids: []*node{{kind: "result", id: g.ids[j], body: tok}, {kind: "raw", raw: p}}}
	case 5:
		t = &node{kind: "result", id: g.ids[j] + int64(4*(2*r.IntN(2)-1)), body: p}
	case 6:
		t = &node{kind: "container", kids: []*node{{kind: "gzip", kids: []*node{{kind: "raw", raw: p}}}, {kind: "result", id: g.ids[j], isErr: true, code: 400, msg: "WRAPPED"}}}
	}
	tc.Kind = "wrap/" + names[v]
	st := tstep{MsgID: t0.Unix()<<32 | 1, P: enc(t)}
	// notes for the parts we built ourselves (they justify, they do not demand)
	var walk func(n *node)
	walk = func(n *node) {
		switch n.kind {
		case "result":
			switch {
			case n.isErr:
				st.Notes = append(st.Notes, note{ID: n.id, Tok: rpcTok(n.code, n.msg)})
			default:
				st.Notes = append(st.Notes, note{ID: n.id, Tok: resTok(n.body)})
			}
		case "container", "gzip":
			for _, k := range n.kids {
				walk(k)
			}
		}
	}
	walk(t)
	tc.Steps = []tstep{st}
	return tc
}

var interesting32 = []uint32{0, 1, 0xffffffff, 0x7fffffff, 0x80000000, 0xfffffffe, 254, 255, 256, 1 << 20, 1<<20 + 1, 1 << 24, idContainer, idResult, idGzip,
	idRPCError, idPong, idAck, idBadMsg, idBadSalt, idNewSession, idFutSalts, idDetailed, idVector}

// mutate returns a mutated copy of p and the mutation class.
func mutate(r *rand.Rand, p []byte, other []byte, ids []int64) ([]byte, string) {
	q := append([]byte(nil), p...)
	if len(q) == 0 {
		return []byte{byte(r.Uint32())}, "grow"
	}
	word := func() int {
		if len(q) < 4 {
			return 0
		}
		return r.IntN(len(q)/4) * 4
	}
	switch r.IntN(11) {
	case 0:
		for i, n := 0, 1+r.IntN(4); i < n; i++ {
			q[r.IntN(len(q))] ^= 1 << r.IntN(8)
		}
		return q, "bitflip"
	case 1:
		q[r.IntN(len(q))] = byte(r.Uint32())
		return q, "byte"
	case 2:
		return q[:r.IntN(len(q))], "truncate"
	case 3:
		n := 1 + r.IntN(64)
		for i := 0; i < n; i++ {
			q = append(q, byte(r.Uint32()))
		}
		return q, "extend"
	case 4:
		if len(q) >= 4 {
			copy(q[word():], le32(interesting32[r.IntN(len(interesting32))]))
		}
		return q, "word"
	case 5:
		if len(q) >= 8 && len(ids) > 0 {
			id := ids[r.IntN(len(ids))] + int64(4*(r.IntN(3)-1))
			off := word()
			if off+8 > len(q) {
				off = len(q) - 8
			}
			copy(q[off:], le64(id))
		}
		return q, "put-id"
	case 6:
		if len(other) > 0 {
			a, b := r.IntN(len(q)+1), r.IntN(len(other)+1)
			return append(q[:a:a], other[b:]...), "splice"
		}
		return q, "none"
	case 7:
		if len(q) >= 4 {
			copy(q[0:], le32(interesting32[12+r.IntN(len(interesting32)-12)]))
		}
		return q, "retype"
	case 8:
		if len(q) >= 8 {
			a, n := word(), 4*(1+r.IntN(4))
			if a+n <= len(q) {
				return append(q[:a:a], q[a+n:]...), "delete-words"
			}
		}
		return q, "none"
	case 9:
		if len(q) >= 4 {
			a := word()
			dup := append([]byte(nil), q[a:]...)
			return append(q[:a:a], append(append([]byte(nil), q[a:min(a+16, len(q))]...), dup...)...), "dup-words"
		}
		return q, "none"
	default:
		// length-like fields: small ints become huge / negative
		if len(q) >= 4 {
			a := word()
			v := rd32(q[a:])
			if v < 1<<16 {
				copy(q[a:], le32([]uint32{v + 1, v - 1, v << 8, ^v, v | 0x80000000}[r.IntN(5)]))
			} else {
				copy(q[a:], le32(uint32(r.IntN(300))))
			}
		}
		return q, "length"
	}
}
