package main

import (
	"bytes"
	stdgzip "compress/gzip"
	"context"
	"encoding/json"
	"fmt"
	"math/rand/v2"
	"sync"
	"time"

	"github.com/gotd/td/bin"
	"github.com/gotd/td/mtproto"
	"github.com/gotd/td/transport"

	"verif/harness/mon"
	"verif/harness/refmodel"
)

// Concurrent arm: the read loop handles every message in its own goroutine, so
// rpc_results for different pending requests are handled at the same time.
// One child process runs many rounds (package-level state of the code under
// test, e.g. pools, needs history). A round: fresh Conn, K=2..6 pending
// Invokes; phase 1 delivers 1..3 gzip-packed rpc_results one after another;
// phase 2 delivers rpc_results for all remaining pending requests (+ duplicates
// / unrelated ids) concurrently: fast = goroutines released by a barrier into
// VerifHandleMessage, slow = frames pushed back-to-back through the real read
// loop. Every result body is unique; an Invoke that returns a result must hold
// exactly the body of an rpc_result that named its msg id.

type concSpec struct {
	Seed   uint64 `json:"seed"`
	Rounds int    `json:"rounds"`
	Slow   bool   `json:"slow"`
}

type concViol struct {
	Sig     string   `json:"sig"`
	Round   int      `json:"round"`
	Inv     int      `json:"invocation"`
	ID      int64    `json:"its_id"`
	Got     string   `json:"got"`
	Allowed []string `json:"bodies_naming_its_id"`
	NamedBy []int64  `json:"got_body_was_sent_naming"`
	Plan    []string `json:"plan"` // the messages of the round
}

type concRes struct {
	Rounds     int            `json:"rounds"`
	Concurrent int            `json:"concurrent_messages"`
	Delivered  int            `json:"delivered"`
	Classes    map[string]int `json:"classes"`
	Viol       []concViol     `json:"viol,omitempty"`
	Timeout    []string       `json:"timeout,omitempty"`
	Harness    string         `json:"harness,omitempty"`
}

type concMsg struct {
	id   int64
	body []byte
	gz   bool
	kind string // answer | dup | unrelated
	tok  string
}

func concBody(r *rand.Rand, seq *int, large bool) []byte {
	*seq++
	n := 8 + 4*r.IntN(16)
	if large {
		shifts := 7 // 1 KiB .. ~64 KiB
		if raceBuild {
			shifts = 5 // .. ~17 KiB: AES-IGE and the reference model are several times slower under the race detector
		}
		n = 1024 + 4*r.IntN(1<<uint(8+r.IntN(shifts)))
	}
	var b bin.Buffer
	b.PutID(0x7e580000 | uint32(*seq&0xffff))
	b.PutLong(int64(r.Uint64()))
	fill := byte(*seq)
	for b.Len() < n {
		b.Buf = append(b.Buf, fill, fill^0x55, byte(b.Len()), byte(b.Len()>>8))
	}
	return b.Buf
}

// One stdlib gzip writer per process, reset for every body: allocating a fresh
// compressor (~1 MB of state) per message dominates the run time under the race detector.
var (
	concGzMu sync.Mutex
	concGzW  *stdgzip.Writer
)

func (m *concMsg) encode() []byte {
	var b bin.Buffer
	b.PutID(idResult)
	b.PutLong(m.id)
	if !m.gz {
		b.Put(m.body)
		return b.Buf
	}
	concGzMu.Lock()
	defer concGzMu.Unlock()
	var z bytes.Buffer
	if concGzW == nil {
		concGzW = stdgzip.NewWriter(&z)
	} else {
		concGzW.Reset(&z)
	}
	concGzW.Write(m.body)
	concGzW.Close()
	b.PutID(idGzip)
	b.PutBytes(z.Bytes())
	return b.Buf
}

func childConc(in []byte) any {
	initTypes()
	var s concSpec
	res := &concRes{Classes: map[string]int{}}
	if err := json.Unmarshal(in, &s); err != nil {
		res.Harness = "spec json: " + err.Error()
		return res
	}
	r := rand.New(rand.NewPCG(s.Seed, 0xc23c0c))
	seq := 0
	for round := 0; round < s.Rounds; round++ {
		if !concRound(r, &s, round, &seq, res) {
			break
		}
		res.Rounds++
	}
	return res
}

func concRound(r *rand.Rand, s *concSpec, round int, seq *int, res *concRes) bool {
	g := &gen{r: r, label: map[string]bool{}}
	for len(g.ids) < 2 {
		g.ids = g.pendingIDs()
	}
	ids := g.ids
	k := len(ids)
	w := &world{
		b: newBus(), tc: &tcase{IDs: ids}, slow: s.Slow,
		sentID: make([]int64, k), sends: make([]int, k), decs: make([][]string, k), decErr: make([]bool, k),
		finished: make([]bool, k), out: make([]string, k), acked: map[int64]bool{},
		idQueue: append([]int64(nil), ids...),
		recv:    make(chan []byte), recvStarted: make(chan struct{}),
	}
	fail := func(what string) bool {
		res.Timeout = append(res.Timeout, fmt.Sprintf("round %d: %s", round, what))
		return false
	}

	var conn *mtproto.Conn
	runCtx, runCancel := context.WithCancel(context.Background())
	defer runCancel()
	runDone := make(chan error, 1)
	if s.Slow {
		conn = mtproto.New(func(context.Context) (transport.Conn, error) { return w, nil }, w.options())
		go func() {
			runDone <- conn.Run(runCtx, func(ctx context.Context) error {
				<-ctx.Done()
				return ctx.Err()
			})
		}()
		select {
		case <-w.recvStarted:
		case err := <-runDone:
			res.Harness = fmt.Sprintf("Run ended before the read loop started: %v", err)
			return false
		case <-time.After(watchdog):
			return fail("read loop start")
		}
	} else {
		var err error
		if conn, err = mtproto.VerifNewConn(w, w.options()); err != nil {
			res.Harness = "VerifNewConn: " + err.Error()
			return false
		}
	}

	cancels := make([]context.CancelFunc, k)
	for i := 0; i < k; i++ {
		var ctx context.Context
		ctx, cancels[i] = context.WithCancel(context.Background())
		out := &outDec{w: w, i: i, yield: true}
		go func(i int) {
			err := conn.Invoke(ctx, reqEnc{i}, out)
			o := w.classify(i, err)
			w.b.mu.Lock()
			w.out[i], w.finished[i] = o, true
			w.b.bump()
			w.b.mu.Unlock()
		}(i)
		if !w.b.waitFor(func() bool { return w.sends[i] > 0 || w.finished[i] }, watchdog) {
			return fail(fmt.Sprintf("invocation %d never reached the transport", i))
		}
	}

	// ---- plan ---------------------------------------------------------------------
	allowed := make([][]string, k) // bodies that name invocation i
	named := map[string][]int64{}  // body token -> ids it was sent with
	idx := func(id int64) int {
		for i, v := range ids {
			if v == id {
				return i
			}
		}
		return -1
	}
	mk := func(id int64, gz, large bool, kind string) *concMsg {
		m := &concMsg{id: id, body: concBody(r, seq, large), gz: gz, kind: kind}
		m.tok = resTok(m.body)
		named[m.tok] = append(named[m.tok], id)
		if i := idx(id); i >= 0 {
			allowed[i] = append(allowed[i], m.tok)
		}
		return m
	}
	perm := r.Perm(k)
	answered := 0
	var phase1, phase2 []*concMsg
	var plan []string
	nGz := 1 + r.IntN(3)
	for x := 0; x < nGz; x++ {
		if k-answered > 2 && r.IntN(2) == 0 {
			phase1 = append(phase1, mk(ids[perm[answered]], true, r.IntN(2) == 0, "answer"))
			answered++
		} else {
			phase1 = append(phase1, mk(int64(r.Uint64()), true, r.IntN(2) == 0, "unrelated"))
		}
	}
	sizeMode := r.IntN(3) // 0 all small, 1 all large, 2 mixed
	large := func() bool { return sizeMode == 1 || (sizeMode == 2 && r.IntN(2) == 0) }
	for _, pi := range perm[answered:] {
		phase2 = append(phase2, mk(ids[pi], r.IntN(5) == 0, large(), "answer"))
	}
	for x, n := 0, r.IntN(3); x < n; x++ {
		if r.IntN(2) == 0 {
			phase2 = append(phase2, mk(ids[r.IntN(k)], r.IntN(5) == 0, large(), "dup"))
		} else {
			phase2 = append(phase2, mk(int64(r.Uint64()), false, large(), "unrelated"))
		}
	}
	r.Shuffle(len(phase2), func(a, b int) { phase2[a], phase2[b] = phase2[b], phase2[a] })
	for p, list := range [][]*concMsg{phase1, phase2} {
		for _, m := range list {
			plan = append(plan, fmt.Sprintf("phase%d %s id=%d gz=%v len=%d %s", p+1, m.kind, m.id, m.gz, len(m.body), m.tok))
		}
	}
	mode := "fast"
	if s.Slow {
		mode = "slow"
	}
	res.Classes[fmt.Sprintf("%s/K=%d/gzip-first=%d/concurrent=%d/sizes=%d", mode, k, nGz, len(phase2), sizeMode)]++

	// ---- deliver ---------------------------------------------------------------------
	srvSeq := 0
	frame := func(p []byte) ([]byte, int64) {
		srvSeq++
		srvID := t0.Unix()<<32 | int64(srvSeq*4+1)
		pad := make([]byte, 12+(16-(32+len(p)+12)%16)%16)
		w.b.mu.Lock()
		ses := w.session
		w.b.mu.Unlock()
		return refmodel.Encrypt(authKey.Value[:], refmodel.Header{
			Salt: 0x0102030405060708, Session: ses, MsgID: srvID, SeqNo: int32(2*srvSeq + 1), Len: int32(len(p)),
		}, p, pad, true), srvID
	}
	push := func(f []byte) bool {
		select {
		case w.recv <- f:
			return true
		case err := <-runDone:
			res.Harness = fmt.Sprintf("Run ended while feeding: %v", err)
		case <-time.After(watchdog):
			fail("read loop does not take the frame")
		}
		return false
	}
	outer := func() int64 { return t0.Unix()<<32 | int64(r.Uint32()&^3) | 1 }

	for _, m := range phase1 {
		p := m.encode()
		if s.Slow {
			f, id := frame(p)
			if !push(f) {
				return false
			}
			if !w.b.waitFor(func() bool { return w.acked[id] }, watchdog) {
				return fail("no ack for a phase 1 frame")
			}
		} else {
			_ = conn.VerifHandleMessage(outer(), &bin.Buffer{Buf: p})
		}
	}
	if s.Slow {
		var want []int64
		for _, m := range phase2 {
			f, id := frame(m.encode())
			want = append(want, id)
			if !push(f) { // back-to-back: the read loop spawns one handler goroutine per frame
				return false
			}
		}
		for _, id := range want {
			if !w.b.waitFor(func() bool { return w.acked[id] }, watchdog) {
				return fail("no ack for a phase 2 frame")
			}
		}
	} else {
		start := make(chan struct{})
		var ready, done sync.WaitGroup
		for _, m := range phase2 {
			p, oid := m.encode(), outer()
			ready.Add(1)
			done.Add(1)
			go func() {
				defer done.Done()
				ready.Done()
				<-start
				// not recovered: a panic here kills the child and is attributed to this spec
				_ = conn.VerifHandleMessage(oid, &bin.Buffer{Buf: p})
			}()
		}
		ready.Wait()
		close(start)
		done.Wait()
	}
	res.Concurrent += len(phase2)

	// every pending request was named by at least one result: all invocations return
	for i := 0; i < k; i++ {
		if len(allowed[i]) == 0 {
			continue
		}
		if !w.b.waitFor(func() bool { return w.finished[i] }, watchdog) {
			return fail(fmt.Sprintf("invocation %d (named by %d results) did not return", i, len(allowed[i])))
		}
	}
	for i := 0; i < k; i++ {
		cancels[i]()
	}
	for i := 0; i < k; i++ {
		if !w.b.waitFor(func() bool { return w.finished[i] }, watchdog) {
			return fail(fmt.Sprintf("invocation %d does not return after cancel", i))
		}
	}
	if s.Slow {
		runCancel()
		select {
		case <-runDone:
		case <-time.After(watchdog):
			return fail("Run does not return after cancel")
		}
	}

	// ---- oracle ---------------------------------------------------------------------
	w.b.mu.Lock()
	defer w.b.mu.Unlock()
	if w.harness != "" {
		res.Harness = w.harness
		return false
	}
	for i := 0; i < k; i++ {
		if w.sentID[i] != ids[i] {
			res.Harness = fmt.Sprintf("invocation %d sent under id %d, wanted %d", i, w.sentID[i], ids[i])
			return false
		}
		got := append([]string(nil), w.decs[i]...)
		if outClass(w.out[i]) == "res" {
			got = append(got, w.out[i])
		}
		for _, tok := range got {
			res.Delivered++
			ok := false
			for _, a := range allowed[i] {
				ok = ok || a == tok
			}
			if ok {
				continue
			}
			sig := "route|result-bytes-of-no-payload" // torn / overwritten body
			if len(named[tok]) > 0 {
				sig = "route|misrouted-result"
			}
			if len(res.Viol) < 8 { // witnesses for the first few, counts for all (Classes)
				res.Viol = append(res.Viol, concViol{Sig: sig, Round: round, Inv: i, ID: ids[i], Got: tok, Allowed: allowed[i], NamedBy: named[tok], Plan: plan})
			}
			res.Classes["VIOLATION "+sig]++
		}
	}
	return true
}

// ---- parent side --------------------------------------------------------------------

func runConc(c *mon.Ctx, race bool) {
	r := c.Rand("c23-conc")
	var specs []concSpec
	add := func(n, rounds int, slow bool) {
		for i := 0; i < n; i++ {
			specs = append(specs, concSpec{Seed: r.Uint64(), Rounds: rounds, Slow: slow})
		}
	}
	if race {
		add(c.N(2, 8), c.N(500, 3000), false)
		add(c.N(2, 6), c.N(300, 2000), true)
	} else {
		add(c.N(3, 12), c.N(400, 3000), false)
		add(c.N(2, 8), c.N(150, 1500), true)
	}
	var wg sync.WaitGroup
	var mu sync.Mutex
	rounds, conc, delivered, timeouts := 0, 0, 0, 0
	for i, s := range specs {
		wg.Add(1)
		go func() {
			defer wg.Done()
			in, _ := json.Marshal(s)
			name := fmt.Sprintf("conc-%02d", i)
			// 4 Ps: handlers really overlap, and goroutines still share a P often enough to share per-P caches
			outs := mon.RunBatch(c, "c23-conc", name, [][]byte{in}, mon.BatchOpts{MemLimitMB: 2048, Timeout: 20 * time.Minute, MaxProcs: 4})
			for _, o := range outs {
				switch {
				case o.Class == "ok":
				case o.Class == "timeout" || o.Class == "missing":
					c.Inconclusive(fmt.Sprintf("concurrent arm %v: child %s", s, o.Class))
					continue
				default:
					c.Eval(1)
					c.Violate(crashSig(o.Class, fullStderr(c, name, o.Stderr))+"|concurrent", map[string]any{"spec": s, "class": o.Class, "stderr": o.Stderr})
					continue
				}
				var cr concRes
				if err := json.Unmarshal(o.Result, &cr); err != nil {
					c.Inconclusive("concurrent arm result: " + err.Error())
					continue
				}
				if cr.Harness != "" {
					c.Inconclusive("concurrent arm harness: " + cr.Harness)
				}
				mu.Lock()
				rounds += cr.Rounds
				conc += cr.Concurrent
				delivered += cr.Delivered
				if len(cr.Timeout) > 0 {
					timeouts++
					if timeouts <= 3 {
						c.Inconclusive(fmt.Sprintf("concurrent arm settle watchdog (%v): %v", s, cr.Timeout))
					}
				}
				mu.Unlock()
				c.Eval(cr.Rounds)
				for k := range cr.Classes {
					c.Distinct("concurrent/" + k)
				}
				for _, v := range cr.Viol {
					c.Violate(v.Sig+"|concurrent", map[string]any{"spec": s, "violation": v,
						"note": "re-run: the c23-conc child with this spec (seeded, but the interleaving is up to the scheduler)"})
				}
				c.Sample("concurrent", map[string]any{"spec": s, "rounds": cr.Rounds, "concurrent_messages": cr.Concurrent, "delivered": cr.Delivered})
			}
		}()
	}
	wg.Wait()
	c.Set("concurrent_rounds", rounds)
	c.Set("concurrent_messages", conc)
	c.Set("concurrent_deliveries", delivered)
	if delivered == 0 {
		c.Inconclusive("concurrent arm: no result was delivered")
	}
}
