package main

import (
	"context"
	"encoding/json"
	"fmt"
	"runtime"
	"sync"
	"time"

	"github.com/go-faster/errors"
	"github.com/gotd/log"
	"github.com/gotd/neo"

	"github.com/gotd/td/bin"
	"github.com/gotd/td/crypto"
	"github.com/gotd/td/exchange"
	"github.com/gotd/td/mt"
	"github.com/gotd/td/mtproto"
	"github.com/gotd/td/proto"
	"github.com/gotd/td/tg"
	"github.com/gotd/td/tgerr"
	"github.com/gotd/td/tmap"
	"github.com/gotd/td/transport"

	"verif/harness/mon"
	"verif/harness/refmodel"
)

// ---- process-wide immutable pieces -------------------------------------------

var (
	typesOnce sync.Once
	typeCons  *tmap.Constructor
	typeNames *tmap.Map
	authKey   crypto.AuthKey
)

func initTypes() {
	typesOnce.Do(func() {
		typeCons = tmap.NewConstructor(tg.TypesConstructorMap(), mt.TypesConstructorMap())
		typeNames = tmap.New(tg.TypesMap(), mt.TypesMap())
		var k crypto.Key
		for i := range k {
			k[i] = byte(i*7 + 3)
		}
		authKey = k.WithID()
	})
}

// t0 is the fake "now" of every connection.
var t0 = time.Date(2024, 5, 17, 12, 0, 0, 0, time.UTC)

const pingConst = 0x5a5a5a5a5a5a5a5a

// constRand makes every random id (session id, ping id, padding) a known constant.
type constRand struct{}

func (constRand) Read(p []byte) (int, error) {
	for i := range p {
		p[i] = 0x5a
	}
	return len(p), nil
}

// settle watchdog; shortened after the first expiry in this process.
var (
	watchdog      = 30 * time.Second
	watchdogFired int
)

// ---- event bus: all monitor state lives under one mutex ----------------------

type bus struct {
	mu      sync.Mutex
	changed chan struct{}
}

func newBus() *bus { return &bus{changed: make(chan struct{})} }

// bump must be called with mu held.
func (b *bus) bump() {
	close(b.changed)
	b.changed = make(chan struct{})
}

func (b *bus) waitFor(pred func() bool, d time.Duration) bool {
	t := time.NewTimer(d)
	defer t.Stop()
	for {
		b.mu.Lock()
		if pred() {
			b.mu.Unlock()
			return true
		}
		ch := b.changed
		b.mu.Unlock()
		select {
		case <-ch:
		case <-t.C:
			b.mu.Lock()
			ok := pred()
			b.mu.Unlock()
			return ok
		}
	}
}

// ---- harness-owned fakes -----------------------------------------------------

// world is the state of one case execution.
type world struct {
	b    *bus
	tc   *tcase
	slow bool

	// guarded by b.mu
	sentID   []int64
	sends    []int
	decs     [][]string
	decErr   []bool
	finished []bool
	out      []string
	pingSent bool
	pingID   int64
	pingOut  string
	session  int64
	haveSes  bool
	acked    map[int64]bool
	harness  string
	onMsg    int
	onSes    int
	warnErr  int // "Error while handling message" records (slow path)
	lastWarn string

	idQueue []int64
	gen     *proto.MessageIDGen

	recv        chan []byte
	recvStarted chan struct{}
	recvOnce    sync.Once
}

// MessageIDSource: hands out the case's ids to the invocations (which are
// started one at a time), the real generator afterwards.
func (w *world) New(t proto.MessageType) int64 {
	w.b.mu.Lock()
	if len(w.idQueue) > 0 {
		id := w.idQueue[0]
		w.idQueue = w.idQueue[1:]
		w.b.mu.Unlock()
		return id
	}
	w.b.mu.Unlock()
	return w.gen.New(t)
}

// transport.Conn
func (w *world) Send(ctx context.Context, b *bin.Buffer) error {
	if err := ctx.Err(); err != nil {
		return err
	}
	wire := append([]byte(nil), b.Buf...)
	d, err := refmodel.Decrypt(authKey.Value[:], wire, false)
	w.b.mu.Lock()
	defer w.b.mu.Unlock()
	defer w.b.bump()
	if err != nil || !d.MsgKeyOK || int(d.Len) < 0 || int(d.Len) > len(d.Padded) {
		w.harness = fmt.Sprintf("client frame not decryptable by the reference model: %v", err)
		return nil
	}
	if !w.haveSes {
		w.session, w.haveSes = d.Session, true
	}
	body := d.Padded[:d.Len]
	switch {
	case hasPrefix32(body, idReqMarker) && len(body) >= 12:
		i := int(rd64(body[4:]))
		if i >= 0 && i < len(w.sends) {
			w.sends[i]++
			if w.sends[i] == 1 {
				w.sentID[i] = d.MsgID
			} else if w.sentID[i] != d.MsgID {
				w.harness = fmt.Sprintf("invocation %d re-sent under another id %d != %d", i, d.MsgID, w.sentID[i])
			}
		}
	case hasPrefix32(body, idPing) && len(body) >= 12:
		w.pingSent, w.pingID = true, rd64(body[4:])
	case hasPrefix32(body, idAck) && len(body) >= 12 && rd32(body[4:]) == idVector:
		n := int(rd32(body[8:]))
		for k := 0; k < n && 12+8*k+8 <= len(body); k++ {
			w.acked[rd64(body[12+8*k:])] = true
		}
	}
	return nil
}

func (w *world) Recv(ctx context.Context, b *bin.Buffer) error {
	w.recvOnce.Do(func() { close(w.recvStarted) })
	select {
	case <-ctx.Done():
		return ctx.Err()
	case f := <-w.recv:
		b.ResetTo(f)
		return nil
	}
}

func (w *world) Close() error { return nil }

// mtproto.Handler: decodes every update with the real type map.
func (w *world) OnMessage(b *bin.Buffer) error {
	w.b.mu.Lock()
	w.onMsg++
	w.b.mu.Unlock()
	return decodeTyped(b)
}

func (w *world) OnSession(mtproto.Session) error {
	w.b.mu.Lock()
	w.onSes++
	w.b.mu.Unlock()
	return nil
}

func decodeTyped(b *bin.Buffer) error {
	id, err := b.PeekID()
	if err != nil {
		return err
	}
	v := typeCons.New(id)
	if v == nil {
		return errors.New("not found")
	}
	return v.Decode(b)
}

// log.Logger: enabled at every level, renders every attribute (so that the
// attribute construction and formatting of hostile values runs as it does under
// a real debug logger) and counts handler-error warnings.
type sinkLogger struct{ w *world }

func (sinkLogger) Enabled(context.Context, log.Level) bool { return true }
func (l sinkLogger) Log(_ context.Context, _ log.Level, msg string, attrs ...log.Attr) {
	n := 0
	for _, a := range attrs {
		n += len(a.Key) + len(a.Value.String())
	}
	if msg == "Error while handling message" && l.w != nil {
		l.w.b.mu.Lock()
		l.w.warnErr++
		for _, a := range attrs {
			if a.Value.Kind() == log.KindError {
				l.w.lastWarn = a.Value.String()
			}
		}
		l.w.b.mu.Unlock()
	}
	_ = n
}

// reqEnc is the request of invocation i.
type reqEnc struct{ i int }

func (r reqEnc) Encode(b *bin.Buffer) error {
	b.PutID(idReqMarker)
	b.PutLong(int64(r.i))
	return nil
}

// outDec is the Output of invocation i.
type outDec struct {
	w     *world
	i     int
	mode  int
	yield bool // concurrent arm: a decoder that takes its time (reads the body, yields, reads it again)
}

func (o *outDec) Decode(b *bin.Buffer) error {
	tok := resTok(b.Buf)
	if o.yield {
		runtime.Gosched()
		if again := resTok(b.Buf); again != tok {
			tok = "res:changed-while-decoding:" + tok + "/" + again
		}
	}
	var err error
	if o.mode == 1 {
		err = decodeTyped(b)
	}
	o.w.b.mu.Lock()
	o.w.decs[o.i] = append(o.w.decs[o.i], tok)
	if err != nil {
		o.w.decErr[o.i] = true
	}
	o.w.b.bump()
	o.w.b.mu.Unlock()
	return err
}

var _ transport.Conn = (*world)(nil)

func (w *world) classify(i int, err error) string {
	w.b.mu.Lock()
	decs := append([]string(nil), w.decs[i]...)
	w.b.mu.Unlock()
	if err == nil {
		if len(decs) == 0 {
			return "other:nil-without-decode"
		}
		return decs[len(decs)-1]
	}
	if code, salt, ok := mtproto.VerifBadMsgError(err); ok {
		return badTok(code, salt)
	}
	var rpcErr *tgerr.Error
	if errors.As(err, &rpcErr) {
		return rpcTok(rpcErr.Code, rpcErr.Message)
	}
	if errors.Is(err, context.Canceled) {
		return "canceled"
	}
	if len(decs) > 0 {
		return decs[len(decs)-1] // typed Output rejected the bytes it was given
	}
	s := err.Error()
	if len(s) > 120 {
		s = s[:120]
	}
	return "other:" + s
}

func (w *world) options() mtproto.Options {
	clk := neo.NewTime(t0)
	w.gen = proto.NewMessageIDGen(clk.Now)
	return mtproto.Options{
		PublicKeys:        []exchange.PublicKey{{}}, // never used: the key exists
		Random:            constRand{},
		Logger:            sinkLogger{w},
		Handler:           w,
		AckBatchSize:      1,
		AckInterval:       time.Hour,
		RetryInterval:     time.Hour,
		MaxRetries:        5,
		SaltFetchInterval: time.Hour,
		PingInterval:      time.Hour,
		PingTimeout:       time.Hour,
		RequestTimeout: func(req uint32) time.Duration {
			if req == mt.RPCDropAnswerRequestTypeID {
				return time.Nanosecond // the drop request of a cancelled invocation is not under test
			}
			return time.Hour
		},
		CompressThreshold: -1,
		MessageID:         w,
		Clock:             clk,
		Types:             typeNames,
		Key:               authKey,
		Salt:              0x1122334455667788,
	}
}

// childRun executes one case. It is NOT wrapped in recover.
func childRun(in []byte, slow bool) any {
	initTypes()
	var tc tcase
	if err := json.Unmarshal(in, &tc); err != nil {
		return &tresult{Harness: "case json: " + err.Error()}
	}
	res := &tresult{Mode: "fast"}
	if slow {
		res.Mode = "slow"
		for _, st := range tc.Steps {
			if len(st.P)%4 != 0 || len(st.P) == 0 {
				res.Skipped = "payload length not a positive multiple of 4: cannot travel in an encrypted message"
				return res
			}
		}
		if len(tc.IDs) == 0 {
			res.Skipped = "slow path needs one invocation to learn the session id"
			return res
		}
	}
	k := len(tc.IDs)
	w := &world{
		b: newBus(), tc: &tc, slow: slow,
		sentID: make([]int64, k), sends: make([]int, k), decs: make([][]string, k), decErr: make([]bool, k),
		finished: make([]bool, k), out: make([]string, k), acked: map[int64]bool{},
		idQueue: append([]int64(nil), tc.IDs...),
		recv:    make(chan []byte), recvStarted: make(chan struct{}),
	}
	timeout := func(what string) {
		res.Timeout = append(res.Timeout, what)
		// the first expiry in a process is the generous one; later ones only cost time (the run is inconclusive already)
		if watchdogFired++; watchdogFired >= 3 {
			watchdog = 100 * time.Millisecond
		} else {
			watchdog = time.Second
		}
	}

	var conn *mtproto.Conn
	runCtx, runCancel := context.WithCancel(context.Background())
	defer runCancel()
	runDone := make(chan error, 1)
	if slow {
		conn = mtproto.New(func(context.Context) (transport.Conn, error) { return w, nil }, w.options())
		go func() {
			runDone <- conn.Run(runCtx, func(ctx context.Context) error {
				<-ctx.Done()
				return ctx.Err()
			})
		}()
		select {
		case <-w.recvStarted:
		case err := <-runDone:
			res.Harness = fmt.Sprintf("Run ended before the read loop started: %v", err)
			return res
		case <-time.After(watchdog):
			timeout("read loop start")
			return res
		}
	} else {
		var err error
		conn, err = mtproto.VerifNewConn(w, w.options())
		if err != nil {
			res.Harness = "VerifNewConn: " + err.Error()
			return res
		}
	}

	// Pending invocations, started one at a time so that the id queue order is the invocation order.
	ctxs := make([]context.Context, k)
	cancels := make([]context.CancelFunc, k)
	for i := 0; i < k; i++ {
		ctxs[i], cancels[i] = context.WithCancel(context.Background())
		mode := 0
		if i < len(tc.Dec) {
			mode = tc.Dec[i]
		}
		out := &outDec{w: w, i: i, mode: mode}
		go func(i int) {
			err := conn.Invoke(ctxs[i], reqEnc{i}, out)
			o := w.classify(i, err)
			w.b.mu.Lock()
			w.out[i], w.finished[i] = o, true
			w.b.bump()
			w.b.mu.Unlock()
		}(i)
		if !w.b.waitFor(func() bool { return w.sends[i] > 0 || w.finished[i] }, watchdog) {
			timeout(fmt.Sprintf("invocation %d never reached the transport", i))
			return res
		}
	}
	pingCtx, pingCancel := context.WithCancel(context.Background())
	defer pingCancel()
	pingDone := false
	if tc.Ping {
		go func() {
			err := conn.Ping(pingCtx)
			o := "pong"
			if errors.Is(err, context.Canceled) {
				o = "canceled"
			} else if err != nil {
				o = "other:" + err.Error()
			}
			w.b.mu.Lock()
			w.pingOut, pingDone = o, true
			w.b.bump()
			w.b.mu.Unlock()
		}()
		if !w.b.waitFor(func() bool { return w.pingSent || pingDone }, watchdog) {
			timeout("ping never reached the transport")
			return res
		}
	}

	// Feed the payloads.
	for si, st := range tc.Steps {
		w.b.mu.Lock()
		before := append([]int(nil), w.sends...)
		decBefore := make([]int, k)
		for i := range decBefore {
			decBefore[i] = len(w.decs[i])
		}
		msg0, ses0, warn0 := w.onMsg, w.onSes, w.warnErr
		w.b.mu.Unlock()

		var sr sres
		payload := append([]byte(nil), st.P...)
		if slow {
			srvID := t0.Unix()<<32 | int64(si*8+1)
			if si%2 == 1 {
				srvID |= 2 // alternate "response" and "from server" ids
			}
			pad := make([]byte, 12+(16-(32+len(payload)+12)%16)%16)
			for i := range pad {
				pad[i] = byte(0xa0 + i)
			}
			w.b.mu.Lock()
			ses := w.session
			w.b.mu.Unlock()
			frame := refmodel.Encrypt(authKey.Value[:], refmodel.Header{
				Salt: 0x0102030405060708, Session: ses, MsgID: srvID, SeqNo: int32(2*si + 1), Len: int32(len(payload)),
			}, payload, pad, true)
			select {
			case w.recv <- frame:
			case err := <-runDone:
				res.Harness = fmt.Sprintf("Run ended while feeding step %d: %v", si, err)
				return res
			case <-time.After(watchdog):
				timeout(fmt.Sprintf("step %d: read loop does not take the frame", si))
				return res
			}
			// the ack of the frame is written after the handler returned
			if !w.b.waitFor(func() bool { return w.acked[srvID] }, watchdog) {
				timeout(fmt.Sprintf("step %d: no ack for the frame", si))
				return res
			}
			w.b.mu.Lock()
			if w.warnErr > warn0 {
				sr.Err = w.lastWarn
			}
			w.b.mu.Unlock()
		} else {
			// A panic that unwinds out of the handler is caught here (same observation as the death of
			// the child, which remains the oracle for fatal errors and for panics on other goroutines);
			// the case is abandoned at once because the connection may hold locks.
			var err error
			if pv, stack := mon.Try(func() { err = conn.VerifHandleMessage(st.MsgID, &bin.Buffer{Buf: payload}) }); pv != nil {
				res.Panic, res.Stack, res.PanicStep = fmt.Sprint(pv), stack, si
				return res
			}
			if err != nil {
				sr.Err = err.Error()
				if len(sr.Err) > 160 {
					sr.Err = sr.Err[:160]
				}
			}
		}

		// settle: invocations that were notified return (or re-send) before the next step
		for i := 0; i < k; i++ {
			w.b.mu.Lock()
			fin := w.finished[i]
			strong := len(w.decs[i]) > decBefore[i]
			w.b.mu.Unlock()
			if fin {
				continue
			}
			for _, a := range st.Await {
				if a == i {
					strong = true
				}
			}
			// (a result the model expects is delivered synchronously: if Output.Decode was not called by
			// now it never will be, and the parent reports the lost result without any waiting)
			pred := func() bool { return w.finished[i] || w.sends[i] > before[i] }
			switch {
			case strong:
				if !w.b.waitFor(pred, watchdog) {
					timeout(fmt.Sprintf("step %d: invocation %d neither returned nor re-sent", si, i))
				}
			case containsID(st.P, tc.IDs[i]):
				w.b.waitFor(pred, 20*time.Millisecond) // may or may not have been notified: a late return is only a missed observation
			}
		}
		if tc.Ping {
			switch {
			case st.AwaitPing:
				if !w.b.waitFor(func() bool { return pingDone }, watchdog) {
					timeout(fmt.Sprintf("step %d: ping did not return", si))
				}
			case containsID(st.P, pingConst):
				w.b.waitFor(func() bool { return pingDone }, 20*time.Millisecond)
			}
		}
		w.b.mu.Lock()
		sr.OnMsg, sr.OnSes = w.onMsg-msg0, w.onSes-ses0
		w.b.mu.Unlock()
		res.Steps = append(res.Steps, sr)
	}

	// Release everything that is still pending and collect.
	if tc.Ping {
		w.b.mu.Lock()
		done := pingDone
		w.b.mu.Unlock()
		if !done {
			pingCancel()
			if !w.b.waitFor(func() bool { return pingDone }, watchdog) {
				timeout("ping does not return after cancel")
			}
		}
	}
	for i := 0; i < k; i++ {
		cancels[i]()
	}
	for i := 0; i < k; i++ {
		if !w.b.waitFor(func() bool { return w.finished[i] }, watchdog) {
			timeout(fmt.Sprintf("invocation %d does not return after cancel", i))
		}
	}
	if slow {
		runCancel()
		select {
		case <-runDone:
		case <-time.After(watchdog):
			timeout("Run does not return after cancel")
		}
	}
	w.b.mu.Lock()
	defer w.b.mu.Unlock()
	for i := 0; i < k; i++ {
		o := w.out[i]
		if !w.finished[i] {
			o = "stuck"
		}
		res.Inv = append(res.Inv, ires{SentID: w.sentID[i], Sends: w.sends[i], Out: o, Decs: append([]string(nil), w.decs[i]...), DecErr: w.decErr[i]})
	}
	res.Ping, res.PingID = w.pingOut, w.pingID
	res.Harness = w.harness
	return res
}

// ---- deep nesting ------------------------------------------------------------

type deepSpec struct {
	Shape string `json:"shape"` // container | gzip | mixed | result-gzip
	Depth int    `json:"depth"`
}

type deepRes struct {
	Bytes int    `json:"bytes"`
	Depth int    `json:"depth"` // depth actually built (container nesting is bounded by the 1 MiB inner message limit)
	Err   string `json:"err"`
	OnMsg int    `json:"on_msg"`
	Build string `json:"build,omitempty"`
	Alloc uint64 `json:"alloc_bytes"` // bytes allocated while handling (TotalAlloc delta)
}

func buildDeep(s deepSpec) ([]byte, int, error) {
	// innermost: an update the handler decodes successfully
	var inner bin.Buffer
	inner.PutID(tg.UpdatesTooLongTypeID)
	if s.Shape == "container" {
		// container^D(inner), written outermost first (linear time); an inner message may not exceed 1 MiB
		d := s.Depth
		if max := (1024*1024 - len(inner.Buf)) / 24; d > max {
			d = max
		}
		var b bin.Buffer
		for k := d; k >= 1; k-- {
			b.PutID(idContainer)
			b.PutInt(1)
			b.PutLong(t0.Unix()<<32 | int64(k*4+1))
			b.PutInt(1)
			b.PutInt(len(inner.Buf) + 24*(k-1))
		}
		b.Put(inner.Buf)
		return b.Buf, d, nil
	}
	cur := inner.Buf
	built := 0
	for d := 0; d < s.Depth; d++ {
		var b bin.Buffer
		if s.Shape == "gzip" || d%2 == 1 {
			if err := (proto.GZIP{Data: cur}).Encode(&b); err != nil {
				return nil, built, err
			}
		} else {
			if len(cur)+24 > 1024*1024 {
				break
			}
			c := proto.MessageContainer{Messages: []proto.Message{{ID: int64(d)*4 + 1, SeqNo: 1, Bytes: len(cur), Body: cur}}}
			if err := c.Encode(&b); err != nil {
				return nil, built, err
			}
		}
		cur = b.Buf
		built++
	}
	return cur, built, nil
}

func childDeep(in []byte) any {
	initTypes()
	var s deepSpec
	if err := json.Unmarshal(in, &s); err != nil {
		return &deepRes{Build: "json: " + err.Error()}
	}
	p, built, err := buildDeep(s)
	if err != nil {
		return &deepRes{Build: err.Error()}
	}
	w := &world{b: newBus(), tc: &tcase{}, acked: map[int64]bool{}, recv: make(chan []byte), recvStarted: make(chan struct{})}
	conn, err := mtproto.VerifNewConn(w, w.options())
	if err != nil {
		return &deepRes{Build: err.Error()}
	}
	r := &deepRes{Bytes: len(p), Depth: built}
	r.Alloc, _ = mon.MeasureAlloc(func() {
		if err := conn.VerifHandleMessage(t0.Unix()<<32|1, &bin.Buffer{Buf: p}); err != nil {
			r.Err = err.Error()
			if len(r.Err) > 200 {
				r.Err = r.Err[:200]
			}
		}
	})
	r.OnMsg = w.onMsg
	return r
}
