package main

import (
	"bytes"
	stdgzip "compress/gzip"
	"crypto/sha256"
	"encoding/binary"
	"encoding/hex"
	"fmt"
	"io"
)

// tcase is one self-contained execution: a fresh connection, len(IDs) goroutines
// blocked in Conn.Invoke whose message ids are IDs (handed out by the
// MessageIDSource given to the connection, verified at the transport), an
// optional goroutine blocked in Conn.Ping, and the server payloads fed in order.
type tcase struct {
	Kind  string   `json:"kind"`          // generator class
	Src   string   `json:"src,omitempty"` // corpus file / base description
	IDs   []int64  `json:"ids"`
	Dec   []int    `json:"dec,omitempty"` // per invocation: 0 = Output accepts any bytes, 1 = Output decodes with the real tg+mt type map
	Ping  bool     `json:"ping,omitempty"`
	Forms []string `json:"forms,omitempty"` // C24 arm: the form of the one answer each invocation gets

	Steps []tstep `json:"steps"`

	// Model (parent side; the child only reads Await).
	Modeled  bool     `json:"modeled"`        // Notes list every delivery the payloads can cause
	Must     []string `json:"must,omitempty"` // per invocation: "" = unconstrained, "pending", or the outcome it must return
	MustPing string   `json:"must_ping,omitempty"`
}

type tstep struct {
	MsgID int64  `json:"msg_id"` // outer message id handed to the handler (fast path)
	P     []byte `json:"p"`
	Await []int  `json:"await,omitempty"` // invocations the model expects to return or to re-send because of this step
	Notes []note `json:"notes,omitempty"`
	Err   int    `json:"err,omitempty"` // model: 0 unknown, 1 handler returns nil, 2 handler returns an error

	AwaitPing bool `json:"await_ping,omitempty"`
}

// note: one notification a payload carries for a request id.
type note struct {
	ID  int64  `json:"id"`
	Tok string `json:"tok"` // outcome string the named invocation gets from it
}

// tresult is what the child reports for a case.
type tresult struct {
	Mode    string   `json:"mode"`
	Steps   []sres   `json:"steps"`
	Inv     []ires   `json:"inv"`
	Ping    string   `json:"ping,omitempty"` // "" not used, "pong", "canceled", other
	PingID  int64    `json:"ping_id,omitempty"`
	Timeout []string `json:"timeout,omitempty"` // settle watchdogs that fired
	Harness string   `json:"harness,omitempty"` // harness-level failure (never a verdict)
	Skipped string   `json:"skipped,omitempty"`

	Panic     string `json:"panic,omitempty"` // panic value recovered around VerifHandleMessage (fast path)
	Stack     string `json:"stack,omitempty"`
	PanicStep int    `json:"panic_step,omitempty"`
}

type sres struct {
	Err   string `json:"err,omitempty"` // handler error text (fast path only)
	OnMsg int    `json:"on_msg,omitempty"`
	OnSes int    `json:"on_ses,omitempty"`
}

type ires struct {
	SentID int64    `json:"sent_id"`          // message id seen at the transport for this invocation
	Sends  int      `json:"sends"`            // number of frames carrying it (re-sends after bad salt)
	Out    string   `json:"out"`              // outcome: res:<len>:<hash> | rpc:<code>:<msg> | bad:<code>:<salt> | canceled | other:<text>
	Decs   []string `json:"decs,omitempty"`   // every Output.Decode call: res:<len>:<hash>
	DecErr bool     `json:"decerr,omitempty"` // typed Output returned an error
}

func resTok(b []byte) string {
	h := sha256.Sum256(b)
	return fmt.Sprintf("res:%d:%s", len(b), hex.EncodeToString(h[:8]))
}
func rpcTok(code int, msg string) string   { return fmt.Sprintf("rpc:%d:%s", code, msg) }
func badTok(code int, salt int64) string   { return fmt.Sprintf("bad:%d:%d", code, salt) }
func le64(v int64) []byte                  { var b [8]byte; binary.LittleEndian.PutUint64(b[:], uint64(v)); return b[:] }
func le32(v uint32) []byte                 { var b [4]byte; binary.LittleEndian.PutUint32(b[:], v); return b[:] }
func rd32(b []byte) uint32                 { return binary.LittleEndian.Uint32(b) }
func rd64(b []byte) int64                  { return int64(binary.LittleEndian.Uint64(b)) }
func hasPrefix32(b []byte, id uint32) bool { return len(b) >= 4 && rd32(b) == id }
func containsID(p []byte, id int64) bool   { return bytes.Contains(p, le64(id)) }
func contains32(p []byte, id uint32) bool  { return bytes.Contains(p, le32(id)) }

const (
	idContainer  = 0x73f1f8dc
	idResult     = 0xf35c6d01
	idGzip       = 0x3072cfa1
	idRPCError   = 0x2144ca19
	idPong       = 0x347773c5
	idPing       = 0x7abe77ec
	idAck        = 0x62d6b459
	idBadMsg     = 0xa7eff811
	idBadSalt    = 0xedab447b
	idNewSession = 0x9ec20908
	idFutSalts   = 0xae500895
	idDetailed   = 0x276d3ec6
	idNewDetail  = 0x809db6df
	idVector     = 0x1cb5c415
	idReqMarker  = 0x0c23c230 // harness request constructor (never decoded by gotd/td)
)

// occursDeep reports whether the 8 bytes of id occur in p or in anything that
// unpacks from a gzip_packed constructor found anywhere in p (independent
// stdlib gunzip, recursively). ambiguous is set when some gzip candidate could
// not be unpacked cleanly: then the absence of id proves nothing.
func occursDeep(p []byte, id int64, depth int) (found, ambiguous bool) {
	if containsID(p, id) {
		return true, false
	}
	if depth > 6 {
		return false, contains32(p, idGzip)
	}
	marker := le32(idGzip)
	for off := 0; ; {
		i := bytes.Index(p[off:], marker)
		if i < 0 {
			break
		}
		pos := off + i + 4
		off = off + i + 1
		body, ok := tlBytes(p[pos:])
		if !ok {
			ambiguous = true
			continue
		}
		zr, err := stdgzip.NewReader(bytes.NewReader(body))
		if err != nil {
			ambiguous = true
			continue
		}
		data, err := io.ReadAll(io.LimitReader(zr, 12<<20))
		if err != nil {
			ambiguous = true
		}
		f, a := occursDeep(data, id, depth+1)
		if f {
			return true, false
		}
		ambiguous = ambiguous || a
	}
	return false, ambiguous
}

// tlBytes parses a TL "bytes" value (independent of bin.Buffer).
func tlBytes(b []byte) ([]byte, bool) {
	if len(b) < 1 {
		return nil, false
	}
	if b[0] < 254 {
		n := int(b[0])
		if len(b) < 1+n {
			return nil, false
		}
		return b[1 : 1+n], true
	}
	if b[0] == 255 || len(b) < 4 {
		return nil, false
	}
	n := int(b[1]) | int(b[2])<<8 | int(b[3])<<16
	if len(b) < 4+n {
		return nil, false
	}
	return b[4 : 4+n], true
}
