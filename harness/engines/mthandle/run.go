package main

import (
	"bytes"
	"encoding/json"
	"fmt"
	"os"
	"path/filepath"
	"regexp"
	"runtime"
	"sort"
	"strings"
	"sync"
	"time"

	"verif/harness/mon"
)

type job struct {
	tc     *tcase
	labels map[string]bool
	fast   *tresult // filled after the fast run (for cross validation)
	batch  string   // name of the batch the case currently runs in
}

func runC23(c *mon.Ctx) {
	initTypes()
	c.Rule("case = fresh mtproto.Conn + K (1..6) goroutines blocked in Conn.Invoke with known msg ids (+ optionally one in Conn.Ping) + 1..8 server payloads, run in a child process " +
		"(fast: verif hook VerifHandleMessage; slow: payload encrypted by the reference model and fed to the real read loop of mtproto.New/Run through a fake transport). " +
		"Payload sources: (i) every file of _fuzz/handle_message/corpus; (ii) generated service messages: rpc_result with result / rpc_error / gzip / pong inside, bad_msg_notification, " +
		"bad_server_salt, msgs_ack, pong, new_session_created, future_salts, msg_detailed_info, updates, unknown and truncated types, containers / nested containers / gzip of those, " +
		"multi-step sequences (duplicates, salt retry then result, all requests answered in shuffled order), request ids matching, off by +-4, unrelated, 0, -1, type/high bit flipped; " +
		"(iii) corpus entries wrapped into results / gzip / containers naming pending ids; (iv) 11 mutation operators over (i)-(iii); (v) nested containers / gzip up to the depth the size limits allow; " +
		"(vi) concurrent arm: many rounds per child process of [1..3 gzip-packed rpc_results in sequence, then rpc_results with unique bodies for all remaining pending requests + duplicates + unrelated ids " +
		"handled at the same time (barrier-released goroutines on the hook path, back-to-back frames through the real read loop)], exact-body oracle. " +
		"Oracles: child exit status (panic / fatal error attributed to the case); every Output.Decode and every Invoke return must be justified by a payload naming that invocation's id " +
		"(generated payloads: exact model of first-delivery-wins incl. container abort on error; others: the id bytes must occur in the payload or in what an independent gunzip unpacks from it). " +
		"distinct non-trivial = (family, node kind / request-id class / outcome class) for generated cases, (source, top-level TL type, handler result, delivered?) for corpus and mutants")
	c.Assume("harness/refmodel (MTProto 2.0 encryption written from the specification) is correct; it decrypts every frame the connection sends and encrypts the slow-path frames")
	c.Assume("invocation msg ids are handed out by a harness MessageIDSource (public option) and verified on the frames seen at the fake transport")
	c.Assume("payloads whose length is not a positive multiple of 4 cannot arrive in an authenticated message; they are exercised on the fast path only")
	c.Assume("a settle watchdog (30 s real time) firing is reported as inconclusive, never as a verdict")

	if raceBuild {
		c.Rule("race-detector build of engine mthandle, concurrent arm only: child processes run many rounds (package-level state needs history); a round = fresh mtproto.Conn, " +
			"K=2..6 goroutines blocked in Conn.Invoke, phase 1: 1..3 gzip-packed rpc_results (pending or unrelated ids) one after another, phase 2: rpc_results with unique bodies " +
			"(small / 1..64 KiB / mixed, some gzip-packed) for ALL remaining pending requests plus duplicates and unrelated ids handled concurrently (fast: goroutines released by a " +
			"barrier into VerifHandleMessage; slow: frames pushed back-to-back through the real read loop, one handler goroutine per frame); Output.Decode reads the body, yields, reads " +
			"it again. Oracles: race detector (gotd/td frames), every decoded / returned result must be a body sent with that invocation's msg id; distinct = (path, K, gzip-first count, " +
			"concurrent message count, size mode)")
		c.Assume("interleavings are sampled by the Go scheduler (GOMAXPROCS=4 in the children), not enumerated")
		if c.Replay != "" {
			c.Inconclusive("the concurrent arm has no deterministic replay (scheduler dependent); re-run the check")
			return
		}
		runConc(c, true)
		return
	}
	repo := os.Getenv("VERIF_REPO_DIR")
	if repo == "" {
		repo = "/repo"
	}
	j := &judge{c: c}

	if c.Replay != "" {
		replay(c, j)
		return
	}

	// ---- corpus -----------------------------------------------------------------
	dir := filepath.Join(repo, "_fuzz", "handle_message", "corpus")
	ents, err := os.ReadDir(dir)
	if err != nil {
		c.Inconclusive("corpus: " + err.Error())
		return
	}
	var names []string
	for _, e := range ents {
		if !e.IsDir() {
			names = append(names, e.Name())
		}
	}
	sort.Strings(names)
	corpus := make([][]byte, len(names))
	for i, n := range names {
		if corpus[i], err = os.ReadFile(filepath.Join(dir, n)); err != nil {
			c.Inconclusive("corpus: " + err.Error())
			return
		}
	}
	c.Set("corpus_files", len(names))
	if len(names) < 14101 {
		c.Inconclusive(fmt.Sprintf("corpus has %d files, 14101 expected", len(names)))
	}

	// ---- cases ------------------------------------------------------------------
	var jobs []*job
	add := func(tc *tcase, labels map[string]bool) { jobs = append(jobs, &job{tc: tc, labels: labels}) }

	r := c.Rand("c23-gen")
	mul := c.N(1, 10)
	var generated []*tcase
	for _, f := range []struct {
		fam string
		n   int
	}{{"single", 640}, {"container", 300}, {"container-err", 300}, {"nested", 300}, {"gzip", 200}, {"sequence", 300},
		{"resolve-all", 200}, {"salt-retry", 150}, {"dup", 150}, {"pongs", 100}} {
		genFamily(r, f.fam, f.n*mul, func(tc *tcase, l map[string]bool) {
			add(tc, l)
			generated = append(generated, tc)
		})
	}
	nGenerated := len(jobs)

	rc := c.Rand("c23-corpus")
	for i, p := range corpus {
		add(rawCase(rc, "corpus", names[i], p, nil), nil)
	}
	rw := c.Rand("c23-wrap")
	nWrap := c.N(2500, len(corpus)*7)
	for i := 0; i < nWrap; i++ {
		ci := i / 7 % len(corpus)
		if c.Quick() {
			ci = rw.IntN(len(corpus))
		}
		add(wrapCase(rw, names[ci], corpus[ci], i), nil)
	}
	rm := c.Rand("c23-mut")
	nMut := c.N(14000, 400000)
	for i := 0; i < nMut; i++ {
		if i%2 == 0 {
			ci := rm.IntN(len(corpus))
			p, cls := mutate(rm, corpus[ci], corpus[rm.IntN(len(corpus))], nil)
			if rm.IntN(3) == 0 {
				var c2 string
				p, c2 = mutate(rm, p, nil, nil)
				cls += "+" + c2
			}
			add(rawCase(rm, "mut-corpus/"+cls, names[ci], p, nil), nil)
			continue
		}
		base := generated[rm.IntN(len(generated))]
		si := rm.IntN(len(base.Steps))
		other := base.Steps[rm.IntN(len(base.Steps))].P
		p, cls := mutate(rm, base.Steps[si].P, other, base.IDs)
		tc := &tcase{Kind: "mut-" + base.Kind + "/" + cls, IDs: base.IDs, Ping: base.Ping}
		for k, st := range base.Steps {
			ns := tstep{MsgID: st.MsgID, P: st.P, Notes: st.Notes}
			if k == si {
				ns.P = p
			}
			tc.Steps = append(tc.Steps, ns)
		}
		add(tc, nil)
	}
	c.Set("cases_generated", nGenerated)
	c.Set("cases_corpus", len(corpus))
	c.Set("cases_wrapped", nWrap)
	c.Set("cases_mutated", nMut)

	// slow-path sample (all of it in the thorough tier): only payloads that can travel in an encrypted message
	rs := c.Rand("c23-slow")
	var slow []*job
	for i, jb := range jobs {
		ok := len(jb.tc.IDs) > 0
		for _, st := range jb.tc.Steps {
			ok = ok && len(st.P) > 0 && len(st.P)%4 == 0
		}
		if !ok {
			continue
		}
		take := !c.Quick()
		if c.Quick() {
			switch {
			case i < nGenerated:
				take = rs.IntN(4) == 0
			case i < nGenerated+len(corpus):
				take = rs.IntN(16) == 0
			default:
				take = rs.IntN(40) == 0
			}
		} else if i >= nGenerated+len(corpus) {
			take = rs.IntN(6) == 0
		}
		if take {
			slow = append(slow, jb)
		}
	}
	c.Set("cases_slow_path", len(slow))

	// ---- run ----------------------------------------------------------------------
	workers := runtime.NumCPU() / 2
	if workers > 6 {
		workers = 6
	}
	if workers < 2 {
		workers = 2
	}
	runAll := func(mode string, js []*job, chunk int) {
		type span struct{ lo, hi int }
		ch := make(chan span)
		var wg sync.WaitGroup
		for w := 0; w < workers; w++ {
			wg.Add(1)
			go func() {
				defer wg.Done()
				for s := range ch {
					inputs := make([][]byte, 0, s.hi-s.lo)
					for _, jb := range js[s.lo:s.hi] {
						b, err := json.Marshal(jb.tc)
						if err != nil {
							c.Inconclusive("marshal case: " + err.Error())
							b = []byte("{}")
						}
						inputs = append(inputs, b)
					}
					outs := mon.RunBatch(c, "c23-"+mode, fmt.Sprintf("%s-%06d", mode, s.lo), inputs, mon.BatchOpts{MemLimitMB: 2048, Timeout: 15 * time.Minute, MaxProcs: 2})
					for k, o := range outs {
						js[s.lo+k].batch = fmt.Sprintf("%s-%06d", mode, s.lo)
						j.check(js[s.lo+k], o, mode)
					}
					os.RemoveAll(filepath.Join(c.Out, fmt.Sprintf("batch-%s-%06d", mode, s.lo)))
				}
			}()
		}
		for lo := 0; lo < len(js); lo += chunk {
			j.mu.Lock()
			storm := j.crashes > 300 || j.timeouts > 300
			j.mu.Unlock()
			if storm {
				// hundreds of crashes / watchdogs: the verdict is settled, the rest would only burn the time budget
				c.Set("aborted_"+mode+"_at_case", lo)
				break
			}
			ch <- span{lo, min(lo+chunk, len(js))}
		}
		close(ch)
		wg.Wait()
	}
	concDone := make(chan float64, 1)
	go func() {
		t := time.Now()
		runConc(c, false)
		concDone <- time.Since(t).Seconds()
	}()
	deepDone := make(chan float64, 1)
	go func() {
		t := time.Now()
		runDeep(c, j)
		deepDone <- time.Since(t).Seconds()
	}()
	t := time.Now()
	runAll("fast", jobs, 1500)
	c.Set("wall_fast_s", time.Since(t).Seconds())
	t = time.Now()
	runAll("slow", slow, 400)
	c.Set("wall_slow_s", time.Since(t).Seconds())
	c.Set("wall_deep_s", <-deepDone) // ran concurrently with the batches above
	c.Set("wall_concurrent_s", <-concDone)

	j.finish()
}

// ---- deep nesting -----------------------------------------------------------------

func runDeep(c *mon.Ctx, j *judge) {
	// (a) moderate depths under the standard child limits
	moderate := []deepSpec{
		{"container", 8}, {"container", 500}, {"container", c.N(2000, 5000)},
		{"gzip", 8}, {"gzip", 300}, {"gzip", c.N(1500, 4000)},
		{"mixed", 64}, {"mixed", c.N(1500, 4000)},
	}
	// (b) depths the size limits of one message allow (an element of a container may be 1 MiB = 43 690 nested
	// containers; a message may be 16 MiB). Every level keeps a copy of its body alive while the inner levels are
	// handled, so d levels hold ~12*d^2 bytes (containers) / ~16*d^2 bytes (gzip). The child is confined to a
	// 2 GiB address space (RLIMIT_AS; the machine is shared, the full 43 690 levels would need 22.9 GB).
	deepest := []deepSpec{{"container", 10000}}
	if !c.Quick() {
		deepest = append(deepest, deepSpec{"container", 43690}, deepSpec{"gzip", 8000})
	}
	run := func(name string, specs []deepSpec, o mon.BatchOpts) {
		inputs := make([][]byte, len(specs))
		for i, s := range specs {
			inputs[i], _ = json.Marshal(s)
		}
		outs := mon.RunBatch(c, "c23-deep", name, inputs, o)
		for i, o := range outs {
			s := specs[i]
			switch {
			case o.Class == "ok":
				var dr deepRes
				_ = json.Unmarshal(o.Result, &dr)
				if dr.Build != "" {
					c.Inconclusive("deep payload build: " + dr.Build)
					continue
				}
				c.Eval(1)
				c.Distinct(fmt.Sprintf("deep/%s/depth=%d/err=%v/delivered=%d", s.Shape, dr.Depth, dr.Err != "", dr.OnMsg))
				c.Sample(name, map[string]any{"spec": s, "result": dr})
				if dr.Bytes > 0 {
					c.Set(fmt.Sprintf("deep_%s_%d_alloc_per_payload_byte", s.Shape, dr.Depth), dr.Alloc/uint64(dr.Bytes))
				}
			case o.Class == "timeout" || o.Class == "missing":
				c.Inconclusive(fmt.Sprintf("deep %v: %s", s, o.Class))
			default:
				c.Eval(1)
				c.Violate(crashSig(o.Class, fullStderr(c, name, o.Stderr))+"|deep-"+s.Shape, map[string]any{"spec": s, "class": o.Class, "stderr": o.Stderr, "batch": name,
					"td_frame":     crashFrame(fullStderr(c, name, o.Stderr)),
					"child_limits": fmt.Sprintf("RLIMIT_AS %d MiB, GOMEMLIMIT %d MiB", o2as(name), o2as(name)*3/16),
					"note": "payload = innermost updatesTooLong wrapped spec.depth times (container / gzip_packed / alternating); rebuilt deterministically by the c23-deep child; " +
						"a container nest of depth d is 24*d+4 bytes long"})
			}
		}
	}
	run("deep", moderate, mon.BatchOpts{MemLimitMB: 4096, Timeout: 20 * time.Minute, MaxProcs: 2})
	run("deepest", deepest, mon.BatchOpts{MemLimitMB: 512, Timeout: 20 * time.Minute, MaxProcs: 2})
}

func o2as(batch string) int {
	if batch == "deepest" {
		return 512 * 4
	}
	return 4096 * 4
}

// ---- judge ------------------------------------------------------------------------

type judge struct {
	c  *mon.Ctx
	mu sync.Mutex

	unverifiable  int
	crashes       int
	skipped       int
	errMismatch   int
	modelMismatch int
	timeouts      int
	delivered     map[string]int
	handlerErr    map[string]int
	crossChecked  int
	crossDiff     int
	crossCompared int
}

var frameRe = regexp.MustCompile(`(?m)^(github\.com/gotd/td/[^\s(]+(?:\([^)]*\))?[^\s(]*)\(`)

// fullStderr returns the complete stderr of the child run whose (shortened) stderr is short.
func fullStderr(c *mon.Ctx, batch, short string) string {
	files, _ := filepath.Glob(filepath.Join(c.Out, "batch-"+batch, "stderr-*.txt"))
	head := short
	if len(head) > 200 {
		head = head[:200]
	}
	for _, f := range files {
		if data, err := os.ReadFile(f); err == nil && head != "" && strings.HasPrefix(string(data), head) {
			return string(data)
		}
	}
	return short
}

// crashSig: class + innermost gotd/td function of the crashing goroutine. The allocation that fails
// first under memory exhaustion is arbitrary, so out-of-memory deaths carry no frame.
func crashSig(class, stderr string) string {
	if class == "fatal:oom" {
		return "crash|" + class
	}
	return "crash|" + class + "|" + crashFrame(stderr)
}

// crashFrame: innermost gotd/td function of the crashing goroutine.
func crashFrame(stderr string) string {
	m := frameRe.FindStringSubmatch(stderr)
	if m == nil {
		return "no-td-frame"
	}
	return strings.TrimPrefix(m[1], "github.com/gotd/td/")
}

func outClass(o string) string {
	if i := strings.IndexByte(o, ':'); i > 0 {
		return o[:i]
	}
	return o
}

func (j *judge) check(jb *job, o mon.Outcome, mode string) {
	c, tc := j.c, jb.tc
	wit := func(extra map[string]any) map[string]any {
		w := map[string]any{"mode": mode, "case": tc}
		for k, v := range extra {
			w[k] = v
		}
		return w
	}
	switch {
	case o.Class == "ok":
	case o.Class == "timeout" || o.Class == "missing":
		c.Inconclusive(fmt.Sprintf("%s case %s/%s: child %s", mode, tc.Kind, tc.Src, o.Class))
		return
	default:
		c.Eval(1)
		j.mu.Lock()
		j.crashes++
		j.mu.Unlock()
		c.Violate(crashSig(o.Class, fullStderr(c, jb.batch, o.Stderr)), wit(map[string]any{"class": o.Class, "stderr": o.Stderr}))
		return
	}
	var res tresult
	if err := json.Unmarshal(o.Result, &res); err != nil {
		c.Inconclusive("child result: " + err.Error())
		return
	}
	j.mu.Lock()
	defer j.mu.Unlock()
	if j.delivered == nil {
		j.delivered, j.handlerErr = map[string]int{}, map[string]int{}
	}
	if res.Skipped != "" {
		j.skipped++
		return
	}
	if res.Panic != "" {
		c.Eval(1)
		j.crashes++
		c.Violate("crash|panic|"+crashFrame(res.Stack), wit(map[string]any{"class": "panic", "panic": res.Panic, "step": res.PanicStep, "stack": tailHead(res.Stack, 3000)}))
		return
	}
	if res.Harness != "" {
		c.Inconclusive(fmt.Sprintf("harness (%s, %s): %s", mode, tc.Kind, res.Harness))
		return
	}
	if len(res.Timeout) > 0 {
		j.timeouts++
		if j.timeouts <= 3 {
			c.Inconclusive(fmt.Sprintf("settle watchdog (%s, %s %s): %s", mode, tc.Kind, tc.Src, strings.Join(res.Timeout, "; ")))
			c.Sample("watchdog", wit(map[string]any{"result": res}))
		}
		return
	}
	if len(res.Inv) != len(tc.IDs) || len(res.Steps) != len(tc.Steps) {
		c.Inconclusive(fmt.Sprintf("child result shape (%s, %s)", mode, tc.Kind))
		return
	}
	c.Eval(1)

	justified := func(i int, tok string) (ok bool, named []int64) {
		for _, st := range tc.Steps {
			for _, n := range st.Notes {
				if n.Tok == tok {
					if n.ID == tc.IDs[i] {
						return true, nil
					}
					named = append(named, n.ID)
				}
			}
		}
		if tc.Modeled {
			return false, named
		}
		amb := false
		for _, st := range tc.Steps {
			f, a := occursDeep(st.P, tc.IDs[i], 0)
			if f {
				return true, nil
			}
			amb = amb || a
		}
		if amb {
			j.unverifiable++
			return true, nil
		}
		return false, named
	}
	kindName := map[string]string{"res": "result", "rpc": "rpc-error", "bad": "bad-msg"}
	nDelivered := 0
	for i, iv := range res.Inv {
		if iv.SentID != tc.IDs[i] || iv.Sends < 1 {
			c.Inconclusive(fmt.Sprintf("invocation %d was sent under id %d, the case wants %d (%s)", i, iv.SentID, tc.IDs[i], tc.Kind))
			return
		}
		// (a) every Output.Decode
		for _, d := range iv.Decs {
			nDelivered++
			if ok, named := justified(i, d); !ok {
				c.Violate("route|misrouted-result", wit(map[string]any{"invocation": i, "its_id": tc.IDs[i], "decoded": d, "payload_named": named, "result": res}))
			}
		}
		// (b) the return of Invoke
		cls := outClass(iv.Out)
		switch cls {
		case "res", "rpc", "bad":
			if cls != "res" {
				nDelivered++
			}
			if ok, named := justified(i, iv.Out); !ok {
				c.Violate("route|misrouted-"+kindName[cls], wit(map[string]any{"invocation": i, "its_id": tc.IDs[i], "returned": iv.Out, "payload_named": named, "result": res}))
			}
		case "canceled":
		default:
			c.Distinct("invoke-return/" + strings.SplitN(iv.Out, " ", 2)[0])
			c.Sample("other-return", map[string]any{"kind": tc.Kind, "out": iv.Out})
		}
		// (c) the model
		if i < len(tc.Must) && tc.Must[i] != "" {
			must := tc.Must[i]
			switch {
			case must == "pending" && iv.Out == "canceled" && len(iv.Decs) == 0:
			case must == iv.Out:
			case must != "pending" && strings.HasPrefix(must, "res:") && len(iv.Decs) == 0 && iv.Out == "canceled":
				c.Violate("route|lost-result", wit(map[string]any{"invocation": i, "its_id": tc.IDs[i], "expected": must, "result": res}))
			default:
				if ok, _ := justified(i, iv.Out); ok || iv.Out == "canceled" {
					// delivered to the right request but not what the model predicted: the model, not the property
					j.modelMismatch++
					if j.modelMismatch <= 3 {
						c.Inconclusive(fmt.Sprintf("model mismatch (%s, %s): invocation %d returned %s, model says %s", mode, tc.Kind, i, iv.Out, must))
						c.Sample("model-mismatch", wit(map[string]any{"invocation": i, "result": res}))
					}
				}
			}
		}
		if jb.labels != nil {
			c.Distinct(fmt.Sprintf("%s/outcome=%s/model=%s", tc.Kind, cls, outClass(func() string {
				if i < len(tc.Must) {
					return tc.Must[i]
				}
				return ""
			}())))
		}
	}
	// ping
	if tc.Ping {
		if res.PingID != pingConst {
			c.Inconclusive(fmt.Sprintf("ping id %x is not the constant the case assumes", res.PingID))
			return
		}
		if res.Ping == "pong" {
			ok := false
			for _, st := range tc.Steps {
				f, a := occursDeep(st.P, pingConst, 0)
				ok = ok || f || a
			}
			if !ok {
				c.Violate("route|pong-without-ping-id", wit(map[string]any{"result": res}))
			}
		}
		if tc.MustPing != "" && tc.MustPing != res.Ping {
			j.modelMismatch++
			if j.modelMismatch <= 3 {
				c.Inconclusive(fmt.Sprintf("model mismatch (%s, %s): ping returned %q, model says %q", mode, tc.Kind, res.Ping, tc.MustPing))
				c.Sample("model-mismatch", wit(map[string]any{"result": res}))
			}
		}
		if jb.labels != nil {
			c.Distinct(tc.Kind + "/ping=" + res.Ping)
		}
	}
	// handler error model (consistency of the generator's model, fast path only: no verdict)
	anyErr := false
	for si, st := range tc.Steps {
		got := res.Steps[si].Err != ""
		anyErr = anyErr || got
		if mode == "fast" && st.Err != 0 && got != (st.Err == 2) {
			j.errMismatch++
			if j.errMismatch <= 3 {
				c.Inconclusive(fmt.Sprintf("model mismatch (%s): step %d handler error %q, model says error=%v", tc.Kind, si, res.Steps[si].Err, st.Err == 2))
				c.Sample("model-mismatch", wit(map[string]any{"step": si, "result": res}))
			}
		}
	}
	// coverage
	if jb.labels != nil {
		for l := range jb.labels {
			c.Distinct(tc.Kind + "/" + l)
		}
	} else {
		top := "short"
		if p := tc.Steps[0].P; len(p) >= 4 {
			id := rd32(p)
			if top = typeNames.Get(id); top == "" {
				top = map[uint32]string{idContainer: "msg_container", idResult: "rpc_result", idGzip: "gzip_packed"}[id]
			}
			if top == "" {
				top = "unknown-type"
			}
		}
		kind := tc.Kind
		if i := strings.IndexByte(kind, '+'); i > 0 {
			kind = kind[:i]
		}
		c.Distinct(fmt.Sprintf("%s/%s/err=%v/delivered=%v", kind, top, anyErr, nDelivered > 0))
	}
	j.delivered[mode] += nDelivered
	if anyErr {
		j.handlerErr[mode]++
	}
	if len(tc.Kind) > 0 {
		k := tc.Kind
		if i := strings.IndexByte(k, '/'); i > 0 {
			k = k[:i]
		}
		c.Sample(mode+"/"+k, map[string]any{"kind": tc.Kind, "src": tc.Src, "ids": tc.IDs, "payload0_hex": hx(tc.Steps[0].P), "steps": len(tc.Steps), "result": res})
	}

	// cross validation of the hook path by the real read loop
	if mode == "fast" {
		r := res
		jb.fast = &r
		return
	}
	if jb.fast == nil {
		return
	}
	j.crossChecked++
	for i := range res.Inv {
		// Comparable: invocations whose outcome the model fixes, and for unmodeled payloads those
		// whose id occurs at most once in clear (a second delivery races with the return of Invoke:
		// "handler already called" aborts the enclosing container, "callback not set" does not).
		comparable := i < len(tc.Must) && tc.Must[i] != ""
		if !tc.Modeled && len(tc.Must) == 0 {
			comparable = len(tc.Steps) == 1 // between the steps of an unmodeled sequence nothing waits for re-sends
			for _, st := range tc.Steps {
				for _, id := range tc.IDs {
					if bytes.Count(st.P, le64(id)) > 1 {
						comparable = false
					}
				}
				if contains32(st.P, idGzip) && contains32(st.P, idContainer) {
					comparable = false
				}
			}
		}
		if !comparable {
			continue
		}
		j.crossCompared++
		a, b := jb.fast.Inv[i], res.Inv[i]
		same := strings.Join(a.Decs, ",") == strings.Join(b.Decs, ",")
		if a.Out != "canceled" && b.Out != "canceled" && a.Out != b.Out {
			same = false
		}
		if !same {
			j.crossDiff++
			if j.crossDiff <= 3 {
				c.Inconclusive(fmt.Sprintf("fast and slow path disagree (%s %s) on invocation %d: fast %s %v, slow %s %v", tc.Kind, tc.Src, i, a.Out, a.Decs, b.Out, b.Decs))
				c.Sample("fast-slow-diff", wit(map[string]any{"fast": jb.fast, "slow": res}))
			}
			break
		}
	}
}

func (j *judge) finish() {
	c := j.c
	j.mu.Lock()
	defer j.mu.Unlock()
	c.Set("deliveries_fast", j.delivered["fast"])
	c.Set("deliveries_slow", j.delivered["slow"])
	c.Set("cases_with_handler_error_fast", j.handlerErr["fast"])
	c.Set("cases_with_handler_error_slow", j.handlerErr["slow"])
	c.Set("slow_skipped", j.skipped)
	c.Set("unverifiable_gzip_justifications", j.unverifiable)
	c.Set("model_mismatches", j.modelMismatch+j.errMismatch)
	c.Set("settle_watchdogs", j.timeouts)
	c.Set("fast_slow_cross_checked", j.crossChecked)
	c.Set("fast_slow_invocations_compared", j.crossCompared)
	c.Set("fast_slow_differences", j.crossDiff)
	if j.delivered["fast"] == 0 || j.delivered["slow"] == 0 {
		c.Inconclusive("no delivery to a pending invocation was observed")
	}
	if j.crossChecked == 0 {
		c.Inconclusive("the slow path cross-validated nothing")
	}
}

func tailHead(s string, n int) string {
	if len(s) <= n {
		return s
	}
	return s[:n/2] + "\n...\n" + s[len(s)-n/2:]
}

func hx(b []byte) string {
	const max = 64
	if len(b) > max {
		return fmt.Sprintf("%x...(%d bytes)", b[:max], len(b))
	}
	return fmt.Sprintf("%x", b)
}

// replay re-runs the case of a replay file in its mode.
func replay(c *mon.Ctx, j *judge) {
	data, err := os.ReadFile(c.Replay)
	if err != nil {
		c.Inconclusive("replay: " + err.Error())
		return
	}
	var rf struct {
		Witness struct {
			Mode  string    `json:"mode"`
			Case  *tcase    `json:"case"`
			Spec  *deepSpec `json:"spec"`
			Batch string    `json:"batch"`
		} `json:"witness"`
	}
	if err := json.Unmarshal(data, &rf); err != nil {
		c.Inconclusive("replay: " + err.Error())
		return
	}
	switch {
	case rf.Witness.Spec != nil:
		in, _ := json.Marshal(rf.Witness.Spec)
		lim := 4096
		if rf.Witness.Batch == "deepest" {
			lim = 512
		}
		outs := mon.RunBatch(c, "c23-deep", "replay", [][]byte{in}, mon.BatchOpts{MemLimitMB: lim, MaxProcs: 2})
		for _, o := range outs {
			c.Eval(1)
			c.Distinct("replay/" + o.Class)
			c.Distinct("replay")
			if o.Class != "ok" {
				c.Violate(crashSig(o.Class, fullStderr(c, "replay", o.Stderr))+"|deep-"+rf.Witness.Spec.Shape, map[string]any{"spec": rf.Witness.Spec, "class": o.Class, "stderr": o.Stderr, "batch": rf.Witness.Batch})
			}
		}
	case rf.Witness.Case != nil:
		mode := rf.Witness.Mode
		if mode != "slow" {
			mode = "fast"
		}
		in, _ := json.Marshal(rf.Witness.Case)
		outs := mon.RunBatch(c, "c23-"+mode, "replay", [][]byte{in}, mon.BatchOpts{MemLimitMB: 2048})
		for _, o := range outs {
			c.Distinct("replay/" + o.Class)
			c.Distinct("replay")
			j.check(&job{tc: rf.Witness.Case, batch: "replay"}, o, mode)
		}
	default:
		c.Inconclusive("replay file has no case")
	}
}
