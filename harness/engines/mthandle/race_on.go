//go:build race

package main

// raceBuild: this binary is the -race build of the engine (registered as also=[engine mthandle, race=True]);
// it runs only the concurrent arm, the race detector being the additional oracle.
const raceBuild = true
