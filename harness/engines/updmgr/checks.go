package main

import (
	"fmt"
	"sort"
	"strings"
)

// ---------------------------------------------------------------------------
// Offline checkers over the totally ordered trace of one run.
// ---------------------------------------------------------------------------

type finding struct {
	sig     string
	witness map[string]any
}

// exemption: log range a too-long response skipped and the library reported
// through its callback. Strictly (statement C03) it holds from the callback on;
// the window between the response and the callback is classified separately
// (the library persists the skipped position one statement BEFORE it invokes the
// callback).
type exemption struct {
	key      string // sequence key
	from, to int    // (from, to]
	at       int    // trace index of the too-long response
	cb       int    // trace index of the callback
}

// exemptions pairs every too-long response with the callback that follows it.
func exemptions(trace []tev) []exemption {
	var out []exemption
	var pendingCommon []exemption
	pendingCh := map[int64][]exemption{}
	for _, e := range trace {
		switch {
		case e.T == "diff" && e.Resp == "tooLong":
			pendingCommon = append(pendingCommon, exemption{key: "pts", from: e.ReqPts, to: e.Pts, at: e.I})
		case e.T == "chdiff" && e.Resp == "tooLong":
			pendingCh[e.Ch] = append(pendingCh[e.Ch], exemption{key: fmt.Sprintf("ch:%d", e.Ch), from: e.ReqPts, to: e.Pts, at: e.I})
		case e.T == "toolong":
			// The callback belongs to the LATEST too-long response: the library
			// reports in the same goroutine right after receiving it. Older
			// unreported ones were answers the library discarded (the
			// getDifference of restoreAccessHash only reads the chats).
			if n := len(pendingCommon); n > 0 {
				pendingCommon[n-1].cb = e.I
				out = append(out, pendingCommon[n-1])
				pendingCommon = nil
			}
		case e.T == "chtoolong":
			if p := pendingCh[e.Ch]; len(p) > 0 {
				p[len(p)-1].cb = e.I
				out = append(out, p[len(p)-1])
				pendingCh[e.Ch] = nil
			}
		}
	}
	return out
}

// exemptAt: 2 = reported through the callback before trace index at; 1 = the
// too-long response was returned before at but the callback came later; 0 = not
// exempt.
func exemptAt(ex []exemption, e *entry, at int) int {
	best := 0
	for _, x := range ex {
		if x.key != e.seqKey() || e.End <= x.from || e.End > x.to {
			continue
		}
		switch {
		case x.cb < at:
			return 2
		case x.at < at:
			best = 1
		}
	}
	return best
}

const tooLongWindow = "too-long-position-persisted-before-callback"

// chanOwed says from which channel pts on entries are owed, and since when.
//
// A channel in the initial storage is owed from its stored pts, always. A
// channel first seen during the run is owed from the position the library
// started it at (pts - pts_count of the first update it saw: that very update
// and everything later; history before first sight is not owed). It becomes
// owed at trace index `since`: the first main-loop storage write after the
// library looked the channel up (GetChannelPts in handleChannel). The library is
// expected to make exactly that write the channel's own SetChannelPts, so that
// from then on the persistent image tracks the channel. Never seen => since<0.
type chanOwed struct {
	from  int
	since int
	late  bool
}

func (r *run) chanOwed(trace []tev) map[int64]chanOwed {
	out := map[int64]chanOwed{}
	for _, ch := range r.sc.Chans {
		if !ch.Late {
			out[ch.ID] = chanOwed{from: ch.S0, since: 0}
			continue
		}
		o := chanOwed{since: -1, late: true}
		read, from := -1, -1
		for _, t := range trace {
			switch {
			case t.T == "chread" && t.Ch == ch.ID && read < 0:
				read = t.I
			case read >= 0 && o.since < 0 && t.T == "write" && (t.W != "SetChannelPts" || t.Ch == ch.ID):
				o.since = t.I
			}
			if from < 0 && t.Ch == ch.ID && ((t.T == "write" && t.W == "SetChannelPts") || t.T == "chdiff") {
				// the first position the library holds for the channel
				if t.T == "chdiff" {
					from = t.ReqPts
				} else {
					from = t.Pts
				}
			}
		}
		if from < 0 {
			o.since = -1
		}
		o.from = from
		out[ch.ID] = o
	}
	return out
}

// owedAt: is channel entry e owed to the handler at trace index at?
func owedAt(co map[int64]chanOwed, e *entry, at int) bool {
	if e.Cls != clsChan {
		return true
	}
	o := co[e.Ch]
	return o.since >= 0 && o.since <= at && e.End > o.from
}

// offered tells through which response part an entry was handed to the library
// in trace[:upto] (most specific wins).
func offered(trace []tev, e *entry, upto int) string {
	best := "never-in-a-difference"
	rank := 0
	has := func(l []int) bool {
		for _, u := range l {
			if u == e.UID {
				return true
			}
		}
		return false
	}
	set := func(r int, s string) {
		if r > rank {
			rank, best = r, s
		}
	}
	for _, t := range trace {
		if t.I >= upto {
			break
		}
		switch t.T {
		case "diff":
			if has(t.Msgs) {
				set(3, "difference.new_messages")
			}
			if has(t.Others) {
				set(3, "difference.other_updates")
			}
			if has(t.ChOth) {
				set(1, "difference.other_updates(channel)")
			}
		case "chdiff":
			if has(t.Msgs) {
				set(2, "channelDifference.new_messages")
			}
			if has(t.Others) {
				set(2, "channelDifference.other_updates")
			}
		}
	}
	return best
}

func compactTrace(trace []tev, around, radius int) []tev {
	lo, hi := around-radius, around+radius
	if lo < 0 {
		lo = 0
	}
	if hi > len(trace) {
		hi = len(trace)
	}
	return trace[lo:hi]
}

func (r *run) witness(extra map[string]any, around int) map[string]any {
	w := map[string]any{"scenario": r.sc, "case": map[string]any{"level": "mgr", "index": r.sc.Idx}}
	for k, v := range extra {
		w[k] = v
	}
	if around >= 0 {
		w["trace_window"] = compactTrace(r.trace, around, 25)
	}
	return w
}

// ---- C01, manager level -----------------------------------------------------------

func (r *run) checkC01() (out []finding, stats map[string]int) {
	sc := r.sc
	stats = map[string]int{}
	cover := map[string]int{"pts": sc.S0, "qts": sc.Q0, "seq": 0}
	allowed := map[string]map[int]bool{"pts": {sc.S0: true}, "qts": {sc.Q0: true}, "seq": {0: true}}
	for _, ch := range sc.Chans {
		k := fmt.Sprintf("ch:%d", ch.ID)
		cover[k] = ch.S0
		allowed[k] = map[int]bool{ch.S0: true}
	}
	delivered := map[int]int{}
	seqSeen := map[int64]int{}
	// Self-initiated entries announced through HandleAffected advance the position
	// without any handler event (by design, issue #1382). From the announcement
	// on, such an entry counts as covered as soon as it is contiguous with cover;
	// the manager may apply it later than that (its queue is invisible), which
	// only makes this oracle more permissive, never stricter.
	var announced []*entry
	closure := func(k string) {
		for moved := true; moved; {
			moved = false
			for _, a := range announced {
				if a.seqKey() == k && a.start() <= cover[k] && a.End > cover[k] {
					cover[k] = a.End
					moved = true
				}
				if a.seqKey() == k && a.End <= cover[k] {
					allowed[k][a.End] = true
				}
			}
		}
	}
	raise := func(k string, p int) {
		if p > cover[k] {
			cover[k] = p
		}
		allowed[k][p] = true
		closure(k)
	}
	position := func(k, cls string, req int, at int) {
		stats["position_observations"]++
		switch {
		case req > cover[k]:
			out = append(out, finding{"mgr|position-ahead-of-delivered|" + cls, r.witness(map[string]any{"sequence": k, "request_position": req, "cover": cover[k]}, at)})
		case !allowed[k][req]:
			out = append(out, finding{"mgr|position-not-a-delivered-end|" + cls, r.witness(map[string]any{"sequence": k, "request_position": req, "cover": cover[k]}, at)})
		case req < cover[k]:
			stats["position_behind_cover"]++
		}
	}
	for _, e := range r.trace {
		switch e.T {
		case "diff":
			position("pts", "common-pts", e.ReqPts, e.I)
			position("qts", "common-qts", e.ReqQts, e.I)
			switch e.Resp {
			case "difference", "slice":
				raise("pts", e.Pts)
				raise("qts", e.Qts)
				raise("seq", e.Seq)
			case "empty":
				raise("seq", e.Seq)
			case "tooLong":
				raise("pts", e.Pts)
			}
		case "chdiff":
			k := fmt.Sprintf("ch:%d", e.Ch)
			position(k, "channel-pts", e.ReqPts, e.I)
			if e.Resp != "error" {
				raise(k, e.Pts)
			}
		case "affcall":
			en := sc.byUID[e.UID]
			announced = append(announced, en)
			stats["affected_announcements"]++
			closure(en.seqKey())
		case "deliver":
			en := sc.byUID[e.UID]
			k := en.seqKey()
			stats["deliveries"]++
			if first, dup := delivered[e.UID]; dup {
				out = append(out, finding{"mgr|delivered-twice|" + en.Cls.String(),
					r.witness(map[string]any{"entry": en, "first_delivery_at": first, "second_delivery_at": e.I}, e.I)})
				continue
			}
			delivered[e.UID] = e.I
			if en.start() > cover[k] {
				out = append(out, finding{"mgr|delivered-before-predecessors|" + en.Cls.String(),
					r.witness(map[string]any{"entry": en, "cover": cover[k]}, e.I)})
			}
			if en.start() < cover[k] {
				stats["delivered_inside_covered_range"]++ // contents of a fetched difference
			}
			raise(k, en.End)
		case "seqmarker":
			ev := sc.bySeqMk[e.M]
			stats["seq_containers_applied"]++
			if first, dup := seqSeen[e.M]; dup {
				out = append(out, finding{"mgr|delivered-twice|common-seq", r.witness(map[string]any{"seq": ev.Seq, "first_at": first}, e.I)})
				continue
			}
			seqSeen[e.M] = e.I
			if ev.Seq-1 > cover["seq"] {
				out = append(out, finding{"mgr|delivered-before-predecessors|common-seq", r.witness(map[string]any{"seq": ev.Seq, "cover": cover["seq"]}, e.I)})
			}
			raise("seq", ev.Seq)
		}
	}
	return out, stats
}

// ---- C02 -----------------------------------------------------------------------

type c02stats struct {
	owed, exempt, delivered    int
	affected                   int // self-initiated position-only entries
	notOwed, lateOwed          int // entries of a channel never seen / before first sight; owed entries of first-seen channels
	viaPush                    int
	recoveredMsg, recoveredOth int // delivered entries that a difference had to carry (never applied from a push)
	respTypes                  map[string]bool
}

// deliveredSet returns uid -> first delivery index.
func deliveredSet(trace []tev) map[int]int {
	d := map[int]int{}
	for _, e := range trace {
		if e.T == "deliver" {
			if _, ok := d[e.UID]; !ok {
				d[e.UID] = e.I
			}
		}
	}
	return d
}

func (r *run) checkC02() (out []finding, st c02stats) {
	st.respTypes = map[string]bool{}
	ex := exemptions(r.trace)
	del := deliveredSet(r.trace)
	end := len(r.trace)
	for _, t := range r.trace {
		if t.T == "diff" || t.T == "chdiff" {
			st.respTypes[t.T+":"+t.Resp] = true
		}
	}
	co := r.chanOwed(r.trace)
	for _, e := range r.sc.entries {
		if e.Kind.isAffected() {
			st.affected++ // occupies positions, owes nothing to the handler
			continue
		}
		if !owedAt(co, e, end) {
			st.notOwed++
			continue
		}
		st.owed++
		if co[e.Ch].late {
			st.lateOwed++
		}
		if _, ok := del[e.UID]; ok {
			st.delivered++
			continue
		}
		if exemptAt(ex, e, end) == 2 {
			st.exempt++
			continue
		}
		how := offered(r.trace, e, end)
		out = append(out, finding{fmt.Sprintf("lost|%s|last-offered-in=%s", e.Cls, how),
			r.witness(map[string]any{"entry": e, "kind": e.Kind.String(), "offered": how, "trace": r.trace}, -1)})
	}
	// how the delivered ones got there: before or after they first appeared in a response
	firstOffer := map[int]int{}
	isMsgOffer := map[int]bool{}
	for _, t := range r.trace {
		if t.T != "diff" && t.T != "chdiff" {
			continue
		}
		for _, u := range t.Msgs {
			if _, ok := firstOffer[u]; !ok {
				firstOffer[u], isMsgOffer[u] = t.I, true
			}
		}
		for _, u := range append(append([]int(nil), t.Others...), t.ChOth...) {
			if _, ok := firstOffer[u]; !ok {
				firstOffer[u] = t.I
			}
		}
	}
	for uid, at := range del {
		fo, ok := firstOffer[uid]
		switch {
		case !ok || at < fo:
			st.viaPush++
		case isMsgOffer[uid]:
			st.recoveredMsg++
		default:
			st.recoveredOth++
		}
	}
	return out, st
}

// ---- C03 online invariant ----------------------------------------------------------

// checkC03 checks at every position-bearing storage write that no owed entry at or
// below the written position is still undelivered (and not reported too long).
func (r *run) checkC03() (out []finding, writes int) {
	ex := exemptions(r.trace)
	del := map[int]bool{}
	reported := map[string]bool{}
	co := r.chanOwed(r.trace)
	check := func(w tev, key string, pos int) {
		for _, e := range r.sc.entries {
			if e.seqKey() != key || e.End > pos || del[e.UID] || e.Kind.isAffected() {
				continue
			}
			if e.Cls == clsChan && e.End <= co[e.Ch].from {
				continue // history before the channel was first seen
			}
			x := exemptAt(ex, e, w.I)
			if x == 2 {
				continue
			}
			how := offered(r.trace, e, w.I)
			sig := fmt.Sprintf("persist-ahead|%s|%s|undelivered-entry-last-offered-in=%s", e.Cls, w.W, how)
			if x == 1 {
				sig = fmt.Sprintf("persist-ahead|%s|%s|%s", e.Cls, w.W, tooLongWindow)
			}
			if reported[sig] {
				continue
			}
			reported[sig] = true
			out = append(out, finding{sig, r.witness(map[string]any{"entry": e, "kind": e.Kind.String(), "write": w, "persisted_position": pos}, w.I)})
		}
	}
	for _, t := range r.trace {
		switch t.T {
		case "deliver":
			del[t.UID] = true
		case "write":
			switch t.W {
			case "SetState":
				writes++
				check(t, "pts", t.Pts)
				check(t, "qts", t.Qts)
			case "SetPts":
				writes++
				check(t, "pts", t.Pts)
			case "SetQts":
				writes++
				check(t, "qts", t.Qts)
			case "SetChannelPts":
				writes++
				check(t, fmt.Sprintf("ch:%d", t.Ch), t.Pts)
			}
		}
	}
	return out, writes
}

// crashPoints returns the trace indices of writes that changed the persistent
// image (a crash anywhere between two such writes restarts from the same image;
// the delivered set is smallest right after the write, which is the point used).
func (r *run) crashPoints() []int {
	var out []int
	var prev string
	for _, t := range r.trace {
		if t.T != "write" || t.snap == nil {
			continue
		}
		img := snapKey(t.snap)
		if img == prev {
			continue
		}
		prev = img
		out = append(out, t.I)
	}
	return out
}

func snapKey(s *snapshot) string {
	var b strings.Builder
	fmt.Fprintf(&b, "%v|", s.State)
	for _, m := range []map[int64]int{s.Ch} {
		keys := make([]int64, 0, len(m))
		for k := range m {
			keys = append(keys, k)
		}
		sort.Slice(keys, func(i, j int) bool { return keys[i] < keys[j] })
		for _, k := range keys {
			fmt.Fprintf(&b, "%d=%d,", k, m[k])
		}
	}
	fmt.Fprintf(&b, "|u%d|c%d", len(s.UHash), len(s.ChHash))
	return b.String()
}

// restartCheck: crash right after trace index t, restart a NEW manager from the
// persistent image of that moment against the same server at its final head,
// recover, and require first-run deliveries before t plus second-run deliveries
// to cover the whole log (minus reported too-long ranges of either run).
func (r *run) restartCheck(t int, seed uint64) (out []finding, r2 *run) {
	snap := r.trace[t].snap
	r2 = newRun(r.sc, snap, len(r.sc.Events), false, seed)
	r2.execute()
	if r2.problem != "" {
		return nil, r2
	}
	ex1 := exemptions(r.trace)
	ex2 := exemptions(r2.trace)
	d1 := deliveredSet(r.trace[:t])
	d2 := deliveredSet(r2.trace)
	co := r.chanOwed(r.trace)
	for _, e := range r.sc.entries {
		if _, ok := d1[e.UID]; ok {
			continue
		}
		if _, ok := d2[e.UID]; ok {
			continue
		}
		if e.Kind.isAffected() || !owedAt(co, e, t) {
			continue // position-only entry, or channel not (yet) taken on by the library at the crash point
		}
		x1 := exemptAt(ex1, e, t+1)
		if x1 == 2 || exemptAt(ex2, e, len(r2.trace)) == 2 {
			continue
		}
		// Two classes: the image already covers the undelivered entry (the online
		// invariant was broken at or before the crash point), or the image is fine and
		// the restarted manager lost the entry during its own recovery.
		imagePos := snap.State.Pts
		switch e.Cls {
		case clsQts:
			imagePos = snap.State.Qts
		case clsChan:
			imagePos = snap.Ch[e.Ch]
		}
		sig := fmt.Sprintf("restart-lost|%s|image-covers-undelivered-entry", e.Cls)
		_, inImage := snap.Ch[e.Ch]
		switch {
		case e.Cls == clsChan && !inImage:
			// the library had taken the channel on, yet the image does not know it:
			// the restarted manager never asks for its difference
			sig = "restart-lost|channel-pts|first-seen-channel-missing-from-image"
		case e.End > imagePos:
			sig = fmt.Sprintf("restart-lost|%s|lost-in-restart-recovery|last-offered-in=%s", e.Cls, offered(r2.trace, e, len(r2.trace)))
		case x1 == 1:
			// crash between the write of the skipped position and the too-long callback
			sig = fmt.Sprintf("restart-lost|%s|%s", e.Cls, tooLongWindow)
		}
		out = append(out, finding{sig,
			r.witness(map[string]any{"entry": e, "kind": e.Kind.String(), "crash_after_trace_index": t, "crash_after_write": r.trace[t],
				"persistent_image": map[string]any{"state": snap.State, "channels": snap.Ch}, "restart_trace": r2.trace}, t)})
	}
	return out, r2
}
