package main

import (
	"fmt"
	"math/rand/v2"
)

// ---------------------------------------------------------------------------
// Scenario = a finite server update log + a lossy delivery plan + server
// behaviour knobs. Everything is derived from one PCG stream.
// ---------------------------------------------------------------------------

type seqClass int

const (
	clsPts seqClass = iota
	clsQts
	clsChan
)

func (c seqClass) String() string {
	switch c {
	case clsPts:
		return "common-pts"
	case clsQts:
		return "common-qts"
	default:
		return "channel-pts"
	}
}

type entryKind int

const (
	kNewMsg     entryKind = iota // common pts, travels in difference.new_messages
	kDelete                      // common pts, other_updates (pts_count 1..3)
	kRead                        // common pts, other_updates
	kEdit                        // common pts, other_updates
	kEnc                         // qts, new_encrypted_messages
	kBotStopped                  // qts, other_updates
	kChatPart                    // qts, other_updates
	kChMsg                       // channel pts, channelDifference.new_messages
	kChDelete                    // channel pts, other_updates (pts_count 1..3)
	kChEdit                      // channel pts, other_updates
	// Self-initiated read/delete (messages.readHistory, messages.deleteMessages,
	// channels.deleteMessages ...): the server log position is occupied, but the
	// client learns it ONLY through Manager.HandleAffected(channelID, pts, ptsCount),
	// as telegram/updates/hook.AffectedHook does with the RPC result. Nothing is
	// owed to the handler for it; a difference just covers its range.
	kAffected   // common pts
	kChAffected // channel pts
)

var kindNames = [...]string{"newMessage", "deleteMessages", "readHistoryInbox", "editMessage",
	"newEncryptedMessage", "botStopped", "chatParticipant",
	"newChannelMessage", "deleteChannelMessages", "editChannelMessage", "affected", "channelAffected"}

func (k entryKind) String() string { return kindNames[k] }

// isMessage: entries a difference returns in new_messages / new_encrypted_messages
// (everything else travels in other_updates with its real pts / qts).
func (k entryKind) isMessage() bool { return k == kNewMsg || k == kEnc || k == kChMsg }

// isAffected: position-only entries announced through HandleAffected.
func (k entryKind) isAffected() bool { return k == kAffected || k == kChAffected }

type entry struct {
	Cls    seqClass  `json:"cls"`
	Ch     int64     `json:"ch,omitempty"`
	Kind   entryKind `json:"kind"`
	UID    int       `json:"uid"`
	End    int       `json:"end"`
	Count  int       `json:"count"`
	Date   int       `json:"date"`
	Event  int       `json:"event"`
	Sender int64     `json:"sender,omitempty"`
}

func (e *entry) start() int { return e.End - e.Count }

func (e *entry) seqKey() string {
	switch e.Cls {
	case clsPts:
		return "pts"
	case clsQts:
		return "qts"
	default:
		return fmt.Sprintf("ch:%d", e.Ch)
	}
}

type event struct {
	Idx       int      `json:"idx"`
	Date      int      `json:"date"`
	Seq       int      `json:"seq,omitempty"`
	SeqMarker int64    `json:"seq_marker,omitempty"`
	Entries   []*entry `json:"entries"`
	Short     bool     `json:"short,omitempty"`       // pushed as updateShortMessage
	NoEnts    bool     `json:"no_entities,omitempty"` // unknown sender, container carries no Users
	NoiseCh   int64    `json:"noise_ch,omitempty"`    // carries a count-0 updateReadChannelInbox for this channel
	NoisePts  int      `json:"noise_pts,omitempty"`
}

type chanSpec struct {
	ID   int64 `json:"id"`
	Hash int64 `json:"hash"`
	S0   int   `json:"s0"`
	// Late: the channel exists on the server but is NOT in the client's initial
	// storage / access-hash store; the client first sees it through a pushed
	// channel update or a channel update in a difference's other_updates (the
	// accompanying chats carry its access hash).
	Late bool `json:"late,omitempty"`
}

type planOp struct {
	Occur   int `json:"occur"`   // event index that happens on the server now, -1 if none
	Deliver int `json:"deliver"` // event index whose container is pushed now, -1 if none
}

const (
	chanModeEntries = iota // common difference lists channel entries newer than the request date in other_updates
	chanModeTooLong        // common difference lists updateChannelTooLong for such channels
	chanModeNone           // common difference says nothing about channels
)

type scenario struct {
	Idx           int        `json:"idx"`
	Class         string     `json:"class"`
	S0            int        `json:"s0"`
	Q0            int        `json:"q0"`
	D0            int        `json:"d0"`
	Chans         []chanSpec `json:"chans"`
	Events        []*event   `json:"events"`
	Plan          []planOp   `json:"plan"`
	SliceL        int        `json:"slice_l"`    // 0 = unsliced
	ChSliceL      int        `json:"ch_slice_l"` // 0 = unsliced
	ChanMode      int        `json:"chan_mode"`
	TooLongCommon int        `json:"too_long_common"` // >0: differenceTooLong when more pts entries are due
	TooLongChan   int        `json:"too_long_chan"`
	ErrPct        int        `json:"err_pct"` // push phase: percentage of difference requests answered with an RPC error
	// Chain faults (a chain = the requests of one recovery of one sequence: the first
	// one plus a continuation after every non-final answer), active in every phase:
	ErrK         int  `json:"err_k"`          // >0: the ErrK-th request of a chain fails (twice per sequence, then never again)
	ChainTooLong bool `json:"chain_too_long"` // a continuation request is answered too-long (once per sequence)
	SliceExact   bool `json:"slice_exact"`    // a sliced common chain reports final=false up to the head, its last piece is differenceEmpty
	ChSliceExact bool `json:"ch_slice_exact"` // same for channelDifference: last piece is channelDifferenceEmpty
	IsBot        bool `json:"is_bot"`
	Natural      bool `json:"natural"` // wait for the library's own gap timers before explicit recovery
	TwoPushers   bool `json:"two_pushers"`

	entries []*entry
	byUID   map[int]*entry
	bySeqMk map[int64]*event
	headPts int
	headQts int
	headSeq int
}

const (
	knownUser     = int64(777)
	knownUserHash = int64(7770001)
	selfID        = int64(123)
	markerBase    = int64(9_000_000) // barrier / probe markers
	seqMarkerBase = int64(8_000_000) // seq container markers
	probePts      = 1 << 30
)

func unknownUserHash(id int64) int64 { return id*3 + 1 }

type genOpts struct {
	maxEvents int
	natural   bool
	late      bool // allow channels that are first seen during the run
	affected  bool // allow self-initiated entries announced through HandleAffected
}

func genScenario(idx int, r *rand.Rand, o genOpts) *scenario {
	pick := func(v ...int) int { return v[r.IntN(len(v))] }
	sc := &scenario{Idx: idx, byUID: map[int]*entry{}, bySeqMk: map[int64]*event{}}
	sc.S0 = pick(0, 1, 7, 100, 2500)
	sc.Q0 = pick(0, 0, 3, 40)
	sc.D0 = 1000
	nch := 1 + r.IntN(2)
	for i := 0; i < nch; i++ {
		id := int64(5001 + i)
		sc.Chans = append(sc.Chans, chanSpec{ID: id, Hash: id*2 + 1, S0: pick(0, 1, 12, 300)})
	}
	nlate := 0
	if o.late && r.IntN(2) == 0 {
		nlate = 1
		sc.Chans = append(sc.Chans, chanSpec{ID: 5101, Hash: 5101*2 + 1, S0: pick(0, 3, 40), Late: true})
		nch++
	}
	lossPct := pick(0, 20, 20, 60, 60, 100)
	dupPct := pick(0, 0, 15, 30)
	window := pick(0, 0, 2, 5)
	nonMsgPct := pick(0, 25, 50, 50)
	seqPct := pick(0, 0, 30)
	affPct := 0
	if o.affected {
		affPct = pick(0, 0, 15, 30)
	}
	sc.SliceL = pick(0, 0, 1, 3)
	sc.ChSliceL = pick(0, 0, 1, 3)
	sc.ChanMode = pick(chanModeEntries, chanModeTooLong, chanModeNone)
	if r.IntN(10) == 0 {
		sc.TooLongCommon = 2 + r.IntN(4)
	}
	if r.IntN(10) == 0 {
		sc.TooLongChan = 2 + r.IntN(4)
	}
	if r.IntN(7) == 0 {
		sc.ErrPct = 25
	}
	if r.IntN(4) == 0 {
		sc.ErrK = 1 + r.IntN(2)
	}
	sc.ChainTooLong = r.IntN(8) == 0
	sc.SliceExact = sc.SliceL > 0 && r.IntN(2) == 0
	sc.ChSliceExact = sc.ChSliceL > 0 && r.IntN(2) == 0
	unknownPct := 0
	if r.IntN(8) == 0 {
		unknownPct = 15
	}
	sc.IsBot = r.IntN(4) == 0
	sc.TwoPushers = r.IntN(3) == 0
	sc.Natural = o.natural && r.IntN(20) == 0
	sc.Class = fmt.Sprintf("loss%d/dup%d/win%d/nonmsg%d/seq%d/L%d/chL%d/chmode%d/tl%v.%v/err%d/unk%d/ch%d",
		lossPct, dupPct, window, nonMsgPct, seqPct, sc.SliceL, sc.ChSliceL, sc.ChanMode,
		sc.TooLongCommon > 0, sc.TooLongChan > 0, sc.ErrPct, unknownPct, nch-nlate)
	sc.Class += fmt.Sprintf("/errk%d/ctl%v/ex%v.%v", sc.ErrK, sc.ChainTooLong, sc.SliceExact, sc.ChSliceExact)
	if nlate > 0 {
		sc.Class += "/late1"
	}
	if affPct > 0 {
		sc.Class += fmt.Sprintf("/aff%d", affPct)
	}

	nev := 4 + r.IntN(o.maxEvents-3)
	uid := 1
	pts, qts, seq := sc.S0, sc.Q0, 0
	chPts := map[int64]int{}
	for _, ch := range sc.Chans {
		chPts[ch.ID] = ch.S0
	}
	for i := 0; i < nev; i++ {
		ev := &event{Idx: i, Date: sc.D0 + 1 + i}
		ne := 1 + r.IntN(3)
		for j := 0; j < ne; j++ {
			e := &entry{UID: uid, Count: 1, Date: ev.Date, Event: i, Sender: knownUser}
			nonMsg := r.IntN(100) < nonMsgPct
			switch p := r.IntN(100); {
			case p < 50:
				e.Cls = clsPts
				e.Kind = kNewMsg
				if nonMsg {
					e.Kind = entryKind(pick(int(kDelete), int(kRead), int(kEdit)))
				}
				if r.IntN(100) < affPct {
					e.Kind = kAffected
				}
				if e.Kind == kDelete || e.Kind == kAffected {
					e.Count = 1 + r.IntN(3)
				}
				if (e.Kind == kNewMsg || e.Kind == kEdit) && r.IntN(100) < unknownPct {
					e.Sender = 6000 + int64(uid)
					ev.NoEnts = true
				}
				pts += e.Count
				e.End = pts
			case p < 65:
				e.Cls = clsQts
				e.Kind = kEnc
				if nonMsg {
					e.Kind = entryKind(pick(int(kBotStopped), int(kChatPart)))
				}
				qts++
				e.End = qts
			default:
				e.Cls = clsChan
				e.Ch = sc.Chans[r.IntN(nch)].ID
				e.Kind = kChMsg
				if nonMsg {
					e.Kind = entryKind(pick(int(kChDelete), int(kChEdit)))
				}
				if r.IntN(100) < affPct/2 {
					e.Kind = kChAffected
				}
				if e.Kind == kChDelete || e.Kind == kChAffected {
					e.Count = 1 + r.IntN(3)
				}
				chPts[e.Ch] += e.Count
				e.End = chPts[e.Ch]
			}
			uid += e.Count
			sc.byUID[e.UID] = e
			sc.entries = append(sc.entries, e)
			ev.Entries = append(ev.Entries, e)
		}
		if r.IntN(100) < seqPct {
			seq++
			ev.Seq = seq
			ev.SeqMarker = seqMarkerBase + int64(seq)
			sc.bySeqMk[ev.SeqMarker] = ev
		}
		if len(ev.Entries) == 1 && ev.Entries[0].Kind == kNewMsg && ev.Seq == 0 && !ev.NoEnts && r.IntN(2) == 0 {
			ev.Short = true
		}
		if r.IntN(15) == 0 {
			ch := sc.Chans[r.IntN(nch)].ID
			if chPts[ch] > 0 {
				ev.NoiseCh, ev.NoisePts = ch, chPts[ch]
			}
		}
		sc.Events = append(sc.Events, ev)
	}
	sc.headPts, sc.headQts, sc.headSeq = pts, qts, seq

	// Delivery plan: event i happens at step i; its container is lost, or pushed
	// after 0..window further steps, possibly twice.
	buckets := make([][]int, nev+window+2)
	for i := 0; i < nev; i++ {
		lost := r.IntN(100) < lossPct
		d1 := r.IntN(window + 1)
		dup := r.IntN(100) < dupPct
		d2 := r.IntN(window + 2)
		if lost {
			continue
		}
		buckets[i+d1] = append(buckets[i+d1], i)
		if dup {
			buckets[i+d2] = append(buckets[i+d2], i)
		}
	}
	for step := 0; step < len(buckets); step++ {
		if step < nev {
			sc.Plan = append(sc.Plan, planOp{Occur: step, Deliver: -1})
		}
		b := buckets[step]
		r.Shuffle(len(b), func(i, j int) { b[i], b[j] = b[j], b[i] })
		for _, d := range b {
			sc.Plan = append(sc.Plan, planOp{Occur: -1, Deliver: d})
		}
	}
	return sc
}

func (sc *scenario) chanSpecOf(id int64) *chanSpec {
	for i := range sc.Chans {
		if sc.Chans[i].ID == id {
			return &sc.Chans[i]
		}
	}
	return nil
}
