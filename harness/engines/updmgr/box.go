package main

import (
	"errors"
	"fmt"
	"strings"
	"sync"

	"github.com/gotd/td/telegram/updates"

	"verif/harness/mon"
)

// ---------------------------------------------------------------------------
// C01, box level. The real sequenceBox (through the verif-tagged wrapper H5,
// telegram/updates/export_verif.go) is driven with arbitrary delivery histories
// of a server log; the oracle lives in the apply callback and after every
// operation.
//
//	server log   tiles u_1..u_n covering (S0, Sn], counts 1..3, unique ids
//	operations   h i     Handle(u_i)                     (loss = never, dup = twice, any order)
//	             o i k   Handle(overlap of tiles i..i+k-1, own id)
//	             z b     Handle(count-0 update at boundary b)   (non-advancing, legal for channels)
//	             c       gaps.Clear()                     (what getDifference does first; alone = failed fetch)
//	             d b     gaps.Clear(); SetState(bound b)  (a fetched difference; positions <= bound are covered)
//	             e       the next apply callback returns an error (handler refused, nothing delivered)
//
// Oracle (statement C01): an advancing update (State != 0, Count > 0) is
// delivered at most once, and only with start <= cover, where cover is the
// larger of everything delivered in order and every difference position; the
// box state after every operation is never ahead of cover and is always the end
// of a delivered update, a difference position, or the initial position.
// ---------------------------------------------------------------------------

type boxOp struct {
	K string `json:"k"`
	A int    `json:"a,omitempty"`
	B int    `json:"b,omitempty"`
}

type boxHistory struct {
	S0     int     `json:"s0"`
	Counts []int   `json:"counts"`
	Ops    []boxOp `json:"ops"`
}

type boxResult struct {
	sig        string
	sawGap     bool
	stateBelow bool // state < cover observed (not a violation, counted)
	applied    int
	violations []string
}

var errRefused = errors.New("harness: handler refused")

func runBoxHistory(h *boxHistory, report func(sig string, detail map[string]any)) boxResult {
	var res boxResult
	n := len(h.Counts)
	bounds := make([]int, n+1)
	bounds[0] = h.S0
	for i, cnt := range h.Counts {
		bounds[i+1] = bounds[i] + cnt
	}
	var (
		cover     = h.S0
		delivered = map[int64]bool{}
		allowed   = map[int]bool{h.S0: true}
		failNext  bool
		appliedOp int
		opIdx     int
		sb        strings.Builder
	)
	viol := func(sig string, detail map[string]any) {
		res.violations = append(res.violations, sig)
		if detail == nil {
			detail = map[string]any{}
		}
		detail["history"] = h
		detail["op_index"] = opIdx
		report(sig, detail)
	}
	box := updates.VerifNewSequenceBox(h.S0, func(state int, batch []updates.VerifUpdate) error {
		if failNext {
			failNext = false
			return errRefused
		}
		for _, u := range batch {
			start := u.State - u.Count
			if u.Count > 0 && u.State != 0 {
				if delivered[u.ID] {
					viol("box|delivered-twice", map[string]any{"id": u.ID, "state": u.State, "count": u.Count})
				}
				if start > cover {
					viol("box|delivered-before-predecessors", map[string]any{"id": u.ID, "start": start, "cover": cover})
				}
				delivered[u.ID] = true
			}
			if u.State > cover {
				cover = u.State
			}
			allowed[u.State] = true
			appliedOp++
			res.applied++
		}
		if state > cover {
			viol("box|apply-state-ahead", map[string]any{"apply_state": state, "cover": cover})
		}
		return nil
	})
	defer box.StopTimer()

	after := func() {
		st := box.State()
		switch {
		case st > cover:
			viol("box|state-ahead-of-delivered", map[string]any{"state": st, "cover": cover})
		case !allowed[st]:
			viol("box|state-not-a-delivered-end", map[string]any{"state": st, "cover": cover})
		case st < cover:
			res.stateBelow = true
		}
	}
	handle := func(u updates.VerifUpdate, tag string) {
		gBefore, pBefore := box.HasGaps(), box.PendingLen()
		appliedOp = 0
		willFail := failNext
		var err error
		pv, stack := mon.Try(func() { err = box.Handle(u) })
		if pv != nil {
			viol("box|panic", map[string]any{"panic": fmt.Sprint(pv), "stack": stack, "update": u})
			return
		}
		if err != nil && !(willFail && errors.Is(err, errRefused)) {
			viol("box|unexpected-error", map[string]any{"err": err.Error(), "update": u})
		}
		gAfter := box.HasGaps()
		sb.WriteString(tag)
		switch {
		case err != nil:
			sb.WriteByte('E')
		case appliedOp > 0:
			fmt.Fprintf(&sb, "A%d", appliedOp)
		case box.PendingLen() > pBefore:
			sb.WriteByte('P')
		default:
			sb.WriteByte('I')
		}
		if gAfter != gBefore {
			if gAfter {
				sb.WriteByte('+')
			} else {
				sb.WriteByte('-')
			}
		}
		if gAfter || gBefore {
			res.sawGap = true
		}
		sb.WriteByte(' ')
		after()
	}
	tileUpd := func(i int) updates.VerifUpdate {
		return updates.VerifUpdate{ID: int64(i + 1), State: bounds[i+1], Count: h.Counts[i]}
	}

	for i, op := range h.Ops {
		opIdx = i
		switch op.K {
		case "h":
			handle(tileUpd(op.A), "h")
		case "o":
			if op.A+op.B > n || op.B < 2 {
				continue
			}
			handle(updates.VerifUpdate{ID: int64(1000 + op.A*10 + op.B), State: bounds[op.A+op.B], Count: bounds[op.A+op.B] - bounds[op.A]}, "o")
		case "z":
			if bounds[op.A] == 0 {
				continue // State == 0 is outside the statement (documented qts workaround)
			}
			handle(updates.VerifUpdate{ID: int64(2000 + op.A), State: bounds[op.A], Count: 0}, "z")
		case "c":
			box.ClearGaps()
			sb.WriteString("C ")
			after()
		case "d":
			p := bounds[op.A]
			if p < box.State() {
				continue // a difference never moves a sequence backwards
			}
			box.ClearGaps()
			box.SetState(p)
			if p > cover {
				cover = p
			}
			allowed[p] = true
			sb.WriteString("D ")
			after()
		case "e":
			failNext = true
		}
	}
	// Flush: every log entry once more, in order, nothing refused. In-order
	// redelivery of the whole log must complete the sequence.
	failNext = false
	sb.WriteString("| ")
	for i := 0; i < n; i++ {
		opIdx = len(h.Ops) + i
		handle(tileUpd(i), "f")
	}
	if st := box.State(); st != bounds[n] || cover != bounds[n] {
		viol("box|flush-incomplete", map[string]any{"state": st, "cover": cover, "want": bounds[n]})
	}
	res.sig = sb.String()
	return res
}

// boxAlphabet: {h_1..h_n, overlap(0,2), c, d@1..d@n} for a log of n tiles.
func boxAlphabet(n int) []boxOp {
	var alphabet []boxOp
	for i := 0; i < n; i++ {
		alphabet = append(alphabet, boxOp{K: "h", A: i})
	}
	alphabet = append(alphabet, boxOp{K: "o", A: 0, B: 2}, boxOp{K: "c"})
	for b := 1; b <= n; b++ {
		alphabet = append(alphabet, boxOp{K: "d", A: b})
	}
	return alphabet
}

// enumerateBox visits every history of length <= maxLen over boxAlphabet that
// starts with the given first operation.
func enumerateBox(counts []int, s0, maxLen int, first boxOp, visit func(h *boxHistory)) int {
	alphabet := boxAlphabet(len(counts))
	total := 0
	ops := append(make([]boxOp, 0, maxLen), first)
	var rec func()
	rec = func() {
		visit(&boxHistory{S0: s0, Counts: counts, Ops: append([]boxOp(nil), ops...)})
		total++
		if len(ops) == maxLen {
			return
		}
		for _, a := range alphabet {
			ops = append(ops, a)
			rec()
			ops = ops[:len(ops)-1]
		}
	}
	rec()
	return total
}

// randomBoxHistory builds the i-th random history.
func randomBoxHistory(c *mon.Ctx, i int) *boxHistory {
	r := c.RandN("c01-box", i)
	nt := 2 + r.IntN(9)
	h := &boxHistory{S0: r.IntN(4) * r.IntN(40)}
	for j := 0; j < nt; j++ {
		h.Counts = append(h.Counts, 1+r.IntN(3))
	}
	nops := 4 + r.IntN(21)
	// a moving focus keeps deliveries near the frontier so gaps open and close
	focus := 0
	for j := 0; j < nops; j++ {
		near := func() int {
			v := focus + r.IntN(5) - 1
			if v < 0 {
				v = 0
			}
			if v >= nt {
				v = nt - 1
			}
			return v
		}
		switch p := r.IntN(100); {
		case p < 62:
			t := near()
			if r.IntN(4) == 0 {
				t = r.IntN(nt)
			}
			h.Ops = append(h.Ops, boxOp{K: "h", A: t})
			if t >= focus && r.IntN(2) == 0 {
				focus = t + 1
			}
		case p < 72:
			h.Ops = append(h.Ops, boxOp{K: "o", A: near(), B: 2 + r.IntN(2)})
		case p < 77:
			h.Ops = append(h.Ops, boxOp{K: "z", A: r.IntN(nt + 1)})
		case p < 86:
			b := near() + 1
			h.Ops = append(h.Ops, boxOp{K: "d", A: b})
			focus = b
		case p < 90:
			h.Ops = append(h.Ops, boxOp{K: "c"})
		case p < 95:
			h.Ops = append(h.Ops, boxOp{K: "e"})
		default:
			if len(h.Ops) > 0 { // exact duplicate of an earlier operation
				h.Ops = append(h.Ops, h.Ops[r.IntN(len(h.Ops))])
			}
		}
	}
	return h
}

type boxTotals struct {
	histories, nontrivial, below, applied int64
}

func runC01Box(c *mon.Ctx) {
	report := func(sig string, detail map[string]any) { c.Violate(sig, detail) }
	var (
		mu  sync.Mutex
		tot boxTotals
	)
	// a task runs a set of histories on one goroutine and merges its totals
	type task func(account func(h *boxHistory, kind string))
	var tasks []task

	// Exhaustive cores, split by first operation.
	type core struct {
		counts []int
		s0, l  int
	}
	cores := []core{{[]int{1, 2, 1, 3}, 5, 5}, {[]int{1, 1, 1}, 0, 5}}
	if !c.Quick() {
		cores = []core{{[]int{1, 2, 1, 3}, 5, 6}, {[]int{1, 1, 1}, 0, 7}, {[]int{2, 1, 1, 1, 3}, 7, 5}}
	}
	coreCount := make([]int64, len(cores))
	for ci, k := range cores {
		ci, k := ci, k
		for _, first := range boxAlphabet(len(k.counts)) {
			first := first
			tasks = append(tasks, func(account func(*boxHistory, string)) {
				n := enumerateBox(k.counts, k.s0, k.l, first, func(h *boxHistory) { account(h, "box-exhaustive") })
				mu.Lock()
				coreCount[ci] += int64(n)
				mu.Unlock()
			})
		}
	}
	// Random histories.
	n := c.N(30000, 1000000)
	const per = 2500
	for from := 0; from < n; from += per {
		from := from
		tasks = append(tasks, func(account func(*boxHistory, string)) {
			for i := from; i < from+per && i < n; i++ {
				account(randomBoxHistory(c, i), "box-random")
			}
		})
	}
	ch := make(chan task)
	var wg sync.WaitGroup
	for w := 0; w < 6; w++ {
		wg.Add(1)
		go func() {
			defer wg.Done()
			for t := range ch {
				var loc boxTotals
				t(func(h *boxHistory, kind string) {
					res := runBoxHistory(h, report)
					loc.histories++
					loc.applied += int64(res.applied)
					if res.stateBelow {
						loc.below++
					}
					if res.sawGap {
						loc.nontrivial++
						c.Distinct("box:" + res.sig)
						if loc.nontrivial%512 == 1 {
							c.Sample(kind, map[string]any{"history": h, "trace": res.sig})
						}
					}
				})
				c.Eval(int(loc.histories))
				mu.Lock()
				tot.histories += loc.histories
				tot.nontrivial += loc.nontrivial
				tot.below += loc.below
				tot.applied += loc.applied
				mu.Unlock()
			}
		}()
	}
	for _, t := range tasks {
		ch <- t
	}
	close(ch)
	wg.Wait()
	var coreDesc []string
	for ci, k := range cores {
		coreDesc = append(coreDesc, fmt.Sprintf("counts=%v s0=%d all histories of length<=%d: %d", k.counts, k.s0, k.l, coreCount[ci]))
	}
	c.Set("box_exhaustive_core", coreDesc)

	// Side workload outside the statement: State == 0 inputs (checkGap applies
	// them on purpose). Only oracle: no panic.
	zr := c.Rand("c01-box-zero")
	zeroRuns := c.N(2000, 50000)
	for i := 0; i < zeroRuns; i++ {
		box := updates.VerifNewSequenceBox(zr.IntN(5), func(int, []updates.VerifUpdate) error { return nil })
		pv, stack := mon.Try(func() {
			for j := 0; j < 8; j++ {
				st := zr.IntN(6)
				if zr.IntN(3) == 0 {
					st = 0
				}
				_ = box.Handle(updates.VerifUpdate{ID: int64(j), State: st, Count: zr.IntN(3)})
				if zr.IntN(6) == 0 {
					box.ClearGaps()
				}
			}
		})
		box.StopTimer()
		if pv != nil {
			c.Violate("box|panic-zero-state", map[string]any{"panic": fmt.Sprint(pv), "stack": stack})
		}
	}
	c.Set("box_histories", tot.histories)
	c.Set("box_histories_with_open_gap", tot.nontrivial)
	c.Set("box_updates_applied", tot.applied)
	c.Set("box_state_below_cover_observed", tot.below)
	c.Set("box_zero_state_side_runs", zeroRuns)
	if tot.nontrivial == 0 {
		c.Inconclusive("box level: no history passed through an open gap")
	}
}
