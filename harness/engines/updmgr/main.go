// Engine updmgr: runtime monitors for the gotd/td updates engine.
//
//	C01  box level (real sequenceBox through hook H5, arbitrary delivery histories)
//	     + manager level (real updates.Manager against a Telegram-like fake server)
//	C02  no update lost once recovery completes (manager level)
//	C03  persisted state never ahead of delivered updates + crash/restart experiment
package main

import "verif/harness/mon"

func main() {
	mon.Main("updmgr", map[string]mon.PropFunc{
		"C01": runC01,
		"C02": runC02,
		"C03": runC03,
	})
}
