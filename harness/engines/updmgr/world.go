package main

import (
	"context"
	"encoding/json"
	"errors"
	"fmt"
	"math/rand/v2"
	"os"
	"sort"
	"sync"
	"time"

	"github.com/gotd/log"

	"github.com/gotd/td/telegram/updates"
	"github.com/gotd/td/tg"
	"github.com/gotd/td/tgerr"
)

// ---------------------------------------------------------------------------
// One run = one real updates.Manager against the harness-owned boundary: fake
// Telegram API (difference / channelDifference answered from the scenario log
// the way Telegram does: messages in new_messages, every other pts/qts entry in
// other_updates WITH ITS REAL pts/pts_count/qts), recording StateStorage and
// access-hash stores, recording update handler, too-long callbacks. All of them
// append to one totally ordered trace (one mutex, one counter).
// ---------------------------------------------------------------------------

type snapshot struct {
	State  updates.State
	Ch     map[int64]int
	ChHash map[int64]int64
	UHash  map[int64]int64
}

func (s *snapshot) clone() *snapshot {
	c := &snapshot{State: s.State, Ch: map[int64]int{}, ChHash: map[int64]int64{}, UHash: map[int64]int64{}}
	for k, v := range s.Ch {
		c.Ch[k] = v
	}
	for k, v := range s.ChHash {
		c.ChHash[k] = v
	}
	for k, v := range s.UHash {
		c.UHash[k] = v
	}
	return c
}

type tev struct {
	I int    `json:"i"`
	T string `json:"t"` // deliver | marker | seqmarker | write | diff | chdiff | toolong | chtoolong | phase | stray

	// deliver / stray
	UID int    `json:"uid,omitempty"`
	G   string `json:"g,omitempty"` // goroutine role is not observable; G carries the update type name

	// marker / seqmarker
	M int64 `json:"m,omitempty"`

	// write
	W    string `json:"w,omitempty"` // SetState | SetPts | SetQts | SetChannelPts | SetDate | SetSeq | SetDateSeq | SetChannelAccessHash | SetUserAccessHash
	Pts  int    `json:"pts,omitempty"`
	Qts  int    `json:"qts,omitempty"`
	Seq  int    `json:"seq,omitempty"`
	Date int    `json:"date,omitempty"`
	Ch   int64  `json:"ch,omitempty"`
	snap *snapshot

	// diff / chdiff (Pts/Qts/Seq/Date = state carried by the response)
	ReqPts  int    `json:"req_pts,omitempty"`
	ReqQts  int    `json:"req_qts,omitempty"`
	ReqDate int    `json:"req_date,omitempty"`
	Resp    string `json:"resp,omitempty"` // difference | slice | empty | tooLong | error
	Msgs    []int  `json:"msgs,omitempty"`
	Others  []int  `json:"others,omitempty"`
	ChOth   []int  `json:"ch_others,omitempty"` // channel entries listed in a common difference's other_updates
	Aff     []int  `json:"affected,omitempty"`  // self-initiated (position-only) entries whose range the response covers
	Final   bool   `json:"final,omitempty"`

	Note string `json:"note,omitempty"`
}

type run struct {
	sc       *scenario
	watchdog time.Duration

	mu    sync.Mutex
	trace []tev
	store *snapshot

	occurred  int
	pushPhase bool
	errRand   *rand.Rand

	probe          map[int64]int64 // channel -> marker to attach to its next channelDifference response
	waiters        map[int64]chan struct{}
	seen           map[int64]bool
	genuineChTL    map[int64]int           // channelDifferenceTooLong responses whose callback has not been seen yet
	inboxWait      map[int64]chan struct{} // per channel: waiter for the count-0 worker probe
	inboxMin       map[int64]int64         // smallest probe id of the current round
	farCallbacks   int
	unreportedChTL int
	nextMarker     int64
	strays         int
	badHash        int
	storm          bool
	closedW        map[chan struct{}]bool // waiters already released (several marker ids may share one waiter)
	noWorker       int                    // channels dropped from the barrier: the library demonstrably has no worker for them
	chain          map[string]int         // position of the next request in the current chain, per sequence
	errBudget      map[string]int
	tlBudget       map[string]int
	tracked        map[int64]bool // channels the library has a worker for (from the image, or first seen during the run)

	mgr     *updates.Manager
	cancel  context.CancelFunc
	done    chan error
	problem string // set => run is inconclusive
}

func newRun(sc *scenario, initial *snapshot, occurred int, pushPhase bool, seed uint64) *run {
	r := &run{
		sc: sc, watchdog: 150 * time.Second, store: initial.clone(), occurred: occurred, pushPhase: pushPhase,
		errRand: rand.New(rand.NewPCG(seed, uint64(sc.Idx)+77)),
		probe:   map[int64]int64{}, waiters: map[int64]chan struct{}{}, seen: map[int64]bool{},
		genuineChTL: map[int64]int{}, inboxWait: map[int64]chan struct{}{}, inboxMin: map[int64]int64{},
		nextMarker: markerBase, tracked: map[int64]bool{}, chain: map[string]int{}, closedW: map[chan struct{}]bool{}, errBudget: map[string]int{}, tlBudget: map[string]int{},
	}
	// Manager.loadChannels tracks every stored channel whose access hash is known.
	for id := range r.store.Ch {
		if _, ok := r.store.ChHash[id]; ok {
			r.tracked[id] = true
		}
	}
	return r
}

func initialSnapshot(sc *scenario) *snapshot {
	s := &snapshot{State: updates.State{Pts: sc.S0, Qts: sc.Q0, Date: sc.D0, Seq: 0},
		Ch: map[int64]int{}, ChHash: map[int64]int64{}, UHash: map[int64]int64{knownUser: knownUserHash}}
	for _, ch := range sc.Chans {
		if ch.Late {
			continue
		}
		s.Ch[ch.ID] = ch.S0
		s.ChHash[ch.ID] = ch.Hash
	}
	return s
}

// traceCap bounds one run. Normal runs record a few hundred events; a run that
// reaches the cap is a library livelock (e.g. a difference fetched over and over):
// from then on the fake API fails every request so that the loop ends, nothing
// more is recorded, and the run is reported as a problem. Safety checkers still
// judge the recorded prefix.
const traceCap = 20000

var errStorm = errors.New("harness: event storm, API shut down")

// rec appends to the trace; caller holds r.mu.
func (r *run) rec(e tev) int {
	if len(r.trace) >= traceCap {
		r.storm = true
		return len(r.trace)
	}
	e.I = len(r.trace)
	r.trace = append(r.trace, e)
	return e.I
}

func (r *run) phase(note string) {
	r.mu.Lock()
	r.rec(tev{T: "phase", Note: note})
	r.mu.Unlock()
}

func (r *run) traceLen() int {
	r.mu.Lock()
	defer r.mu.Unlock()
	return len(r.trace)
}

// ---- tg object builders (fresh objects for every push / response) ---------

func msgOf(e *entry) *tg.Message {
	m := &tg.Message{ID: e.UID, PeerID: &tg.PeerUser{UserID: e.Sender}, Date: e.Date, Message: "m"}
	m.SetFromID(&tg.PeerUser{UserID: e.Sender})
	return m
}

func chMsgOf(e *entry) *tg.Message {
	m := &tg.Message{ID: e.UID, PeerID: &tg.PeerChannel{ChannelID: e.Ch}, Date: e.Date, Message: "c"}
	m.SetFromID(&tg.PeerUser{UserID: knownUser})
	return m
}

func idsOf(e *entry) []int {
	ids := make([]int, e.Count)
	for i := range ids {
		ids[i] = e.UID + i
	}
	return ids
}

func buildUpdate(e *entry) tg.UpdateClass {
	switch e.Kind {
	case kNewMsg:
		return &tg.UpdateNewMessage{Message: msgOf(e), Pts: e.End, PtsCount: e.Count}
	case kDelete:
		return &tg.UpdateDeleteMessages{Messages: idsOf(e), Pts: e.End, PtsCount: e.Count}
	case kRead:
		return &tg.UpdateReadHistoryInbox{Peer: &tg.PeerUser{UserID: knownUser}, MaxID: e.UID, Pts: e.End, PtsCount: e.Count}
	case kEdit:
		return &tg.UpdateEditMessage{Message: msgOf(e), Pts: e.End, PtsCount: e.Count}
	case kEnc:
		return &tg.UpdateNewEncryptedMessage{Message: &tg.EncryptedMessage{RandomID: int64(e.UID), ChatID: e.UID, Date: e.Date}, Qts: e.End}
	case kBotStopped:
		return &tg.UpdateBotStopped{UserID: int64(e.UID), Date: e.Date, Stopped: true, Qts: e.End}
	case kChatPart:
		return &tg.UpdateChatParticipant{ChatID: int64(e.UID), Date: e.Date, ActorID: knownUser, UserID: knownUser, Qts: e.End}
	case kChMsg:
		return &tg.UpdateNewChannelMessage{Message: chMsgOf(e), Pts: e.End, PtsCount: e.Count}
	case kChDelete:
		return &tg.UpdateDeleteChannelMessages{ChannelID: e.Ch, Messages: idsOf(e), Pts: e.End, PtsCount: e.Count}
	case kChEdit:
		return &tg.UpdateEditChannelMessage{Message: chMsgOf(e), Pts: e.End, PtsCount: e.Count}
	}
	panic("bad kind")
}

// identify maps a delivered update back to (kind, uid). ok=false for updates
// that are not log entries.
func identify(u tg.UpdateClass) (k entryKind, uid int, ok bool) {
	msgID := func(m tg.MessageClass) (int, bool) {
		if mm, ok := m.(*tg.Message); ok {
			return mm.ID, true
		}
		return 0, false
	}
	first := func(ids []int) (int, bool) {
		if len(ids) == 0 {
			return 0, false
		}
		return ids[0], true
	}
	switch u := u.(type) {
	case *tg.UpdateNewMessage:
		uid, ok = msgID(u.Message)
		return kNewMsg, uid, ok
	case *tg.UpdateDeleteMessages:
		uid, ok = first(u.Messages)
		return kDelete, uid, ok
	case *tg.UpdateReadHistoryInbox:
		return kRead, u.MaxID, true
	case *tg.UpdateEditMessage:
		uid, ok = msgID(u.Message)
		return kEdit, uid, ok
	case *tg.UpdateNewEncryptedMessage:
		if m, ok := u.Message.(*tg.EncryptedMessage); ok {
			return kEnc, m.ChatID, true
		}
	case *tg.UpdateBotStopped:
		return kBotStopped, int(u.UserID), true
	case *tg.UpdateChatParticipant:
		return kChatPart, int(u.ChatID), true
	case *tg.UpdateNewChannelMessage:
		uid, ok = msgID(u.Message)
		return kChMsg, uid, ok
	case *tg.UpdateDeleteChannelMessages:
		uid, ok = first(u.Messages)
		return kChDelete, uid, ok
	case *tg.UpdateEditChannelMessage:
		uid, ok = msgID(u.Message)
		return kChEdit, uid, ok
	}
	return 0, 0, false
}

func userObj(id int64) tg.UserClass {
	h := knownUserHash
	if id != knownUser {
		h = unknownUserHash(id)
	}
	u := &tg.User{ID: id}
	u.SetAccessHash(h)
	return u
}

func chanObj(ch *chanSpec) tg.ChatClass {
	c := &tg.Channel{ID: ch.ID, Title: "c", Photo: &tg.ChatPhotoEmpty{}}
	c.SetAccessHash(ch.Hash)
	return c
}

func markerUpd(id int64) tg.UpdateClass {
	return &tg.UpdateUserTyping{UserID: id, Action: &tg.SendMessageTypingAction{}}
}

// container builds the pushed form of an event.
func (sc *scenario) container(ev *event) tg.UpdatesClass {
	if ev.Short {
		e := ev.Entries[0]
		return &tg.UpdateShortMessage{ID: e.UID, UserID: e.Sender, Message: "m", Pts: e.End, PtsCount: e.Count, Date: e.Date}
	}
	u := &tg.Updates{Date: ev.Date, Seq: ev.Seq}
	users := map[int64]bool{}
	chans := map[int64]bool{}
	for _, e := range ev.Entries {
		if e.Kind.isAffected() {
			continue // announced through HandleAffected, never pushed
		}
		u.Updates = append(u.Updates, buildUpdate(e))
		if e.Cls == clsChan {
			chans[e.Ch] = true
			users[knownUser] = true
		} else if e.Sender == knownUser {
			users[knownUser] = true
		}
	}
	if ev.SeqMarker != 0 {
		u.Updates = append(u.Updates, markerUpd(ev.SeqMarker))
	}
	if ev.NoiseCh != 0 {
		u.Updates = append(u.Updates, &tg.UpdateReadChannelInbox{ChannelID: ev.NoiseCh, MaxID: 1, Pts: ev.NoisePts})
		chans[ev.NoiseCh] = true // its chat (and access hash) travels with it, as for every channel update
	}
	if !ev.NoEnts {
		for id := range users {
			u.Users = append(u.Users, userObj(id))
		}
	}
	for id := range chans {
		u.Chats = append(u.Chats, chanObj(sc.chanSpecOf(id)))
	}
	if len(u.Updates) == 0 {
		return nil // only self-initiated entries: nothing is pushed
	}
	// entries inside a container arrive in no particular order
	if len(u.Updates) > 1 && ev.Idx%2 == 1 {
		u.Updates[0], u.Updates[len(u.Updates)-1] = u.Updates[len(u.Updates)-1], u.Updates[0]
	}
	return u
}

// ---- fake Telegram API ------------------------------------------------------

var (
	errInjected = errors.New("harness: injected RPC failure")
	errFlood    = tgerr.New(420, "FLOOD_WAIT_0")
)

// chainFault decides, under r.mu, whether the request that is the pos-th of its
// chain gets an injected RPC error. Bounded (two per sequence) so that recovery
// always converges.
func (r *run) chainFault(key string, pos int) error {
	if r.sc.ErrK == 0 || pos != r.sc.ErrK || r.errBudget[key] >= 2 {
		return nil
	}
	r.errBudget[key]++
	if r.errBudget[key] == 2 {
		return errFlood
	}
	return errInjected
}

func (r *run) visible(cls seqClass, ch int64) (list []*entry, head int) {
	switch cls {
	case clsPts:
		head = r.sc.S0
	case clsQts:
		head = r.sc.Q0
	default:
		head = r.sc.chanSpecOf(ch).S0
	}
	for _, e := range r.sc.entries {
		if e.Event >= r.occurred || e.Cls != cls || (cls == clsChan && e.Ch != ch) {
			continue
		}
		list = append(list, e)
		if e.End > head {
			head = e.End
		}
	}
	sort.Slice(list, func(i, j int) bool { return list[i].End < list[j].End })
	return list, head
}

func (r *run) headDateSeq() (date, seq int) {
	date = r.sc.D0
	for _, ev := range r.sc.Events {
		if ev.Idx >= r.occurred {
			break
		}
		date = ev.Date
		if ev.Seq > seq {
			seq = ev.Seq
		}
	}
	return date, seq
}

func (r *run) UpdatesGetState(ctx context.Context) (*tg.UpdatesState, error) {
	if err := ctx.Err(); err != nil {
		return nil, err
	}
	r.mu.Lock()
	defer r.mu.Unlock()
	_, pts := r.visible(clsPts, 0)
	_, qts := r.visible(clsQts, 0)
	date, seq := r.headDateSeq()
	r.rec(tev{T: "getstate", Pts: pts, Qts: qts, Date: date, Seq: seq})
	return &tg.UpdatesState{Pts: pts, Qts: qts, Date: date, Seq: seq}, nil
}

func (r *run) UpdatesGetDifference(ctx context.Context, req *tg.UpdatesGetDifferenceRequest) (tg.UpdatesDifferenceClass, error) {
	if err := ctx.Err(); err != nil {
		return nil, err
	}
	r.mu.Lock()
	defer r.mu.Unlock()
	if r.storm {
		return nil, errStorm
	}
	ev := tev{T: "diff", ReqPts: req.Pts, ReqQts: req.Qts, ReqDate: req.Date}
	r.chain["pts"]++
	pos := r.chain["pts"]
	if r.pushPhase && r.sc.ErrPct > 0 && r.errRand.IntN(100) < r.sc.ErrPct {
		ev.Resp = "error"
		r.rec(ev)
		r.chain["pts"] = 0
		return nil, errInjected
	}
	if err := r.chainFault("pts", pos); err != nil {
		ev.Resp, ev.Note = "error", fmt.Sprintf("chain request %d: %v", pos, err)
		r.rec(ev)
		r.chain["pts"] = 0
		return nil, err
	}
	ptsList, headPts := r.visible(clsPts, 0)
	qtsList, headQts := r.visible(clsQts, 0)
	headDate, headSeq := r.headDateSeq()
	var duePts, dueQts []*entry
	for _, e := range ptsList {
		if e.End > req.Pts {
			duePts = append(duePts, e)
		}
	}
	for _, e := range qtsList {
		if e.End > req.Qts {
			dueQts = append(dueQts, e)
		}
	}
	chainTL := r.sc.ChainTooLong && pos >= 2 && len(duePts) > 0 && r.tlBudget["pts"] == 0
	if chainTL || (r.sc.TooLongCommon > 0 && len(duePts) > r.sc.TooLongCommon) {
		if chainTL {
			r.tlBudget["pts"]++
			ev.Note = fmt.Sprintf("too long as piece %d of a sliced chain", pos)
		}
		ev.Resp, ev.Pts = "tooLong", headPts
		r.rec(ev)
		// the library continues with another request: same chain
		return &tg.UpdatesDifferenceTooLong{Pts: headPts}, nil
	}
	final := true
	statePts, stateQts := headPts, headQts
	if l := r.sc.SliceL; l > 0 {
		if len(duePts) > l {
			duePts, final = duePts[:l], false
			statePts = duePts[l-1].End
		}
		if len(dueQts) > l {
			dueQts, final = dueQts[:l], false
			stateQts = dueQts[l-1].End
		}
		if final && r.sc.SliceExact && len(duePts)+len(dueQts) > 0 {
			final = false // the chain reaches the head with final=false; its last piece is differenceEmpty
		}
	}
	if final {
		r.chain["pts"] = 0
	}
	var (
		msgs   []tg.MessageClass
		enc    []tg.EncryptedMessageClass
		others []tg.UpdateClass
		users  = map[int64]bool{knownUser: true}
		chats  = map[int64]bool{}
	)
	for _, e := range append(append([]*entry(nil), duePts...), dueQts...) {
		switch {
		case e.Kind == kAffected:
			ev.Aff = append(ev.Aff, e.UID) // nothing to hand over, the state covers it
		case e.Kind == kNewMsg:
			msgs = append(msgs, msgOf(e))
			ev.Msgs = append(ev.Msgs, e.UID)
		case e.Kind == kEnc:
			enc = append(enc, &tg.EncryptedMessage{RandomID: int64(e.UID), ChatID: e.UID, Date: e.Date})
			ev.Msgs = append(ev.Msgs, e.UID)
		default:
			others = append(others, buildUpdate(e))
			ev.Others = append(ev.Others, e.UID)
		}
		users[e.Sender] = true
	}
	// Channel part of a common difference, decided by the request date.
	if r.sc.ChanMode != chanModeNone {
		for i := range r.sc.Chans {
			ch := &r.sc.Chans[i]
			list, _ := r.visible(clsChan, ch.ID)
			listed := false
			for _, e := range list {
				if e.Date <= req.Date || e.Kind.isAffected() {
					continue
				}
				chats[ch.ID] = true
				if r.sc.ChanMode == chanModeEntries {
					others = append(others, buildUpdate(e))
					ev.ChOth = append(ev.ChOth, e.UID)
				} else if !listed {
					others = append(others, &tg.UpdateChannelTooLong{ChannelID: ch.ID})
					listed = true
				}
			}
		}
	}
	ev.Pts, ev.Qts, ev.Seq, ev.Date, ev.Final = statePts, stateQts, headSeq, headDate, final
	if len(msgs) == 0 && len(enc) == 0 && len(others) == 0 && len(ev.Aff) == 0 {
		ev.Resp = "empty"
		r.rec(ev)
		return &tg.UpdatesDifferenceEmpty{Date: headDate, Seq: headSeq}, nil
	}
	var ul []tg.UserClass
	for id := range users {
		ul = append(ul, userObj(id))
	}
	var cl []tg.ChatClass
	for id := range chats {
		cl = append(cl, chanObj(r.sc.chanSpecOf(id)))
	}
	st := tg.UpdatesState{Pts: statePts, Qts: stateQts, Date: headDate, Seq: headSeq}
	if final {
		ev.Resp = "difference"
		r.rec(ev)
		return &tg.UpdatesDifference{NewMessages: msgs, NewEncryptedMessages: enc, OtherUpdates: others, Users: ul, Chats: cl, State: st}, nil
	}
	ev.Resp = "slice"
	r.rec(ev)
	return &tg.UpdatesDifferenceSlice{NewMessages: msgs, NewEncryptedMessages: enc, OtherUpdates: others, Users: ul, Chats: cl, IntermediateState: st}, nil
}

func (r *run) UpdatesGetChannelDifference(ctx context.Context, req *tg.UpdatesGetChannelDifferenceRequest) (tg.UpdatesChannelDifferenceClass, error) {
	if err := ctx.Err(); err != nil {
		return nil, err
	}
	in, ok := req.Channel.(*tg.InputChannel)
	if !ok {
		return nil, errors.New("harness: bad input channel")
	}
	r.mu.Lock()
	defer r.mu.Unlock()
	if r.storm {
		return nil, errStorm
	}
	spec := r.sc.chanSpecOf(in.ChannelID)
	if spec == nil || spec.Hash != in.AccessHash {
		r.badHash++
		return nil, errors.New("CHANNEL_INVALID")
	}
	ev := tev{T: "chdiff", Ch: spec.ID, ReqPts: req.Pts}
	key := fmt.Sprintf("ch:%d", spec.ID)
	r.chain[key]++
	pos := r.chain[key]
	if r.pushPhase && r.sc.ErrPct > 0 && r.errRand.IntN(100) < r.sc.ErrPct {
		ev.Resp = "error"
		r.rec(ev)
		r.chain[key] = 0
		return nil, errInjected
	}
	if err := r.chainFault(key, pos); err != nil {
		ev.Resp, ev.Note = "error", fmt.Sprintf("chain request %d: %v", pos, err)
		r.rec(ev)
		r.chain[key] = 0
		return nil, err
	}
	list, head := r.visible(clsChan, spec.ID)
	var due []*entry
	for _, e := range list {
		if e.End > req.Pts {
			due = append(due, e)
		}
	}
	chainTL := r.sc.ChainTooLong && pos >= 2 && len(due) > 0 && r.tlBudget[key] == 0
	if chainTL || (r.sc.TooLongChan > 0 && len(due) > r.sc.TooLongChan) {
		if chainTL {
			r.tlBudget[key]++
			ev.Note = fmt.Sprintf("too long as piece %d of a sliced chain", pos)
		}
		r.chain[key] = 0
		ev.Resp, ev.Pts, ev.Final = "tooLong", head, true
		r.rec(ev)
		r.genuineChTL[spec.ID]++
		d := &tg.Dialog{Peer: &tg.PeerChannel{ChannelID: spec.ID}}
		d.SetPts(head)
		return &tg.UpdatesChannelDifferenceTooLong{Final: true, Dialog: d}, nil
	}
	final, pts := true, head
	l := r.sc.ChSliceL
	if req.Limit > 0 && (l == 0 || req.Limit < l) {
		l = req.Limit
	}
	if l > 0 && len(due) > l {
		due, final = due[:l], false
		pts = due[l-1].End
	} else if r.sc.ChSliceL > 0 && r.sc.ChSliceExact && len(due) > 0 {
		final = false // the chain reaches the head with final=false; its last piece is channelDifferenceEmpty
	}
	if final {
		r.chain[key] = 0
	}
	var (
		msgs   []tg.MessageClass
		others []tg.UpdateClass
	)
	for _, e := range due {
		if e.Kind == kChAffected {
			ev.Aff = append(ev.Aff, e.UID)
			continue
		}
		if e.Kind == kChMsg {
			msgs = append(msgs, chMsgOf(e))
			ev.Msgs = append(ev.Msgs, e.UID)
		} else {
			others = append(others, buildUpdate(e))
			ev.Others = append(ev.Others, e.UID)
		}
	}
	if m := r.probe[spec.ID]; m != 0 {
		// Barrier probe: a non-sequenced update that travels the same way the
		// library sends channel other_updates (worker -> main loop -> handler).
		others = append(others, markerUpd(m))
		r.probe[spec.ID] = 0
		ev.Note = fmt.Sprintf("probe=%d", m)
	}
	ev.Pts, ev.Final = pts, final
	if len(msgs) == 0 && len(others) == 0 && len(ev.Aff) == 0 {
		ev.Resp = "empty"
		r.rec(ev)
		return &tg.UpdatesChannelDifferenceEmpty{Final: true, Pts: head}, nil
	}
	ev.Resp = "difference"
	r.rec(ev)
	return &tg.UpdatesChannelDifference{Final: final, Pts: pts, NewMessages: msgs, OtherUpdates: others,
		Users: []tg.UserClass{userObj(knownUser)}, Chats: []tg.ChatClass{chanObj(spec)}}, nil
}

// ---- update handler -------------------------------------------------------------

func (r *run) Handle(ctx context.Context, u tg.UpdatesClass) error {
	var list []tg.UpdateClass
	switch u := u.(type) {
	case *tg.Updates:
		list = u.Updates
	case *tg.UpdatesCombined:
		list = u.Updates
	case *tg.UpdateShort:
		list = []tg.UpdateClass{u.Update}
	default:
		r.mu.Lock()
		r.rec(tev{T: "stray", G: fmt.Sprintf("%T", u)})
		r.strays++
		r.mu.Unlock()
		return nil
	}
	r.mu.Lock()
	defer r.mu.Unlock()
	for _, up := range list {
		if t, ok := up.(*tg.UpdateUserTyping); ok {
			if _, isSeq := r.sc.bySeqMk[t.UserID]; isSeq {
				r.rec(tev{T: "seqmarker", M: t.UserID})
				continue
			}
			r.rec(tev{T: "marker", M: t.UserID})
			r.seen[t.UserID] = true
			if w := r.waiters[t.UserID]; w != nil {
				if !r.closedW[w] {
					r.closedW[w] = true
					close(w)
				}
				delete(r.waiters, t.UserID)
			}
			continue
		}
		if in, ok := up.(*tg.UpdateReadChannelInbox); ok {
			// Barrier probe: a count-0 channel update at the channel head, carrying a
			// marker in MaxID. It reaches the handler only through the worker's queue
			// and sequence box, behind everything queued before it. (MaxID 1 = noise.)
			if id := int64(in.MaxID); id >= markerBase {
				r.rec(tev{T: "marker", M: id, Ch: in.ChannelID})
				if w := r.inboxWait[in.ChannelID]; w != nil && id >= r.inboxMin[in.ChannelID] {
					close(w)
					delete(r.inboxWait, in.ChannelID)
				}
			}
			continue // count-0, not a log entry
		}
		k, uid, ok := identify(up)
		e := r.sc.byUID[uid]
		if !ok || e == nil || e.Kind != k {
			r.rec(tev{T: "stray", G: fmt.Sprintf("%T", up), UID: uid})
			r.strays++
			continue
		}
		r.rec(tev{T: "deliver", UID: uid})
	}
	return nil
}

// ---- callbacks -----------------------------------------------------------------

func (r *run) onTooLong() {
	r.mu.Lock()
	r.rec(tev{T: "toolong"})
	r.mu.Unlock()
}

func (r *run) onChannelTooLong(ch int64) {
	r.mu.Lock()
	defer r.mu.Unlock()
	if r.genuineChTL[ch] > 0 {
		r.genuineChTL[ch]--
		r.rec(tev{T: "chtoolong", Ch: ch})
		return
	}
	// Callback for a pushed updateChannelTooLong with a far-away pts (workload, not
	// a barrier: the library only reports, it skips nothing).
	r.farCallbacks++
}

// ---- storage / hashers -----------------------------------------------------------

type recStorage struct{ r *run }

func (s recStorage) write(e tev, f func(st *snapshot)) error {
	r := s.r
	r.mu.Lock()
	f(r.store)
	e.T = "write"
	e.snap = r.store.clone()
	r.rec(e)
	r.mu.Unlock()
	return nil
}

func (s recStorage) GetState(ctx context.Context, userID int64) (updates.State, bool, error) {
	s.r.mu.Lock()
	defer s.r.mu.Unlock()
	return s.r.store.State, true, nil
}

func (s recStorage) SetState(ctx context.Context, userID int64, state updates.State) error {
	return s.write(tev{W: "SetState", Pts: state.Pts, Qts: state.Qts, Date: state.Date, Seq: state.Seq}, func(st *snapshot) { st.State = state })
}

func (s recStorage) SetPts(ctx context.Context, userID int64, pts int) error {
	return s.write(tev{W: "SetPts", Pts: pts}, func(st *snapshot) { st.State.Pts = pts })
}

func (s recStorage) SetQts(ctx context.Context, userID int64, qts int) error {
	return s.write(tev{W: "SetQts", Qts: qts}, func(st *snapshot) { st.State.Qts = qts })
}

func (s recStorage) SetDate(ctx context.Context, userID int64, date int) error {
	return s.write(tev{W: "SetDate", Date: date}, func(st *snapshot) { st.State.Date = date })
}

func (s recStorage) SetSeq(ctx context.Context, userID int64, seq int) error {
	return s.write(tev{W: "SetSeq", Seq: seq}, func(st *snapshot) { st.State.Seq = seq })
}

func (s recStorage) SetDateSeq(ctx context.Context, userID int64, date, seq int) error {
	return s.write(tev{W: "SetDateSeq", Date: date, Seq: seq}, func(st *snapshot) { st.State.Date, st.State.Seq = date, seq })
}

// GetChannelPts is only called by internalState.handleChannel, on the first
// sighting of a channel the manager has no worker for: the read is the
// observable "the library is taking this channel on".
func (s recStorage) GetChannelPts(ctx context.Context, userID, channelID int64) (int, bool, error) {
	s.r.mu.Lock()
	defer s.r.mu.Unlock()
	pts, ok := s.r.store.Ch[channelID]
	s.r.rec(tev{T: "chread", Ch: channelID, Pts: pts, Final: ok})
	s.r.tracked[channelID] = true
	return pts, ok, nil
}

func (s recStorage) SetChannelPts(ctx context.Context, userID, channelID int64, pts int) error {
	return s.write(tev{W: "SetChannelPts", Ch: channelID, Pts: pts}, func(st *snapshot) {
		st.Ch[channelID] = pts
		// A channelDifferenceTooLong answer is reported BEFORE the skipped position
		// is persisted. If the write comes first the answer went unreported: later
		// callbacks (for pushed far-pts updateChannelTooLong) must not be credited
		// to it.
		if s.r.genuineChTL[channelID] > 0 {
			s.r.genuineChTL[channelID] = 0
			s.r.unreportedChTL++
		}
	})
}

func (s recStorage) ForEachChannels(ctx context.Context, userID int64, f func(ctx context.Context, channelID int64, pts int) error) error {
	s.r.mu.Lock()
	type kv struct {
		id  int64
		pts int
	}
	var list []kv
	for id, pts := range s.r.store.Ch {
		list = append(list, kv{id, pts})
	}
	s.r.mu.Unlock()
	sort.Slice(list, func(i, j int) bool { return list[i].id < list[j].id })
	for _, c := range list {
		if err := f(ctx, c.id, c.pts); err != nil {
			return err
		}
	}
	return nil
}

type recChanHasher struct{ r *run }

func (h recChanHasher) SetChannelAccessHash(ctx context.Context, userID, channelID, accessHash int64) error {
	return recStorage(h).write(tev{W: "SetChannelAccessHash", Ch: channelID}, func(st *snapshot) { st.ChHash[channelID] = accessHash })
}

func (h recChanHasher) GetChannelAccessHash(ctx context.Context, userID, channelID int64) (int64, bool, error) {
	h.r.mu.Lock()
	defer h.r.mu.Unlock()
	v, ok := h.r.store.ChHash[channelID]
	return v, ok, nil
}

type recUserHasher struct{ r *run }

func (h recUserHasher) SetUserAccessHash(ctx context.Context, userID, target, accessHash int64) error {
	return recStorage(h).write(tev{W: "SetUserAccessHash", Ch: target}, func(st *snapshot) { st.UHash[target] = accessHash })
}

func (h recUserHasher) GetUserAccessHash(ctx context.Context, userID, target int64) (int64, bool, error) {
	h.r.mu.Lock()
	defer h.r.mu.Unlock()
	v, ok := h.r.store.UHash[target]
	return v, ok, nil
}

// ---- debug logger ----------------------------------------------------------------

type stderrLogger struct{}

func (stderrLogger) Enabled(context.Context, log.Level) bool { return true }
func (stderrLogger) Log(_ context.Context, l log.Level, msg string, attrs ...log.Attr) {
	s := fmt.Sprintf("[lib %s] %s", l, msg)
	for _, a := range attrs {
		s += fmt.Sprintf(" %s=%s", a.Key, a.Value.String())
	}
	fmt.Fprintln(os.Stderr, s)
}

// ---- lifecycle ---------------------------------------------------------------------

func (r *run) start() bool {
	cfg := updates.Config{
		Handler:          r,
		Storage:          recStorage{r},
		AccessHasher:     recChanHasher{r},
		UserAccessHasher: recUserHasher{r},
		OnChannelTooLong: r.onChannelTooLong,
		OnTooLong:        r.onTooLong,
	}
	if os.Getenv("UPDMGR_DEBUG") != "" {
		cfg.Logger = stderrLogger{}
	}
	r.mgr = updates.New(cfg)
	ctx, cancel := context.WithCancel(context.Background())
	r.cancel = cancel
	r.done = make(chan error, 1)
	ready := make(chan struct{})
	go func() {
		r.done <- r.mgr.Run(ctx, r, selfID, updates.AuthOptions{IsBot: r.sc.IsBot, OnStart: func(context.Context) { close(ready) }})
	}()
	select {
	case <-ready:
		return true
	case err := <-r.done:
		r.problem = fmt.Sprintf("manager did not start: %v", err)
		r.done <- err
		return false
	case <-time.After(r.watchdog):
		r.problem = "manager start watchdog"
		return false
	}
}

func (r *run) stop() {
	r.mu.Lock()
	if r.storm && r.problem == "" {
		r.problem = fmt.Sprintf("event storm: more than %d trace events in one run (library livelock?)", traceCap)
	}
	r.mu.Unlock()
	r.cancel()
	select {
	case <-r.done:
	case <-time.After(r.watchdog):
		if r.problem == "" {
			r.problem = "manager shutdown watchdog"
		}
	}
}

func (r *run) push(u tg.UpdatesClass) bool {
	ctx, cancel := context.WithTimeout(context.Background(), r.watchdog)
	defer cancel()
	if err := r.mgr.Handle(ctx, u); err != nil {
		if r.problem == "" {
			r.problem = "push blocked: " + err.Error()
		}
		return false
	}
	return true
}

// announceAffected reports the self-initiated entries of an event the way
// hook.AffectedHook does with a messages.affected* result. The call goes through
// the manager's own affected queue, so it is naturally reordered against pushed
// containers.
func (r *run) announceAffected(ev *event) {
	for _, e := range ev.Entries {
		if !e.Kind.isAffected() {
			continue
		}
		r.mu.Lock()
		r.rec(tev{T: "affcall", UID: e.UID})
		r.mu.Unlock()
		ctx, cancel := context.WithTimeout(context.Background(), r.watchdog)
		if err := r.mgr.HandleAffected(ctx, e.Ch, e.End, e.Count); err != nil && r.problem == "" {
			r.problem = "HandleAffected blocked: " + err.Error()
		}
		cancel()
	}
}

// pushPlan executes the delivery plan (events happen on the server in order,
// containers are pushed late, twice or never).
func (r *run) pushPlan() bool {
	var second chan tg.UpdatesClass
	var wg sync.WaitGroup
	if r.sc.TwoPushers {
		second = make(chan tg.UpdatesClass)
		wg.Add(1)
		go func() {
			defer wg.Done()
			for u := range second {
				r.push(u)
			}
		}()
	}
	ok := true
	for i, op := range r.sc.Plan {
		if op.Occur >= 0 {
			r.mu.Lock()
			r.occurred = op.Occur + 1
			r.mu.Unlock()
		}
		if op.Deliver >= 0 {
			ev := r.sc.Events[op.Deliver]
			if ev.Idx%2 == 0 {
				r.announceAffected(ev)
			}
			if u := r.sc.container(ev); u != nil {
				if second != nil && i%2 == 1 {
					second <- u
				} else if !r.push(u) {
					ok = false
					break
				}
			}
			if ev.Idx%2 == 1 {
				r.announceAffected(ev)
			}
		}
	}
	if second != nil {
		close(second)
		wg.Wait()
	}
	r.mu.Lock()
	r.occurred = len(r.sc.Events)
	r.pushPhase = false
	r.mu.Unlock()
	return ok && r.problem == ""
}

const retryEvery = 300 * time.Millisecond

// await waits for ch; while waiting it calls retry every retryEvery (a probe may
// have been drained by the library's documented drop paths, re-sending it only
// adds work). The watchdog makes the run inconclusive, never a verdict.
func (r *run) await(ch <-chan struct{}, what string, retry func()) bool {
	deadline := time.Now().Add(r.watchdog)
	for {
		t := time.NewTimer(retryEvery)
		select {
		case <-ch:
			t.Stop()
			return true
		case <-t.C:
			r.mu.Lock()
			storm := r.storm
			r.mu.Unlock()
			if storm {
				if r.problem == "" {
					r.problem = fmt.Sprintf("event storm: more than %d trace events in one run (library livelock?) while waiting for %s", traceCap, what)
				}
				return false
			}
			if time.Now().After(deadline) {
				if r.problem == "" {
					r.problem = "barrier watchdog: " + what + " " + r.diag()
				}
				return false
			}
			if retry != nil {
				retry()
			}
		}
	}
}

// diag describes the state of a stuck barrier (for the inconclusive message).
func (r *run) diag() string {
	r.mu.Lock()
	defer r.mu.Unlock()
	from := len(r.trace) - 16
	if from < 0 {
		from = 0
	}
	tail, _ := json.Marshal(r.trace[from:])
	return fmt.Sprintf("[armed=%v tracked=%v pushPhase=%v occurred=%d trace=%d tail=%s]", r.probe, r.tracked, r.pushPhase, r.occurred, len(r.trace), tail)
}

func (r *run) newMarker() (int64, chan struct{}) {
	r.mu.Lock()
	defer r.mu.Unlock()
	r.nextMarker++
	w := make(chan struct{})
	r.waiters[r.nextMarker] = w
	return r.nextMarker, w
}

// round runs one recovery round with barriers (see DESIGN C02, adapted):
//
//  1. updatesTooLong                       -> common getDifference in the main loop
//  2. updateChannelTooLong (no pts) per ch -> getChannelDifference in each worker; the fake
//     attaches a probe marker to the next response of that channel, it returns to the
//     handler through worker -> internal queue -> main loop, i.e. behind everything the
//     worker handed to the main loop before
//  3. a count-0 updateReadChannelInbox at the channel head carrying a fresh marker -> it passes
//     the worker's queue and sequence box and reaches the handler: proves the worker finished
//     the difference and consumed what the main loop queued before (no library callback involved;
//     the far-pts updateChannelTooLong pushed at the start of the round is workload only)
//  4. a marker through the external queue  -> main loop consumed everything pushed so far
//
// It reports whether the round was a fixpoint: no log entry reached the handler
// and no difference response carried a log entry.
func (r *run) round() (fixpoint, ok bool) {
	from := r.traceLen()
	// Workload, not barrier: an updateChannelTooLong far ahead of every tracked
	// channel. The library must report it (OnChannelTooLong) and skip nothing.
	r.mu.Lock()
	var far []tg.UpdateClass
	for _, ch := range r.sc.Chans {
		if r.tracked[ch.ID] {
			t := &tg.UpdateChannelTooLong{ChannelID: ch.ID}
			t.SetPts(probePts)
			far = append(far, t)
		}
	}
	r.mu.Unlock()
	if len(far) > 0 && !r.push(&tg.Updates{Updates: far}) {
		return false, false
	}
	if !r.push(&tg.UpdatesTooLong{}) {
		return false, false
	}
	type pr struct {
		ch int64
		w  chan struct{}
	}
	var probes []pr
	var too []tg.UpdateClass
	// Only channels the library has a worker for can be probed (an
	// updateChannelTooLong for an unknown channel is ignored). A channel first
	// seen during this round makes the round a non-fixpoint (its subscribe
	// difference is not empty) and is probed in the next one.
	r.mu.Lock()
	var chans []chanSpec
	for _, ch := range r.sc.Chans {
		if r.tracked[ch.ID] {
			chans = append(chans, ch)
		}
	}
	r.mu.Unlock()
	for _, ch := range chans {
		id, w := r.newMarker()
		r.mu.Lock()
		r.probe[ch.ID] = id
		r.mu.Unlock()
		probes = append(probes, pr{ch.ID, w})
		too = append(too, &tg.UpdateChannelTooLong{ChannelID: ch.ID})
	}
	if len(too) > 0 && !r.push(&tg.Updates{Updates: too}) {
		return false, false
	}
	dropped := map[int64]bool{}
	for _, p := range probes {
		p := p
		started, tries := time.Now(), 0
		gone := make(chan struct{}) // released instead of p.w when the library has no worker for the channel
		both := make(chan struct{})
		go func() {
			select {
			case <-p.w:
			case <-gone:
			}
			close(both)
		}()
		retry := func() {
			tries++
			r.mu.Lock()
			if r.probe[p.ch] == 0 {
				// The armed marker was attached to an answer but has not come back yet:
				// arm another one for the same waiter, so a lost answer cannot strand us.
				r.nextMarker++
				r.waiters[r.nextMarker] = p.w
				r.probe[p.ch] = r.nextMarker
			}
			requests := 0
			for _, e := range r.trace[from:] {
				if e.T == "chdiff" && e.Ch == p.ch {
					requests++
				}
			}
			r.mu.Unlock()
			r.push(&tg.Updates{Updates: []tg.UpdateClass{&tg.UpdateChannelTooLong{ChannelID: p.ch}}})
			if requests == 0 && tries >= 20 && time.Since(started) > 30*time.Second {
				// Dozens of triggers and not one getChannelDifference for this channel.
				// Prove the main loop consumed them (FIFO marker through the external
				// queue); if there is still no request the library has no worker for the
				// channel (it ignores updateChannelTooLong for unknown channels): nothing
				// can be in flight for it, the barrier must not wait for it.
				id, w := r.newMarker()
				if r.push(&tg.UpdateShort{Update: markerUpd(id)}) {
					select {
					case <-w:
						r.mu.Lock()
						again := 0
						for _, e := range r.trace[from:] {
							if e.T == "chdiff" && e.Ch == p.ch {
								again++
							}
						}
						if again == 0 && !dropped[p.ch] {
							dropped[p.ch] = true
							r.tracked[p.ch] = false
							r.probe[p.ch] = 0
							r.noWorker++
							close(gone)
						}
						r.mu.Unlock()
					case <-time.After(10 * time.Second):
					}
				}
			}
		}
		if !r.await(both, fmt.Sprintf("channel %d difference probe", p.ch), retry) {
			return false, false
		}
	}
	if len(dropped) > 0 {
		kept := chans[:0:0]
		for _, ch := range chans {
			if !dropped[ch.ID] {
				kept = append(kept, ch)
			}
		}
		chans = kept
	}
	for _, ch := range chans {
		ch := ch
		w := make(chan struct{})
		r.mu.Lock()
		_, head := r.visible(clsChan, ch.ID)
		r.inboxMin[ch.ID] = r.nextMarker + 1
		r.inboxWait[ch.ID] = w
		r.mu.Unlock()
		// Worker probe: a count-0 update at the channel head with a fresh marker. The
		// worker has finished the difference above (its state is the head), so its box
		// applies the probe and the handler sees it, after everything the main loop
		// queued for the worker before. Independent of any library callback.
		probe := func() {
			r.mu.Lock()
			r.nextMarker++
			id := r.nextMarker
			r.mu.Unlock()
			r.push(&tg.Updates{Updates: []tg.UpdateClass{&tg.UpdateReadChannelInbox{ChannelID: ch.ID, MaxID: int(id), Pts: head}}})
		}
		probe()
		if !r.await(w, fmt.Sprintf("channel %d worker probe", ch.ID), probe) {
			return false, false
		}
	}
	id, w := r.newMarker()
	if !r.push(&tg.UpdateShort{Update: markerUpd(id)}) {
		return false, false
	}
	if !r.await(w, "main loop marker", nil) {
		return false, false
	}
	r.mu.Lock()
	defer r.mu.Unlock()
	fixpoint = true
	for _, e := range r.trace[from:] {
		switch e.T {
		case "deliver":
			fixpoint = false
		case "diff", "chdiff":
			if len(e.Msgs)+len(e.Others)+len(e.ChOth)+len(e.Aff) > 0 || e.Resp == "tooLong" || e.Resp == "slice" || e.Resp == "error" {
				fixpoint = false
			}
		}
	}
	return fixpoint, true
}

// recover runs rounds until a fixpoint round; false = inconclusive.
func (r *run) recover() (rounds int, ok bool) {
	for rounds = 1; rounds <= 8; rounds++ {
		r.phase(fmt.Sprintf("round %d", rounds))
		fix, ok := r.round()
		if !ok {
			return rounds, false
		}
		if fix && rounds >= 2 {
			return rounds, true
		}
	}
	if r.problem == "" {
		r.problem = "no fixpoint after 8 recovery rounds"
	}
	return rounds, false
}

// execute runs a whole scenario: start, push phase, recovery, stop.
func (r *run) execute() {
	if !r.start() {
		return
	}
	defer r.stop()
	r.phase("push")
	if r.pushPhase {
		if !r.pushPlan() {
			return
		}
	}
	if r.sc.Natural {
		// Let the library's own 500 ms gap timers fire first; a settle wait only, the
		// explicit rounds below decide.
		time.Sleep(700 * time.Millisecond)
	}
	r.phase("recover")
	if n, ok := r.recover(); ok {
		r.phase(fmt.Sprintf("quiescent after %d rounds", n))
	}
}
