package main

import (
	"encoding/json"
	"fmt"
	"os"
	"regexp"
	"sort"
	"strings"
	"sync"
	"time"

	"verif/harness/mon"
)

const (
	mgrWorkers     = 6
	chunkSize      = 50
	maxProblemRuns = 8 // per chunk
)

// replayCase extracts {"case": {"level": ..., "index": ...}} / {"history": ...}
// from a replay file.
func replayCase(c *mon.Ctx) (level string, index int, hist *boxHistory) {
	if c.Replay == "" {
		return "", -1, nil
	}
	data, err := os.ReadFile(c.Replay)
	if err != nil {
		return "", -1, nil
	}
	var f struct {
		Witness struct {
			Case struct {
				Level string `json:"level"`
				Index int    `json:"index"`
			} `json:"case"`
			History *boxHistory `json:"history"`
		} `json:"witness"`
	}
	if json.Unmarshal(data, &f) != nil {
		return "", -1, nil
	}
	if f.Witness.History != nil {
		return "box", -1, f.Witness.History
	}
	return f.Witness.Case.Level, f.Witness.Case.Index, nil
}

// ---------------------------------------------------------------------------
// Manager-level runs execute in CHILD processes (mon batch runner), a chunk of
// scenarios per input: a panic or fatal error inside one of the library's own
// goroutines (main loop, channel workers) cannot be recovered in-process; in a
// child it becomes an observation (violation "library-crash") instead of
// killing the engine.
// ---------------------------------------------------------------------------

type chunkSpec struct {
	Prop      string `json:"prop"`
	Stream    string `json:"stream"`
	Seed      uint64 `json:"seed"`
	From      int    `json:"from"`
	To        int    `json:"to"`
	MaxEvents int    `json:"max_events"`
	Natural   bool   `json:"natural"`
	CrashUpTo int    `json:"crash_up_to"` // C03: scenarios with index < CrashUpTo get the crash/restart experiment
}

type chunkFinding struct {
	Sig     string         `json:"sig"`
	Count   int            `json:"count"`
	Witness map[string]any `json:"witness"`
}

type chunkResult struct {
	Evals    int                      `json:"evals"`
	Findings map[string]*chunkFinding `json:"findings"`
	Distinct []string                 `json:"distinct"`
	Samples  []chunkSample            `json:"samples"`
	Stats    map[string]int           `json:"stats"`
	Problems []string                 `json:"problems"`
	Aborted  bool                     `json:"aborted"`
}

type chunkSample struct {
	Kind string         `json:"kind"`
	V    map[string]any `json:"v"`
}

type chunkAcc struct {
	mu  sync.Mutex
	res chunkResult
	ds  map[string]bool
}

func newChunkAcc() *chunkAcc {
	return &chunkAcc{res: chunkResult{Findings: map[string]*chunkFinding{}, Stats: map[string]int{}}, ds: map[string]bool{}}
}

func (a *chunkAcc) findings(fs []finding) {
	for _, f := range fs {
		if cf := a.res.Findings[f.sig]; cf != nil {
			cf.Count++
			continue
		}
		a.res.Findings[f.sig] = &chunkFinding{Sig: f.sig, Count: 1, Witness: f.witness}
	}
}

func (a *chunkAcc) distinct(k string) {
	if !a.ds[k] {
		a.ds[k] = true
		a.res.Distinct = append(a.res.Distinct, k)
	}
}

func (a *chunkAcc) sample(kind string, v map[string]any) {
	n := 0
	for _, s := range a.res.Samples {
		if s.Kind == kind {
			n++
		}
	}
	if n < 2 {
		a.res.Samples = append(a.res.Samples, chunkSample{kind, v})
	}
}

func respTypes(r *run) string {
	set := map[string]bool{}
	for _, t := range r.trace {
		if t.T == "diff" || t.T == "chdiff" {
			set[t.T+":"+t.Resp] = true
		}
	}
	keys := make([]string, 0, len(set))
	for k := range set {
		keys = append(keys, k)
	}
	sort.Strings(keys)
	return strings.Join(keys, ",")
}

func bucket(n int) string {
	switch {
	case n == 0:
		return "0"
	case n <= 2:
		return "1-2"
	case n <= 6:
		return "3-6"
	default:
		return "7+"
	}
}

// processChunk runs in the child.
func processChunk(spec chunkSpec) *chunkResult {
	acc := newChunkAcc()
	seedCtx := &mon.Ctx{Seed: spec.Seed}
	jobs := make(chan int)
	var wg sync.WaitGroup
	for w := 0; w < mgrWorkers; w++ {
		wg.Add(1)
		go func() {
			defer wg.Done()
			for idx := range jobs {
				sc := genScenario(idx, seedCtx.RandN(spec.Stream, idx), genOpts{maxEvents: spec.MaxEvents, natural: spec.Natural, late: spec.Prop != "C01", affected: true})
				r := newRun(sc, initialSnapshot(sc), 0, true, spec.Seed)
				r.execute()
				var restarts []restartOutcome
				if spec.Prop == "C03" && r.problem == "" && idx < spec.CrashUpTo {
					for _, t := range r.crashPoints() {
						fs, r2 := r.restartCheck(t, spec.Seed)
						restarts = append(restarts, restartOutcome{t, fs, r2})
					}
				}
				acc.mu.Lock()
				account(acc, spec.Prop, r, restarts)
				acc.mu.Unlock()
			}
		}()
	}
	for i := spec.From; i < spec.To; i++ {
		acc.mu.Lock()
		bad := len(acc.res.Problems)
		acc.mu.Unlock()
		if bad >= maxProblemRuns {
			// every problem run costs a watchdog; a library that breaks most runs must
			// not turn the whole check into a driver timeout
			acc.mu.Lock()
			acc.res.Aborted = true
			acc.res.Problems = append(acc.res.Problems, fmt.Sprintf("chunk %d..%d abandoned at scenario %d after %d problem runs", spec.From, spec.To, i, bad))
			acc.mu.Unlock()
			break
		}
		jobs <- i
	}
	close(jobs)
	wg.Wait()
	return &acc.res
}

type restartOutcome struct {
	t  int
	fs []finding
	r2 *run
}

// account evaluates one finished run for the property; acc.mu is held.
func account(a *chunkAcc, prop string, r *run, restarts []restartOutcome) {
	st := a.res.Stats
	if r.problem != "" {
		a.res.Problems = append(a.res.Problems, fmt.Sprintf("scenario %d (%s): %s", r.sc.Idx, r.sc.Class, r.problem))
		// An incomplete run is inconclusive, but the safety checkers (C01 trace
		// checker, C03 online invariant) are sound on any recorded prefix.
		switch prop {
		case "C01":
			fs, _ := r.checkC01()
			a.findings(fs)
		case "C03":
			fs, _ := r.checkC03()
			a.findings(fs)
		}
		return
	}
	a.res.Evals++
	st["runs"]++
	st["strays"] += r.strays
	st["trace_events"] += len(r.trace)
	st["far_channel_too_long_callbacks"] += r.farCallbacks
	st["barrier_channels_without_worker"] += r.noWorker
	st["channel_too_long_answers_persisted_unreported"] += r.unreportedChTL
	switch prop {
	case "C01":
		fs, s := r.checkC01()
		a.findings(fs)
		for k, v := range s {
			st[k] += v
		}
		nonEmpty := false
		for _, t := range r.trace {
			if (t.T == "diff" || t.T == "chdiff") && len(t.Msgs)+len(t.Others)+len(t.ChOth) > 0 {
				nonEmpty = true
			}
		}
		if nonEmpty {
			st["runs_with_nonempty_difference"]++
			a.distinct(fmt.Sprintf("mgr:%s|%s|d%s", r.sc.Class, respTypes(r), bucket(s["deliveries"])))
			a.sample("mgr", map[string]any{"scenario": r.sc.Idx, "class": r.sc.Class, "responses": respTypes(r), "deliveries": s["deliveries"], "trace_events": len(r.trace)})
		}
	case "C02":
		fs, s := r.checkC02()
		a.findings(fs)
		st["log_entries"] += s.owed
		st["entries_delivered"] += s.delivered
		st["entries_exempt_too_long"] += s.exempt
		st["entries_self_initiated_position_only"] += s.affected
		st["entries_not_owed_channel_unseen_or_before_first_sight"] += s.notOwed
		st["entries_owed_of_first_seen_channels"] += s.lateOwed
		st["entries_applied_from_push"] += s.viaPush
		st["entries_recovered_from_new_messages"] += s.recoveredMsg
		st["entries_recovered_from_other_updates"] += s.recoveredOth
		others := false
		for _, t := range r.trace {
			if (t.T == "diff" || t.T == "chdiff") && len(t.Others) > 0 {
				others = true
			}
		}
		if others {
			st["runs_with_other_updates_in_a_difference"]++
			a.distinct(fmt.Sprintf("%s|%s|m%s|o%s", r.sc.Class, respTypes(r), bucket(s.recoveredMsg), bucket(s.recoveredOth)))
			a.sample("recovery", map[string]any{"scenario": r.sc.Idx, "class": r.sc.Class, "responses": respTypes(r), "log_entries": s.owed,
				"applied_from_push": s.viaPush, "recovered_as_message": s.recoveredMsg, "recovered_as_other_update": s.recoveredOth, "too_long_exempt": s.exempt})
		}
	case "C03":
		fs, w := r.checkC03()
		a.findings(fs)
		st["position_writes_checked"] += w
		if len(restarts) > 0 {
			st["crash_traces"]++
		}
		co := r.chanOwed(r.trace)
		for _, ro := range restarts {
			st["crash_points_enumerated"]++
			for _, o := range co {
				if o.late && o.since >= 0 && o.since <= ro.t {
					st["crash_points_after_a_channel_was_first_seen"]++
					break
				}
			}
			if ro.r2.problem != "" {
				a.res.Problems = append(a.res.Problems, fmt.Sprintf("restart of scenario %d at trace index %d: %s", r.sc.Idx, ro.t, ro.r2.problem))
				continue
			}
			a.res.Evals++
			st["restarts_executed"]++
			st["strays"] += ro.r2.strays
			a.findings(ro.fs)
			if n := len(deliveredSet(ro.r2.trace)); n > 0 {
				st["restarts_that_recovered_entries"]++
				w := r.trace[ro.t]
				a.distinct(fmt.Sprintf("%s|%s|r%s", r.sc.Class, w.W, bucket(n)))
				a.sample("crash-restart", map[string]any{"scenario": r.sc.Idx, "class": r.sc.Class, "crash_after": w,
					"delivered_before_crash": len(deliveredSet(r.trace[:ro.t])), "delivered_after_restart": n, "log_entries": len(r.sc.entries)})
			}
		}
	}
}

func init() {
	mon.RegisterBatch("mgr", func(in []byte) any {
		var spec chunkSpec
		if err := json.Unmarshal(in, &spec); err != nil {
			return map[string]any{"problems": []string{"bad chunk spec: " + err.Error()}}
		}
		return processChunk(spec)
	})
}

var tdFrame = regexp.MustCompile(`github\.com/gotd/td/[\w./()*\-\[\]]+`)

// crashSig condenses a child's death into a class signature.
func crashSig(class, stderr string) string {
	reason := ""
	for _, l := range strings.Split(stderr, "\n") {
		if strings.HasPrefix(l, "panic:") || strings.HasPrefix(l, "fatal error:") {
			reason = strings.TrimSpace(l)
			if len(reason) > 80 {
				reason = reason[:80]
			}
			break
		}
	}
	frame := tdFrame.FindString(stderr)
	if i := strings.Index(frame, "(0x"); i >= 0 {
		frame = frame[:i] // drop argument values: the signature must be stable
	}
	return fmt.Sprintf("mgr|library-crash|%s|%s|%s", class, reason, strings.TrimPrefix(frame, "github.com/gotd/td/"))
}

// harnessPanic reports whether the panicking frame (first frame below the
// runtime's panic frames) belongs to the harness itself: a harness bug, never a
// finding.
func harnessPanic(stderr string) bool {
	lines := strings.Split(stderr, "\n")
	for i, l := range lines {
		if !strings.HasPrefix(l, "goroutine ") || !strings.Contains(l, "[running]") {
			continue
		}
		for _, f := range lines[i+1:] {
			if strings.HasPrefix(f, "\t") || f == "" {
				continue
			}
			if strings.HasPrefix(f, "panic(") || strings.HasPrefix(f, "runtime.") {
				continue
			}
			return strings.HasPrefix(f, "main.")
		}
	}
	return false
}

// runMgr drives n scenarios of stream through child batches and merges the
// results into c. It returns the merged stats.
func runMgr(c *mon.Ctx, prop, stream string, n, maxEvents int, natural bool, crashUpTo, only int) map[string]int {
	t0 := time.Now()
	stats := map[string]int{}
	var specs []chunkSpec
	mk := func(from, to int) chunkSpec {
		return chunkSpec{Prop: prop, Stream: stream, Seed: c.Seed, From: from, To: to, MaxEvents: maxEvents, Natural: natural, CrashUpTo: crashUpTo}
	}
	if only >= 0 {
		specs = append(specs, mk(only, only+1))
	} else {
		for from := 0; from < n; from += chunkSize {
			to := from + chunkSize
			if to > n {
				to = n
			}
			specs = append(specs, mk(from, to))
		}
	}
	aborted := 0
	for len(specs) > 0 {
		spec := specs[0]
		specs = specs[1:]
		if aborted >= 2 {
			c.Inconclusive(fmt.Sprintf("manager level stopped early: 2 chunks abandoned, scenarios from %d on not run", spec.From))
			break
		}
		b, _ := json.Marshal(spec)
		outs := mon.RunBatch(c, "mgr", fmt.Sprintf("%s-%d-%d", prop, spec.From, spec.To), [][]byte{b}, mon.BatchOpts{Timeout: 25 * time.Minute, MemLimitMB: 8192})
		var retry []chunkSpec
		for _, o := range outs {
			if o.Class != "ok" {
				if spec.To-spec.From > 1 {
					// attribute the crash: re-run this chunk one scenario per child input
					for j := spec.From; j < spec.To; j++ {
						retry = append(retry, mk(j, j+1))
					}
					continue
				}
				if o.Class == "timeout" || o.Class == "missing" {
					c.Inconclusive(fmt.Sprintf("scenario %d: child %s", spec.From, o.Class))
					continue
				}
				if harnessPanic(o.Stderr) {
					c.Inconclusive(fmt.Sprintf("scenario %d: panic in harness code: %s", spec.From, o.Stderr[:min(len(o.Stderr), 400)]))
					continue
				}
				c.Violate(crashSig(o.Class, o.Stderr), map[string]any{"case": map[string]any{"level": "mgr", "index": spec.From},
					"class": o.Class, "stderr": o.Stderr,
					"scenario": genScenario(spec.From, c.RandN(stream, spec.From), genOpts{maxEvents: maxEvents, natural: natural, late: prop != "C01", affected: true})})
				c.Eval(1)
				continue
			}
			var res chunkResult
			if err := json.Unmarshal(o.Result, &res); err != nil {
				c.Inconclusive("chunk result: " + err.Error())
				continue
			}
			c.Eval(res.Evals)
			if res.Aborted {
				aborted++
			}
			for _, p := range res.Problems {
				c.Inconclusive(p)
			}
			sigs := make([]string, 0, len(res.Findings))
			for s := range res.Findings {
				sigs = append(sigs, s)
			}
			sort.Strings(sigs)
			for _, s := range sigs {
				f := res.Findings[s]
				for k := 0; k < f.Count; k++ {
					c.Violate(f.Sig, f.Witness)
				}
			}
			for _, d := range res.Distinct {
				c.Distinct(d)
			}
			for _, s := range res.Samples {
				c.Sample(s.Kind, s.V)
			}
			for k, v := range res.Stats {
				stats[k] += v
			}
		}
		specs = append(retry, specs...)
	}
	keys := make([]string, 0, len(stats))
	for k := range stats {
		keys = append(keys, k)
	}
	sort.Strings(keys)
	for _, k := range keys {
		c.Set("mgr_"+k, stats[k])
	}
	c.Set("mgr_wall_s", time.Since(t0).Seconds())
	if stats["strays"] > 0 {
		c.Inconclusive(fmt.Sprintf("handler received %d updates that are not log entries (harness identification problem)", stats["strays"]))
	}
	return stats
}

// ---- C01 ---------------------------------------------------------------------------

func runC01(c *mon.Ctx) {
	c.Rule("box level: real sequenceBox (hook H5) driven with delivery histories of a tiled server log (loss, duplicates, any order, overlapping multi-count updates, " +
		"count-0 updates, cleared gaps, fetched differences, refused applies); oracle in the apply callback: advancing update delivered at most once and only with start<=cover, " +
		"state after every operation never ahead of cover and always a delivered end / difference position; exhaustive small cores + random histories; " +
		"distinct non-trivial = distinct abstract outcome traces (apply/ignore/pend/gap-open/gap-close/diff per operation) of histories that passed through an open gap. " +
		"manager level: real updates.Manager + channel workers under -race (child processes) against a Telegram-like fake server; per sequence (common pts, qts, seq, each channel pts) " +
		"at-most-once by uid, start<=cover (cover = delivered prefix or a difference response returned earlier), request positions of every getDifference/getChannelDifference " +
		"never ahead of cover; distinct non-trivial = (scenario class, response types seen, deliveries bucket) of runs where a non-empty difference was processed")
	c.Assume("the verif-tagged wrapper telegram/updates/export_verif.go forwards to the unexported sequenceBox without adding behaviour")
	c.Assume("no channel with an unknown access hash is used, so the library never issues the result-discarding getDifference of restoreAccessHash")
	level, only, hist := replayCase(c)
	if hist != nil {
		res := runBoxHistory(hist, func(sig string, d map[string]any) { c.Violate(sig, d) })
		c.Eval(1)
		c.Distinct("replay:" + res.sig)
		c.Distinct("replay")
		c.Sample("replay", map[string]any{"trace": res.sig})
		return
	}
	if level != "mgr" {
		t0 := time.Now()
		runC01Box(c)
		c.Set("box_wall_s", time.Since(t0).Seconds())
	}
	if level == "box" {
		return
	}
	st := runMgr(c, "C01", "c01-mgr", c.N(300, 3000), c.N(14, 18), !c.Quick(), 0, only)
	if st["runs"] > 0 && st["runs_with_nonempty_difference"] == 0 {
		c.Inconclusive("manager level: no run processed a non-empty difference")
	}
}

// ---- C02 ---------------------------------------------------------------------------

func runC02(c *mon.Ctx) {
	c.Rule("finite server logs mixing new messages, pts-bearing non-message updates (delete 1..3, read, edit), qts updates and channel updates for 1..2 tracked channels; " +
		"in half of the logs one more channel that is NOT in the initial storage and is first seen through a pushed update or a difference's other_updates (owed from pts-pts_count of first sight); " +
		"self-initiated read/delete entries that occupy pts ranges, owe nothing to the handler and are announced only through Manager.HandleAffected (in order, late, duplicated, lost); " +
		"containers pushed with loss 0/20/60/100 %, duplicates, reordering window, seq-bearing containers, short messages, unknown senders, injected RPC failures; " +
		"fake getDifference/getChannelDifference answer like Telegram (messages in new_messages, every other entry in other_updates with its real pts/pts_count/qts, " +
		"sliced or not, too-long variants); recovery forced by updatesTooLong + updateChannelTooLong and decided by explicit barriers (no timers), repeated to a fixpoint; " +
		"oracle: every log entry not covered by a reported too-long reached the handler; " +
		"distinct non-trivial = (scenario class, response types seen, recovered-by-difference buckets) of runs in which a difference carried at least one other_updates entry")
	c.Assume("the fake server is the specification of Telegram's difference answers: other_updates carry real pts/pts_count (as the MTProto schema and TDLib's processing of getDifference show)")
	_, only, _ := replayCase(c)
	st := runMgr(c, "C02", "c02", c.N(300, 2500), c.N(14, 18), !c.Quick(), 0, only)
	if st["runs"] > 0 && st["runs_with_other_updates_in_a_difference"] == 0 {
		c.Inconclusive("no run had a difference carrying other_updates")
	}
}

// ---- C03 ---------------------------------------------------------------------------

func runC03(c *mon.Ctx) {
	c.Rule("same kind of runs as C02 with a recording StateStorage: (a) online, at every SetState/SetPts/SetQts/SetChannelPts of every run: no log entry at or below the written position " +
		"is still undelivered (exemption: range of a too-long response, from the moment the library reported it through its callback); (b) crash/restart: for EVERY storage write that " +
		"changed the persistent image of the selected traces, a new Manager is started from the image of that moment against the same server, recovered with the C02 barrier, and " +
		"deliveries before the crash plus deliveries after restart must cover the log (a channel first seen during the run is owed from the first main-loop write after the library looked it up); distinct non-trivial = (scenario class, write kind, recovered-after-restart bucket) of crash points " +
		"whose restart had to recover at least one entry")
	c.Assume("handler call entry = 'handed to the handler'; a crash is modelled as losing all memory and keeping exactly the storage image after the last completed write")
	_, only, _ := replayCase(c)
	crash := c.N(40, 500)
	if only >= 0 {
		crash = only + 1
	}
	st := runMgr(c, "C03", "c03", c.N(200, 1500), c.N(12, 16), false, crash, only)
	if st["runs"] > 0 && (st["position_writes_checked"] == 0 || st["restarts_that_recovered_entries"] == 0) {
		c.Inconclusive("no position-bearing storage write or no restart that had to recover anything was observed")
	}
}
